module verifharness

go 1.23.0

require (
	github.com/anishathalye/porcupine v1.3.0
	github.com/IBM/sarama v1.43.3
	github.com/pion/dtls/v2 v2.2.12
	github.com/spf13/cobra v1.8.1
	github.com/spf13/pflag v1.0.5
	github.com/vmware/go-ipfix v0.0.0
	google.golang.org/protobuf v1.34.2
	k8s.io/component-base v0.31.0
	k8s.io/klog/v2 v2.130.1
	pgregory.net/rapid v1.3.0
)

require (
	github.com/beorn7/perks v1.0.1 // indirect
	github.com/blang/semver/v4 v4.0.0 // indirect
	github.com/cespare/xxhash/v2 v2.3.0 // indirect
	github.com/davecgh/go-spew v1.1.2-0.20180830191138-d8f796af33cc // indirect
	github.com/eapache/go-resiliency v1.7.0 // indirect
	github.com/eapache/go-xerial-snappy v0.0.0-20230731223053-c322873962e3 // indirect
	github.com/eapache/queue v1.1.0 // indirect
	github.com/fxamacker/cbor/v2 v2.7.0 // indirect
	github.com/go-logr/logr v1.4.2 // indirect
	github.com/gogo/protobuf v1.3.2 // indirect
	github.com/golang/snappy v0.0.4 // indirect
	github.com/google/go-cmp v0.6.0 // indirect
	github.com/google/gofuzz v1.2.0 // indirect
	github.com/hashicorp/errwrap v1.1.0 // indirect
	github.com/hashicorp/go-multierror v1.1.1 // indirect
	github.com/hashicorp/go-uuid v1.0.3 // indirect
	github.com/jcmturner/aescts/v2 v2.0.0 // indirect
	github.com/jcmturner/dnsutils/v2 v2.0.0 // indirect
	github.com/jcmturner/gofork v1.7.6 // indirect
	github.com/jcmturner/gokrb5/v8 v8.4.4 // indirect
	github.com/jcmturner/rpc/v2 v2.0.3 // indirect
	github.com/json-iterator/go v1.1.12 // indirect
	github.com/klauspost/compress v1.17.9 // indirect
	github.com/modern-go/concurrent v0.0.0-20180306012644-bacd9c7ef1dd // indirect
	github.com/modern-go/reflect2 v1.0.2 // indirect
	github.com/munnerz/goautoneg v0.0.0-20191010083416-a7dc8b61c822 // indirect
	github.com/pierrec/lz4/v4 v4.1.21 // indirect
	github.com/pion/logging v0.2.2 // indirect
	github.com/pion/transport/v2 v2.2.10 // indirect
	github.com/prometheus/client_golang v1.20.3 // indirect
	github.com/prometheus/client_model v0.6.1 // indirect
	github.com/prometheus/common v0.59.1 // indirect
	github.com/prometheus/procfs v0.15.1 // indirect
	github.com/rcrowley/go-metrics v0.0.0-20201227073835-cf1acfcdf475 // indirect
	github.com/x448/float16 v0.8.4 // indirect
	golang.org/x/crypto v0.27.0 // indirect
	golang.org/x/net v0.29.0 // indirect
	golang.org/x/sys v0.25.0 // indirect
	golang.org/x/text v0.18.0 // indirect
	gopkg.in/inf.v0 v0.9.1 // indirect
	gopkg.in/yaml.v2 v2.4.0 // indirect
	k8s.io/apimachinery v0.31.0 // indirect
	k8s.io/utils v0.0.0-20240902221715-702e33fdd3c3 // indirect
	sigs.k8s.io/json v0.0.0-20221116044647-bc3834ca7abd // indirect
	sigs.k8s.io/structured-merge-diff/v4 v4.4.1 // indirect
)

replace github.com/vmware/go-ipfix => /var/tmp/vt/repo-mut-0
