#!/bin/sh
# Offline setup: pre-compile every check's test binary (warms the Go build cache).
set -e
cd "$(dirname "$0")"
export GOFLAGS=-mod=mod GOPROXY=off GOSUMDB=off GOTOOLCHAIN=local
mkdir -p evidence replays .bin
./check --build-all
