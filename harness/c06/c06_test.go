//go:build verif

// C06 — flow expiry: callbacks fire exactly at deadlines and no flow is ever stranded.
package c06

import (
	"fmt"
	"os"
	"testing"

	"pgregory.net/rapid"

	"verifharness/aggh"
	"verifharness/ev"
	"verifharness/glue"
)

var rec *ev.Recorder

func TestMain(m *testing.M) {
	glue.SilenceKlog()
	glue.LoadRegistry()
	if rp := ev.LoadReplay(); rp != nil {
		if rp.Phase == "slow_callback" {
			ev.RunReplay(rp, aggh.RunSlow)
		}
		ev.RunReplay(rp, func(c aggh.XCase) *ev.Failure { return aggh.RunX(c, nil) })
	}
	rec = ev.New("C06", "histories over 3 five-tuples of {record for key k, advance virtual time by 1/4/11 h, expiry scan whose callback fails on a chosen subset of keys}, timeouts (active 10h30m20s, inactive 3h30m40s) and (active 2h30m20s, inactive 5h30m40s): exhaustive over a 10-symbol alphabet to depth 5 (quick) / 6 (thorough), rapid histories to depth 80 beyond (these also with one of the two timeouts switched off by the largest representable duration); two real-time scenarios in which an export callback blocks for 300 ms while another flow's active / inactive deadline passes (structural invariants only); after every action the heap/map snapshot is checked against the deadline model of DESIGN.md A.3 (one-to-one, back-pointers, heap order, deadlines, advertised next expiry) and every scan's callback sequence against the model; non-trivial = a scan fired a callback after an update, or a callback failed, or one flow had two consecutive active expiries; distinct by hash of the case",
		"reference expiry model (harness/aggh)", "verif hooks VerifShiftDeadlines / VerifSnapshot; the grid (hour advances, deadlines at +20 s / +40 s) keeps every comparison >= 20 s away from equality, so real elapsed time (ms) cannot flip an outcome")
	code := m.Run()
	rec.Write()
	os.Exit(code)
}

func flows() []aggh.FlowDef {
	return []aggh.FlowDef{
		{Src: "10.0.0.1", Dst: "10.0.1.2", SPort: 1000, DPort: 80, Proto: 6, Kind: aggh.KindIntraNode},
		{Src: "10.0.0.3", Dst: "10.0.1.4", SPort: 1001, DPort: 443, Proto: 6, Kind: aggh.KindToExternal},
		{V6: true, Src: "2001:db8::1", Dst: "2001:db8::2", SPort: 1002, DPort: 53, Proto: 17, Kind: aggh.KindIntraNode},
	}
}

var timeouts = [][2]int{{10*3600 + 30*60 + 20, 3*3600 + 30*60 + 40}, {2*3600 + 30*60 + 20, 5*3600 + 30*60 + 40}}

// off is a timeout that is switched off the usual way, with the largest representable duration
// (time.Duration(math.MaxInt64), whole seconds of it): now+off lies beyond the range of UnixNano.
const off = 9223372036

// random histories also run with one of the two timeouts switched off
var timeoutsRandom = append(append([][2]int(nil), timeouts...), [2]int{10*3600 + 30*60 + 20, off}, [2]int{off, 3*3600 + 30*60 + 40})

func runRecorded(phase string, c aggh.XCase) *ev.Failure {
	st := &aggh.XStats{}
	f := aggh.RunX(c, st)
	var cl []string
	for k, b := range map[string]bool{"fired_after_update": st.FiredAfterUpdate, "failing_callback": st.FailingCallback, "two_active_exports": st.TwoActiveExports} {
		if b {
			cl = append(cl, k)
		}
	}
	if c.ActiveSec == off || c.InactiveSec == off {
		cl = append(cl, "one_timeout_switched_off")
	}
	nt := st.FiredAfterUpdate || st.FailingCallback || st.TwoActiveExports
	rec.Case(ev.Hash(c), nt, append(cl, phase)...)
	if nt && len(c.Ops) <= 6 {
		rec.Sample(phase, c)
	}
	return f
}

func TestC06(t *testing.T) {
	alphabet := []aggh.XOp{
		{Kind: "rec", Flow: 0}, {Kind: "rec", Flow: 1}, {Kind: "rec", Flow: 2},
		{Kind: "advance", Hours: 1}, {Kind: "advance", Hours: 4}, {Kind: "advance", Hours: 11},
		{Kind: "scan"}, {Kind: "scan", Fail: 1}, {Kind: "scan", Fail: 2}, {Kind: "scan", Fail: 7},
	}
	depth := 5
	if rec.Thorough() {
		depth = 6
	}
	if ev.Shard() > 1 {
		depth = 0
	}
	failed := false
	for _, to := range timeouts {
		var enum func(prefix []aggh.XOp)
		enum = func(prefix []aggh.XOp) {
			if failed {
				return
			}
			if len(prefix) == depth {
				c := aggh.XCase{ActiveSec: to[0], InactiveSec: to[1], Flows: flows(), Ops: append([]aggh.XOp(nil), prefix...)}
				if f := runRecorded("exhaustive", c); f != nil {
					c = shrink(c)
					rec.Violation("exhaustive", c, aggh.RunX(c, nil).Msg)
					t.Errorf("exhaustive: %s", f.Msg)
					failed = true
				}
				return
			}
			for _, s := range alphabet {
				if len(prefix) == 0 && s.Kind != "rec" {
					continue // nothing is held before the first record
				}
				enum(append(prefix, s))
			}
		}
		if depth > 0 {
			enum(nil)
		}
	}
	if failed {
		return
	}
	if depth > 0 {
		rec.SetExhaustive()
		rec.Extra("exhaustive_depth", depth)
		rec.Extra("alphabet_size", len(alphabet))
	}
	// every run: a burst of flows far beyond the handful the histories use (the queue and the map grow
	// and empty again), judged by the same model
	if ev.Shard() <= 1 {
		n := 2500
		if rec.Thorough() {
			n = 8000
		}
		c := aggh.XCase{ActiveSec: timeouts[0][0], InactiveSec: timeouts[0][1]}
		for i := 0; i < n; i++ {
			c.Flows = append(c.Flows, aggh.FlowDef{Src: fmt.Sprintf("10.%d.%d.%d", 1+i/65536, (i/256)%256, i%256), Dst: "10.0.1.2", SPort: 1000, DPort: 80, Proto: 6, Kind: aggh.KindIntraNode})
			c.Ops = append(c.Ops, aggh.XOp{Kind: "rec", Flow: i})
		}
		c.Ops = append(c.Ops, aggh.XOp{Kind: "advance", Hours: 1})
		for i := 0; i < n; i += 3 { // a third of the flows stay alive
			c.Ops = append(c.Ops, aggh.XOp{Kind: "rec", Flow: i})
		}
		c.Ops = append(c.Ops, aggh.XOp{Kind: "advance", Hours: 3}, aggh.XOp{Kind: "scan"}, aggh.XOp{Kind: "scan"},
			aggh.XOp{Kind: "advance", Hours: 4}, aggh.XOp{Kind: "scan"}, aggh.XOp{Kind: "rec", Flow: 7}, aggh.XOp{Kind: "advance", Hours: 11}, aggh.XOp{Kind: "scan"}, aggh.XOp{Kind: "scan"})
		st := &aggh.XStats{}
		f := aggh.RunX(c, st)
		rec.Case(ev.Hash([]any{"burst", n}), true, "burst_of_flows")
		if f != nil {
			rec.Violation("burst", c, f.Msg)
			t.Fatalf("burst of %d flows: %s", n, f.Msg)
		}
	}
	ev.Rapid(t, rec, "random", rec.Scale(3000, 1500000), func(t *rapid.T) aggh.XCase {
		to := timeoutsRandom[rapid.IntRange(0, len(timeoutsRandom)-1).Draw(t, "to")]
		// beyond the exhaustive alphabet: a fourth flow that is only ready once both of its nodes reported
		// (a held flow that is waiting must be scheduled like any other)
		c := aggh.XCase{ActiveSec: to[0], InactiveSec: to[1], Flows: append(flows(), aggh.FlowDef{Src: "10.0.0.9", Dst: "10.0.1.9", SPort: 1009, DPort: 80, Proto: 6, Kind: aggh.KindInterNode})}
		c.NoAggregation = rapid.IntRange(0, 7).Draw(t, "no_aggregation") == 0
		for n := rapid.IntRange(2, 80).Draw(t, "n"); n > 0; n-- {
			switch k := rapid.IntRange(0, 9).Draw(t, "op"); {
			case k <= 3:
				c.Ops = append(c.Ops, aggh.XOp{Kind: "rec", Flow: rapid.IntRange(0, 3).Draw(t, "flow"), Side: rapid.SampledFrom([]string{"S", "S", "S", "D", "D", "N", "B"}).Draw(t, "side"),
					EndMode: rapid.SampledFrom([]string{"", "", "", "older", "equal"}).Draw(t, "end_mode")})
			case k <= 6:
				c.Ops = append(c.Ops, aggh.XOp{Kind: "advance", Hours: rapid.SampledFrom([]int{1, 1, 2, 3, 4, 6, 11, 30}).Draw(t, "h")})
			default:
				c.Ops = append(c.Ops, aggh.XOp{Kind: "scan", Fail: rapid.SampledFrom([]int{0, 0, 0, 1, 2, 4, 3, 7, 8}).Draw(t, "fail")})
			}
		}
		return c
	}, func(c aggh.XCase) *ev.Failure { return runRecorded("random", c) })
}

// TestC06SlowCallback: real time passes inside one scan (the export callback blocks, as a network
// export does) while another flow's deadline falls into the scan. Whatever the scan decides about
// that flow, afterwards every held flow must be scheduled and every scheduled entry must refer to
// a held flow, and a later scan after all deadlines delivers every flow that is still held. The
// invariants do not depend on timing (no false alarm under load); only the sensitivity does.
func TestC06SlowCallback(t *testing.T) {
	scens := aggh.SlowScens()
	fails := aggh.RunSlowAll(scens)
	for si, sc := range scens {
		rec.Case(ev.Hash(sc), true, "slow_callback", sc.Name)
		rec.Sample("slow_callback", sc)
		if fails[si] != nil {
			rec.Violation("slow_callback", sc, fails[si].Msg)
			t.Errorf("slow_callback: %s", fails[si].Msg)
		}
	}
}

// shrink removes operations while the case keeps failing (exhaustive failures are not shrunk by rapid).
func shrink(c aggh.XCase) aggh.XCase {
	for changed := true; changed; {
		changed = false
		for i := range c.Ops {
			d := c
			d.Ops = append(append([]aggh.XOp(nil), c.Ops[:i]...), c.Ops[i+1:]...)
			if len(d.Ops) > 0 && aggh.RunX(d, nil) != nil {
				c, changed = d, true
				break
			}
		}
	}
	return c
}
