// Package ev holds the plumbing shared by all checks: case counters, distinct-hash
// accounting, samples, evidence and replay files, VIOLATION / KNOWN-FINDING lines and
// the rapid driver that turns a shrunk failure into a replay file.
package ev

import (
	"encoding/binary"
	"encoding/json"
	"flag"
	"fmt"
	"hash/fnv"
	"os"
	"path/filepath"
	"runtime/debug"
	"sort"
	"strconv"
	"sync"
	"testing"
	"time"

	"pgregory.net/rapid"
)

const verifRoot = "/verif"

// Recorder accumulates what one run of one check covered.
type Recorder struct {
	ID          string
	Rule        string
	Assumptions []string

	mu         sync.Mutex
	tier       string
	seed       int64
	start      time.Time
	evals      int64
	hashes     map[uint64]struct{}
	classes    map[string]int64
	excluded   map[string]int64
	samples    []any
	sampleSeen map[string]int
	extra      map[string]any
	violations int
	incon      []string
	fallback   json.RawMessage // the first case seen, used when no sample was captured
	exhaustive bool
	known      map[string]Finding
}

// Finding is one entry of /verif/known_findings.json.
type Finding struct {
	Property string `json:"property"`
	ID       string `json:"id"`
	Status   string `json:"status"` // open | fixed
	Commit   string `json:"commit,omitempty"`
	Class    string `json:"class,omitempty"`
	What     string `json:"what"`
}

// New creates the recorder of a check. Tier and seed come from the environment.
func New(id, rule string, assumptions ...string) *Recorder {
	r := &Recorder{ID: id, Rule: rule, Assumptions: assumptions, start: time.Now(),
		hashes: map[uint64]struct{}{}, classes: map[string]int64{}, excluded: map[string]int64{},
		sampleSeen: map[string]int{}, extra: map[string]any{}, known: map[string]Finding{}}
	r.tier = os.Getenv("VERIF_TIER")
	if r.tier != "thorough" {
		r.tier = "quick"
	}
	r.seed = Seed()
	r.loadKnown()
	return r
}

// Seed returns VERIF_SEED (default 1), never 0 (rapid treats 0 as "random").
func Seed() int64 {
	s, err := strconv.ParseInt(os.Getenv("VERIF_SEED"), 10, 64)
	if err != nil || s == 0 {
		s = 1
	}
	if sh := Shard(); sh > 0 {
		s = s*1000 + int64(sh)
	}
	return s
}

// Shard returns the 0-based shard index of a sharded thorough run (0 when unsharded).
func Shard() int {
	n, _ := strconv.Atoi(os.Getenv("VERIF_SHARD"))
	return n
}

// Thorough reports whether the thorough tier was requested.
func (r *Recorder) Thorough() bool { return r.tier == "thorough" }

// Scale picks the case count for the tier; in sharded thorough runs each shard takes
// its share.
func (r *Recorder) Scale(quick, thorough int) int {
	if r.tier != "thorough" {
		return quick
	}
	if n, _ := strconv.Atoi(os.Getenv("VERIF_SHARDS")); n > 1 {
		return (thorough + n - 1) / n
	}
	return thorough
}

func (r *Recorder) loadKnown() {
	path := os.Getenv("VERIF_KNOWN")
	if path == "" {
		path = filepath.Join(verifRoot, "known_findings.json")
	}
	b, err := os.ReadFile(path)
	if err != nil {
		return
	}
	var all struct {
		Findings []Finding `json:"findings"`
	}
	if json.Unmarshal(b, &all) != nil {
		return
	}
	for _, f := range all.Findings {
		if f.Property == r.ID {
			r.known[f.ID] = f
		}
	}
}

// Open reports whether finding id is listed as open for this property.
func (r *Recorder) Open(id string) bool {
	f, ok := r.known[id]
	return ok && f.Status == "open"
}

// Known prints the KNOWN-FINDING line of an open finding that still reproduces.
func (r *Recorder) Known(id, what string) {
	fmt.Printf("KNOWN-FINDING: property=%s %s: %s\n", r.ID, id, what)
	r.mu.Lock()
	r.extra["known_findings_reproduced"] = appendStr(r.extra["known_findings_reproduced"], id)
	r.mu.Unlock()
}

func appendStr(v any, s string) []string {
	l, _ := v.([]string)
	for _, x := range l {
		if x == s {
			return l
		}
	}
	return append(l, s)
}

// Excluded counts a generated case that was kept out of the oracle because it falls in
// the class of an open known finding.
func (r *Recorder) Excluded(class string) {
	r.mu.Lock()
	r.excluded[class]++
	r.mu.Unlock()
}

// Hash is the 64-bit FNV-1a of the canonical JSON of v.
func Hash(v any) uint64 {
	b, _ := json.Marshal(v)
	h := fnv.New64a()
	h.Write(b)
	return h.Sum64()
}

// HashBytes hashes raw bytes.
func HashBytes(b ...[]byte) uint64 {
	h := fnv.New64a()
	for _, x := range b {
		h.Write(x)
		h.Write([]byte{0xFE})
	}
	return h.Sum64()
}

// Case records one executed case. key identifies it for distinctness; it only counts
// towards distinct_nontrivial when nontrivial is true.
func (r *Recorder) Case(key uint64, nontrivial bool, classes ...string) {
	r.mu.Lock()
	r.evals++
	if nontrivial {
		r.hashes[key] = struct{}{}
	}
	for _, c := range classes {
		r.classes[c]++
	}
	r.mu.Unlock()
}

// Class bumps a class counter without counting a case.
func (r *Recorder) Class(c string, n int64) {
	r.mu.Lock()
	r.classes[c] += n
	r.mu.Unlock()
}

// Evals returns the number of cases recorded so far.
func (r *Recorder) Evals() int64 {
	r.mu.Lock()
	defer r.mu.Unlock()
	return r.evals
}

// Sample keeps up to perClass samples per class label (and at most 12 in total).
func (r *Recorder) Sample(class string, c any) {
	r.mu.Lock()
	defer r.mu.Unlock()
	if r.sampleSeen[class] >= 2 || len(r.samples) >= 12 {
		return
	}
	r.sampleSeen[class]++
	b, err := json.Marshal(c)
	if err != nil {
		fmt.Fprintf(os.Stderr, "ev.Sample: cannot marshal sample of class %s: %v\n", class, err)
		return
	}
	if len(b) > 6000 {
		b, _ = json.Marshal(map[string]any{"class": class, "truncated_json_prefix": string(b[:3000]), "json_bytes": len(b)})
	} else {
		b, _ = json.Marshal(map[string]any{"class": class, "case": json.RawMessage(b)})
	}
	r.samples = append(r.samples, json.RawMessage(b))
}

func (r *Recorder) keepFallback(c any) {
	r.mu.Lock()
	defer r.mu.Unlock()
	if r.fallback == nil {
		if b, err := json.Marshal(c); err == nil {
			if len(b) > 3000 {
				b, _ = json.Marshal(map[string]any{"truncated_json_prefix": string(b[:3000]), "json_bytes": len(b)})
			}
			r.fallback = b
		}
	}
}

// Extra sets an additional coverage key.
func (r *Recorder) Extra(k string, v any) {
	r.mu.Lock()
	r.extra[k] = v
	r.mu.Unlock()
}

// SetExhaustive marks that a finite space was enumerated completely.
func (r *Recorder) SetExhaustive() { r.mu.Lock(); r.exhaustive = true; r.mu.Unlock() }

// Inconclusive notes an infrastructure problem (exit 2 in the runner).
func (r *Recorder) Inconclusive(msg string) {
	fmt.Printf("INCONCLUSIVE property=%s %s\n", r.ID, msg)
	r.mu.Lock()
	r.incon = append(r.incon, msg)
	r.mu.Unlock()
}

// Replay is the library-independent replay file.
type Replay struct {
	Property string          `json:"property"`
	Phase    string          `json:"phase"`
	Message  string          `json:"message"`
	Case     json.RawMessage `json:"case"`
}

// Violation writes the replay file and prints the VIOLATION line.
func (r *Recorder) Violation(phase string, c any, msg string) string {
	cb, _ := json.Marshal(c)
	rp := Replay{Property: r.ID, Phase: phase, Message: msg, Case: cb}
	b, _ := json.MarshalIndent(rp, "", " ")
	dir := os.Getenv("VERIF_REPLAY_DIR")
	if dir == "" {
		dir = filepath.Join(verifRoot, "replays")
	}
	os.MkdirAll(dir, 0o755)
	path := filepath.Join(dir, fmt.Sprintf("%s-%s-%016x.json", r.ID, phase, Hash(rp.Case)))
	os.WriteFile(path, b, 0o644)
	if len(msg) > 600 {
		msg = msg[:600] + "…"
	}
	fmt.Printf("VIOLATION property=%s replay=%s\n  phase=%s: %s\n", r.ID, path, phase, msg)
	r.mu.Lock()
	r.violations++
	r.mu.Unlock()
	return path
}

// Violations returns the number of violations reported.
func (r *Recorder) Violations() int { r.mu.Lock(); defer r.mu.Unlock(); return r.violations }

// Write emits the evidence file (or the shard's partial file).
func (r *Recorder) Write() {
	r.mu.Lock()
	defer r.mu.Unlock()
	if len(r.samples) == 0 && r.fallback != nil {
		fmt.Fprintf(os.Stderr, "ev: no sample was captured for %s; using the first generated case\n", r.ID)
		r.samples = append(r.samples, r.fallback)
	}
	cov := map[string]any{
		"evaluations":         r.evals,
		"distinct_nontrivial": len(r.hashes),
		"rule":                r.Rule,
		"samples":             r.samples,
		"classes":             r.classes,
	}
	if len(r.excluded) > 0 {
		cov["excluded_known"] = r.excluded
	}
	if r.exhaustive {
		cov["exhaustive"] = true
	}
	for k, v := range r.extra {
		cov[k] = v
	}
	if len(r.incon) > 0 {
		cov["inconclusive"] = r.incon
	}
	out := map[string]any{
		"property_id": r.ID, "tier": r.tier, "seed": r.seed, "level": "exploration",
		"coverage": cov, "assumptions": r.Assumptions,
		"wall_s": time.Since(r.start).Seconds(), "violations": r.violations,
	}
	path := os.Getenv("VERIF_EVIDENCE_OUT")
	if path == "" {
		path = filepath.Join(verifRoot, "evidence", r.ID+".json")
	}
	if os.Getenv("VERIF_SHARDS") != "" {
		// the shard's hash set goes to a binary side file (sorted uint64); the runner counts the union
		hs := make([]uint64, 0, len(r.hashes))
		for h := range r.hashes {
			hs = append(hs, h)
		}
		sort.Slice(hs, func(i, j int) bool { return hs[i] < hs[j] })
		buf := make([]byte, 8*len(hs))
		for i, h := range hs {
			binary.LittleEndian.PutUint64(buf[8*i:], h)
		}
		if err := os.WriteFile(path+".hashes", buf, 0o644); err == nil {
			out["_hashes_file"] = path + ".hashes"
		}
	}
	b, _ := json.MarshalIndent(out, "", " ")
	os.MkdirAll(filepath.Dir(path), 0o755)
	if err := os.WriteFile(path, b, 0o644); err != nil {
		fmt.Printf("INCONCLUSIVE property=%s cannot write evidence: %v\n", r.ID, err)
	}
}

// Failure is what a runCase function returns when the oracle rejects a case.
type Failure struct{ Msg string }

func (f *Failure) Error() string { return f.Msg }

// Failf builds a Failure.
func Failf(format string, a ...any) *Failure { return &Failure{Msg: fmt.Sprintf(format, a...)} }

// Rapid drives gen/run with rapid for n valid cases. A failure is shrunk by rapid; the
// last (minimal) failing case becomes the replay file. It returns false on violation.
func Rapid[C any](t *testing.T, r *Recorder, phase string, n int, gen func(*rapid.T) C, run func(C) *Failure) bool {
	t.Helper()
	flag.Set("rapid.checks", strconv.Itoa(n))
	flag.Set("rapid.seed", strconv.FormatUint(uint64(r.seed)+(Hash(phase)%1000)*7919+1, 10))
	flag.Set("rapid.nofailfile", "true")
	os.RemoveAll("testdata/rapid")
	var (
		last    *C
		lastMsg string
		ran     int
	)
	ok := t.Run(phase, func(t *testing.T) {
		rapid.Check(t, func(rt *rapid.T) {
			c := gen(rt)
			ran++
			if ran <= 2 {
				r.Sample(phase+"_first", c)
				r.keepFallback(c)
			}
			if f := Guard(run, c); f != nil {
				cc := c
				last, lastMsg = &cc, f.Msg
				rt.Fatalf("%s", f.Msg)
			}
		})
	})
	if !ok {
		if last != nil {
			r.Violation(phase, *last, lastMsg)
		} else {
			r.Inconclusive("rapid phase " + phase + " failed without a recorded case (generator error?)")
		}
		return false
	}
	if ran < n {
		r.Inconclusive(fmt.Sprintf("rapid phase %s ran %d of %d cases", phase, ran, n))
	}
	return true
}

// Guard runs one case and turns a panic (the code under test crashing on a generated case) into
// a failure that carries the top of the stack.
func Guard[C any](run func(C) *Failure, c C) (f *Failure) {
	defer func() {
		if p := recover(); p != nil {
			st := string(debug.Stack())
			if len(st) > 2500 {
				st = st[:2500]
			}
			f = Failf("panic while running the case: %v\n%s", p, st)
		}
	}()
	return run(c)
}

// LoadReplay reads the replay named by VERIF_REPLAY, or returns nil.
func LoadReplay() *Replay {
	p := os.Getenv("VERIF_REPLAY")
	if p == "" {
		return nil
	}
	b, err := os.ReadFile(p)
	if err != nil {
		fmt.Printf("INCONCLUSIVE cannot read replay %s: %v\n", p, err)
		os.Exit(2)
	}
	var rp Replay
	if err := json.Unmarshal(b, &rp); err != nil {
		fmt.Printf("INCONCLUSIVE cannot parse replay %s: %v\n", p, err)
		os.Exit(2)
	}
	return &rp
}

// RunReplay decodes the replay's case into C and runs it, printing the verdict.
func RunReplay[C any](rp *Replay, run func(C) *Failure) {
	var c C
	if err := json.Unmarshal(rp.Case, &c); err != nil {
		fmt.Printf("INCONCLUSIVE cannot decode case: %v\n", err)
		os.Exit(2)
	}
	if f := Guard(run, c); f != nil {
		fmt.Printf("VIOLATION property=%s replay=%s\n  phase=%s: %s\n", rp.Property, os.Getenv("VERIF_REPLAY"), rp.Phase, f.Msg)
		os.Exit(1)
	}
	fmt.Printf("REPLAY-OK property=%s phase=%s: the saved case no longer violates the property\n", rp.Property, rp.Phase)
	os.Exit(0)
}
