//go:build verif

// Package exph is the exporter-side harness: a harness-owned raw TCP/UDP peer that records
// every byte an exporting process writes, and builders that turn generated steps into the
// library's sets.
package exph

import (
	"fmt"
	"net"
	"sync"
	"sync/atomic"
	"time"

	"github.com/vmware/go-ipfix/pkg/entities"
	"github.com/vmware/go-ipfix/pkg/exporter"

	"verifharness/glue"
	ref "verifharness/refipfix"
)

// Peer is a raw socket owned by the harness (not the library's collector).
type Peer struct {
	Proto string
	Addr  string

	ln   net.Listener
	pc   *net.UDPConn
	mu   sync.Mutex
	cond *sync.Cond
	// TCP: the byte stream; UDP: the datagrams
	stream []byte
	dgrams [][]byte
	conn   net.Conn
	closed bool
	eof    bool
	// readDelay (ns): how long the TCP side waits after accepting before it starts to read
	// (a collector that is slow to drain its socket)
	readDelay atomic.Int64
}

// SetReadDelay makes the TCP peer wait d after accepting a connection before reading from it.
// Call it before the exporter connects.
func (p *Peer) SetReadDelay(d time.Duration) { p.readDelay.Store(int64(d)) }

// NewPeer starts a peer on the loopback (v6 selects ::1).
func NewPeer(proto string, v6 bool) (*Peer, error) {
	host := "127.0.0.1:0"
	if v6 {
		host = "[::1]:0"
	}
	p := &Peer{Proto: proto}
	p.cond = sync.NewCond(&p.mu)
	if proto == "tcp" {
		ln, err := net.Listen("tcp", host)
		if err != nil {
			return nil, err
		}
		p.ln, p.Addr = ln, ln.Addr().String()
		go func() {
			c, err := ln.Accept()
			if err != nil {
				return
			}
			p.mu.Lock()
			p.conn = c
			p.cond.Broadcast()
			p.mu.Unlock()
			if d := time.Duration(p.readDelay.Load()); d > 0 {
				time.Sleep(d)
			}
			buf := make([]byte, 1<<16)
			for {
				n, err := c.Read(buf)
				p.mu.Lock()
				p.stream = append(p.stream, buf[:n]...)
				if err != nil {
					p.eof = true
				}
				p.cond.Broadcast()
				p.mu.Unlock()
				if err != nil {
					return
				}
			}
		}()
		return p, nil
	}
	ua, _ := net.ResolveUDPAddr("udp", host)
	pc, err := net.ListenUDP("udp", ua)
	if err != nil {
		return nil, err
	}
	pc.SetReadBuffer(8 << 20)
	p.pc, p.Addr = pc, pc.LocalAddr().String()
	go func() {
		buf := make([]byte, 1<<16+100)
		for {
			n, _, err := pc.ReadFromUDP(buf)
			if err != nil {
				p.mu.Lock()
				p.eof = true
				p.cond.Broadcast()
				p.mu.Unlock()
				return
			}
			p.mu.Lock()
			p.dgrams = append(p.dgrams, append([]byte(nil), buf[:n]...))
			p.cond.Broadcast()
			p.mu.Unlock()
		}
	}()
	return p, nil
}

// Close releases the sockets.
func (p *Peer) Close() {
	p.mu.Lock()
	p.closed = true
	c := p.conn
	p.mu.Unlock()
	if p.ln != nil {
		p.ln.Close()
	}
	if c != nil {
		c.Close()
	}
	if p.pc != nil {
		p.pc.Close()
	}
}

// CloseConn closes the accepted TCP connection (collector-side close).
func (p *Peer) CloseConn() {
	p.mu.Lock()
	for p.conn == nil && !p.closed {
		p.cond.Wait()
	}
	c := p.conn
	p.mu.Unlock()
	if c != nil {
		c.Close()
	}
}

// WriteThenCloseConn makes the TCP peer write b to the exporter and then close the connection (a
// collector, proxy or load balancer that says something before it hangs up).
func (p *Peer) WriteThenCloseConn(b []byte) {
	p.mu.Lock()
	for p.conn == nil && !p.closed {
		p.cond.Wait()
	}
	c := p.conn
	p.mu.Unlock()
	if c != nil {
		c.Write(b)
		c.Close()
	}
}

func (p *Peer) waitFor(limit time.Duration, pred func() bool) bool {
	deadline := time.Now().Add(limit)
	t := time.AfterFunc(limit, func() { p.mu.Lock(); p.cond.Broadcast(); p.mu.Unlock() })
	defer t.Stop()
	p.mu.Lock()
	defer p.mu.Unlock()
	for !pred() {
		if time.Now().After(deadline) || p.eof {
			return pred()
		}
		p.cond.Wait()
	}
	return true
}

// WaitStream waits until at least n bytes of the TCP stream arrived and returns a copy of
// the stream so far.
func (p *Peer) WaitStream(n int, limit time.Duration) ([]byte, bool) {
	ok := p.waitFor(limit, func() bool { return len(p.stream) >= n })
	p.mu.Lock()
	defer p.mu.Unlock()
	return append([]byte(nil), p.stream...), ok
}

// WaitDatagrams waits until at least n datagrams arrived and returns them.
func (p *Peer) WaitDatagrams(n int, limit time.Duration) ([][]byte, bool) {
	ok := p.waitFor(limit, func() bool { return len(p.dgrams) >= n })
	p.mu.Lock()
	defer p.mu.Unlock()
	return append([][]byte(nil), p.dgrams...), ok
}

// Messages returns what arrived so far as messages: UDP datagrams as they are, the TCP
// stream framed by the reference framer (rest = unframed tail).
func (p *Peer) Messages() (msgs [][]byte, rest []byte) {
	p.mu.Lock()
	defer p.mu.Unlock()
	if p.Proto == "udp" {
		return append([][]byte(nil), p.dgrams...), nil
	}
	return ref.Frame(append([]byte(nil), p.stream...))
}

// WaitMessages waits until n messages (TCP: total bytes) have arrived.
func (p *Peer) WaitMessages(n, totalBytes int, limit time.Duration) bool {
	if p.Proto == "udp" {
		_, ok := p.WaitDatagrams(n, limit)
		return ok
	}
	_, ok := p.WaitStream(totalBytes, limit)
	return ok
}

// StartExporter connects an exporting process to the peer.
func StartExporter(p *Peer, domain uint32, v6 bool) (*exporter.ExportingProcess, error) {
	return exporter.InitExportingProcess(exporter.ExporterInput{
		CollectorAddress: p.Addr, CollectorProtocol: p.Proto, ObservationDomainID: domain,
		TempRefTimeout: 3600, IsIPv6: v6, CheckConnInterval: time.Hour,
	})
}

// Add paths of entities.Set.
const (
	PathAddRecord = iota
	PathExtra
	PathV2
	PathMake // entities.MakeTemplateSet / entities.MakeDataSet (data: sets of exactly one record; otherwise AddRecord)
)

// TemplateSet builds a template set for fields through the given add path.
func TemplateSet(id uint16, fields []ref.Field, path int) (entities.Set, error) {
	ies := make([]*entities.InfoElement, len(fields))
	for i, f := range fields {
		ies[i] = glue.IE(f)
	}
	if path == PathMake {
		return entities.MakeTemplateSet(id, ies)
	}
	set := entities.NewSet(false)
	if err := set.PrepareSet(entities.Template, id); err != nil {
		return nil, err
	}
	els := make([]entities.InfoElementWithValue, len(fields))
	for i, f := range fields {
		els[i] = glue.Element(ies[i], f.Type, ref.Value{})
		els[i].ResetValue() // empty value, as the template API requires
	}
	return set, addRecord(set, els, id, path)
}

func addRecord(set entities.Set, els []entities.InfoElementWithValue, id uint16, path int) error {
	var err error
	switch path {
	case PathV2:
		// adopts the caller's slice (documented) until the set has been sent or reset
		adoptedMu.Lock()
		if adopted = append(adopted, els); len(adopted) > 512 {
			// a check that never calls ReleaseAdopted must not keep every slice it ever handed over
			adopted = append([][]entities.InfoElementWithValue(nil), adopted[256:]...)
		}
		adoptedMu.Unlock()
		return set.AddRecordV2(els, id)
	case PathExtra:
		err = set.AddRecordWithExtraElements(els, 3, id)
	default:
		err = set.AddRecord(els, id)
	}
	// the copying paths leave the caller free to refill its slice for the next record; applications
	// do (one scratch slice per template), so the harness does too
	for i := range els {
		els[i] = poison
	}
	return err
}

var (
	adoptedMu sync.Mutex
	adopted   [][]entities.InfoElementWithValue
)

// ReleaseAdopted is called by a check once SendSet has returned for the sets built so far: from
// then on the application owns the slices it handed to AddRecordV2 again and reuses them - the
// harness overwrites them.
func ReleaseAdopted() {
	adoptedMu.Lock()
	defer adoptedMu.Unlock()
	for _, els := range adopted {
		for i := range els {
			els[i] = poison
		}
	}
	adopted = nil
}

var poison = glue.Element(entities.NewInfoElement("poison", 999, entities.Unsigned64, 55555, 8), ref.TU64, ref.Value{U: 0xDEADBEEFDEADBEEF})

// Elements builds the library's elements for one record.
func Elements(fields []ref.Field, vals []ref.Value) []entities.InfoElementWithValue {
	els := make([]entities.InfoElementWithValue, len(fields))
	for i, f := range fields {
		els[i] = glue.Element(glue.IE(f), f.Type, vals[i])
	}
	return els
}

// DataSet builds a data set with the given records.
func DataSet(id uint16, fields []ref.Field, recs [][]ref.Value, path int) (entities.Set, error) {
	if path == PathMake && len(recs) == 1 && len(recs[0]) <= len(fields) {
		return entities.MakeDataSet(id, Elements(fields[:len(recs[0])], recs[0]))
	}
	return DataSetInto(entities.NewSet(false), id, fields, recs, path)
}

// TemplateSetInto fills an existing (fresh or reset) set with one template record.
func TemplateSetInto(set entities.Set, id uint16, fields []ref.Field, path int) (entities.Set, error) {
	if err := set.PrepareSet(entities.Template, id); err != nil {
		return nil, err
	}
	els := make([]entities.InfoElementWithValue, len(fields))
	for i, f := range fields {
		els[i] = glue.Element(glue.IE(f), f.Type, ref.Value{})
		els[i].ResetValue()
	}
	return set, addRecord(set, els, id, path)
}

// DataSetInto fills an existing (fresh or reset) set with the given records.
func DataSetInto(set entities.Set, id uint16, fields []ref.Field, recs [][]ref.Value, path int) (entities.Set, error) {
	if err := set.PrepareSet(entities.Data, id); err != nil {
		return nil, err
	}
	for _, r := range recs {
		if len(r) > len(fields) {
			return nil, fmt.Errorf("record has more values than fields")
		}
		if err := addRecord(set, Elements(fields[:len(r)], r), id, path); err != nil {
			return nil, err
		}
	}
	return set, nil
}

// NewElements builds one long-lived element object per field (values empty), for applications
// that reuse their elements from record to record.
func NewElements(fields []ref.Field) []entities.InfoElementWithValue {
	els := make([]entities.InfoElementWithValue, len(fields))
	// address elements start from one shared all-zero placeholder, as applications that create
	// their elements with net.IPv4zero / net.IPv6unspecified do: a setter must replace the
	// value, not write into memory the element does not own
	ph := [2][]byte{make([]byte, 4), make([]byte, 16)}
	phMu.Lock()
	if placeholders = append(placeholders, ph); len(placeholders) > 8 {
		placeholders = placeholders[1:]
	}
	phMu.Unlock()
	for i, f := range fields {
		v := ref.Value{}
		switch f.Type {
		case ref.TIPv4:
			v.B = ph[0]
		case ref.TIPv6:
			v.B = ph[1]
		}
		els[i] = glue.Element(glue.IE(f), f.Type, v)
	}
	return els
}

var (
	phMu         sync.Mutex
	placeholders [][2][]byte
)

// PlaceholdersIntact reports whether the shared placeholders of the latest NewElements calls still
// hold zeros (and forgets the ones that do not, so that the failure belongs to the case that did it).
func PlaceholdersIntact() bool {
	phMu.Lock()
	defer phMu.Unlock()
	ok := true
	for _, ph := range placeholders {
		for _, b := range append(append([]byte(nil), ph[0]...), ph[1]...) {
			if b != 0 {
				ok = false
			}
		}
	}
	if !ok {
		placeholders = nil
	}
	return ok
}

// DataSetReusing fills set (reset first) with the records, writing every record's values into the
// same element objects els (setter for a value, ResetValue for an empty one) before adding it:
// the allocation-free pattern of long-running exporters.
func DataSetReusing(set entities.Set, els []entities.InfoElementWithValue, id uint16, fields []ref.Field, recs [][]ref.Value, path int) (entities.Set, error) {
	fill := func(r []ref.Value) {
		for j := range fields {
			glue.SetValue(els[j], fields[j].Type, r[j])
		}
	}
	if path == PathMake && len(recs) == 1 {
		fill(recs[0])
		return entities.MakeDataSet(id, els)
	}
	set.ResetSet()
	if err := set.PrepareSet(entities.Data, id); err != nil {
		return nil, err
	}
	for _, r := range recs {
		fill(r)
		// the application keeps its element objects; the slice handed over is a scratch copy
		if err := addRecord(set, append([]entities.InfoElementWithValue(nil), els...), id, path); err != nil {
			return nil, err
		}
	}
	return set, nil
}

// SameExceptTimeSeq compares two messages ignoring export time and sequence number.
func SameExceptTimeSeq(a, b []byte) bool {
	if len(a) != len(b) {
		return false
	}
	for i := range a {
		if i >= 4 && i < 12 {
			continue
		}
		if a[i] != b[i] {
			return false
		}
	}
	return true
}
