// mergeev counts the union of the sorted little-endian uint64 hash files written by the shards of a
// thorough run (k-way merge; memory use is one buffered reader per file).
package main

import (
	"bufio"
	"encoding/binary"
	"fmt"
	"io"
	"os"
)

type src struct {
	r   *bufio.Reader
	cur uint64
	ok  bool
}

func (s *src) next() {
	var b [8]byte
	if _, err := io.ReadFull(s.r, b[:]); err != nil {
		s.ok = false
		return
	}
	s.cur, s.ok = binary.LittleEndian.Uint64(b[:]), true
}

func main() {
	var srcs []*src
	for _, p := range os.Args[1:] {
		f, err := os.Open(p)
		if err != nil {
			continue
		}
		defer f.Close()
		s := &src{r: bufio.NewReaderSize(f, 1<<20)}
		s.next()
		if s.ok {
			srcs = append(srcs, s)
		}
	}
	var count uint64
	var last uint64
	first := true
	for len(srcs) > 0 {
		mi := 0
		for i, s := range srcs {
			if s.cur < srcs[mi].cur {
				mi = i
			}
		}
		v := srcs[mi].cur
		if first || v != last {
			count++
			last, first = v, false
		}
		srcs[mi].next()
		if !srcs[mi].ok {
			srcs = append(srcs[:mi], srcs[mi+1:]...)
		}
	}
	fmt.Println(count)
}
