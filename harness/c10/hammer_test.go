//go:build verif

package c10

import (
	"sync"
	"sync/atomic"
	"testing"
	"time"

	"github.com/vmware/go-ipfix/pkg/collector"

	"verifharness/ev"
	"verifharness/gen"
	ref "verifharness/refipfix"
)

// The expiry callback of a template whose lifetime has just elapsed and a re-transmission of that
// template arriving at the same moment, on two goroutines, many times over with a random skew of a
// few microseconds. Whichever of the two takes the collector's lock first, afterwards the template
// is stored, expires one lifetime from now and has an armed timer for that moment: if the callback
// wins the template is discarded and defined again; if the refresh wins the callback finds the
// lifetime extended. A callback that decides under one lock and deletes under another loses the
// refresh. The clock is a minimal one owned by this test (the harness clock parks callbacks at
// their yield points, which is exactly what must not happen here).
type rcClock struct {
	now atomic.Int64 // seconds
	mu  sync.Mutex
	all []*rcTimer
}

type rcTimer struct {
	c      *rcClock
	f      func()
	armed  atomic.Bool
	target atomic.Int64
}

var rcBase = time.Unix(1700000000, 0)

func (c *rcClock) Now() time.Time { return rcBase.Add(time.Duration(c.now.Load()) * time.Second) }
func (c *rcClock) AfterFunc(d time.Duration, f func()) collector.VerifTimer {
	t := &rcTimer{c: c, f: f}
	t.target.Store(c.now.Load() + int64(d/time.Second))
	t.armed.Store(true)
	c.mu.Lock()
	c.all = append(c.all, t)
	c.mu.Unlock()
	return t
}
func (t *rcTimer) Stop() bool { return t.armed.Swap(false) }
func (t *rcTimer) Reset(d time.Duration) bool {
	t.target.Store(t.c.now.Load() + int64(d/time.Second))
	return t.armed.Swap(true)
}

var spinSink atomic.Int64

func spin(n int) {
	x := int64(0)
	for i := 0; i < n; i++ {
		x += int64(i)
	}
	spinSink.Store(x)
}

func runExpiryVsRefresh(rounds int) *ev.Failure {
	const ttl = 100
	clk := &rcClock{}
	cp, err := collector.VerifNewCollectingProcess(collector.CollectorInput{Address: "127.0.0.1:0", Protocol: "udp", MaxBufferSize: 65535, TemplateTTL: ttl}, clk)
	if err != nil {
		return ev.Failf("VerifNewCollectingProcess: %v", err)
	}
	stopConsumer := make(chan struct{})
	var cwg sync.WaitGroup
	cwg.Add(1)
	go func() {
		defer cwg.Done()
		for {
			select {
			case <-cp.GetMsgChan():
			case <-stopConsumer:
				return
			}
		}
	}()
	defer func() { close(stopConsumer); cwg.Wait() }()
	tpl := ref.TemplateMessage(ref.Header{Domain: 1}, gen.Wire(256, variants()[0]))
	if _, err := cp.VerifDecodePacket(append([]byte(nil), tpl...), "10.1.2.3:4739"); err != nil {
		return ev.Failf("template: %v", err)
	}
	seed := uint64(ev.Seed())*2862933555777941757 + 3037000493
	next := func(n int) int {
		seed = seed*6364136223846793005 + 1442695040888963407
		return int((seed >> 33) % uint64(n))
	}
	for r := 0; r < rounds; r++ {
		// the lifetime elapses: the armed timer fires
		clk.now.Add(ttl)
		var fired *rcTimer
		clk.mu.Lock()
		for _, t := range clk.all {
			if t.armed.Load() && t.target.Load() <= clk.now.Load() {
				fired = t
			}
		}
		clk.mu.Unlock()
		if fired == nil {
			return ev.Failf("round %d: no timer is armed for the end of the stored template's lifetime", r)
		}
		fired.armed.Store(false)
		var wg sync.WaitGroup
		var gate atomic.Bool
		var derr error
		a, b := next(400), next(400)
		wg.Add(2)
		go func() {
			defer wg.Done()
			for !gate.Load() {
			}
			spin(a)
			fired.f()
		}()
		go func() {
			defer wg.Done()
			p := append([]byte(nil), tpl...)
			for !gate.Load() {
			}
			spin(b)
			_, derr = cp.VerifDecodePacket(p, "10.1.2.3:4739")
		}()
		gate.Store(true)
		wg.Wait()
		if derr != nil {
			return ev.Failf("round %d: the re-transmitted template was rejected: %v", r, derr)
		}
		st := cp.VerifTemplates()
		if len(st) != 1 {
			return ev.Failf("round %d: a template whose re-transmission arrived while the expiry callback of its previous lifetime ran is not stored afterwards (%d templates): the refresh was lost", r, len(st))
		}
		want := rcBase.Add(time.Duration(clk.now.Load()+ttl) * time.Second)
		if !st[0].ExpiryTime.Equal(want) {
			return ev.Failf("round %d: after the refresh the template expires at %v, want one lifetime from now (%v)", r, st[0].ExpiryTime, want)
		}
		tm, _ := st[0].Timer.(*rcTimer)
		if tm == nil || !tm.armed.Load() || tm.target.Load() != clk.now.Load()+ttl {
			return ev.Failf("round %d: after the refresh the stored template has no timer armed for the end of its lifetime", r)
		}
		// forget the timers of discarded incarnations
		clk.mu.Lock()
		clk.all = clk.all[:0]
		clk.all = append(clk.all, tm)
		clk.mu.Unlock()
	}
	return nil
}

func TestC10ExpiryVsRefresh(t *testing.T) {
	if ev.Shard() > 1 {
		return
	}
	n := int(rec.Scale(40000, 1500000))
	f := runExpiryVsRefresh(n)
	rec.Case(ev.Hash([]any{"expiry_vs_refresh", n}), true, "expiry_callback_races_with_refresh")
	rec.Extra("expiry_vs_refresh_rounds", n)
	if f != nil {
		rec.Violation("expiry_vs_refresh", n, f.Msg)
		t.Fatalf("%s", f.Msg)
	}
}
