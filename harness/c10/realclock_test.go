//go:build verif

package c10

import (
	"bytes"
	"sync"
	"testing"
	"time"

	"k8s.io/klog/v2"

	"github.com/vmware/go-ipfix/pkg/collector"

	"verifharness/ev"
	"verifharness/gen"
	"verifharness/glue"
	ref "verifharness/refipfix"
)

// RealCase: the production clock (time.AfterFunc) instead of the harness clock, TTL 1 s. The one
// interleaving that cannot be produced by waiting - a refresh that lands after the timer fired and
// before its callback took the lock - is produced by holding the callback at its first log line
// (the library's log output is a writer owned by the harness) until the refresh has been decoded.
// Then the template must live exactly one more lifetime: usable half a lifetime after the refresh,
// gone 1.7 lifetimes after it.
type RealCase struct {
	HoldCallback bool `json:"hold_callback"`
}

type gateWriter struct {
	mu      sync.Mutex
	armed   bool
	hit     chan struct{}
	release chan struct{}
}

func (g *gateWriter) Write(p []byte) (int, error) {
	g.mu.Lock()
	if g.armed && bytes.Contains(p, []byte("is expired")) {
		g.armed = false
		hit, release := g.hit, g.release
		g.mu.Unlock()
		close(hit)
		<-release
		return len(p), nil
	}
	g.mu.Unlock()
	return len(p), nil
}

func runReal(c RealCase) *ev.Failure {
	g := &gateWriter{armed: c.HoldCallback, hit: make(chan struct{}), release: make(chan struct{})}
	klog.SetOutput(g)
	defer glue.SilenceKlog()
	col := glue.NewCol("udp", collector.DecodingModeStrict, nil, 1) // real clock, TTL 1 s
	fields := variants()[0]
	h := ref.Header{Domain: 1, ExportTime: 1700000000}
	tpl := ref.TemplateMessage(h, gen.Wire(256, fields))
	data := ref.EncodeMessage(h, 256, ref.EncodeDataRecord(nil, gen.View(fields), []ref.Value{{B: []byte{10, 0, 0, 1}}}))
	if dr := col.Decode(tpl, "10.1.2.3:4739"); dr.Err != nil {
		return ev.Failf("real clock: valid template rejected: %v", dr.Err)
	}
	refreshed := time.Now()
	if c.HoldCallback {
		select {
		case <-g.hit: // the timer fired; its callback is held before it reads the clock or takes the lock
		case <-time.After(6 * time.Second):
			close(g.release)
			return nil // the timer did not fire in 6 s on this machine: no verdict
		}
		if dr := col.Decode(tpl, "10.1.2.3:4739"); dr.Err != nil {
			close(g.release)
			return ev.Failf("real clock: refresh rejected: %v", dr.Err)
		}
		refreshed = time.Now()
		close(g.release)
		// half a lifetime after the refresh the template must still be usable
		time.Sleep(time.Until(refreshed.Add(400 * time.Millisecond)))
		if time.Since(refreshed) < 800*time.Millisecond {
			if dr := col.Decode(data, "10.1.2.3:4739"); dr.Err != nil {
				return ev.Failf("real clock: data rejected %v after the refresh (lifetime 1 s): the template was dropped early: %v", time.Since(refreshed).Round(10*time.Millisecond), dr.Err)
			}
		}
	}
	time.Sleep(time.Until(refreshed.Add(1700 * time.Millisecond)))
	if dr := col.Decode(data, "10.1.2.3:4739"); dr.Err == nil {
		return ev.Failf("real clock: data accepted %v after the last (re)transmission of its template (lifetime 1 s; the timer had fired once before that refresh: %v): the template outlives its lifetime", time.Since(refreshed).Round(10*time.Millisecond), c.HoldCallback)
	}
	if n := len(col.StoredTemplates()); n != 0 {
		return ev.Failf("real clock: %d templates still stored %v after the last (re)transmission (lifetime 1 s)", n, time.Since(refreshed).Round(10*time.Millisecond))
	}
	return nil
}

// TestC10RealClock runs after TestC10 (the log output is process-wide).
func TestC10RealClock(t *testing.T) {
	if ev.Shard() > 1 {
		return
	}
	for _, c := range []RealCase{{HoldCallback: true}, {HoldCallback: false}} {
		f := runReal(c)
		rec.Case(ev.Hash(c), true, "real_clock")
		rec.Sample("real_clock", c)
		if f != nil {
			rec.Violation("real_clock", c, f.Msg)
			t.Fatalf("%s", f.Msg)
		}
	}
}

// slowClock is the production clock on which arming a timer takes a while (the calling goroutine
// is descheduled for 30 ms right after time.AfterFunc / Reset returned): time passes inside one
// operation of the collector, which a clock that only moves between operations never shows.
type slowClock struct{}

type slowTimer struct{ t *time.Timer }

func (slowClock) Now() time.Time { return time.Now() }
func (slowClock) AfterFunc(d time.Duration, f func()) collector.VerifTimer {
	t := time.AfterFunc(d, f)
	time.Sleep(30 * time.Millisecond)
	return slowTimer{t}
}
func (s slowTimer) Stop() bool { return s.t.Stop() }
func (s slowTimer) Reset(d time.Duration) bool {
	r := s.t.Reset(d)
	time.Sleep(30 * time.Millisecond)
	return r
}

// runSlowArming: lifetime 1 s on the slow-arming clock. The template is sent (and, with Refresh,
// sent again 300 ms later); 400 ms after its last transmission it must still be usable, and once
// its lifetime is over it must go: the check polls for up to 8 s, so a late timer on a busy machine
// is not a failure, a template that is never discarded is.
func runSlowArming(refresh bool) *ev.Failure {
	col := glue.NewCol("udp", collector.DecodingModeStrict, slowClock{}, 1)
	fields := variants()[0]
	h := ref.Header{Domain: 1, ExportTime: 1700000000}
	tpl := ref.TemplateMessage(h, gen.Wire(256, fields))
	data := ref.EncodeMessage(h, 256, ref.EncodeDataRecord(nil, gen.View(fields), []ref.Value{{B: []byte{10, 0, 0, 1}}}))
	last := time.Now()
	if dr := col.Decode(tpl, "10.1.2.3:4739"); dr.Err != nil {
		return ev.Failf("slow arming: valid template rejected: %v", dr.Err)
	}
	if refresh {
		time.Sleep(300 * time.Millisecond)
		last = time.Now()
		if dr := col.Decode(tpl, "10.1.2.3:4739"); dr.Err != nil {
			return ev.Failf("slow arming: refresh rejected: %v", dr.Err)
		}
	}
	time.Sleep(time.Until(last.Add(400 * time.Millisecond)))
	if time.Since(last) < 800*time.Millisecond {
		if dr := col.Decode(data, "10.1.2.3:4739"); dr.Err != nil {
			return ev.Failf("slow arming: data rejected %v after the last transmission of its template (lifetime 1 s): %v", time.Since(last).Round(10*time.Millisecond), dr.Err)
		}
	}
	time.Sleep(time.Until(last.Add(1300 * time.Millisecond)))
	for end := last.Add(9 * time.Second); ; time.Sleep(50 * time.Millisecond) {
		dr := col.Decode(data, "10.1.2.3:4739")
		if dr.Err != nil && len(col.StoredTemplates()) == 0 {
			return nil
		}
		if time.Now().After(end) {
			return ev.Failf("slow arming (30 ms pass inside the call that arms the expiry timer; refresh: %v): %v after the last transmission of the template (lifetime 1 s) data is still accepted / %d templates are stored: the template outlives its lifetime", refresh, time.Since(last).Round(10*time.Millisecond), len(col.StoredTemplates()))
		}
	}
}

func TestC10SlowArming(t *testing.T) {
	if ev.Shard() > 1 {
		return
	}
	var wg sync.WaitGroup
	res := make([]*ev.Failure, 2)
	for k, refresh := range []bool{false, true} {
		wg.Add(1)
		go func() { defer wg.Done(); res[k] = runSlowArming(refresh) }()
	}
	wg.Wait()
	for k, refresh := range []bool{false, true} {
		rec.Case(ev.Hash([]any{"slow_arming", refresh}), true, "time_passes_inside_an_operation")
		if f := res[k]; f != nil {
			rec.Violation("slow_arming", refresh, f.Msg)
			t.Fatalf("%s", f.Msg)
		}
	}
}
