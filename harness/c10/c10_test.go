//go:build verif

// C10 — UDP template lifetime: usable for the TTL after the last refresh, then discarded.
package c10

import (
	"fmt"
	"os"
	"testing"
	"time"

	"pgregory.net/rapid"

	"github.com/vmware/go-ipfix/pkg/collector"

	"verifharness/ev"
	"verifharness/gen"
	"verifharness/glue"
	ref "verifharness/refipfix"
)

// Op kinds: tpl (Key, Var), bad (Key), data (Key), adv (D seconds), start (Idx), finish, run (Idx).
type Op struct {
	Kind string `json:"kind"`
	Key  int    `json:"key,omitempty"`
	Var  int    `json:"var,omitempty"`
	D    int    `json:"d,omitempty"`
	Idx  int    `json:"idx,omitempty"`
}

type Case struct {
	TTL int  `json:"ttl"`
	Ops []Op `json:"ops"`
	// Encrypted: the collecting process is configured for DTLS (IsEncrypted); template lifetime
	// over UDP is the same with or without encryption.
	Encrypted bool `json:"encrypted,omitempty"`
	// Mono: the harness clock hands out times with a monotonic reading (as time.Now does), and the
	// operation wallstep can move the wall clock without moving the monotonic one
	Mono bool `json:"mono,omitempty"`
}

type Stats struct{ Interleaved, Expired, DataAfterRefresh, WallStep bool }

var rec *ev.Recorder

func TestMain(m *testing.M) {
	glue.SilenceKlog()
	glue.LoadRegistry()
	if rp := ev.LoadReplay(); rp != nil {
		if rp.Phase == "real_clock" {
			ev.RunReplay(rp, runReal)
		}
		if rp.Phase == "expiry_vs_refresh" {
			ev.RunReplay(rp, runExpiryVsRefresh)
		}
		if rp.Phase == "slow_arming" {
			ev.RunReplay(rp, runSlowArming)
		}
		ev.RunReplay(rp, func(c Case) *ev.Failure { return runCase(c, nil) })
	}
	rec = ev.New("C10", "histories over 2 ids x 2 observation domains of {template, replacement, undecodable template, data, clock advance by 0 / 1 / TTL-1 / TTL / 2*TTL, start of a fired timer's callback (it parks after reading the clock), finish of the parked callback, atomic callback run} against a UDP collecting process whose clock and timers are owned by the harness: exhaustive over a reduced alphabet to depth 5 (quick) / 6 (thorough), rapid histories to depth 60; after every action the template table, stored expiry times and the clock's timer table are checked (never dropped early, gone once the lifetime elapsed and the callback ran, exactly one armed timer or a pending/in-flight callback per stored template, no armed timer for removed ones); non-trivial = a refresh, replacement or invalidation happened between a timer firing and its callback finishing; distinct by hash of the case",
		"harness clock with Go's documented AfterFunc/Stop/Reset semantics (glue.HClock)", "verif hooks VerifNewCollectingProcess / VerifTemplates / VerifDecodePacket", "reference codec refipfix")
	code := m.Run()
	rec.Write()
	os.Exit(code)
}

var keys = []glue.TplKey{{Domain: 1, ID: 256}, {Domain: 2, ID: 256}, {Domain: 1, ID: 257}, {Domain: 2, ID: 257}}

func variants() [][]gen.TField {
	f := func(name string, ent uint32) gen.TField {
		for _, x := range glue.RegistryFields() {
			if x.Name == name && x.Ent == ent {
				return gen.TField{Field: x, WireLen: x.Len}
			}
		}
		panic(name)
	}
	// the third variant has no fields (the form of a template withdrawal): it is stored like any other
	// template, but no data record can be defined by it
	return [][]gen.TField{{f("sourceIPv4Address", 0)}, {f("sourceTransportPort", 0), f("destinationTransportPort", 0), f("protocolIdentifier", 0)}, {}}
}

type mtpl struct {
	variant     int
	lastRefresh time.Time
}

const limit = 10 * time.Second

func runCase(c Case, st *Stats) *ev.Failure {
	if st == nil {
		st = &Stats{}
	}
	vars := variants()
	clk := glue.NewHClock(time.Unix(1700000000, 0))
	if c.Mono {
		// times with a monotonic reading, as the production clock returns them; the wall clock may step
		clk = glue.NewHClockMono()
	}
	clk.LogYield = true
	glue.YieldOnLogs(clk)
	defer glue.YieldOnLogs(nil)
	col := glue.NewColEnc("udp", collector.DecodingModeStrict, clk, uint32(c.TTL), c.Encrypted)
	ttl := time.Duration(c.TTL) * time.Second
	if c.TTL == 0 { // not configured: the documented default of 1800 s applies
		ttl = 1800 * time.Second
	}
	model := map[glue.TplKey]*mtpl{}
	firedUnfinished := map[glue.TplKey]bool{} // a timer of the key fired and its callback has not finished
	decode := func(i int, pkt []byte, k glue.TplKey) (glue.DecodeResult, *ev.Failure) {
		clk.Tag = k
		dr := col.Decode(pkt, "10.1.2.3:4739")
		clk.Tag = nil
		if dr.Hung || dr.Panic != "" {
			return dr, ev.Failf("op %d: decoder crashed or hung: %s%s", i, dr.Panic, dr.HungWhy)
		}
		return dr, nil
	}
	// finished: the model's step when a callback has returned. The decision the library takes under
	// its lock compares the expiry time then in force with the time the callback read earlier.
	finished := func(cb *glue.HCallback) *ev.Failure {
		tk, _ := cb.Timer.Tag.(glue.TplKey)
		if m := model[tk]; m != nil && cb.Parked && !m.lastRefresh.Add(ttl).After(cb.SawNow) {
			delete(model, tk)
			st.Expired = true
		}
		still := false
		for _, p := range clk.Pending {
			if p.Timer.Tag == cb.Timer.Tag {
				still = true
			}
		}
		if !still {
			delete(firedUnfinished, tk)
		}
		return nil
	}
	for i, o := range c.Ops {
		k := keys[o.Key%len(keys)]
		h := ref.Header{Domain: k.Domain}
		now := clk.Time()
		switch o.Kind {
		case "tpl":
			v := o.Var % len(vars)
			dr, f := decode(i, ref.TemplateMessage(h, gen.Wire(k.ID, vars[v])), k)
			if f != nil {
				return f
			}
			if dr.Err != nil {
				return ev.Failf("op %d: valid template rejected: %v", i, dr.Err)
			}
			if firedUnfinished[k] {
				st.Interleaved = true
			}
			model[k] = &mtpl{variant: v, lastRefresh: now}
		case "bad":
			m := ref.TemplateMessage(h, gen.Wire(k.ID, vars[1]))
			dr, f := decode(i, gen.FixLengths(append([]byte(nil), m[:20+9]...)), k)
			if f != nil {
				return f
			}
			if dr.Err == nil {
				return ev.Failf("op %d: truncated template accepted", i)
			}
			if firedUnfinished[k] && model[k] != nil {
				st.Interleaved = true
			}
			delete(model, k)
		case "data":
			v := 0
			if m := model[k]; m != nil {
				v = m.variant
			}
			view := gen.View(vars[v])
			vals := make([]ref.Value, len(view))
			for j, fl := range view {
				if fl.Type.IsBytes() {
					vals[j] = ref.Value{B: []byte{10, 0, 0, byte(i)}}
				} else {
					vals[j] = ref.Value{U: uint64(i + 1)}
				}
			}
			pkt := ref.DataMessage(h, ref.Template{ID: k.ID, Fields: view}, [][]ref.Value{vals})
			dr, f := decode(i, pkt, k)
			if f != nil {
				return f
			}
			if m := model[k]; m != nil && len(view) == 0 {
				if dr.Err == nil && len(dr.Msg.GetSet().GetRecords()) != 0 {
					return ev.Failf("op %d: records delivered for a template without fields", i)
				}
			} else if m != nil {
				if dr.Err != nil {
					return ev.Failf("op %d: data for template %+v rejected %v after its last (re)transmission, lifetime %v: dropped early (%v)", i, k, now.Sub(m.lastRefresh), ttl, dr.Err)
				}
				if f := glue.CheckDataMsg(dr.Msg, view, pkt[20:], col.Mode); f != nil {
					return ev.Failf("op %d: %s", i, f.Msg)
				}
			} else if dr.Err == nil {
				return ev.Failf("op %d: data for template %+v accepted although the template was discarded (or never sent)", i, k)
			}
		case "wallstep":
			// the wall clock is set forward or back by D seconds (an NTP step); the monotonic clock,
			// which is what lifetimes are measured on, goes on as before
			if c.Mono {
				clk.StepWall(time.Duration(o.D) * time.Second)
				st.WallStep = true
			}
		case "adv":
			clk.Advance(time.Duration(o.D) * time.Second)
			for _, p := range clk.Pending {
				if tk, ok := p.Timer.Tag.(glue.TplKey); ok {
					firedUnfinished[tk] = true
				}
			}
		case "step":
			// the parked callback runs on to its next yield point (a clock read or a log line)
			if clk.InFlight == nil {
				break
			}
			cb := clk.InFlight
			ok, done := clk.Step(limit)
			if !ok {
				return ev.Failf("op %d: timer callback neither reached another yield point nor returned within %v after being released (deadlock?)", i, limit)
			}
			if done {
				if fl := finished(cb); fl != nil {
					return fl
				}
			}
		case "start", "startlog", "run":
			if clk.InFlight != nil || len(clk.Pending) == 0 {
				break
			}
			if !clk.Start(o.Idx%len(clk.Pending), limit) {
				return ev.Failf("op %d: timer callback neither read the clock nor returned within %v", i, limit)
			}
			if o.Kind == "startlog" { // parked at its first yield point, whatever that is
				break
			}
			// "start": parked right after its clock read (log lines on the way are passed)
			for cb := clk.InFlight; cb != nil && cb.AtLog && clk.InFlight == cb; {
				ok, done := clk.Step(limit)
				if !ok {
					return ev.Failf("op %d: timer callback stuck after a log line", i)
				}
				if done {
					if fl := finished(cb); fl != nil {
						return fl
					}
					break
				}
			}
			if o.Kind == "start" {
				break
			}
			fallthrough
		case "finish":
			cb := clk.InFlight
			if cb == nil {
				break
			}
			if !clk.Finish(limit) {
				return ev.Failf("op %d: timer callback did not return within %v after being released (deadlock?)", i, limit)
			}
			if fl := finished(cb); fl != nil {
				return fl
			}
		}
		if f := checkState(i, o, col, clk, model, ttl); f != nil {
			return f
		}
	}
	// leave no goroutine parked
	if clk.InFlight != nil {
		clk.Finish(limit)
	}
	return nil
}

func checkState(i int, o Op, col *glue.Col, clk *glue.HClock, model map[glue.TplKey]*mtpl, ttl time.Duration) *ev.Failure {
	now := clk.Time()
	stored := col.CP.VerifTemplates()
	where := fmt.Sprintf("after op %d (%s, t=+%ds)", i, o.Kind, int(clk.Elapsed()/time.Second))
	seen := map[glue.TplKey]bool{}
	owner := map[*glue.HTimer]glue.TplKey{}
	for _, t := range stored {
		k := glue.TplKey{Domain: t.ObsDomainID, ID: t.TemplateID}
		seen[k] = true
		m := model[k]
		if m == nil {
			return ev.Failf("%s: template %+v is still stored although its lifetime elapsed and its timer callback ran (or it was invalidated)", where, k)
		}
		if exp := m.lastRefresh.Add(ttl); !t.ExpiryTime.Equal(exp) {
			return ev.Failf("%s: template %+v expires at +%ds, last (re)transmission +%ds + lifetime = +%ds", where, k, int(t.ExpiryTime.Sub(now)/time.Second)+int(clk.Elapsed()/time.Second), int(m.lastRefresh.Sub(now)/time.Second)+int(clk.Elapsed()/time.Second), int(exp.Sub(now)/time.Second)+int(clk.Elapsed()/time.Second))
		}
		tm, ok := t.Timer.(*glue.HTimer)
		if !ok || tm == nil {
			return ev.Failf("%s: stored template %+v has no expiry timer", where, k)
		}
		owner[tm] = k
		queued := false
		for _, p := range clk.Pending {
			queued = queued || p.Timer == tm
		}
		if clk.InFlight != nil && clk.InFlight.Timer == tm {
			queued = true
		}
		switch tm.State {
		case glue.TArmed:
			if exp := m.lastRefresh.Add(ttl); !tm.Target.Equal(exp) {
				return ev.Failf("%s: template %+v: timer armed for +%ds but the lifetime ends at +%ds", where, k, int(tm.Target.Sub(now)/time.Second)+int(clk.Elapsed()/time.Second), int(exp.Sub(now)/time.Second)+int(clk.Elapsed()/time.Second))
			}
		case glue.TStopped:
			return ev.Failf("%s: stored template %+v has a stopped timer: no expiry is pending, it would live forever", where, k)
		case glue.TFired:
			if !queued {
				return ev.Failf("%s: stored template %+v: its timer fired and its callback already ran, nothing is armed: it would live forever", where, k)
			}
		}
	}
	for k, m := range model {
		if !seen[k] {
			return ev.Failf("%s: template %+v was dropped %v after its last (re)transmission, lifetime %v: dropped early", where, k, now.Sub(m.lastRefresh), ttl)
		}
	}
	for _, tm := range clk.Timers {
		if tm.State == glue.TArmed {
			if _, ok := owner[tm]; !ok {
				return ev.Failf("%s: timer %d (created for template %+v) is armed although that template was removed", where, tm.ID, tm.Tag)
			}
		}
	}
	return nil
}

func runRecorded(phase string, c Case) *ev.Failure {
	st := &Stats{}
	f := runCase(c, st)
	var cl []string
	if st.WallStep {
		cl = append(cl, "wall_clock_stepped")
	}
	if st.Interleaved {
		cl = append(cl, "refresh_or_invalidation_between_fire_and_callback")
	}
	if st.Expired {
		cl = append(cl, "template_expired")
	}
	rec.Case(ev.Hash(c), st.Interleaved, append(cl, phase)...)
	if st.Interleaved && len(c.Ops) <= 7 {
		rec.Sample(phase, c)
	}
	return f
}

func TestC10(t *testing.T) {
	const ttl = 100
	alphabet := []Op{
		{Kind: "tpl", Key: 0}, {Kind: "tpl", Key: 0, Var: 1}, {Kind: "tpl", Key: 0, Var: 2}, {Kind: "tpl", Key: 1}, {Kind: "bad", Key: 0}, {Kind: "data", Key: 0}, {Kind: "data", Key: 1},
		{Kind: "adv", D: ttl - 1}, {Kind: "adv", D: 1}, {Kind: "adv", D: ttl},
		{Kind: "start"}, {Kind: "finish"}, {Kind: "run"}, {Kind: "run", Idx: 1}, {Kind: "startlog"}, {Kind: "step"},
	}
	depth := 5
	if rec.Thorough() {
		depth = 6
	}
	if ev.Shard() > 1 {
		depth = 0
	}
	failed := false
	encrypted := false
	var enum func(prefix []Op)
	enum = func(prefix []Op) {
		if failed {
			return
		}
		if len(prefix) == depth {
			c := Case{TTL: ttl, Ops: append([]Op(nil), prefix...), Encrypted: encrypted}
			if f := runRecorded("exhaustive", c); f != nil {
				c = shrink(c)
				rec.Violation("exhaustive", c, runCase(c, nil).Msg)
				t.Errorf("exhaustive: %s", f.Msg)
				failed = true
			}
			return
		}
		for _, s := range alphabet {
			if len(prefix) == 0 && s.Kind != "tpl" {
				continue
			}
			enum(append(prefix, s))
		}
	}
	if depth > 0 {
		enum(nil)
		// the same space with the process configured for DTLS, one level shallower
		encrypted, depth = true, depth-1
		enum(nil)
		encrypted, depth = false, depth+1
	}
	if failed {
		return
	}
	if depth > 0 {
		rec.SetExhaustive()
		rec.Extra("exhaustive_depth", depth)
		rec.Extra("alphabet_size", len(alphabet))
	}
	ev.Rapid(t, rec, "random", rec.Scale(4000, 3000000), func(t *rapid.T) Case {
		c := Case{TTL: rapid.SampledFrom([]int{100, 100, 1, 1800, 0}).Draw(t, "ttl"), Encrypted: rapid.IntRange(0, 3).Draw(t, "enc") == 0, Mono: rapid.Bool().Draw(t, "mono")}
		eff := c.TTL
		if eff == 0 {
			eff = 1800
		}
		for n := rapid.IntRange(2, 60).Draw(t, "n"); n > 0; n-- {
			switch k := rapid.IntRange(0, 15).Draw(t, "op"); {
			case k == 14:
				c.Ops = append(c.Ops, Op{Kind: "startlog", Idx: rapid.IntRange(0, 3).Draw(t, "idx")})
			case k == 15 && c.Mono && rapid.Bool().Draw(t, "wall"):
				c.Ops = append(c.Ops, Op{Kind: "wallstep", D: rapid.SampledFrom([]int{-7200, -eff, -1, 1, eff, 7200}).Draw(t, "wd")})
			case k == 15:
				c.Ops = append(c.Ops, Op{Kind: "step"})
			case k <= 2:
				c.Ops = append(c.Ops, Op{Kind: "tpl", Key: rapid.IntRange(0, 3).Draw(t, "key"), Var: rapid.SampledFrom([]int{0, 0, 1, 1, 2}).Draw(t, "var")})
			case k == 3:
				c.Ops = append(c.Ops, Op{Kind: "bad", Key: rapid.IntRange(0, 3).Draw(t, "key")})
			case k <= 5:
				c.Ops = append(c.Ops, Op{Kind: "data", Key: rapid.IntRange(0, 3).Draw(t, "key")})
			case k <= 8:
				c.Ops = append(c.Ops, Op{Kind: "adv", D: rapid.SampledFrom([]int{0, 1, eff - 1, eff, eff, 2 * eff, eff / 2}).Draw(t, "d")})
			case k <= 10:
				c.Ops = append(c.Ops, Op{Kind: "start", Idx: rapid.IntRange(0, 3).Draw(t, "idx")})
			case k <= 12:
				c.Ops = append(c.Ops, Op{Kind: "finish"})
			default:
				c.Ops = append(c.Ops, Op{Kind: "run", Idx: rapid.IntRange(0, 3).Draw(t, "idx")})
			}
		}
		return c
	}, func(c Case) *ev.Failure { return runRecorded("random", c) })
}

func shrink(c Case) Case {
	for changed := true; changed; {
		changed = false
		for i := range c.Ops {
			d := c
			d.Ops = append(append([]Op(nil), c.Ops[:i]...), c.Ops[i+1:]...)
			if len(d.Ops) > 0 && runCase(d, nil) != nil {
				c, changed = d, true
				break
			}
		}
	}
	return c
}
