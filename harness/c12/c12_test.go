//go:build verif

// C12 — collector under many clients: exactly-once, in order, clean shutdown.
// Built with -race; a race reported during a case fails that case's subtest.
package c12

import (
	"crypto/tls"
	"crypto/x509"
	"fmt"
	"net"
	"os"
	"runtime"
	"strconv"
	"strings"
	"sync"
	"sync/atomic"
	"syscall"
	"testing"
	"time"

	"pgregory.net/rapid"

	"github.com/vmware/go-ipfix/pkg/collector"
	"github.com/vmware/go-ipfix/pkg/entities"

	"verifharness/ev"
	"verifharness/glue"
	ref "verifharness/refipfix"
)

// Client is one exporter-side peer. Behaviour: all (send everything, close), abrupt (send N
// messages, then half a message, close), idle (send N messages, stay connected), dribble (send in
// 1..7-byte writes), silent (tcp/tls: a raw TCP connection that never sends a byte - on a TLS
// collector not even a handshake - and is still open when Stop is called).
type Client struct {
	Behaviour string `json:"behaviour"`
	N         int    `json:"n"`
	PauseUs   int    `json:"pause_us,omitempty"`
}

type Case struct {
	Proto       string   `json:"proto"` // tcp | udp | tls
	Procs       int      `json:"gomaxprocs"`
	Clients     []Client `json:"clients"`
	StopDuring  bool     `json:"stop_during,omitempty"` // Stop while clients are still sending
	StopAfterUs int      `json:"stop_after_us,omitempty"`
}

var (
	rec     *ev.Recorder
	ca      *glue.CA
	srvCert glue.Leaf
	fields  []ref.Field
)

func TestMain(m *testing.M) {
	glue.SilenceKlog()
	if os.Getenv("VERIF_C12_CHILD") == "noregistry" {
		os.Exit(childNoRegistry()) // before anything loads the registry
	}
	for _, f := range glue.RegistryFields() {
		if f.Name == "sourceIPv4Address" || f.Name == "octetDeltaCount" || (f.Name == "sourcePodName" && f.Ent == 56506) {
			fields = append(fields, f)
		}
	}
	ca = glue.NewCA("verif CA")
	srvCert = ca.LoopbackServer()
	if rp := ev.LoadReplay(); rp != nil {
		if rp.Phase == "quiet_connection" {
			ev.RunReplay(rp, func(q struct {
				Proto  string  `json:"proto"`
				QuietS float64 `json:"quiet_s"`
			}) *ev.Failure {
				return runQuiet(q.Proto, time.Duration(q.QuietS*float64(time.Second)))
			})
		}
		if rp.Phase == "shared_domain" || rp.Phase == "race_shared_domain" {
			ev.RunReplay(rp, runShared)
		}
		if rp.Phase == "no_registry" {
			ev.RunReplay(rp, runNoRegistry)
		}
		if rp.Phase == "stop_with_slow_consumer" {
			ev.RunReplay(rp, runSlowStop)
		}
		if rp.Phase == "link_local" {
			ev.RunReplay(rp, runLinkLocal)
		}
		if rp.Phase == "fd_exhaustion" {
			ev.RunReplay(rp, func(s float64) *ev.Failure { return runFDExhaustion(time.Duration(s * float64(time.Second))) })
		}
		if rp.Phase == "stop_after_failed_start" {
			ev.RunReplay(rp, runFailStart)
		}
		if rp.Phase == "many_clients" {
			ev.RunReplay(rp, runMany)
		}
		ev.RunReplay(rp, func(c Case) *ev.Failure { f, _ := runCase(c); return f })
	}
	rec = ev.New("C12", "generated multi-client sessions against a library collector over real loopback sockets under the race detector: 1..24 concurrent clients x 0..60 messages each (a template, then data messages carrying (client, index) in observation domain / sequence number), behaviours {send all and close, abrupt close in the middle of a message, stay idle, dribble in 1..7-byte writes} x {tcp, udp, tls} x GOMAXPROCS {2,4,16}, Stop after the traffic or during it; oracle: per client the delivered indices are exactly 0..n-1 in order (tcp/tls) or an increasing subsequence without duplicates (udp), nothing that was never sent, connection count back to 0 after the clients disconnect (tcp/tls), Stop returns, no collector goroutine and no listening socket remains; non-trivial = at least 3 clients with at least 5 messages each, overlapping in time; distinct by hash of the case",
		"Go race detector (dynamic)", "schedules are sampled, not enumerated", "bounded-time liveness: 30 s limits where normal latency is milliseconds", "the consumer keeps draining the message channel")
	code := m.Run()
	rec.Write()
	os.Exit(code)
}

// podName is the string of message idx of a client: two clients in three send long strings (above
// the 255-byte limit of the short length prefix), each client of its own length.
func podName(client, idx int) string {
	s := fmt.Sprintf("c%d-m%d", client, idx)
	if client%3 != 0 {
		s += strings.Repeat("x", 250+(client*37+idx)%700)
	}
	return s
}

func message(client, idx int) []byte {
	h := ref.Header{Domain: uint32(client + 1), Seq: uint32(idx), ExportTime: 1700000000}
	if idx == 0 {
		return ref.TemplateMessage(h, ref.Template{ID: 256, Fields: fields})
	}
	var vals []ref.Value
	for _, f := range fields {
		switch {
		case f.Type == ref.TString:
			vals = append(vals, ref.Value{B: []byte(podName(client, idx))})
		case f.Type.IsBytes():
			vals = append(vals, ref.Value{B: []byte{10, byte(client), byte(idx >> 8), byte(idx)}})
		default:
			vals = append(vals, ref.Value{U: uint64(client)<<32 | uint64(idx)})
		}
	}
	return ref.DataMessage(h, ref.Template{ID: 256, Fields: fields}, [][]ref.Value{vals})
}

// ownSocketOnPort reports whether this process still has a descriptor for a listening tcp socket
// (or a udp socket) bound to the port of addr: the kernel's socket tables give the inodes of the
// sockets on that port, /proc/self/fd tells which inodes are ours. Without /proc (not Linux) it
// falls back to re-binding with retries.
func ownSocketOnPort(addr string, udp bool) (bool, string) {
	_, portStr, _ := net.SplitHostPort(addr)
	port, _ := strconv.Atoi(portStr)
	files := []string{"/proc/self/net/tcp", "/proc/self/net/tcp6"}
	state := "0A" // LISTEN
	if udp {
		files, state = []string{"/proc/self/net/udp", "/proc/self/net/udp6"}, ""
	}
	inodes := map[string]bool{}
	readAny := false
	for _, f := range files {
		b, err := os.ReadFile(f)
		if err != nil {
			continue
		}
		readAny = true
		for _, line := range strings.Split(string(b), "\n")[1:] {
			fs := strings.Fields(line)
			if len(fs) < 10 {
				continue
			}
			i := strings.LastIndex(fs[1], ":")
			if i < 0 {
				continue
			}
			p, err := strconv.ParseInt(fs[1][i+1:], 16, 32)
			if err != nil || int(p) != port || (state != "" && fs[3] != state) {
				continue
			}
			inodes[fs[9]] = true
		}
	}
	if !readAny {
		for k := 0; k < 50; k++ {
			var err error
			if udp {
				var pc net.PacketConn
				if pc, err = net.ListenPacket("udp", addr); err == nil {
					pc.Close()
				}
			} else {
				var ln net.Listener
				if ln, err = net.Listen("tcp", addr); err == nil {
					ln.Close()
				}
			}
			if err == nil {
				return false, ""
			}
			time.Sleep(100 * time.Millisecond)
		}
		return true, "the port could not be bound again within 5 s"
	}
	ents, err := os.ReadDir("/proc/self/fd")
	if err != nil {
		return false, ""
	}
	for _, e := range ents {
		l, err := os.Readlink("/proc/self/fd/" + e.Name())
		if err != nil || !strings.HasPrefix(l, "socket:[") {
			continue
		}
		if inodes[strings.TrimSuffix(strings.TrimPrefix(l, "socket:["), "]")] {
			return true, "descriptor " + e.Name() + " is a socket bound to that port"
		}
	}
	return false, ""
}

// stopBounded calls Stop and reports whether it returned within 30 s. A Stop that hangs must show
// up as a failure of the property, not as a check that never finishes.
func stopBounded(cp *collector.CollectingProcess) bool {
	done := make(chan struct{})
	go func() { cp.Stop(); close(done) }()
	select {
	case <-done:
		return true
	case <-time.After(30 * time.Second):
		return false
	}
}

func collectorGoroutines() string {
	buf := make([]byte, 4<<20)
	n := runtime.Stack(buf, true)
	for _, g := range strings.Split(string(buf[:n]), "\n\n") {
		if strings.Contains(g, "go-ipfix/pkg/collector.") && !strings.Contains(g, "verifharness/c12.collectorGoroutines") {
			return g
		}
	}
	return ""
}

func sleepUs(us int) {
	if us <= 0 {
		return
	}
	if us < 50 {
		runtime.Gosched()
		return
	}
	time.Sleep(time.Duration(us) * time.Microsecond)
}

func runCase(c Case) (*ev.Failure, bool) {
	if c.Procs > 0 {
		defer runtime.GOMAXPROCS(runtime.GOMAXPROCS(c.Procs))
	}
	in := collector.CollectorInput{Address: "127.0.0.1:0", Protocol: "tcp", MaxBufferSize: 65535, TemplateTTL: 3600}
	if c.Proto == "udp" {
		in.Protocol = "udp"
	}
	if c.Proto == "tls" {
		in.IsEncrypted, in.ServerCert, in.ServerKey = true, srvCert.CertPEM, srvCert.KeyPEM
	}
	cp, err := collector.InitCollectingProcess(in)
	if err != nil {
		return ev.Failf("InitCollectingProcess: %v", err), false
	}
	startReturned := make(chan struct{})
	go func() { cp.Start(); close(startReturned) }()
	for i := 0; i < 3000 && cp.GetAddress() == nil; i++ {
		time.Sleep(time.Millisecond)
	}
	if cp.GetAddress() == nil {
		return ev.Failf("collector did not start listening"), false
	}
	addr := cp.GetAddress().String()
	// consumer: keeps draining
	var mu sync.Mutex
	got := map[uint32][]uint32{} // domain -> delivered sequence numbers, in delivery order
	var bad *ev.Failure
	var lastCount int64
	counterStuck := false
	consumerStop := make(chan struct{})
	consumerDone := make(chan struct{})
	go func() {
		defer close(consumerDone)
		for {
			select {
			case m := <-cp.GetMsgChan():
				// a consumer that keeps statistics reads the collector's counter as it goes
				n := lastCount
				if !counterStuck {
					nc := make(chan int64, 1)
					go func() { nc <- cp.GetNumRecordsReceived() }()
					select {
					case n = <-nc:
					case <-time.After(10 * time.Second):
						counterStuck = true
						mu.Lock()
						if bad == nil {
							bad = ev.Failf("GetNumRecordsReceived(), called by the consumer between two receives, did not return within 10 s")
						}
						mu.Unlock()
					}
				}
				mu.Lock()
				got[m.GetObsDomainID()] = append(got[m.GetObsDomainID()], m.GetSequenceNum())
				if bad == nil {
					bad = checkContent(m)
				}
				if bad == nil && n < lastCount {
					bad = ev.Failf("GetNumRecordsReceived() went from %d to %d", lastCount, n)
				}
				lastCount = n
				mu.Unlock()
			case <-consumerStop:
				return
			}
		}
	}()
	defer func() { close(consumerStop); <-consumerDone }()

	sent := make([]atomic.Int32, len(c.Clients)) // complete messages written by each client
	var active atomic.Int32
	var peak atomic.Int32
	var cw, writers sync.WaitGroup
	release := make(chan struct{})   // idle clients close when released
	afterStop := make(chan struct{}) // silent clients stay connected until Stop has returned
	var silentUp atomic.Int32
	var dialStuck atomic.Bool
	for ci, cl := range c.Clients {
		cw.Add(1)
		writers.Add(1)
		go func(ci int, cl Client) {
			defer cw.Done()
			wdone := false
			finishedWriting := func() {
				if !wdone {
					wdone = true
					writers.Done()
				}
			}
			defer finishedWriting()
			var conn net.Conn
			var err error
			if cl.Behaviour == "silent" && c.Proto != "udp" {
				finishedWriting()
				raw, err := net.Dial("tcp", addr)
				if err != nil {
					return
				}
				silentUp.Add(1)
				<-afterStop
				raw.Close()
				return
			}
			switch c.Proto {
			case "tls":
				roots := x509.NewCertPool()
				roots.AppendCertsFromPEM(ca.CertPEM)
				conn, err = tls.DialWithDialer(&net.Dialer{Timeout: 25 * time.Second}, "tcp", addr, &tls.Config{RootCAs: roots, ServerName: "localhost"})
			default:
				conn, err = net.Dial(in.Protocol, addr)
			}
			if err != nil {
				if ne, ok := err.(net.Error); ok && ne.Timeout() && !c.StopDuring {
					dialStuck.Store(true) // the collector is up and was not asked to stop: 25 s without a session
				}
				return // e.g. the collector was stopped before this client connected
			}
			defer conn.Close()
			if a := active.Add(1); a > peak.Load() {
				peak.Store(a)
			}
			defer active.Add(-1)
			for i := 0; i < cl.N; i++ {
				sleepUs(cl.PauseUs)
				m := message(ci, i)
				if cl.Behaviour == "dribble" && c.Proto != "udp" {
					for p := 0; p < len(m); {
						n := 1 + (p+ci+i)%7
						if p+n > len(m) {
							n = len(m) - p
						}
						if _, err := conn.Write(m[p : p+n]); err != nil {
							return
						}
						p += n
					}
				} else if _, err := conn.Write(m); err != nil {
					return
				}
				sent[ci].Add(1)
			}
			switch cl.Behaviour {
			case "abrupt":
				if c.Proto != "udp" {
					m := message(ci, cl.N)
					conn.Write(m[:len(m)/2])
				}
			case "idle":
				finishedWriting()
				<-release
			}
		}(ci, cl)
	}
	stopErr := make(chan *ev.Failure, 1)
	doStop := func() {
		done := make(chan struct{})
		go func() { cp.Stop(); close(done) }()
		select {
		case <-done:
			stopErr <- nil
		case <-time.After(30 * time.Second):
			stopErr <- ev.Failf("Stop did not return within 30 s with %d clients connected (deadlock?)", active.Load())
		}
	}
	overlapped := false
	if c.StopDuring {
		sleepUs(c.StopAfterUs)
		doStop()
		close(release)
	} else {
		// wait until every client has written what it is going to write, then until every complete
		// message of the stream transports was delivered
		writers.Wait()
		if dialStuck.Load() {
			return ev.Failf("a %s client could not establish its session within 25 s while %d other clients that never send anything held connections: one connection's silence stalls the others", c.Proto, silentUp.Load()), peak.Load() >= 3
		}
		if c.Proto != "udp" {
			for end := time.Now().Add(30 * time.Second); ; time.Sleep(500 * time.Microsecond) {
				missing := 0
				mu.Lock()
				for ci := range c.Clients {
					if len(got[uint32(ci+1)]) < int(sent[ci].Load()) {
						missing++
					}
				}
				mu.Unlock()
				if missing == 0 {
					break
				}
				if time.Now().After(end) {
					return ev.Failf("after 30 s %d connections still have complete messages that were written to a healthy %s connection and never delivered", missing, c.Proto), peak.Load() >= 3
				}
			}
		} else {
			time.Sleep(20 * time.Millisecond)
		}
		close(release)
		if c.Proto != "udp" {
			for end := time.Now().Add(30 * time.Second); cp.GetNumConnToCollector() > int64(silentUp.Load()); time.Sleep(500 * time.Microsecond) {
				if time.Now().After(end) {
					return ev.Failf("all clients but the %d silent ones disconnected, the collector still counts %d connections after 30 s", silentUp.Load(), cp.GetNumConnToCollector()), peak.Load() >= 3
				}
			}
		}
		doStop()
	}
	f := <-stopErr
	close(afterStop)
	cw.Wait()
	if f != nil {
		return f, peak.Load() >= 3
	}
	select {
	case <-startReturned:
	case <-time.After(10 * time.Second):
		return ev.Failf("Start did not return after Stop"), peak.Load() >= 3
	}
	time.Sleep(time.Millisecond)
	mu.Lock()
	defer mu.Unlock()
	if bad != nil {
		return bad, peak.Load() >= 3
	}
	big := 0
	for ci, cl := range c.Clients {
		seqs := got[uint32(ci+1)]
		n := int(sent[ci].Load())
		if n >= 5 {
			big++
		}
		if c.Proto == "udp" {
			last := -1
			for _, s := range seqs {
				if int(s) <= last {
					return ev.Failf("client %d (udp): message %d delivered after message %d (duplicate or out of order): %v", ci, s, last, clip(seqs)), peak.Load() >= 3
				}
				if int(s) >= cl.N {
					return ev.Failf("client %d: message %d delivered but never sent", ci, s), peak.Load() >= 3
				}
				last = int(s)
			}
			continue
		}
		for k, s := range seqs {
			if int(s) != k {
				return ev.Failf("client %d (%s): delivery %d is message %d: messages lost, duplicated or out of order: %v", ci, c.Proto, k, s, clip(seqs)), peak.Load() >= 3
			}
		}
		if len(seqs) > n+1 || (len(seqs) > n && !(cl.Behaviour == "abrupt")) {
			return ev.Failf("client %d: %d messages delivered, only %d were completely written", ci, len(seqs), n), peak.Load() >= 3
		}
		if cl.Behaviour == "abrupt" && len(seqs) > cl.N {
			return ev.Failf("client %d: %d messages delivered although the connection was cut in the middle of message %d", ci, len(seqs), cl.N), peak.Load() >= 3
		}
		if !c.StopDuring && len(seqs) != n {
			return ev.Failf("client %d (%s): %d of %d completely written messages were delivered: %v", ci, c.Proto, len(seqs), n, clip(seqs)), peak.Load() >= 3
		}
	}
	overlapped = peak.Load() >= 3 && big >= 3
	for d := range got {
		if int(d) < 1 || int(d) > len(c.Clients) {
			return ev.Failf("a message with observation domain %d was delivered; no client sent it", d), overlapped
		}
	}
	// nothing of the collector remains
	var g string
	for end := time.Now().Add(10 * time.Second); time.Now().Before(end); time.Sleep(2 * time.Millisecond) {
		if g = collectorGoroutines(); g == "" {
			break
		}
	}
	if g != "" {
		return ev.Failf("a goroutine of the collecting process is still running after Stop returned:\n%s", firstLines(g, 14)), overlapped
	}
	// the process must not hold the listening socket any more. Re-binding the port would also fail
	// when some other process happens to have taken it meanwhile (a busy machine hands freed ports
	// out again at once), so the process's own descriptors are inspected instead.
	if held, how := ownSocketOnPort(addr, c.Proto == "udp"); held {
		return ev.Failf("the %s socket %s is still held by the process after Stop (%s)", map[bool]string{true: "udp", false: "listening"}[c.Proto == "udp"], addr, how), overlapped
	}
	return nil, overlapped
}

func checkContent(m *entities.Message) *ev.Failure {
	client := int(m.GetObsDomainID()) - 1
	idx := int(m.GetSequenceNum())
	set := m.GetSet()
	if idx == 0 {
		if set.GetSetType() != entities.Template {
			return ev.Failf("client %d message 0 delivered as a non-template", client)
		}
		return nil
	}
	if set.GetSetType() != entities.Data || len(set.GetRecords()) != 1 {
		return ev.Failf("client %d message %d: delivered with %d records", client, idx, len(set.GetRecords()))
	}
	for _, el := range set.GetRecords()[0].GetOrderedElementList() {
		switch el.GetName() {
		case "octetDeltaCount":
			if v := el.GetUnsigned64Value(); v != uint64(client)<<32|uint64(idx) {
				return ev.Failf("client %d message %d carries the payload of client %d message %d (messages mixed up between connections)", client, idx, v>>32, v&0xFFFFFFFF)
			}
		case "sourcePodName":
			if v := el.GetStringValue(); v != podName(client, idx) {
				return ev.Failf("client %d message %d carries a string of %d bytes that begins %q, sent were %d bytes", client, idx, len(v), v[:min(len(v), 24)], len(podName(client, idx)))
			}
		}
	}
	return nil
}

func clip(s []uint32) []uint32 {
	if len(s) > 20 {
		return s[:20]
	}
	return s
}

func firstLines(s string, n int) string {
	l := strings.SplitN(s, "\n", n+1)
	if len(l) > n {
		l = l[:n]
	}
	return strings.Join(l, "\n")
}

func genCase(t *rapid.T) Case {
	c := Case{Proto: rapid.SampledFrom([]string{"tcp", "tcp", "udp", "tls"}).Draw(t, "proto"), Procs: rapid.SampledFrom([]int{2, 4, 16}).Draw(t, "procs")}
	n := rapid.IntRange(1, 24).Draw(t, "clients")
	for i := 0; i < n; i++ {
		cl := Client{Behaviour: rapid.SampledFrom([]string{"all", "all", "all", "abrupt", "idle", "dribble", "silent"}).Draw(t, "behaviour"),
			N: rapid.IntRange(0, 60).Draw(t, "n"), PauseUs: rapid.SampledFrom([]int{0, 0, 0, 10, 100}).Draw(t, "pause")}
		if cl.Behaviour == "dribble" && cl.N > 8 {
			cl.N = 8
		}
		c.Clients = append(c.Clients, cl)
	}
	if rapid.IntRange(0, 3).Draw(t, "stopduring") == 0 {
		c.StopDuring = true
		c.StopAfterUs = rapid.SampledFrom([]int{0, 100, 1000, 5000}).Draw(t, "stopafter")
	}
	return c
}

// runQuiet: a connection that delivered a message and then stays connected but quiet for Quiet must
// still be counted, and its next message must be delivered (meanwhile another client keeps sending).
func runQuiet(proto string, quiet time.Duration) (fl *ev.Failure) {
	in := collector.CollectorInput{Address: "127.0.0.1:0", Protocol: "tcp", MaxBufferSize: 65535}
	if proto == "tls" {
		in.IsEncrypted, in.ServerCert, in.ServerKey = true, srvCert.CertPEM, srvCert.KeyPEM
	}
	cp, err := collector.InitCollectingProcess(in)
	if err != nil {
		return ev.Failf("InitCollectingProcess: %v", err)
	}
	go cp.Start()
	for i := 0; i < 3000 && cp.GetAddress() == nil; i++ {
		time.Sleep(time.Millisecond)
	}
	var mu sync.Mutex
	got := map[uint32]int{}
	stop := make(chan struct{})
	done := make(chan struct{})
	go func() {
		defer close(done)
		for {
			select {
			case m := <-cp.GetMsgChan():
				mu.Lock()
				got[m.GetObsDomainID()]++
				mu.Unlock()
			case <-stop:
				return
			}
		}
	}()
	defer func() {
		if !stopBounded(cp) && fl == nil {
			fl = ev.Failf("Stop did not return within 30 s at the end of the scenario (deadlock?)")
		}
		close(stop)
		<-done
	}()
	dial := func() (net.Conn, error) {
		if proto == "tls" {
			roots := x509.NewCertPool()
			roots.AppendCertsFromPEM(ca.CertPEM)
			return tls.DialWithDialer(&net.Dialer{Timeout: 25 * time.Second}, "tcp", cp.GetAddress().String(), &tls.Config{RootCAs: roots, ServerName: "localhost"})
		}
		return net.Dial("tcp", cp.GetAddress().String())
	}
	a, err := dial()
	if err != nil {
		return nil
	}
	defer a.Close()
	b, err := dial()
	if err != nil {
		return nil
	}
	defer b.Close()
	a.Write(message(0, 0))
	a.Write(message(0, 1))
	b.Write(message(1, 0))
	// both connections must first be accepted and counted (on a loaded machine that can take a
	// moment); from then on the count must not drop
	for end := time.Now().Add(30 * time.Second); cp.GetNumConnToCollector() != 2; time.Sleep(time.Millisecond) {
		if time.Now().After(end) {
			return ev.Failf("two clients connected and sent messages, after 30 s GetNumConnToCollector() = %d", cp.GetNumConnToCollector())
		}
	}
	for end, k := time.Now().Add(quiet), 1; time.Now().Before(end); k++ {
		b.Write(message(1, k))
		time.Sleep(250 * time.Millisecond)
		if n := cp.GetNumConnToCollector(); n != 2 {
			return ev.Failf("a connected client that has been quiet for %v is no longer counted (%d connections, 2 clients are connected)", time.Since(end.Add(-quiet)).Round(100*time.Millisecond), n)
		}
	}
	if _, err := a.Write(message(0, 2)); err != nil {
		return ev.Failf("after %v of silence the collector had closed a healthy connection: %v", quiet, err)
	}
	for end := time.Now().Add(10 * time.Second); ; time.Sleep(time.Millisecond) {
		mu.Lock()
		n := got[1]
		mu.Unlock()
		if n >= 3 {
			return nil
		}
		if time.Now().After(end) {
			return ev.Failf("a message sent after %v of silence on a connection that was never closed was not delivered (%d of 3 delivered)", quiet, n)
		}
	}
}

// FailStart: Start cannot bring the server up (Why: the address is taken, or the TLS certificate
// does not parse); Stop must still return promptly and leave nothing behind.
type FailStart struct {
	Proto string `json:"proto"` // tcp | udp | tls
	Why   string `json:"why"`   // address_in_use | bad_certificate
}

func runFailStart(c FailStart) *ev.Failure {
	in := collector.CollectorInput{Address: "127.0.0.1:0", Protocol: "tcp", MaxBufferSize: 65535}
	if c.Proto == "udp" {
		in.Protocol = "udp"
	}
	if c.Proto == "tls" {
		in.IsEncrypted, in.ServerCert, in.ServerKey = true, srvCert.CertPEM, srvCert.KeyPEM
	}
	switch c.Why {
	case "address_in_use":
		if c.Proto == "udp" {
			pc, err := net.ListenPacket("udp", "127.0.0.1:0")
			if err != nil {
				return nil
			}
			defer pc.Close()
			in.Address = pc.LocalAddr().String()
		} else {
			ln, err := net.Listen("tcp", "127.0.0.1:0")
			if err != nil {
				return nil
			}
			defer ln.Close()
			in.Address = ln.Addr().String()
		}
	case "bad_certificate":
		in.ServerCert = []byte("-----BEGIN CERTIFICATE-----\nnot a certificate\n-----END CERTIFICATE-----\n")
	}
	cp, err := collector.InitCollectingProcess(in)
	if err != nil {
		return nil // refused at construction: nothing was started
	}
	started := make(chan struct{})
	go func() { defer close(started); cp.Start() }()
	select {
	case <-started: // Start gave up
	case <-time.After(2 * time.Second):
		if cp.GetAddress() != nil {
			return nil // the server came up after all (the address was free again): not this scenario
		}
	}
	stopped := make(chan struct{})
	go func() { defer close(stopped); cp.Stop() }()
	select {
	case <-stopped:
	case <-time.After(10 * time.Second):
		return ev.Failf("Stop did not return within 10 s after a Start that could not bring the %s server up (%s)", c.Proto, c.Why)
	}
	select {
	case <-started:
	case <-time.After(10 * time.Second):
		return ev.Failf("Start did not return within 10 s of Stop (%s, %s)", c.Proto, c.Why)
	}
	return nil
}

// Many: N clients connected at the same time, each delivering a template and one data message;
// then all disconnect and Rounds more waves of N short-lived clients follow; then one ordinary
// client. "Any number of concurrently connected exporters."
type Many struct {
	Proto  string `json:"proto"` // tcp | tls
	N      int    `json:"n"`
	Rounds int    `json:"rounds"`
}

func runMany(c Many) (fl *ev.Failure) {
	in := collector.CollectorInput{Address: "127.0.0.1:0", Protocol: "tcp", MaxBufferSize: 65535}
	if c.Proto == "tls" {
		in.IsEncrypted, in.ServerCert, in.ServerKey = true, srvCert.CertPEM, srvCert.KeyPEM
	}
	cp, err := collector.InitCollectingProcess(in)
	if err != nil {
		return ev.Failf("InitCollectingProcess: %v", err)
	}
	go cp.Start()
	for i := 0; i < 3000 && cp.GetAddress() == nil; i++ {
		time.Sleep(time.Millisecond)
	}
	if cp.GetAddress() == nil {
		return nil
	}
	var mu sync.Mutex
	got := map[uint32]int{}
	stop, done := make(chan struct{}), make(chan struct{})
	go func() {
		defer close(done)
		for {
			select {
			case m := <-cp.GetMsgChan():
				mu.Lock()
				got[m.GetObsDomainID()]++
				mu.Unlock()
			case <-stop:
				return
			}
		}
	}()
	defer func() {
		if !stopBounded(cp) && fl == nil {
			fl = ev.Failf("Stop did not return within 30 s at the end of the scenario (deadlock?)")
		}
		close(stop)
		<-done
	}()
	dial := func() (net.Conn, error) {
		if c.Proto == "tls" {
			roots := x509.NewCertPool()
			roots.AppendCertsFromPEM(ca.CertPEM)
			return tls.DialWithDialer(&net.Dialer{Timeout: 25 * time.Second}, "tcp", cp.GetAddress().String(), &tls.Config{RootCAs: roots, ServerName: "localhost"})
		}
		return net.Dial("tcp", cp.GetAddress().String())
	}
	delivered := func(lo, hi, per int, limit time.Duration) int {
		n := 0
		for end := time.Now().Add(limit); ; time.Sleep(2 * time.Millisecond) {
			n = 0
			mu.Lock()
			for k := lo; k < hi; k++ {
				if got[uint32(k+1)] >= per {
					n++
				}
			}
			mu.Unlock()
			if n == hi-lo || time.Now().After(end) {
				return n
			}
		}
	}
	next := 0
	wave := func(hold bool) ([]net.Conn, *ev.Failure) {
		lo := next
		next += c.N
		conns := make([]net.Conn, c.N)
		errs := make([]error, c.N)
		var wg sync.WaitGroup
		for k := 0; k < c.N; k++ {
			wg.Add(1)
			go func(k int) {
				defer wg.Done()
				conn, err := dial()
				if err != nil {
					errs[k] = err
					return
				}
				conns[k] = conn
				if _, err := conn.Write(message(lo+k, 0)); err != nil {
					errs[k] = err
					return
				}
				_, errs[k] = conn.Write(message(lo+k, 1))
			}(k)
		}
		wg.Wait()
		nerr := 0
		var first error
		for _, e := range errs {
			if e != nil {
				nerr++
				if first == nil {
					first = e
				}
			}
		}
		if n := delivered(lo, lo+c.N, 2, 30*time.Second); n != c.N || nerr > 0 {
			for _, x := range conns {
				if x != nil {
					x.Close()
				}
			}
			if nerr > 0 && strings.Contains(first.Error(), "too many open files") {
				return nil, nil // environment: descriptor limit
			}
			return nil, ev.Failf("%d %s clients connected at the same time, each sending a template and one data message: both messages of only %d clients were delivered (%d clients saw an error; first: %v; %d connections counted)", c.N, c.Proto, n, nerr, first, cp.GetNumConnToCollector())
		}
		if hold {
			if n := int(cp.GetNumConnToCollector()); n != c.N {
				for _, x := range conns {
					x.Close()
				}
				return nil, ev.Failf("%d clients are connected and served, GetNumConnToCollector() = %d", c.N, n)
			}
		}
		for _, x := range conns {
			x.Close()
		}
		for end := time.Now().Add(30 * time.Second); cp.GetNumConnToCollector() != 0; time.Sleep(2 * time.Millisecond) {
			if time.Now().After(end) {
				return nil, ev.Failf("all %d clients disconnected, GetNumConnToCollector() stays at %d", c.N, cp.GetNumConnToCollector())
			}
		}
		return conns, nil
	}
	for r := 0; r <= c.Rounds; r++ {
		if _, f := wave(r == 0); f != nil {
			return f
		}
	}
	// one ordinary exporter afterwards
	c.N = 1
	if _, f := wave(true); f != nil {
		return ev.Failf("after %d waves of clients had come and gone: %s", c.Rounds+1, f.Msg)
	}
	return nil
}

// runShared: two udp exporters share an observation domain and a template id. A sends the
// template and then large data sets back to back; B keeps re-announcing the same id, alternately
// with a definition the strict collector must refuse (which removes the stored template) and with
// the valid one. Whatever interleaving results: no crash, no data race, and every data message that
// is delivered carries exactly the records that were sent.
func runShared(rounds int) (fl *ev.Failure) {
	cp, err := collector.InitCollectingProcess(collector.CollectorInput{Address: "127.0.0.1:0", Protocol: "udp", MaxBufferSize: 65535, TemplateTTL: 3600})
	if err != nil {
		return ev.Failf("InitCollectingProcess: %v", err)
	}
	go cp.Start()
	for i := 0; i < 3000 && cp.GetAddress() == nil; i++ {
		time.Sleep(time.Millisecond)
	}
	if cp.GetAddress() == nil {
		return nil
	}
	var mu sync.Mutex
	var fail *ev.Failure
	delivered := 0
	stop, done := make(chan struct{}), make(chan struct{})
	const nrec = 1500
	go func() {
		defer close(done)
		for {
			select {
			case m := <-cp.GetMsgChan():
				if m.GetSet().GetSetType() != entities.Data {
					continue
				}
				recs := m.GetSet().GetRecords()
				mu.Lock()
				delivered++
				if len(recs) != nrec && fail == nil {
					fail = ev.Failf("a data set of %d records was delivered with %d records while its template was being re-announced by another exporter", nrec, len(recs))
				}
				for k, r := range recs {
					els := r.GetOrderedElementList()
					if fail == nil && len(els) != len(fields) {
						fail = ev.Failf("record %d of a delivered data set has %d fields, %d were sent", k, len(els), len(fields))
					}
					for fi, f := range fields {
						if fail == nil && f.Type == ref.TU64 && els[fi].GetUnsigned64Value() != uint64(k) {
							fail = ev.Failf("record %d of a delivered data set carries counter %d, %d was sent", k, els[fi].GetUnsigned64Value(), k)
						}
					}
				}
				mu.Unlock()
			case <-stop:
				return
			}
		}
	}()
	defer func() {
		if !stopBounded(cp) && fl == nil {
			fl = ev.Failf("Stop did not return within 30 s at the end of the scenario (deadlock?)")
		}
		close(stop)
		<-done
	}()
	h := ref.Header{Domain: 9, ExportTime: 1700000000}
	tplMsg := ref.TemplateMessage(h, ref.Template{ID: 256, Fields: fields})
	bad := ref.TemplateMessage(h, ref.Template{ID: 256, Fields: append(append([]ref.Field(nil), fields...), ref.Field{ID: 20001, Ent: 4242, Len: 4, Type: ref.TOctets})})
	var recs [][]ref.Value
	for k := 0; k < nrec; k++ {
		var vals []ref.Value
		for _, f := range fields {
			switch {
			case f.Type == ref.TString:
				vals = append(vals, ref.Value{B: []byte("pod")})
			case f.Type.IsBytes():
				vals = append(vals, ref.Value{B: []byte{10, 0, byte(k >> 8), byte(k)}})
			default:
				vals = append(vals, ref.Value{U: uint64(k)})
			}
		}
		recs = append(recs, vals)
	}
	dataMsg := ref.DataMessage(h, ref.Template{ID: 256, Fields: fields}, recs)
	a, err := net.Dial("udp", cp.GetAddress().String())
	if err != nil {
		return nil
	}
	defer a.Close()
	b, err := net.Dial("udp", cp.GetAddress().String())
	if err != nil {
		return nil
	}
	defer b.Close()
	a.Write(tplMsg)
	time.Sleep(5 * time.Millisecond)
	var wg sync.WaitGroup
	wg.Add(2)
	go func() {
		defer wg.Done()
		for k := 0; k < rounds; k++ {
			a.Write(dataMsg)
			if k%8 == 7 {
				time.Sleep(time.Millisecond)
			}
		}
	}()
	go func() {
		defer wg.Done()
		for k := 0; k < rounds; k++ {
			b.Write(bad)
			time.Sleep(200 * time.Microsecond)
			b.Write(tplMsg)
			time.Sleep(300 * time.Microsecond)
		}
	}()
	wg.Wait()
	time.Sleep(50 * time.Millisecond)
	mu.Lock()
	defer mu.Unlock()
	return fail
}

// runFDExhaustion: the process runs out of file descriptors while exporters are connected and one
// more connection is pending, stays that way for hold, and then Stop is called: it must still
// return promptly. Linux only; the descriptor limit of this process is lowered for the duration
// and restored afterwards, so the scenario runs alone.
func runFDExhaustion(hold time.Duration) *ev.Failure {
	if runtime.GOOS != "linux" {
		return nil
	}
	var old syscall.Rlimit
	if err := syscall.Getrlimit(syscall.RLIMIT_NOFILE, &old); err != nil {
		return nil
	}
	cp, err := collector.InitCollectingProcess(collector.CollectorInput{Address: "127.0.0.1:0", Protocol: "tcp", MaxBufferSize: 65535})
	if err != nil {
		return nil
	}
	go cp.Start()
	for i := 0; i < 3000 && cp.GetAddress() == nil; i++ {
		time.Sleep(time.Millisecond)
	}
	if cp.GetAddress() == nil {
		return nil
	}
	stopDrain, drained := make(chan struct{}), make(chan struct{})
	go func() {
		defer close(drained)
		for {
			select {
			case <-cp.GetMsgChan():
			case <-stopDrain:
				return
			}
		}
	}()
	var conns []net.Conn
	var fillers []*os.File
	restore := func() {
		for _, f := range fillers {
			f.Close()
		}
		fillers = nil
		syscall.Setrlimit(syscall.RLIMIT_NOFILE, &old)
		for _, c := range conns {
			c.Close()
		}
	}
	for k := 0; k < 3; k++ {
		c, err := net.Dial("tcp", cp.GetAddress().String())
		if err != nil {
			restore()
			stopBounded(cp)
			close(stopDrain)
			<-drained
			return nil
		}
		c.Write(message(k, 0))
		conns = append(conns, c)
	}
	time.Sleep(50 * time.Millisecond)
	ents, err := os.ReadDir("/proc/self/fd")
	if err != nil {
		restore()
		stopBounded(cp)
		close(stopDrain)
		<-drained
		return nil
	}
	lim := old
	lim.Cur = uint64(len(ents) + 24)
	if lim.Cur >= old.Cur || syscall.Setrlimit(syscall.RLIMIT_NOFILE, &lim) != nil {
		restore()
		stopBounded(cp)
		close(stopDrain)
		<-drained
		return nil
	}
	for {
		f, err := os.Open("/dev/null")
		if err != nil {
			break
		}
		fillers = append(fillers, f)
		if len(fillers) > 4096 {
			break
		}
	}
	exhausted := len(fillers) > 0 && len(fillers) <= 4096
	if exhausted {
		// free exactly one slot and use it for a connection: it completes in the kernel, the
		// collector cannot accept it
		fillers[len(fillers)-1].Close()
		fillers = fillers[:len(fillers)-1]
		if c, err := net.Dial("tcp", cp.GetAddress().String()); err == nil {
			conns = append(conns, c)
		}
		time.Sleep(hold)
	}
	t0 := time.Now()
	stopped := make(chan struct{})
	go func() { cp.Stop(); close(stopped) }()
	var fail *ev.Failure
	select {
	case <-stopped:
		if d := time.Since(t0); exhausted && d > 2*time.Second {
			fail = ev.Failf("after the process had been out of file descriptors for %v (3 exporters connected, one connection pending), Stop took %v", hold, d.Round(10*time.Millisecond))
		}
	case <-time.After(30 * time.Second):
		fail = ev.Failf("after the process had been out of file descriptors for %v, Stop did not return within 30 s", hold)
	}
	restore()
	close(stopDrain)
	<-drained
	return fail
}

// runLinkLocal: an exporter connects over an IPv6 link-local address (its address carries a zone,
// "fe80::1%eth0"), sends, and disconnects: the message is delivered and the connection count
// returns to zero like for any other client. Skipped when the host has no link-local address.
func runLinkLocal(proto string) (fl *ev.Failure) {
	var ll string
	ifs, _ := net.Interfaces()
	for _, ifc := range ifs {
		addrs, _ := ifc.Addrs()
		for _, a := range addrs {
			if ipn, ok := a.(*net.IPNet); ok && ipn.IP.To4() == nil && ipn.IP.IsLinkLocalUnicast() && ifc.Flags&net.FlagUp != 0 {
				ll = ipn.IP.String() + "%" + ifc.Name
			}
		}
	}
	if ll == "" {
		return nil
	}
	in := collector.CollectorInput{Address: "[" + ll + "]:0", Protocol: "tcp", MaxBufferSize: 65535, IsIPv6: true}
	if proto == "tls" {
		in.IsEncrypted, in.ServerCert, in.ServerKey = true, srvCert.CertPEM, srvCert.KeyPEM
	}
	cp, err := collector.InitCollectingProcess(in)
	if err != nil {
		return nil
	}
	go cp.Start()
	for i := 0; i < 2000 && cp.GetAddress() == nil; i++ {
		time.Sleep(time.Millisecond)
	}
	if cp.GetAddress() == nil {
		return nil // cannot listen on that address here
	}
	var mu sync.Mutex
	n := 0
	stop, done := make(chan struct{}), make(chan struct{})
	go func() {
		defer close(done)
		for {
			select {
			case <-cp.GetMsgChan():
				mu.Lock()
				n++
				mu.Unlock()
			case <-stop:
				return
			}
		}
	}()
	defer func() {
		if !stopBounded(cp) && fl == nil {
			fl = ev.Failf("Stop did not return within 30 s at the end of the scenario (deadlock?)")
		}
		close(stop)
		<-done
	}()
	for round := 0; round < 3; round++ {
		var conn net.Conn
		if proto == "tls" {
			roots := x509.NewCertPool()
			roots.AppendCertsFromPEM(ca.CertPEM)
			conn, err = tls.DialWithDialer(&net.Dialer{Timeout: 25 * time.Second}, "tcp", cp.GetAddress().String(), &tls.Config{RootCAs: roots, ServerName: "localhost"})
		} else {
			conn, err = net.Dial("tcp", cp.GetAddress().String())
		}
		if err != nil {
			return nil
		}
		conn.Write(message(round, 0))
		for end := time.Now().Add(10 * time.Second); ; time.Sleep(time.Millisecond) {
			mu.Lock()
			k := n
			mu.Unlock()
			if k > round {
				break
			}
			if time.Now().After(end) {
				conn.Close()
				return ev.Failf("a message sent over a link-local connection (%s, %s) was not delivered", ll, proto)
			}
		}
		conn.Close()
		for end := time.Now().Add(10 * time.Second); cp.GetNumConnToCollector() != 0; time.Sleep(time.Millisecond) {
			if time.Now().After(end) {
				return ev.Failf("after %d clients connected over the link-local address %s (%s) and disconnected, GetNumConnToCollector() = %d", round+1, ll, proto, cp.GetNumConnToCollector())
			}
		}
	}
	return nil
}

func TestC12(t *testing.T) {
	if ev.Shard() <= 1 {
		for _, proto := range []string{"tcp", "tls"} {
			f := runLinkLocal(proto)
			rec.Case(ev.Hash([]any{"link_local", proto}), true, "client_over_link_local_address")
			if f != nil {
				rec.Violation("link_local", proto, f.Msg)
				t.Fatalf("%s", f.Msg)
			}
		}
	}
	if ev.Shard() <= 1 {
		cs := []SlowStop{{Conns: 6, PerConn: 4, ConsumerMs: 200}}
		if rec.Thorough() {
			cs = append(cs, SlowStop{Conns: 3, PerConn: 30, ConsumerMs: 150}, SlowStop{Conns: 12, PerConn: 2, ConsumerMs: 1000})
		}
		for _, c := range cs {
			f := runSlowStop(c)
			rec.Case(ev.Hash([]any{"stop_with_slow_consumer", c}), true, "stop_with_slow_consumer")
			if f != nil {
				rec.Violation("stop_with_slow_consumer", c, f.Msg)
				t.Fatalf("%s", f.Msg)
			}
		}
	}
	if ev.Shard() <= 1 {
		f := runNoRegistry(0)
		rec.Case(ev.Hash([]any{"no_registry"}), true, "process_that_never_loaded_the_registry")
		if f != nil {
			rec.Violation("no_registry", 0, f.Msg)
			t.Fatalf("%s", f.Msg)
		}
	}
	if ev.Shard() <= 1 {
		hold := 11 * time.Second
		f := runFDExhaustion(hold)
		rec.Case(ev.Hash([]any{"fd_exhaustion", hold.Seconds()}), true, "stop_after_descriptor_exhaustion")
		if f != nil {
			rec.Violation("fd_exhaustion", hold.Seconds(), f.Msg)
			t.Fatalf("%s", f.Msg)
		}
	}
	if ev.Shard() <= 1 {
		rounds := 300
		if rec.Thorough() {
			rounds = 3000
		}
		var f *ev.Failure
		ok := t.Run("shared_domain", func(t *testing.T) {
			f = runShared(rounds)
			rec.Case(ev.Hash([]any{"shared_domain", rounds}), true, "two_exporters_share_domain_and_template_id")
			if f != nil {
				rec.Violation("shared_domain", rounds, f.Msg)
				t.Errorf("%s", f.Msg)
			}
		})
		if !ok && f == nil {
			rec.Violation("race_shared_domain", rounds, "the race detector reported a data race in the shared-domain scenario (two udp exporters, one template id; the report is in the check's output)")
		}
		if !ok {
			return
		}
	}
	// every run: Stop after a Start that failed; many clients at once, in waves
	if ev.Shard() <= 1 {
		for _, c := range []FailStart{{"tcp", "address_in_use"}, {"udp", "address_in_use"}, {"tls", "address_in_use"}, {"tls", "bad_certificate"}} {
			c := c
			t.Run("failstart_"+c.Proto+"_"+c.Why, func(t *testing.T) {
				t.Parallel()
				f := runFailStart(c)
				rec.Case(ev.Hash(c), true, "stop_after_failed_start")
				if f != nil {
					rec.Violation("stop_after_failed_start", c, f.Msg)
					t.Errorf("%s", f.Msg)
				}
			})
		}
		many := []Many{{"tcp", 300, 2}, {"tls", 120, 1}}
		if rec.Thorough() {
			many = []Many{{"tcp", 700, 3}, {"tls", 300, 2}}
		}
		for _, c := range many {
			c := c
			t.Run(fmt.Sprintf("many_%s_%d", c.Proto, c.N), func(t *testing.T) {
				t.Parallel()
				f := runMany(c)
				rec.Case(ev.Hash(c), true, "many_clients_in_waves")
				if f != nil {
					rec.Violation("many_clients", c, f.Msg)
					t.Errorf("%s", f.Msg)
				}
			})
		}
	}
	// once per run: a connection that stays quiet for a while (6 s; 20 s in the thorough tier)
	if ev.Shard() <= 1 {
		quiet := 6 * time.Second
		if rec.Thorough() {
			quiet = 20 * time.Second
		}
		for _, proto := range []string{"tcp", "tls"} {
			proto := proto
			var f *ev.Failure
			t.Run("quiet_"+proto, func(t *testing.T) {
				t.Parallel()
				f = runQuiet(proto, quiet)
				rec.Case(ev.Hash([]any{"quiet", proto}), true, "quiet_connection")
				if f != nil {
					rec.Violation("quiet_connection", map[string]any{"proto": proto, "quiet_s": quiet.Seconds()}, f.Msg)
					t.Errorf("%s", f.Msg)
				}
			})
		}
	}
	n := rec.Scale(400, 40000)
	g := rapid.Custom(genCase)
	for i := 0; i < n; i++ {
		c := g.Example(int(ev.Seed())*1000003 + i)
		var fail *ev.Failure
		var overlapped bool
		ok := t.Run(fmt.Sprintf("case%d", i), func(t *testing.T) {
			fail, overlapped = runCase(c)
			if fail != nil {
				t.Errorf("%s", fail.Msg)
			}
		})
		cl := []string{"proto_" + c.Proto, fmt.Sprintf("gomaxprocs_%d", c.Procs)}
		if c.StopDuring {
			cl = append(cl, "stop_during_traffic")
		}
		rec.Case(ev.Hash(c), overlapped, cl...)
		if len(c.Clients) <= 3 {
			rec.Sample(c.Proto, c)
		}
		if fail != nil {
			rec.Violation("sessions", c, fail.Msg)
			return
		}
		if !ok {
			rec.Violation("race", c, "the race detector reported a data race while this case ran (the report is in the check's output)")
			return
		}
	}
}
