//go:build verif

package c12

import (
	"net"
	"sync/atomic"
	"time"

	"github.com/vmware/go-ipfix/pkg/collector"

	"verifharness/ev"
)

// SlowStop: Stop under traffic with a consumer that keeps draining, steadily and slowly. Conns tcp
// connections have written a template and PerConn data messages each (they sit in the collector's
// read buffers); the consumer takes ConsumerMs per message; Stop is called 500 ms into the traffic.
// The consumer never stops draining, so Stop returns (it may take as long as the pending messages
// take the consumer), and when it has returned no goroutine of the collecting process is left.
type SlowStop struct {
	Conns      int `json:"conns"`
	PerConn    int `json:"per_conn"`
	ConsumerMs int `json:"consumer_ms"`
}

func runSlowStop(c SlowStop) *ev.Failure {
	cp, err := collector.InitCollectingProcess(collector.CollectorInput{Address: "127.0.0.1:0", Protocol: "tcp", MaxBufferSize: 65535, TemplateTTL: 3600})
	if err != nil {
		return ev.Failf("InitCollectingProcess: %v", err)
	}
	go cp.Start()
	for i := 0; i < 3000 && cp.GetAddress() == nil; i++ {
		time.Sleep(time.Millisecond)
	}
	if cp.GetAddress() == nil {
		return nil
	}
	var delivered atomic.Int64
	consumerStop, consumerDone := make(chan struct{}), make(chan struct{})
	go func() {
		defer close(consumerDone)
		for {
			select {
			case <-cp.GetMsgChan():
				delivered.Add(1)
				time.Sleep(time.Duration(c.ConsumerMs) * time.Millisecond)
			case <-consumerStop:
				return
			}
		}
	}()
	defer func() { close(consumerStop); <-consumerDone }()
	var conns []net.Conn
	defer func() {
		for _, conn := range conns {
			conn.Close()
		}
	}()
	for ci := 0; ci < c.Conns; ci++ {
		conn, err := net.Dial("tcp", cp.GetAddress().String())
		if err != nil {
			return nil
		}
		conns = append(conns, conn)
		var stream []byte
		for k := 0; k <= c.PerConn; k++ {
			stream = append(stream, message(ci, k)...)
		}
		if _, err := conn.Write(stream); err != nil {
			return nil
		}
	}
	time.Sleep(500 * time.Millisecond)
	pending := time.Duration(c.Conns*(c.PerConn+1)*c.ConsumerMs) * time.Millisecond
	t0 := time.Now()
	done := make(chan struct{})
	go func() { cp.Stop(); close(done) }()
	select {
	case <-done:
	case <-time.After(pending + 30*time.Second):
		return ev.Failf("Stop did not return within %v although the consumer kept draining (%d ms per message, %d connections with %d messages each)", pending+30*time.Second, c.ConsumerMs, c.Conns, c.PerConn+1)
	}
	took := time.Since(t0)
	time.Sleep(100 * time.Millisecond)
	if g := collectorGoroutines(); g != "" {
		return ev.Failf("Stop returned after %v while the consumer kept draining at %d ms per message (%d tcp connections, %d messages each, %d delivered so far): a goroutine of the collecting process is still there:\n%s", took.Round(time.Millisecond), c.ConsumerMs, c.Conns, c.PerConn+1, delivered.Load(), firstLines(g, 12))
	}
	return nil
}
