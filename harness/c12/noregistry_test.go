//go:build verif

package c12

import (
	"bytes"
	"fmt"
	"net"
	"os"
	"os/exec"
	"strings"
	"sync"
	"time"

	"github.com/vmware/go-ipfix/pkg/collector"

	"verifharness/ev"
	ref "verifharness/refipfix"
)

// A hosting process that never loads the built-in registries (a working configuration in the lenient
// decoding modes: every element is then unknown and carried as octets). The harness itself loads the
// registry in every test binary, so this scenario runs in a child process - this test binary started
// again with VERIF_C12_CHILD=noregistry, which takes the branch below before anything touches the
// registry. 24 exporters connect and send their first templates at the same moment (the herd after a
// collector restart); every message must be delivered, without a race report or a crash.
func childNoRegistry() int {
	cp, err := collector.InitCollectingProcess(collector.CollectorInput{Address: "127.0.0.1:0", Protocol: "tcp", MaxBufferSize: 65535, DecodingMode: collector.DecodingModeLenientKeepUnknown})
	if err != nil {
		fmt.Println("CHILD-ENV", err)
		return 0
	}
	go cp.Start()
	for i := 0; i < 3000 && cp.GetAddress() == nil; i++ {
		time.Sleep(time.Millisecond)
	}
	if cp.GetAddress() == nil {
		fmt.Println("CHILD-ENV no address")
		return 0
	}
	const clients, perClient = 24, 21
	var mu sync.Mutex
	got := 0
	stop, done := make(chan struct{}), make(chan struct{})
	go func() {
		defer close(done)
		for {
			select {
			case <-cp.GetMsgChan():
				mu.Lock()
				got++
				mu.Unlock()
			case <-stop:
				return
			}
		}
	}()
	tpl := ref.Template{ID: 256, Fields: []ref.Field{{ID: 8, Len: 4}, {ID: 4, Len: 1}, {ID: 101, Ent: 56506, Len: ref.VarLen}}}
	gate := make(chan struct{})
	var wg sync.WaitGroup
	for c := 0; c < clients; c++ {
		wg.Add(1)
		go func(c int) {
			defer wg.Done()
			conn, err := net.Dial("tcp", cp.GetAddress().String())
			if err != nil {
				return
			}
			defer conn.Close()
			var stream []byte
			stream = append(stream, ref.TemplateMessage(ref.Header{Domain: uint32(100 + c)}, tpl)...)
			for k := 1; k < perClient; k++ {
				stream = append(stream, ref.EncodeMessage(ref.Header{Domain: uint32(100 + c), Seq: uint32(k)}, 256, []byte{10, 0, 0, byte(c), 6, 3, 'p', 'o', 'd'})...)
			}
			<-gate
			conn.Write(stream)
			time.Sleep(300 * time.Millisecond)
		}(c)
	}
	time.Sleep(50 * time.Millisecond)
	close(gate)
	wg.Wait()
	for end := time.Now().Add(10 * time.Second); time.Now().Before(end); time.Sleep(5 * time.Millisecond) {
		mu.Lock()
		n := got
		mu.Unlock()
		if n >= clients*perClient {
			break
		}
	}
	stopped := make(chan struct{})
	go func() { cp.Stop(); close(stopped) }()
	select {
	case <-stopped:
	case <-time.After(20 * time.Second):
		fmt.Println("CHILD-FAIL Stop did not return")
		return 3
	}
	close(stop)
	<-done
	if got != clients*perClient {
		fmt.Printf("CHILD-FAIL %d of %d messages delivered\n", got, clients*perClient)
		return 3
	}
	fmt.Println("CHILD-OK")
	return 0
}

func runNoRegistry(_ int) *ev.Failure {
	cmd := exec.Command(os.Args[0], "-test.run=^$")
	cmd.Env = append(os.Environ(), "VERIF_C12_CHILD=noregistry", "VERIF_EVIDENCE_OUT=", "VERIF_REPLAY=")
	var out bytes.Buffer
	cmd.Stdout, cmd.Stderr = &out, &out
	if err := cmd.Start(); err != nil {
		return nil
	}
	done := make(chan error, 1)
	go func() { done <- cmd.Wait() }()
	var werr error
	select {
	case werr = <-done:
	case <-time.After(90 * time.Second):
		cmd.Process.Kill()
		return ev.Failf("a collector in a process that never loaded the registry, 24 exporters sending their first templates at once: the process did not finish within 90 s")
	}
	o := out.String()
	switch {
	case strings.Contains(o, "DATA RACE"):
		i := strings.Index(o, "DATA RACE")
		return ev.Failf("a collector in a process that never loaded the registry, 24 exporters sending their first templates at once: the race detector reports a data race: %s", clipStr(o[i:], 700))
	case strings.Contains(o, "fatal error") || strings.Contains(o, "panic:"):
		return ev.Failf("a collector in a process that never loaded the registry, 24 exporters at once: the process crashed: %s", clipStr(o, 500))
	case strings.Contains(o, "CHILD-FAIL"):
		return ev.Failf("a collector in a process that never loaded the registry, 24 exporters at once: %s", clipStr(o[strings.Index(o, "CHILD-FAIL"):], 200))
	case strings.Contains(o, "CHILD-OK") || strings.Contains(o, "CHILD-ENV"):
		return nil
	}
	_ = werr
	return nil // the child did not get as far as the scenario: no verdict
}

func clipStr(s string, n int) string {
	if len(s) > n {
		return s[:n]
	}
	return s
}
