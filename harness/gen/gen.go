// Package gen holds the rapid generators shared by the checks.
package gen

import (
	"unicode/utf8"

	"pgregory.net/rapid"

	ref "verifharness/refipfix"
)

var u64Bounds = []uint64{0, 1, 2, 0x7F, 0x80, 0xFF, 0x100, 0x7FFF, 0x8000, 0xFFFF, 0x10000, 0x7FFFFFFF, 0x80000000,
	0xFFFFFFFF, 0x100000000, 0x7FFFFFFFFFFFFFFF, 0x8000000000000000, 0xFFFFFFFFFFFFFFFF, 0xFFFFFFFFFFFFFFFE,
	0x0102030405060708, 0x8070605040302010, 0x00FF00FF00FF00FF, 0xFF00FF00FF00FF00}

// f64 bit patterns: ±0, ±Inf, quiet/signalling NaN with payloads, subnormals, extremes.
var f64Bounds = []uint64{0, 0x8000000000000000, 0x7FF0000000000000, 0xFFF0000000000000, 0x7FF8000000000000,
	0x7FF0000000000001, 0xFFF8000000000001, 0x7FFFFFFFFFFFFFFF, 0x0000000000000001, 0x000FFFFFFFFFFFFF,
	0x0010000000000000, 0x7FEFFFFFFFFFFFFF, 0x3FF0000000000000, 0xBFF0000000000000, 0x7FF4000000000000}
var f32Bounds = []uint64{0, 0x80000000, 0x7F800000, 0xFF800000, 0x7FC00000, 0x7F800001, 0xFFC00001, 0x7FFFFFFF,
	0x00000001, 0x007FFFFF, 0x00800000, 0x7F7FFFFF, 0x3F800000, 0xBF800000, 0x7FA00000}

// Bits generates a bit pattern for a numeric type with boundary bias.
func Bits(t ref.Type) *rapid.Generator[uint64] {
	w := uint(t.Width()) * 8
	mask := ^uint64(0)
	if w < 64 {
		mask = (uint64(1) << w) - 1
	}
	bounds := u64Bounds
	switch t {
	case ref.TF64:
		bounds = append(append([]uint64{}, f64Bounds...), u64Bounds...)
	case ref.TF32:
		bounds = append(append([]uint64{}, f32Bounds...), u64Bounds...)
	case ref.TBool:
		return rapid.Uint64Range(0, 1)
	}
	return rapid.Custom(func(t *rapid.T) uint64 {
		if rapid.IntRange(0, 9).Draw(t, "cls") < 4 {
			return rapid.SampledFrom(bounds).Draw(t, "bound") & mask
		}
		return rapid.Uint64().Draw(t, "bits") & mask
	})
}

// VarLenLength generates a length for a variable-length value: the encoding boundaries,
// small, medium and (rarely, bounded by max) large.
func VarLenLength(max int) *rapid.Generator[int] {
	return rapid.Custom(func(t *rapid.T) int {
		var n int
		switch c := rapid.IntRange(0, 19).Draw(t, "lencls"); {
		case c < 6:
			n = rapid.SampledFrom([]int{0, 1, 253, 254, 255, 256, 257}).Draw(t, "blen")
		case c < 14:
			n = rapid.IntRange(0, 40).Draw(t, "slen")
		case c < 18:
			n = rapid.IntRange(0, 1200).Draw(t, "mlen")
		default:
			n = rapid.IntRange(0, 65535).Draw(t, "llen")
		}
		if n > max {
			n = max
		}
		return n
	})
}

// BytesN generates n bytes cheaply (one 64-bit draw expanded by an LCG plus a few
// explicit bytes, so that long values do not cost one draw per byte).
func BytesN(t *rapid.T, n int, label string) []byte {
	if n == 0 {
		return []byte{}
	}
	b := make([]byte, n)
	if n <= 24 {
		for i := range b {
			b[i] = rapid.Byte().Draw(t, label)
		}
		return b
	}
	x := rapid.Uint64().Draw(t, label+"_seed")
	for i := range b {
		x = x*6364136223846793005 + 1442695040888963407
		b[i] = byte(x >> 56)
	}
	return b
}

// UTF8N generates a valid UTF-8 string of exactly n bytes.
func UTF8N(t *rapid.T, n int, label string) []byte {
	out := make([]byte, 0, n)
	// one string in ten starts with a character that text tools like to strip or to take for
	// something else: the byte order mark (Windows tools write it), a space, a line break, a NUL
	if n >= 3 && rapid.IntRange(0, 9).Draw(t, label+"_lead") == 0 {
		lead := rapid.SampledFrom([]string{"\uFEFF", " ", "\n", "\x00", "\t", "\uFEFF\uFEFF"}).Draw(t, label+"_leadch")
		if len(lead) <= n {
			out = append(out, lead...)
		}
	}
	if n <= 24 {
		for len(out) < n {
			r := rapid.SampledFrom([]rune{'a', 'Z', '0', ' ', '/', '-', '"', 0, 0x7F, 'é', 'ß', '€', '語', '😀'}).Draw(t, label)
			if len(out)+utf8.RuneLen(r) > n {
				r = 'x'
			}
			out = utf8.AppendRune(out, r)
		}
		return out
	}
	x := rapid.Uint64().Draw(t, label+"_seed")
	alphabet := []rune{'a', 'b', 'k', 'z', 'A', 'Q', '0', '9', '-', '_', '/', '.', ' ', 'é', '€', '語', '😀'}
	for len(out) < n {
		x = x*6364136223846793005 + 1442695040888963407
		r := alphabet[(x>>40)%uint64(len(alphabet))]
		if len(out)+utf8.RuneLen(r) > n {
			r = 'x'
		}
		out = utf8.AppendRune(out, r)
	}
	return out
}

// Value generates a well-typed value for field f. maxVar bounds variable-length values.
func Value(t *rapid.T, f ref.Field, maxVar int) ref.Value {
	switch f.Type {
	case ref.TOctets:
		n := int(f.Len)
		if f.Len == ref.VarLen {
			n = VarLenLength(maxVar).Draw(t, "olen")
		}
		return ref.Value{B: BytesN(t, n, "octets")}
	case ref.TString:
		n := int(f.Len)
		if f.Len == ref.VarLen {
			n = VarLenLength(maxVar).Draw(t, "strlen")
		}
		return ref.Value{B: UTF8N(t, n, "str")}
	case ref.TMac:
		return ref.Value{B: BytesN(t, 6, "mac")}
	case ref.TIPv4:
		b := addr(t, 4)
		if rapid.IntRange(0, 11).Draw(t, "mapped") == 0 { // held in its 16-byte (IPv4-mapped) form
			b = ref.CanonIP(ref.TIPv6, b)
		}
		return ref.Value{B: b}
	case ref.TIPv6:
		if rapid.IntRange(0, 11).Draw(t, "v4form") == 0 { // an IPv4 address (4 bytes) in an IPv6 element
			return ref.Value{B: addr(t, 4)}
		}
		return ref.Value{B: addr(t, 16)}
	}
	return ref.Value{U: Bits(f.Type).Draw(t, "bits")}
}

func addr(t *rapid.T, n int) []byte {
	switch rapid.IntRange(0, 5).Draw(t, "addrcls") {
	case 0:
		return make([]byte, n)
	case 1:
		b := make([]byte, n)
		for i := range b {
			b[i] = 0xFF
		}
		return b
	case 2:
		if n == 16 { // IPv4-mapped IPv6
			b := make([]byte, 16)
			b[10], b[11] = 0xFF, 0xFF
			copy(b[12:], BytesN(t, 4, "mapped"))
			return b
		}
	}
	return BytesN(t, n, "addr")
}

// LongPrefixes marks some of the short variable-length values of a record to be written with the
// three-byte length prefix (collector-side checks only: a collector must accept both forms).
func LongPrefixes(t *rapid.T, fields []ref.Field, rec []ref.Value) {
	for i, f := range fields {
		if f.Len == ref.VarLen && len(rec[i].B) < 255 && rapid.IntRange(0, 5).Draw(t, "longprefix") == 0 {
			rec[i].Long = true
		}
	}
}
