package gen

import (
	"pgregory.net/rapid"

	ref "verifharness/refipfix"
)

// TField is a template field as put on the wire (WireLen) and as a collector holding the
// registry will see it (Field: registry length and type for known elements; wire length,
// octetArray and an empty name for unknown ones).
type TField struct {
	ref.Field
	Unknown bool   `json:"unknown,omitempty"`
	WireLen uint16 `json:"wire_len"`
}

// Pool is the set of elements templates are drawn from.
type Pool struct {
	Known   []ref.Field
	isKnown map[[2]uint32]bool
}

// NewPool builds a pool from the elements known to the collector's registry. taken lists
// every (enterprise, id) the registry holds, including elements of unsupported data types:
// those must not be drawn as "unknown" elements.
func NewPool(known []ref.Field, taken [][2]uint32) *Pool {
	p := &Pool{Known: known, isKnown: map[[2]uint32]bool{}}
	for _, f := range known {
		p.isKnown[[2]uint32{f.Ent, uint32(f.ID)}] = true
	}
	for _, k := range taken {
		p.isKnown[k] = true
	}
	return p
}

// IsKnown reports whether (ent,id) is in the pool.
func (p *Pool) IsKnown(ent uint32, id uint16) bool { return p.isKnown[[2]uint32{ent, uint32(id)}] }

// KnownField draws a known element; wire length equals the registry length.
func (p *Pool) KnownField(t *rapid.T) TField {
	f := p.Known[rapid.IntRange(0, len(p.Known)-1).Draw(t, "known")]
	return TField{Field: f, WireLen: f.Len}
}

// UnknownField draws an element absent from the registry (unassigned IANA id, unknown id in
// a known enterprise, unknown enterprise) with a fixed or variable wire length.
func (p *Pool) UnknownField(t *rapid.T, allowZeroLen bool) TField {
	for {
		// enterprises: IANA, the two registered ones (with ids they do not define), unregistered ones,
		// and unregistered numbers above 2^16 whose low 16 bits equal a registered enterprise
		ent := rapid.SampledFrom([]uint32{0, 0, 29305, 56506, 4242, 0xFFFFFFFF, 65536, 131072, 65536 + 29305, 65536 + 56506, 0x80000000, 7<<16 + 29305}).Draw(t, "uent")
		id := uint16(rapid.IntRange(1, 0x7FFF).Draw(t, "uid"))
		if ent >= 65536 && ent != 0xFFFFFFFF && rapid.Bool().Draw(t, "alias") {
			// ... together with an element id that the registered enterprise does define
			var ids []uint16
			for _, f := range p.Known {
				if f.Ent == ent&0xFFFF {
					ids = append(ids, f.ID)
				}
			}
			if len(ids) > 0 {
				id = ids[rapid.IntRange(0, len(ids)-1).Draw(t, "aliasid")]
			}
		}
		if (ent == 29305 || ent == 56506) && rapid.IntRange(0, 2).Draw(t, "ianaid") == 0 {
			// a registered enterprise with the id of an IANA element it has no counterpart for (the
			// reverse registry, 29305, only mirrors the reversible IANA elements)
			var ids []uint16
			for _, f := range p.Known {
				if f.Ent == 0 && !p.IsKnown(ent, f.ID) {
					ids = append(ids, f.ID)
				}
			}
			if len(ids) > 0 {
				id = ids[rapid.IntRange(0, len(ids)-1).Draw(t, "ianaidx")]
			}
		}
		if p.IsKnown(ent, id) {
			continue
		}
		lens := []uint16{1, 2, 3, 4, 5, 8, 16, 64, ref.VarLen, ref.VarLen, ref.VarLen}
		if allowZeroLen {
			lens = append(lens, 0)
		}
		l := rapid.SampledFrom(lens).Draw(t, "ulen")
		return TField{Field: ref.Field{ID: id, Ent: ent, Len: l, Type: ref.TOctets}, Unknown: true, WireLen: l}
	}
}

// Wire returns the template as it is put on the wire.
func Wire(id uint16, fs []TField) ref.Template {
	t := ref.Template{ID: id}
	for _, f := range fs {
		t.Fields = append(t.Fields, ref.Field{ID: f.ID, Ent: f.Ent, Len: f.WireLen})
	}
	return t
}

// View returns the fields as the collector will hold them.
func View(fs []TField) []ref.Field {
	out := make([]ref.Field, len(fs))
	for i, f := range fs {
		out[i] = f.Field
	}
	return out
}

// Drop returns the view without the unknown fields.
func Drop(fs []TField) []ref.Field {
	var out []ref.Field
	for _, f := range fs {
		if !f.Unknown {
			out = append(out, f.Field)
		}
	}
	return out
}

// Record draws one record of well-typed values for the collector's view of the fields.
func Record(t *rapid.T, fs []ref.Field, maxVar int) []ref.Value {
	vals := make([]ref.Value, len(fs))
	for i, f := range fs {
		vals[i] = Value(t, f, maxVar)
	}
	return vals
}

// FixLengths makes the header length and the (single) set length consistent with the
// byte string, when it is long enough to hold them.
func FixLengths(m []byte) []byte {
	if len(m) >= 4 && len(m) <= 65535 {
		m[2], m[3] = byte(len(m)>>8), byte(len(m))
	}
	if len(m) >= 20 && len(m) <= 65535 {
		sl := len(m) - 16
		m[18], m[19] = byte(sl>>8), byte(sl)
	}
	return m
}
