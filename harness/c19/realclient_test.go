//go:build verif

package c19

import (
	"bytes"
	"fmt"
	"reflect"
	"strings"
	"sync"
	"testing"
	"time"
	"unsafe"

	"github.com/IBM/sarama"
	"github.com/IBM/sarama/mocks"

	"github.com/vmware/go-ipfix/pkg/entities"
	"github.com/vmware/go-ipfix/pkg/kafka/producer"
	"github.com/vmware/go-ipfix/pkg/kafka/producer/convertor"
	convtest "github.com/vmware/go-ipfix/pkg/kafka/producer/convertor/test"

	"verifharness/ev"
	ref "verifharness/refipfix"
)

// RealCase: the producer as a program runs it - InitSaramaProducer, sarama's own asynchronous
// client - against sarama's in-process mock broker (a TCP listener on the loopback), instead of
// the mock producer the other phases inject.
//
//	Failing > 0: the broker first refuses that many records (topic authorization failed), is then
//	             repaired, and Msgs follow: they must all arrive
//	BigName:     one record carries a sourcePodName of that many bytes (its IPFIX message stays
//	             below 65535 bytes)
type RealCase struct {
	Schema  int   `json:"schema"`
	Msgs    []Msg `json:"msgs"`
	Failing int   `json:"failing,omitempty"`
}

// produced reads the record values of every produce request the broker saw, in order.
func produced(b *sarama.MockBroker, topic string) [][]byte {
	var out [][]byte
	for _, rr := range b.History() {
		req, ok := rr.Request.(*sarama.ProduceRequest)
		if !ok {
			continue
		}
		f := reflect.ValueOf(req).Elem().FieldByName("records")
		recs := reflect.NewAt(f.Type(), unsafe.Pointer(f.UnsafeAddr())).Elem().Interface().(map[string]map[int32]sarama.Records)
		r, ok := recs[topic][0]
		if !ok {
			continue
		}
		if r.RecordBatch != nil {
			for _, rec := range r.RecordBatch.Records {
				out = append(out, rec.Value)
			}
		}
		if r.MsgSet != nil {
			for _, mb := range r.MsgSet.Messages {
				out = append(out, mb.Msg.Value)
			}
		}
	}
	return out
}

func conv(schemaNo int) convertor.IPFIXToKafkaConvertor {
	if schemaNo == 2 {
		return convtest.NewFlowType2Convertor()
	}
	return convtest.NewFlowType1Convertor()
}

func ipfixMessage(m Msg) *entities.Message {
	set := entities.NewSet(true)
	set.PrepareSet(entities.Data, 256)
	for _, r := range m.Recs {
		var els []entities.InfoElementWithValue
		for _, fv := range r {
			els = append(els, element(fv))
		}
		set.AddRecordV2(els, 256)
	}
	msg := entities.NewMessage(true)
	msg.SetVersion(10)
	msg.SetSequenceNum(m.Seq)
	msg.SetExportTime(m.Time)
	msg.SetObsDomainID(m.Domain)
	msg.SetExportAddress(m.Address)
	msg.AddSet(set)
	return msg
}

// expectedPayloads: what the injected-mock path publishes for the same stream (that path is judged
// field by field by the other phases; here it is the reference for the real client).
func expectedPayloads(c RealCase, topic string) ([][]byte, *ev.Failure) {
	kp, err := producer.NewKafkaProducer(producer.ProducerInput{KafkaVersion: sarama.DefaultVersion, KafkaTopic: topic, ProtoSchemaConvertor: conv(c.Schema)})
	if err != nil {
		return nil, ev.Failf("NewKafkaProducer: %v", err)
	}
	rep := &reporter{}
	cfg := mocks.NewTestConfig()
	cfg.Producer.Return.Successes = false
	mp := mocks.NewAsyncProducer(rep, cfg)
	var mu sync.Mutex
	var got [][]byte
	n := 0
	for _, m := range c.Msgs {
		n += len(m.Recs)
	}
	for i := 0; i < n; i++ {
		mp.ExpectInputWithMessageCheckerFunctionAndSucceed(func(pm *sarama.ProducerMessage) error {
			v, err := pm.Value.Encode()
			mu.Lock()
			got = append(got, v)
			mu.Unlock()
			return err
		})
	}
	kp.SetSaramaProducer(mp)
	ch := make(chan *entities.Message)
	done := make(chan struct{})
	go func() { defer close(done); kp.PublishIPFIXMessages(ch) }()
	for _, m := range c.Msgs {
		ch <- ipfixMessage(m)
	}
	close(ch)
	<-done
	mp.Close()
	return got, nil
}

func runRealClient(c RealCase) *ev.Failure {
	const topic = "verif-flows"
	want, f := expectedPayloads(c, topic)
	if f != nil {
		return f
	}
	rep := &reporter{}
	broker := sarama.NewMockBroker(rep, 1)
	defer broker.Close()
	meta := sarama.NewMockMetadataResponse(rep).SetBroker(broker.Addr(), broker.BrokerID()).SetLeader(topic, 0, broker.BrokerID())
	okResp := sarama.NewMockProduceResponse(rep)
	if c.Failing > 0 {
		broker.SetHandlerByMap(map[string]sarama.MockResponse{"MetadataRequest": meta,
			"ProduceRequest": sarama.NewMockProduceResponse(rep).SetError(topic, 0, sarama.ErrTopicAuthorizationFailed)})
	} else {
		broker.SetHandlerByMap(map[string]sarama.MockResponse{"MetadataRequest": meta, "ProduceRequest": okResp})
	}
	kp, err := producer.NewKafkaProducer(producer.ProducerInput{KafkaBrokers: []string{broker.Addr()}, KafkaVersion: sarama.DefaultVersion, KafkaTopic: topic, ProtoSchemaConvertor: conv(c.Schema)})
	if err != nil {
		return ev.Failf("NewKafkaProducer: %v", err)
	}
	if err := kp.InitSaramaProducer(); err != nil {
		return nil // the real client could not reach the in-process broker: environment
	}
	ch := make(chan *entities.Message)
	done := make(chan struct{})
	go func() { defer close(done); kp.PublishIPFIXMessages(ch) }()
	send := func(m Msg) *ev.Failure {
		select {
		case ch <- ipfixMessage(m):
			return nil
		case <-time.After(stuckLimit):
			return ev.Failf("real client: PublishIPFIXMessages stopped taking messages from its channel for %v (%d record values reached the broker so far)", stuckLimit, len(produced(broker, topic)))
		}
	}
	refused := 0
	if c.Failing > 0 {
		// records the broker refuses: one per message
		for k := 0; k < c.Failing; k++ {
			if f := send(Msg{Seq: uint32(k), Time: 1700000000, Domain: 1, Address: "10.0.0.9", Recs: [][]FieldVal{{{Name: "sourceTransportPort", V: ref.Value{U: uint64(1 + k%60000)}}}}}); f != nil {
				return f
			}
		}
		// wait until the broker has answered them, then repair it
		for end := time.Now().Add(20 * time.Second); len(produced(broker, topic)) < c.Failing && time.Now().Before(end); time.Sleep(5 * time.Millisecond) {
		}
		refused = len(produced(broker, topic))
		broker.SetHandlerByMap(map[string]sarama.MockResponse{"MetadataRequest": meta, "ProduceRequest": okResp})
	}
	for _, m := range c.Msgs {
		if f := send(m); f != nil {
			return f
		}
	}
	close(ch)
	select {
	case <-done:
	case <-time.After(stuckLimit):
		return ev.Failf("real client: PublishIPFIXMessages did not return %v after its channel was closed", stuckLimit)
	}
	closed := make(chan struct{})
	go func() { kp.Close(); close(closed) }()
	// everything handed over must reach the broker
	var got [][]byte
	for end := time.Now().Add(20 * time.Second); ; time.Sleep(5 * time.Millisecond) {
		got = produced(broker, topic)
		if len(got) >= refused+len(want) || time.Now().After(end) {
			break
		}
	}
	select {
	case <-closed:
	case <-time.After(stuckLimit):
		return ev.Failf("real client: Close did not return within %v", stuckLimit)
	}
	got = produced(broker, topic)
	if len(got) < refused {
		refused = len(got)
	}
	got = got[refused:]
	if len(got) != len(want) {
		big := 0
		for _, w := range want {
			if len(w) > big {
				big = len(w)
			}
		}
		return ev.Failf("real client (InitSaramaProducer, in-process broker): %d record values reached the broker for %d data records handed over after the broker was healthy (%d records had been refused before; largest payload %d bytes)", len(got), len(want), c.Failing, big)
	}
	for k := range want {
		if !bytes.Equal(got[k], want[k]) {
			return ev.Failf("real client: record %d reached the broker with a payload of %d bytes that differs from what the producer publishes for it (%d bytes): order or content changed", k, len(got[k]), len(want[k]))
		}
	}
	if len(rep.errs) > 0 && c.Failing == 0 {
		return ev.Failf("real client: the in-process broker reported: %v", rep.errs)
	}
	return nil
}

func TestC19RealClient(t *testing.T) {
	if ev.Shard() > 1 {
		return
	}
	rec3 := func(k int, name string) []FieldVal {
		return []FieldVal{{Name: "sourceTransportPort", V: ref.Value{U: uint64(1000 + k)}}, {Name: "packetTotalCount", V: ref.Value{U: uint64(k) * 7}}, {Name: "sourcePodName", V: ref.Value{B: []byte(name)}}}
	}
	hdr := Msg{Seq: 5, Time: 1700000000, Domain: 9, Address: "10.0.0.1"}
	small := func(k int) Msg { m := hdr; m.Recs = [][]FieldVal{rec3(k, "pod")}; return m }
	var cases []RealCase
	// a record whose IPFIX message is just below the 65535-byte limit, between two ordinary ones
	for _, n := range []int{65000, 65440, 65480, 65495} {
		big := hdr
		big.Recs = [][]FieldVal{rec3(2, strings.Repeat("n", n))}
		cases = append(cases, RealCase{Schema: 1 + n%2, Msgs: []Msg{small(1), big, small(3)}})
	}
	// many records in one message, and many messages
	many := hdr
	for k := 0; k < 600; k++ {
		many.Recs = append(many.Recs, rec3(k, fmt.Sprintf("pod-%d", k)))
	}
	cases = append(cases, RealCase{Schema: 1, Msgs: []Msg{many, small(7)}})
	// the broker refuses 300 records first, is repaired, then ordinary records follow
	cases = append(cases, RealCase{Schema: 2, Msgs: []Msg{small(1), small(2), small(3)}, Failing: 300})
	fails := make([]*ev.Failure, len(cases))
	var wg sync.WaitGroup
	for k := range cases {
		wg.Add(1)
		go func(k int) { defer wg.Done(); fails[k] = runRealClient(cases[k]) }(k)
	}
	wg.Wait()
	for k, c := range cases {
		rec.Case(ev.Hash([]any{"real_client", k}), true, "real_sarama_client_against_in_process_broker")
		if fails[k] != nil {
			rec.Violation("real_client", c, fails[k].Msg)
			t.Fatalf("%s", fails[k].Msg)
		}
	}
}

// the rest of sarama.TestReporter
func (r *reporter) Error(a ...interface{})            { r.Errorf("%s", fmt.Sprint(a...)) }
func (r *reporter) Fatal(a ...interface{})            { r.Errorf("%s", fmt.Sprint(a...)) }
func (r *reporter) Fatalf(f string, a ...interface{}) { r.Errorf(f, a...) }
func (r *reporter) Helper()                           {}
