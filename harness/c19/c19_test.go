//go:build verif

// C19 — Kafka publication: one framed message per data record, in order.
package c19

import (
	"encoding/binary"
	"fmt"
	"net"
	"os"
	"strings"
	"sync"
	"testing"
	"time"
	"unicode/utf8"

	"github.com/IBM/sarama"
	"github.com/IBM/sarama/mocks"
	"google.golang.org/protobuf/proto"
	"google.golang.org/protobuf/reflect/protoreflect"
	"pgregory.net/rapid"

	"github.com/vmware/go-ipfix/pkg/entities"
	"github.com/vmware/go-ipfix/pkg/kafka/consumer"
	"github.com/vmware/go-ipfix/pkg/kafka/producer"
	"github.com/vmware/go-ipfix/pkg/kafka/producer/convertor"
	convtest "github.com/vmware/go-ipfix/pkg/kafka/producer/convertor/test"
	"github.com/vmware/go-ipfix/pkg/kafka/producer/protobuf"

	"verifharness/aggh"
	"verifharness/ev"
	"verifharness/gen"
	"verifharness/glue"
	ref "verifharness/refipfix"
)

// FieldVal is one field of a record: an IPFIX element name and its value.
type FieldVal struct {
	Name string    `json:"name"`
	V    ref.Value `json:"v"`
}

// Msg is one IPFIX message handed to the producer.
type Msg struct {
	Tpl     bool         `json:"tpl,omitempty"`
	Seq     uint32       `json:"seq"`
	Time    uint32       `json:"time"`
	Domain  uint32       `json:"domain"`
	Address string       `json:"address"`
	Recs    [][]FieldVal `json:"recs,omitempty"`
}

type Case struct {
	Schema int    `json:"schema"` // 1 or 2
	Topic  string `json:"topic"`
	Msgs   []Msg  `json:"msgs"`
	// LogSuccesses: the producer is configured with KafkaLogSuccesses (and the broker side returns
	// acknowledgements); SlowUs: the broker side needs this long per message (back-pressure once
	// more messages are outstanding than the producer's queues hold).
	LogSuccesses bool `json:"log_successes,omitempty"`
	SlowUs       int  `json:"slow_us,omitempty"`
	// StallMs: the broker side stalls for this long when it takes record number StallAt (a leader
	// election, a metadata refresh); it takes everything before and after at once.
	StallAt int `json:"stall_at,omitempty"`
	StallMs int `json:"stall_ms,omitempty"`
	// LateProducer: PublishIPFIXMessages is started before the sarama producer is installed (it only
	// needs one when the first message arrives); the producer is installed before any message is sent.
	LateProducer bool `json:"late_producer,omitempty"`
}

// proto field numbers of flow.proto (identical in FlowType1 and FlowType2 for these), keyed by
// the IPFIX element that feeds them. kind: 'u' varint, 's' string, 'i' IP rendered as text.
var schema = map[string]struct {
	num  int
	kind byte
}{
	"flowStartSeconds": {4, 'u'}, "flowEndSeconds": {5, 'u'},
	"sourceIPv4Address": {6, 'i'}, "sourceIPv6Address": {6, 'i'}, "destinationIPv4Address": {7, 'i'}, "destinationIPv6Address": {7, 'i'},
	"sourceTransportPort": {8, 'u'}, "destinationTransportPort": {9, 'u'}, "protocolIdentifier": {10, 'u'},
	"packetTotalCount": {11, 'u'}, "octetTotalCount": {12, 'u'}, "packetDeltaCount": {13, 'u'}, "octetDeltaCount": {14, 'u'},
	"reversePacketTotalCount": {15, 'u'}, "reverseOctetTotalCount": {16, 'u'}, "reversePacketDeltaCount": {17, 'u'}, "reverseOctetDeltaCount": {18, 'u'},
	"sourcePodName": {19, 's'}, "sourcePodNamespace": {20, 's'}, "sourceNodeName": {21, 's'},
	"destinationPodName": {22, 's'}, "destinationPodNamespace": {23, 's'}, "destinationNodeName": {24, 's'},
	"destinationClusterIPv4": {25, 'i'}, "destinationClusterIPv6": {25, 'i'}, "destinationServicePortName": {26, 's'},
	"ingressNetworkPolicyName": {29, 's'}, "ingressNetworkPolicyNamespace": {30, 's'}, "egressNetworkPolicyName": {31, 's'}, "egressNetworkPolicyNamespace": {32, 's'},
	"destinationServicePort": {34, 'u'},
}

// elements the schemas do not know
var unknownToSchema = []string{"tcpState", "flowEndReason", "ingressNetworkPolicyRulePriority", "sourceMacAddress", "flowType"}

var rec *ev.Recorder

func TestMain(m *testing.M) {
	glue.SilenceKlog()
	glue.LoadRegistry()
	if rp := ev.LoadReplay(); rp != nil {
		if rp.Phase == "two_loops" {
			ev.RunReplay(rp, runTwoLoops)
		}
		if rp.Phase == "real_client" {
			ev.RunReplay(rp, runRealClient)
		}
		ev.RunReplay(rp, runCase)
	}
	rec = ev.New("C19", "streams of 1..10 IPFIX messages (template messages; data messages with 0..20 records) whose records draw any subset and order of the elements the two shipped proto schemas know plus some they do not, IPv4 or IPv6, integers over their full range, strings valid UTF-8, published through PublishIPFIXMessages into sarama's mock async producer; each payload is checked by a hand-written protobuf wire reader keyed by the field numbers of flow.proto and by the consumer-side decoder; non-trivial = >= 2 data records in the stream and a record with >= 3 schema fields; distinct by hash of the case",
		"sarama's mock AsyncProducer (module cache)", "hand-written protobuf wire reader (independent of flow.pb.go)", "IPFIX strings are valid UTF-8 (RFC 7012); no element appears twice in a record")
	code := m.Run()
	rec.Write()
	os.Exit(code)
}

type reporter struct {
	mu   sync.Mutex
	errs []string
}

func (r *reporter) Errorf(f string, a ...interface{}) {
	r.mu.Lock()
	r.errs = append(r.errs, fmt.Sprintf(f, a...))
	r.mu.Unlock()
}

func element(fv FieldVal) entities.InfoElementWithValue {
	ie := aggh.IE(fv.Name)
	f, _ := glue.FieldOf(ie)
	return glue.Element(ie, f.Type, fv.V)
}

// parseProto is a minimal protobuf wire reader: field number -> last value.
func parseProto(b []byte) (map[int]uint64, map[int][]byte, error) {
	nums, strs := map[int]uint64{}, map[int][]byte{}
	for len(b) > 0 {
		tag, n := binary.Uvarint(b)
		if n <= 0 {
			return nil, nil, fmt.Errorf("bad tag varint")
		}
		b = b[n:]
		num, wt := int(tag>>3), tag&7
		switch wt {
		case 0:
			v, n := binary.Uvarint(b)
			if n <= 0 {
				return nil, nil, fmt.Errorf("bad varint in field %d", num)
			}
			b = b[n:]
			nums[num] = v
		case 2:
			l, n := binary.Uvarint(b)
			if n <= 0 || uint64(len(b)-n) < l {
				return nil, nil, fmt.Errorf("bad length in field %d", num)
			}
			strs[num] = append([]byte(nil), b[n:n+int(l)]...)
			b = b[n+int(l):]
		case 1:
			if len(b) < 8 {
				return nil, nil, fmt.Errorf("short fixed64")
			}
			b = b[8:]
		case 5:
			if len(b) < 4 {
				return nil, nil, fmt.Errorf("short fixed32")
			}
			b = b[4:]
		default:
			return nil, nil, fmt.Errorf("wire type %d in field %d", wt, num)
		}
	}
	return nums, strs, nil
}

func runCase(c Case) *ev.Failure {
	stuckLimit := stuckLimit + time.Duration(c.StallMs)*time.Millisecond
	var conv convertor.IPFIXToKafkaConvertor
	var protoSchema func() proto.Message
	if c.Schema == 2 {
		conv, protoSchema = convtest.NewFlowType2Convertor(), func() proto.Message { return &protobuf.FlowType2{} }
	} else {
		conv, protoSchema = convtest.NewFlowType1Convertor(), func() proto.Message { return &protobuf.FlowType1{} }
	}
	kp, err := producer.NewKafkaProducer(producer.ProducerInput{KafkaVersion: sarama.DefaultVersion, KafkaTopic: c.Topic, ProtoSchemaConvertor: conv, KafkaLogSuccesses: c.LogSuccesses})
	if err != nil {
		return ev.Failf("NewKafkaProducer: %v", err)
	}
	rep := &reporter{}
	cfg := mocks.NewTestConfig()
	cfg.Producer.Return.Successes = c.LogSuccesses
	mp := mocks.NewAsyncProducer(rep, cfg)
	type pub struct {
		topic string
		value []byte
	}
	var got []pub
	var mu sync.Mutex
	total := 0
	for _, m := range c.Msgs {
		if !m.Tpl {
			total += len(m.Recs)
		}
	}
	for i := 0; i < total; i++ {
		i := i
		mp.ExpectInputWithMessageCheckerFunctionAndSucceed(func(pm *sarama.ProducerMessage) error {
			if c.StallMs > 0 && i == c.StallAt {
				time.Sleep(time.Duration(c.StallMs) * time.Millisecond)
			}
			if c.SlowUs > 0 {
				time.Sleep(time.Duration(c.SlowUs) * time.Microsecond)
			}
			v, err := pm.Value.Encode()
			mu.Lock()
			got = append(got, pub{pm.Topic, v})
			mu.Unlock()
			return err
		})
	}
	ch := make(chan *entities.Message)
	done := make(chan struct{})
	if c.LateProducer {
		go func() { defer close(done); kp.PublishIPFIXMessages(ch) }()
		time.Sleep(200 * time.Microsecond)
		kp.SetSaramaProducer(mp)
	} else {
		kp.SetSaramaProducer(mp)
		go func() { defer close(done); kp.PublishIPFIXMessages(ch) }()
	}
	for mi, m := range c.Msgs {
		set := entities.NewSet(true)
		if m.Tpl {
			set.PrepareSet(entities.Template, 256)
			var els []entities.InfoElementWithValue
			for _, fv := range m.Recs[0] {
				els = append(els, element(FieldVal{Name: fv.Name}))
			}
			set.AddRecordV2(els, 256)
		} else {
			set.PrepareSet(entities.Data, 256)
			for _, r := range m.Recs {
				var els []entities.InfoElementWithValue
				for _, fv := range r {
					els = append(els, element(fv))
				}
				set.AddRecordV2(els, 256)
			}
		}
		msg := entities.NewMessage(true)
		msg.SetVersion(10)
		msg.SetSequenceNum(m.Seq)
		msg.SetExportTime(m.Time)
		msg.SetObsDomainID(m.Domain)
		msg.SetExportAddress(m.Address)
		msg.AddSet(set)
		select {
		case ch <- msg:
		case <-time.After(stuckLimit):
			mu.Lock()
			n := len(got)
			mu.Unlock()
			return ev.Failf("PublishIPFIXMessages stopped taking messages from its channel: %d of %d records were published when message %d could not be handed over for %v", n, total, mi, stuckLimit)
		}
	}
	close(ch)
	select {
	case <-done:
	case <-time.After(stuckLimit):
		mu.Lock()
		n := len(got)
		mu.Unlock()
		return ev.Failf("PublishIPFIXMessages did not return %v after its channel was closed: %d of %d records were published", stuckLimit, n, total)
	}
	closeErr := mp.Close()
	// records carrying a string that is not valid UTF-8 cannot be expressed in proto3: they may be
	// published or skipped, but every other record must still be published exactly once, in order
	invalid := 0
	for _, m := range c.Msgs {
		if m.Tpl {
			continue
		}
		for _, r := range m.Recs {
			if !validRecord(r) {
				invalid++
			}
		}
	}
	if len(got) > total || len(got) < total-invalid {
		return ev.Failf("%d Kafka messages published for %d data records (%d of them carry a string that is not valid UTF-8 and may be skipped)", len(got), total, invalid)
	}
	if invalid == 0 && (closeErr != nil || len(rep.errs) > 0) {
		return ev.Failf("number of published Kafka messages differs from the number of data records (%d): %v %v", total, closeErr, rep.errs)
	}
	validTotal, validSeen := total-invalid, 0
	sch := protoSchema()
	kc := consumer.NewKafkaConsumer(consumer.ConsumerInput{KafkaProtoSchema: sch, MsgDelimitWithLen: true})
	k := 0
	for mi, m := range c.Msgs {
		if m.Tpl {
			continue
		}
		for ri, r := range m.Recs {
			where := fmt.Sprintf("message %d record %d", mi, ri)
			if !validRecord(r) {
				// skipped, or published: if the next publication carries this record's source port, take it
				if k < len(got) && len(got)-k > validTotal-validSeen {
					k++
				}
				continue
			}
			validSeen++
			if k >= len(got) {
				return ev.Failf("%s: no Kafka message was published for this record (%d publications in all)", where, len(got))
			}
			p := got[k]
			k++
			if p.topic != c.Topic {
				return ev.Failf("%s: published on topic %q, configured %q", where, p.topic, c.Topic)
			}
			if len(p.value) < 4 {
				return ev.Failf("%s: payload of %d bytes has no 4-byte length prefix", where, len(p.value))
			}
			n := binary.BigEndian.Uint32(p.value)
			if int(n) != len(p.value)-4 {
				return ev.Failf("%s: length prefix says %d, %d bytes follow", where, n, len(p.value)-4)
			}
			nums, strs, err := parseProto(p.value[4:])
			if err != nil {
				return ev.Failf("%s: payload is not protobuf: %v", where, err)
			}
			expN := map[int]uint64{1: uint64(m.Time), 2: uint64(m.Seq), 3: uint64(m.Domain)}
			expS := map[int]string{33: m.Address}
			for _, fv := range r {
				s, ok := schema[fv.Name]
				if !ok {
					continue
				}
				switch s.kind {
				case 'u':
					expN[s.num] = fv.V.U
				case 's':
					expS[s.num] = string(fv.V.B)
				case 'i':
					expS[s.num] = net.IP(fv.V.B).String()
				}
			}
			for num, want := range expN {
				if nums[num] != want {
					return ev.Failf("%s: proto field %d = %d, want %d", where, num, nums[num], want)
				}
			}
			for num, v := range nums {
				if _, ok := expN[num]; !ok && v != 0 {
					return ev.Failf("%s: proto field %d = %d although the record has no such element", where, num, v)
				}
			}
			for num, want := range expS {
				if string(strs[num]) != want {
					return ev.Failf("%s: proto field %d = %q, want %q", where, num, strs[num], want)
				}
			}
			for num, v := range strs {
				if _, ok := expS[num]; !ok && len(v) != 0 {
					return ev.Failf("%s: proto field %d = %q although the record has no such element", where, num, v)
				}
			}
			// consumer side: one consumer and schema object for the whole stream, as cmd/consumer uses it
			if err := kc.DecodeAndPrintMsg(&sarama.ConsumerMessage{Topic: p.topic, Value: p.value}); err != nil {
				return ev.Failf("%s: the consumer-side decoder rejects the payload: %v", where, err)
			}
			var bad string
			pm := sch.ProtoReflect()
			fds := pm.Descriptor().Fields()
			for i := 0; i < fds.Len(); i++ {
				fd := fds.Get(i)
				num := int(fd.Number())
				v := pm.Get(fd)
				switch fd.Kind() {
				case protoreflect.StringKind:
					if v.String() != expS[num] {
						bad = fmt.Sprintf("%s = %q, want %q", fd.Name(), v.String(), expS[num])
					}
				default:
					if v.Uint() != expN[num] {
						bad = fmt.Sprintf("%s = %d, want %d", fd.Name(), v.Uint(), expN[num])
					}
				}
			}
			if bad != "" {
				return ev.Failf("%s: consumer-side decoded message: %s", where, bad)
			}
		}
	}
	return nil
}

// stuckLimit: a stream of at most a few thousand records takes milliseconds (seconds with a slow
// broker side); a producer that makes no progress for this long is stuck.
const stuckLimit = 20 * time.Second

func validRecord(r []FieldVal) bool {
	for _, fv := range r {
		if s, ok := schema[fv.Name]; ok && s.kind == 's' && !utf8.Valid(fv.V.B) {
			return false
		}
	}
	return true
}

func genRecord(t *rapid.T) []FieldVal {
	v6 := rapid.Bool().Draw(t, "v6")
	var names []string
	for n := range schema {
		names = append(names, n)
	}
	// deterministic order of the candidate list (map order must not leak into the case)
	for i := 1; i < len(names); i++ {
		for j := i; j > 0 && names[j] < names[j-1]; j-- {
			names[j], names[j-1] = names[j-1], names[j]
		}
	}
	names = append(names, unknownToSchema...)
	var pick []string
	p := rapid.SampledFrom([]int{2, 5, 8, 10}).Draw(t, "density")
	for _, n := range names {
		is6 := strings.HasSuffix(n, "IPv6Address") || n == "destinationClusterIPv6"
		is4 := strings.HasSuffix(n, "IPv4Address") || n == "destinationClusterIPv4"
		if (is6 && !v6) || (is4 && v6) {
			continue
		}
		if rapid.IntRange(0, 9).Draw(t, "take") < p {
			pick = append(pick, n)
		}
	}
	pick = rapid.Permutation(pick).Draw(t, "order")
	var r []FieldVal
	for _, n := range pick {
		f, _ := glue.FieldOf(aggh.IE(n))
		r = append(r, FieldVal{Name: n, V: gen.Value(t, f, 60)})
	}
	if rapid.IntRange(0, 14).Draw(t, "badutf8") == 0 { // a string that is not valid UTF-8
		for i := range r {
			if s, ok := schema[r[i].Name]; ok && s.kind == 's' {
				r[i].V = ref.Value{B: []byte{'p', 0xC3, 0x28, 0xFF}}
				break
			}
		}
	}
	return r
}

func genCase(t *rapid.T) Case {
	c := Case{Schema: rapid.IntRange(1, 2).Draw(t, "schema"), Topic: rapid.SampledFrom([]string{"ipfix", "flows.v1", "t", "AntreaTopic", "FLOWS_v2", "Flows.Prod-EU"}).Draw(t, "topic")}
	c.LogSuccesses = rapid.IntRange(0, 2).Draw(t, "log_successes") == 0
	c.LateProducer = rapid.IntRange(0, 4).Draw(t, "late_producer") == 0
	if rapid.IntRange(0, 59).Draw(t, "slow") == 0 {
		c.SlowUs = rapid.SampledFrom([]int{50, 200}).Draw(t, "slow_us")
	}
	huge := false
	for n := rapid.IntRange(1, 10).Draw(t, "n"); n > 0; n-- {
		m := Msg{Seq: rapid.Uint32().Draw(t, "seq"), Time: rapid.Uint32().Draw(t, "time"), Domain: rapid.Uint32().Draw(t, "dom"),
			Address: rapid.SampledFrom([]string{"10.0.0.1", "2001:db8::7", "::1", ""}).Draw(t, "addr")}
		if rapid.IntRange(0, 3).Draw(t, "tpl") == 0 {
			m.Tpl = true
			m.Recs = [][]FieldVal{genRecord(t)}
		} else {
			k := rapid.IntRange(0, 4).Draw(t, "nrec")
			if rapid.IntRange(0, 9).Draw(t, "many") == 0 {
				k = rapid.IntRange(5, 20).Draw(t, "nrecmany")
			}
			if !huge && c.SlowUs == 0 && rapid.IntRange(0, 399).Draw(t, "huge") == 0 { // once per stream at most: more records than any queue holds
				k, huge = rapid.IntRange(300, 900).Draw(t, "nrechuge"), true
			}
			if k >= 300 { // the huge message cycles through a few generated records
				base := [][]FieldVal{genRecord(t), genRecord(t), genRecord(t)}
				for j := 0; j < k; j++ {
					m.Recs = append(m.Recs, base[j%3])
				}
				k = 0
			}
			for ; k > 0; k-- {
				m.Recs = append(m.Recs, genRecord(t))
			}
		}
		c.Msgs = append(c.Msgs, m)
	}
	return c
}

var timing = map[string]time.Duration{}

func TestC19(t *testing.T) {
	defer func() {
		for k, v := range timing {
			fmt.Println("timing", k, v)
		}
	}()
	// every run: a message whose header fields and record values are all zero / empty (its protobuf
	// body is empty, the payload is just the 4-byte length 0), in both schemas
	for schemaNo := 1; schemaNo <= 2; schemaNo++ {
		for _, r := range [][]FieldVal{{}, {{Name: "sourceTransportPort"}, {Name: "sourcePodName"}, {Name: "packetTotalCount"}}} {
			c := Case{Schema: schemaNo, Topic: "t", Msgs: []Msg{{Recs: [][]FieldVal{r, r}}, {Tpl: true, Recs: [][]FieldVal{r}}, {Recs: [][]FieldVal{r}}}}
			rec.Case(ev.Hash(c), true, "all_zero_message")
			if f := runCase(c); f != nil {
				rec.Violation("preamble", c, f.Msg)
				t.Fatalf("%s", f.Msg)
			}
		}
	}
	// every run: one message with 700 records (more than the producer's and the broker side's queues
	// hold together), with and without acknowledgements, with a fast and a slow broker side
	big := Msg{Seq: 7, Time: 1700000000, Domain: 3, Address: "10.0.0.1"}
	for k := 0; k < 700; k++ {
		big.Recs = append(big.Recs, []FieldVal{{Name: "sourceTransportPort", V: ref.Value{U: uint64(1 + k%60000)}}, {Name: "packetTotalCount", V: ref.Value{U: uint64(k) * 1000}}})
	}
	bigCases := []Case{{Schema: 1, Topic: "t", Msgs: []Msg{big}, LogSuccesses: true}, {Schema: 2, Topic: "t", Msgs: []Msg{big, big}, SlowUs: 500}, {Schema: 1, Topic: "t", Msgs: []Msg{big}, LogSuccesses: true, SlowUs: 200},
		{Schema: 1, Topic: "t", Msgs: []Msg{big}, StallAt: 10, StallMs: 4500}}
	if rec.Thorough() {
		bigCases = append(bigCases, Case{Schema: 2, Topic: "t", Msgs: []Msg{big, big}, StallAt: 600, StallMs: 12500}, Case{Schema: 1, Topic: "t", Msgs: []Msg{big}, StallAt: 300, StallMs: 33000})
	}
	bigFails := make([]*ev.Failure, len(bigCases))
	var bw sync.WaitGroup
	for k := range bigCases {
		bw.Add(1)
		go func(k int) { defer bw.Done(); bigFails[k] = runCase(bigCases[k]) }(k)
	}
	bw.Wait()
	for k, c := range bigCases {
		rec.Case(ev.Hash(c), true, "more_records_than_the_queues_hold")
		if bigFails[k] != nil {
			rec.Violation("preamble", c, bigFails[k].Msg)
			t.Fatalf("%s", bigFails[k].Msg)
		}
	}
	ev.Rapid(t, rec, "streams", rec.Scale(4000, 1000000), genCase, func(c Case) *ev.Failure {
		recs, rich, tpl, empty := 0, false, false, false
		for _, m := range c.Msgs {
			if m.Tpl {
				tpl = true
				continue
			}
			if len(m.Recs) == 0 {
				empty = true
			}
			for _, r := range m.Recs {
				recs++
				k := 0
				for _, fv := range r {
					if _, ok := schema[fv.Name]; ok {
						k++
					}
				}
				rich = rich || k >= 3
			}
		}
		var cl []string
		for k, b := range map[string]bool{"has_template_message": tpl, "has_data_message_without_records": empty, "multi_record": recs >= 2} {
			if b {
				cl = append(cl, k)
			}
		}
		for k, b := range map[string]bool{"producer_logs_successes": c.LogSuccesses, "producer_installed_after_the_loop_started": c.LateProducer, "slow_broker_side": c.SlowUs > 0, "message_with_300_or_more_records": recs >= 300} {
			if b {
				cl = append(cl, k)
			}
		}
		rec.Case(ev.Hash(c), recs >= 2 && rich, append(cl, fmt.Sprintf("schema_%d", c.Schema))...)
		if len(c.Msgs) <= 2 && recs <= 2 {
			rec.Sample("stream", c)
		}
		t0 := time.Now()
		f := runCase(c)
		if os.Getenv("C19_TIMING") != "" {
			timing[fmt.Sprintf("log=%v slow=%v huge=%v", c.LogSuccesses, c.SlowUs > 0, recs >= 300)] += time.Since(t0)
		}
		return f
	})
}
