//go:build verif

package c19

import (
	"sync"
	"testing"
	"time"

	"github.com/IBM/sarama"
	"github.com/IBM/sarama/mocks"

	"github.com/vmware/go-ipfix/pkg/entities"
	"github.com/vmware/go-ipfix/pkg/kafka/producer"
	"github.com/vmware/go-ipfix/pkg/kafka/producer/convertor"
	convtest "github.com/vmware/go-ipfix/pkg/kafka/producer/convertor/test"

	"verifharness/ev"
	ref "verifharness/refipfix"
)

// TwoLoops: one Kafka producer (one convertor object) publishes from two message channels at once,
// as a program that runs a tcp and a udp collector side by side does: PublishIPFIXMessages runs on
// two goroutines. Every record of every message handed over is still published exactly once, and
// the records of one message stay in their order (record k of message j of loop l carries source
// port l*20000 + j*50 + k).
type TwoLoops struct {
	Schema int `json:"schema"`
	Msgs   int `json:"msgs"`
	Recs   int `json:"recs"`
}

func runTwoLoops(c TwoLoops) *ev.Failure {
	var conv convertor.IPFIXToKafkaConvertor = convtest.NewFlowType1Convertor()
	if c.Schema == 2 {
		conv = convtest.NewFlowType2Convertor()
	}
	kp, err := producer.NewKafkaProducer(producer.ProducerInput{KafkaVersion: sarama.DefaultVersion, KafkaTopic: "t", ProtoSchemaConvertor: conv})
	if err != nil {
		return ev.Failf("NewKafkaProducer: %v", err)
	}
	mp := mocks.NewAsyncProducer(&reporter{}, mocks.NewTestConfig())
	var mu sync.Mutex
	var ports []int
	total := 2 * c.Msgs * c.Recs
	for i := 0; i < total; i++ {
		mp.ExpectInputWithMessageCheckerFunctionAndSucceed(func(pm *sarama.ProducerMessage) error {
			v, err := pm.Value.Encode()
			if err == nil && len(v) >= 4 {
				nums, _, _ := parseProto(v[4:])
				mu.Lock()
				ports = append(ports, int(nums[8]))
				mu.Unlock()
			}
			return err
		})
	}
	kp.SetSaramaProducer(mp)
	var wg sync.WaitGroup
	stuck := make(chan string, 2)
	for l := 0; l < 2; l++ {
		ch := make(chan *entities.Message)
		wg.Add(2)
		go func() { defer wg.Done(); kp.PublishIPFIXMessages(ch) }()
		go func(l int) {
			defer wg.Done()
			defer close(ch)
			for j := 0; j < c.Msgs; j++ {
				set := entities.NewSet(true)
				set.PrepareSet(entities.Data, 256)
				for k := 0; k < c.Recs; k++ {
					set.AddRecordV2([]entities.InfoElementWithValue{element(FieldVal{Name: "sourceTransportPort", V: ref.Value{U: uint64(l*20000 + j*50 + k + 1)}}),
						element(FieldVal{Name: "packetTotalCount", V: ref.Value{U: uint64(j)}})}, 256)
				}
				msg := entities.NewMessage(true)
				msg.SetVersion(10)
				msg.SetObsDomainID(uint32(l + 1))
				msg.SetExportAddress("10.0.0.1")
				msg.AddSet(set)
				select {
				case ch <- msg:
				case <-time.After(stuckLimit):
					stuck <- "a publishing loop stopped taking messages"
					return
				}
			}
		}(l)
	}
	fin := make(chan struct{})
	go func() { wg.Wait(); close(fin) }()
	select {
	case <-fin:
	case why := <-stuck:
		return ev.Failf("%s", why)
	case <-time.After(2 * stuckLimit):
		return ev.Failf("two publishing loops on one producer did not finish")
	}
	mp.Close()
	mu.Lock()
	defer mu.Unlock()
	seen := map[int]int{}
	for _, p := range ports {
		seen[p]++
	}
	for l := 0; l < 2; l++ {
		for j := 0; j < c.Msgs; j++ {
			for k := 0; k < c.Recs; k++ {
				p := l*20000 + j*50 + k + 1
				if seen[p] != 1 {
					return ev.Failf("one producer publishing from two channels at once: record %d of message %d of loop %d was published %d times (%d Kafka messages for %d records in all)", k, j, l, seen[p], len(ports), total)
				}
			}
		}
	}
	// the records of one message stay in order
	last := map[[2]int]int{}
	for _, p := range ports {
		l, j, k := (p-1)/20000, ((p-1)%20000)/50, (p-1)%50
		key := [2]int{l, j}
		if prev, ok := last[key]; ok && k < prev {
			return ev.Failf("one producer publishing from two channels at once: the records of message %d of loop %d were published out of their order", j, l)
		}
		last[key] = k
	}
	return nil
}

func TestC19TwoLoops(t *testing.T) {
	if ev.Shard() > 1 {
		return
	}
	n := int(rec.Scale(6, 200))
	for i := 0; i < n; i++ {
		c := TwoLoops{Schema: 1 + i%2, Msgs: []int{40, 150, 10}[i%3], Recs: []int{5, 2, 40}[i%3]}
		f := runTwoLoops(c)
		rec.Case(ev.Hash([]any{"two_loops", c, i}), true, "two_publishing_loops_on_one_producer")
		if f != nil {
			rec.Violation("two_loops", c, f.Msg)
			t.Fatalf("%s", f.Msg)
		}
	}
}
