//go:build verif

// C05 — flow aggregation arithmetic: sums, latest values and throughput are conserved.
package c05

import (
	"fmt"
	"os"
	"testing"
	"time"

	"pgregory.net/rapid"

	"github.com/vmware/go-ipfix/pkg/entities"
	"github.com/vmware/go-ipfix/pkg/intermediate"

	"verifharness/aggh"
	"verifharness/ev"
	"verifharness/glue"
)

// Op kinds: rec (Recs: one message with these records), reset (Flow), export, query, ext (Flow: the
// user fills the external fields of the flow's record, once, as a mediator does with pod labels).
type Op struct {
	Kind string     `json:"kind"`
	Recs []aggh.Rec `json:"recs,omitempty"`
	Flow int        `json:"flow,omitempty"`
}

type Case struct {
	Flows []aggh.FlowDef `json:"flows"`
	Ops   []Op           `json:"ops"`
	// ElemOrder: the order in which the AggregateElements configuration lists its elements
	// (aggh.ElementsVariant)
	ElemOrder int `json:"elem_order,omitempty"`
}

var rec *ev.Recorder

func TestMain(m *testing.M) {
	glue.SilenceKlog()
	glue.LoadRegistry()
	intermediate.MaxRetries = 1 << 30 // uncorrelated flows are never dropped here (C07 judges that)
	if rp := ev.LoadReplay(); rp != nil {
		if rp.Phase == "many_flows" {
			ev.RunReplay(rp, runManyFlows)
		}
		ev.RunReplay(rp, func(c Case) *ev.Failure { return runCase(c, nil) })
	}
	rec = ev.New("C05", "histories of up to 60 operations over a pool of 4 five-tuples (2 IPv4, 2 IPv6; kinds intra-node, to-external, inter-node with two reporting nodes, inter-node denied at egress / rejected at ingress): records with per-node strictly increasing end times (distinct within a flow), non-decreasing totals (< 2^60), arbitrary deltas (< 2^40), interleaved with resets (ForAllRecordsDo + ResetStatAndThroughputElementsInRecord) and exports (virtual-time shift + expiry scan whose callback snapshots and resets); after every operation GetNumFlows and GetRecords of every flow are compared with the reference model of DESIGN.md A.2; non-trivial = a flow received >= 3 records with a reset between two of them, or records from both nodes; distinct by hash of the case",
		"reference model written from the statement (harness/aggh)", "verif hook VerifShiftDeadlines (uniform shift of queued deadlines = passing of time)")
	code := m.Run()
	rec.Write()
	os.Exit(code)
}

type Stats struct{ ThreeWithReset, BothNodes, Exports, ExtThenReset int }

func runCase(c Case, st *Stats) *ev.Failure {
	if st == nil {
		st = &Stats{}
	}
	ap := aggh.NewWith(150*time.Minute, 1000000*time.Hour, nil, 1, aggh.ElementsVariant(c.ElemOrder))
	model := map[int]*aggh.FlowState{}
	ext := map[int]bool{} // flows whose external fields the user has filled
	keyToFlow := map[intermediate.FlowKey]int{}
	for i, f := range c.Flows {
		keyToFlow[f.Key()] = i
	}
	verify := func(step int, what string) *ev.Failure {
		if n := ap.GetNumFlows(); int(n) != len(model) {
			return ev.Failf("after op %d (%s): GetNumFlows()=%d, %d distinct five-tuples were seen", step, what, n, len(model))
		}
		// the unfiltered and the partially filtered query see the same flows: one record per tuple
		if step%5 != 0 && step != len(c.Ops)-1 {
			goto perFlow
		}
		if all := ap.GetRecords(nil); len(all) != len(model) {
			return ev.Failf("after op %d (%s): GetRecords(nil) returned %d records, %d distinct five-tuples were seen", step, what, len(all), len(model))
		}
		for fi := range model {
			k := c.Flows[fi].Key()
			want := 0
			for fj := range model {
				if kj := c.Flows[fj].Key(); kj.SourceAddress == k.SourceAddress && kj.Protocol == k.Protocol {
					want++
				}
			}
			if got := ap.GetRecords(&intermediate.FlowKey{SourceAddress: k.SourceAddress, Protocol: k.Protocol}); len(got) != want {
				return ev.Failf("after op %d (%s): GetRecords filtered by source address %s and protocol %d returned %d records, %d held flows match", step, what, k.SourceAddress, k.Protocol, len(got), want)
			}
		}
	perFlow:
		for fi, ms := range model {
			k := c.Flows[fi].Key()
			rs := ap.GetRecords(&k)
			if len(rs) != 1 {
				return ev.Failf("after op %d (%s): GetRecords(flow %d) returned %d records, want exactly 1", step, what, fi, len(rs))
			}
			if d := ms.Compare(rs[0]); d != "" {
				return ev.Failf("after op %d (%s): flow %d (kind %d): %s", step, what, fi, c.Flows[fi].Kind, d)
			}
			if d := aggh.CheckTuple(rs[0], c.Flows[fi]); d != "" {
				return ev.Failf("after op %d (%s): flow %d: %s", step, what, fi, d)
			}
			if d := checkExt(rs[0], fi, ext[fi]); d != "" {
				return ev.Failf("after op %d (%s): flow %d: %s", step, what, fi, d)
			}
		}
		return nil
	}
	for i, o := range c.Ops {
		switch o.Kind {
		case "rec":
			if err := ap.AggregateMsgByFlowKey(aggh.Message(c.Flows, o.Recs...)); err != nil {
				return ev.Failf("op %d: AggregateMsgByFlowKey: %v", i, err)
			}
			for _, r := range o.Recs {
				model[r.Flow] = aggh.Apply(model[r.Flow], c.Flows[r.Flow], r)
			}
		case "reset":
			target := c.Flows[o.Flow%len(c.Flows)].Key()
			err := ap.ForAllRecordsDo(func(k intermediate.FlowKey, r *intermediate.AggregationFlowRecord) error {
				if k != target {
					return nil
				}
				return ap.ResetStatAndThroughputElementsInRecord(r.Record)
			})
			if err != nil {
				return ev.Failf("op %d: reset: %v", i, err)
			}
			if ms := model[o.Flow%len(c.Flows)]; ms != nil {
				ms.Reset()
				if ext[o.Flow%len(c.Flows)] {
					st.ExtThenReset++
				}
			}
		case "ext":
			fi := o.Flow % len(c.Flows)
			target := c.Flows[fi].Key()
			err := ap.ForAllRecordsDo(func(k intermediate.FlowKey, r *intermediate.AggregationFlowRecord) error {
				if k != target || ap.AreExternalFieldsFilled(*r) {
					return nil
				}
				if err := r.Record.AddInfoElement(entities.NewStringInfoElement(aggh.IE("interfaceName"), extName(fi))); err != nil {
					return err
				}
				if err := r.Record.AddInfoElement(entities.NewUnsigned32InfoElement(aggh.IE("ingressInterface"), extNum(fi))); err != nil {
					return err
				}
				ap.SetExternalFieldsFilled(r, true)
				return nil
			})
			if err != nil {
				return ev.Failf("op %d: filling external fields: %v", i, err)
			}
			if model[fi] != nil {
				ext[fi] = true
			}
		case "export":
			st.Exports++
			ap.VerifShiftDeadlines(3 * time.Hour)
			var cbFail *ev.Failure
			seen := map[int]bool{}
			err := ap.ForAllExpiredFlowRecordsDo(func(k intermediate.FlowKey, r *intermediate.AggregationFlowRecord) error {
				fi, ok := keyToFlow[k]
				if !ok || model[fi] == nil {
					cbFail = ev.Failf("op %d: export callback for a flow that is not held: %+v", i, k)
					return nil
				}
				if seen[fi] {
					cbFail = ev.Failf("op %d: flow %d exported twice in one scan", i, fi)
				}
				seen[fi] = true
				if d := model[fi].Compare(r.Record.GetElementMap()); d != "" && cbFail == nil {
					cbFail = ev.Failf("op %d: exported record of flow %d: %s", i, fi, d)
				}
				if d := checkExt(r.Record.GetElementMap(), fi, ext[fi]); d != "" && cbFail == nil {
					cbFail = ev.Failf("op %d: exported record of flow %d: %s", i, fi, d)
				}
				model[fi].Reset()
				if ext[fi] {
					st.ExtThenReset++
				}
				return ap.ResetStatAndThroughputElementsInRecord(r.Record)
			})
			if err != nil {
				return ev.Failf("op %d: ForAllExpiredFlowRecordsDo: %v", i, err)
			}
			if cbFail != nil {
				return cbFail
			}
		}
		if f := verify(i, o.Kind); f != nil {
			return f
		}
	}
	for _, ms := range model {
		if ms.Records >= 3 && ms.ResetBetween {
			st.ThreeWithReset++
		}
		if ms.BothSeen {
			st.BothNodes++
		}
	}
	return nil
}

func extName(fi int) string { return fmt.Sprintf("ext-if-%d", fi) }
func extNum(fi int) uint32  { return 4242 + uint32(fi) }

// checkExt: fields the user appended to a record keep their values (a reset clears the statistics
// and throughput fields only); records the user did not touch carry no such fields.
func checkExt(m map[string]interface{}, fi int, filled bool) string {
	n, hasN := m["interfaceName"]
	u, hasU := m["ingressInterface"]
	if !filled {
		if hasN || hasU {
			return "carries external fields nobody added"
		}
		return ""
	}
	if !hasN || !hasU {
		return "the external fields the user added are gone"
	}
	if n != extName(fi) || u != extNum(fi) {
		return fmt.Sprintf("the external fields the user added read %q / %v, they were set to %q / %d", n, u, extName(fi), extNum(fi))
	}
	return ""
}

func genFlows(t *rapid.T) []aggh.FlowDef {
	base := []aggh.FlowDef{
		{Src: "10.0.0.1", Dst: "10.0.1.2", SPort: 1234, DPort: 80, Proto: 6},
		{Src: "10.0.0.1", Dst: "10.0.1.2", SPort: 1235, DPort: 80, Proto: 6}, // differs in one port only
		{V6: true, Src: "2001:db8::1", Dst: "2001:db8::2", SPort: 1234, DPort: 80, Proto: 6},
		{V6: true, Src: "2001:db8::1", Dst: "2001:db8::2", SPort: 1234, DPort: 80, Proto: 17}, // differs in protocol only
	}
	// realistic special addresses: the unspecified address as a source (DHCP), broadcast / multicast
	// as a destination
	switch rapid.IntRange(0, 5).Draw(t, "special") {
	case 0:
		base[0].Src, base[0].Dst, base[0].SPort, base[0].DPort, base[0].Proto = "0.0.0.0", "255.255.255.255", 68, 67, 17
	case 1:
		base[2].Src, base[2].Dst = "::", "ff02::1:2"
	case 2:
		base[1].Dst = "0.0.0.0"
	}
	for i := range base {
		base[i].Kind = rapid.IntRange(0, 4).Draw(t, "kind")
		if base[i].Kind == aggh.KindInterEgressDeny {
			base[i].CorrS.EgrAct = rapid.SampledFrom([]uint8{2, 3}).Draw(t, "egr")
		}
		if base[i].Kind == aggh.KindInterIngressReject {
			base[i].CorrD.IngAct = 3
		}
	}
	return base
}

type stream struct {
	start  uint32
	end    uint32
	tot    [4]uint64
	layout int
	jumped bool
}

func genCase(t *rapid.T) Case {
	c := Case{Flows: genFlows(t), ElemOrder: rapid.SampledFrom([]int{0, 0, 1, 2, 3}).Draw(t, "elem_order")}
	if rapid.IntRange(0, 3).Draw(t, "http_vals") == 0 {
		c.ElemOrder |= 4 // the process also merges httpVals; every record carries one (mergeable or not)
	}
	if rapid.IntRange(0, 2).Draw(t, "one_list") == 0 {
		c.ElemOrder |= 8 // the configuration's lists are parts of one long list
	}
	streams := map[string]*stream{}
	used := map[int]map[uint32]bool{}
	n := rapid.IntRange(2, 60).Draw(t, "n")
	mkRec := func(fi int) aggh.Rec {
		f := c.Flows[fi]
		side := "S"
		if f.Kind == aggh.KindInterNode && rapid.Bool().Draw(t, "side") {
			side = "D"
		}
		k := fmt.Sprintf("%d%s", fi, side)
		s := streams[k]
		if s == nil {
			// each reporting node has its own view of when the flow started
			s = &stream{start: uint32(rapid.IntRange(900, 1000).Draw(t, "start")), end: 1000 + uint32(rapid.IntRange(0, 50).Draw(t, "e0")),
				layout: rapid.IntRange(0, 3).Draw(t, "layout")}
			if rapid.IntRange(0, 9).Draw(t, "start0") == 0 {
				s.start = 0 // an exporter that reports an unknown start time as 0
			}
			streams[k] = s
		}
		if used[fi] == nil {
			used[fi] = map[uint32]bool{}
		}
		e := s.end + uint32(rapid.IntRange(1, 60).Draw(t, "de"))
		if !s.jumped && rapid.IntRange(0, 19).Draw(t, "jump") == 0 {
			// once per stream: a gap of about 2^31 seconds or more (all values stay below 2^32)
			e = s.end + rapid.SampledFrom([]uint32{1<<31 - 1, 1 << 31, 1<<31 + 1, 3000000000}).Draw(t, "gap")
			s.jumped = true
		}
		for used[fi][e] {
			e++
		}
		used[fi][e] = true
		s.end = e
		r := aggh.Rec{Flow: fi, Side: side, Start: s.start, End: e, Layout: s.layout, TCPState: rapid.SampledFrom([]string{"ESTABLISHED", "TIME_WAIT", "CLOSE", ""}).Draw(t, "tcp")}
		if c.ElemOrder&4 != 0 {
			v := rapid.SampledFrom([]string{"", `{"1":"GET /a"}`, `{"2":"POST /b","3":"GET /c"}`, `{"1":"GET /other"}`, "not json", `{"1":`, "[]", `{"x":"GET"}`}).Draw(t, "http")
			r.HTTP = &v
		}
		for i := range r.Tot {
			switch rapid.IntRange(0, 5).Draw(t, "grow") {
			case 0: // unchanged
			case 1:
				s.tot[i] += uint64(rapid.IntRange(1, 9).Draw(t, "g1"))
			case 2:
				s.tot[i] += rapid.Uint64Range(1<<32, 1<<50).Draw(t, "g2")
			default:
				s.tot[i] += rapid.Uint64Range(0, 1<<20).Draw(t, "g3")
			}
			if s.tot[i] >= 1<<60 {
				s.tot[i] = 1<<60 - 1
			}
			r.Tot[i] = s.tot[i]
			r.Dlt[i] = rapid.SampledFrom([]uint64{0, 1, 7, 1500, 1 << 20, 1<<40 - 1}).Draw(t, "dlt")
			if rapid.Bool().Draw(t, "dltrnd") {
				r.Dlt[i] = rapid.Uint64Range(0, 1<<40-1).Draw(t, "dltv")
			}
		}
		return r
	}
	for i := 0; i < n; i++ {
		switch k := rapid.IntRange(0, 9).Draw(t, "op"); {
		case k <= 6:
			o := Op{Kind: "rec"}
			nr := 1
			if rapid.IntRange(0, 4).Draw(t, "multi") == 0 {
				nr = rapid.IntRange(2, 4).Draw(t, "nr")
			}
			for j := 0; j < nr; j++ {
				o.Recs = append(o.Recs, mkRec(rapid.IntRange(0, 3).Draw(t, "flow")))
			}
			c.Ops = append(c.Ops, o)
		case k == 7:
			c.Ops = append(c.Ops, Op{Kind: "reset", Flow: rapid.IntRange(0, 3).Draw(t, "rflow")})
		case k == 8 && rapid.IntRange(0, 2).Draw(t, "ext") == 0:
			c.Ops = append(c.Ops, Op{Kind: "ext", Flow: rapid.IntRange(0, 3).Draw(t, "eflow")})
		case k == 8:
			c.Ops = append(c.Ops, Op{Kind: "export"})
		default:
			c.Ops = append(c.Ops, Op{Kind: "query"})
		}
	}
	return c
}

func TestC05(t *testing.T) {
	ev.Rapid(t, rec, "histories", rec.Scale(4000, 1500000), genCase, func(c Case) *ev.Failure {
		st := &Stats{}
		f := runCase(c, st)
		var cl []string
		if st.ThreeWithReset > 0 {
			cl = append(cl, "three_records_with_reset_between")
		}
		if st.ExtThenReset > 0 {
			cl = append(cl, "reset_after_user_added_external_fields")
		}
		if st.BothNodes > 0 {
			cl = append(cl, "records_from_both_nodes")
		}
		if st.Exports > 0 {
			cl = append(cl, "has_export")
		}
		if c.ElemOrder&4 != 0 {
			cl = append(cl, "http_values_merged_too")
		}
		for _, fl := range c.Flows {
			cl = append(cl, fmt.Sprintf("kind_%d", fl.Kind))
		}
		rec.Case(ev.Hash(c), st.ThreeWithReset > 0 || st.BothNodes > 0, cl...)
		if len(c.Ops) <= 6 && (st.ThreeWithReset > 0 || st.BothNodes > 0) {
			rec.Sample("history", c)
		}
		return f
	})
}
