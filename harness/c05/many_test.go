//go:build verif

package c05

import (
	"fmt"
	"testing"
	"time"

	"verifharness/aggh"
	"verifharness/ev"
)

// One record for each of N distinct five-tuples (N beyond any round number a built-in table limit
// would use), then one more new flow and an update of an old one in a single message: exactly one
// flow record per distinct five-tuple, and the old flow takes its update.
func runManyFlows(n int) *ev.Failure {
	ap := aggh.New(1000*time.Hour, 1000*time.Hour, nil, 1)
	flow := func(i int) aggh.FlowDef {
		return aggh.FlowDef{Src: fmt.Sprintf("10.%d.%d.%d", 1+i/65536, (i/256)%256, i%256), Dst: "10.0.1.2", SPort: 1000, DPort: 80, Proto: 6, Kind: aggh.KindIntraNode}
	}
	for i := 0; i < n; i++ {
		fl := []aggh.FlowDef{flow(i)}
		if err := ap.AggregateMsgByFlowKey(aggh.Message(fl, aggh.Rec{Flow: 0, Side: "S", Start: 1000, End: 2000, Tot: [4]uint64{5, 500, 1, 100}, Dlt: [4]uint64{5, 500, 1, 100}})); err != nil {
			return ev.Failf("record of five-tuple number %d (all distinct) was refused: %v", i+1, err)
		}
		if i%20000 == 19999 || i == n-1 {
			if got := ap.GetNumFlows(); int(got) != i+1 {
				return ev.Failf("%d distinct five-tuples were seen, GetNumFlows()=%d", i+1, got)
			}
		}
	}
	fl := []aggh.FlowDef{flow(n), flow(1)}
	if err := ap.AggregateMsgByFlowKey(aggh.Message(fl, aggh.Rec{Flow: 0, Side: "S", Start: 1000, End: 2000, Tot: [4]uint64{5, 500, 1, 100}, Dlt: [4]uint64{5, 500, 1, 100}},
		aggh.Rec{Flow: 1, Side: "S", Start: 1000, End: 2010, Tot: [4]uint64{12, 1200, 2, 200}, Dlt: [4]uint64{7, 700, 1, 100}})); err != nil {
		return ev.Failf("with %d flows held, a message holding a new five-tuple and an update of an old one was refused: %v", n, err)
	}
	if got := ap.GetNumFlows(); int(got) != n+1 {
		return ev.Failf("%d distinct five-tuples were seen, GetNumFlows()=%d", n+1, got)
	}
	k := fl[1].Key()
	rs := ap.GetRecords(&k)
	if len(rs) != 1 {
		return ev.Failf("GetRecords for an old flow returned %d records", len(rs))
	}
	if v, _ := rs[0]["packetDeltaCount"].(uint64); v != 12 {
		return ev.Failf("with %d flows held, an old flow's second record (delta 7 after 5) left packetDeltaCount at %d", n, v)
	}
	return nil
}

func TestC05ManyFlows(t *testing.T) {
	if ev.Shard() > 1 {
		return
	}
	n := 100200
	if rec.Thorough() {
		n = 300100
	}
	f := runManyFlows(n)
	rec.Case(ev.Hash([]any{"many_flows", n}), true, "more_than_100000_flows_held")
	if f != nil {
		rec.Violation("many_flows", n, f.Msg)
		t.Fatalf("%s", f.Msg)
	}
}
