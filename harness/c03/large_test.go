package c03

import (
	"pgregory.net/rapid"

	"verifharness/gen"
	ref "verifharness/refipfix"
)

// The "large_products" phase: templates with very many fields (up to what a 65535-byte template
// message holds) followed by data sets of up to 65000 bytes. The random histories keep records x
// fields small; here the product, and the sum of the field widths, are what is varied: templates
// dominated by fields of length zero (every byte of a data set then expands into that many
// elements), by one-byte, eight-byte or sixteen-byte fields (sums of widths around and beyond
// 65535), or by variable-length fields. The oracle is runCase unchanged: no crash, return within
// the hang rule's limits (10 s, 1 GiB of heap growth per packet), and for an accepted data message
// exactly the records the reference decoder finds.
func genLargeCase(t *rapid.T) Case {
	c := Case{Proto: rapid.SampledFrom([]string{"tcp", "udp"}).Draw(t, "proto")}
	unkZero := gen.TField{Field: ref.Field{ID: 20001, Len: 0, Type: ref.TOctets}, Unknown: true, WireLen: 0}
	unkZeroEnt := gen.TField{Field: ref.Field{ID: 333, Ent: 4242, Len: 0, Type: ref.TOctets}, Unknown: true, WireLen: 0}
	unkVar := gen.TField{Field: ref.Field{ID: 20002, Len: ref.VarLen, Type: ref.TOctets}, Unknown: true, WireLen: ref.VarLen}
	unk2 := gen.TField{Field: ref.Field{ID: 20003, Len: 2, Type: ref.TOctets}, Unknown: true, WireLen: 2}
	one, eight, sixteen, str := fixed("protocolIdentifier", 0), fixed("octetDeltaCount", 0), fixed("sourceIPv6Address", 0), fixed("sourcePodName", 56506)
	type dom struct {
		f      gen.TField
		maxN   int
		strict bool
	}
	doms := []dom{{unkZero, 16000, false}, {unkZeroEnt, 8000, false}, {one, 16000, true}, {eight, 16000, true}, {sixteen, 16000, true}, {str, 8000, true}, {unkVar, 16000, false}, {unk2, 16000, false}}
	d := doms[rapid.IntRange(0, len(doms)-1).Draw(t, "dominant")]
	var n int
	switch k := rapid.IntRange(0, 5).Draw(t, "size_class"); k {
	case 0:
		n = rapid.IntRange(50, 500).Draw(t, "n")
	case 1:
		n = rapid.IntRange(500, 4000).Draw(t, "n")
	case 2:
		n = rapid.SampledFrom([]int{4095, 4096, 4097, 8191, 8192, 8193}).Draw(t, "n")
	default:
		n = rapid.IntRange(4000, d.maxN).Draw(t, "n")
	}
	if n > d.maxN {
		n = d.maxN
	}
	fs := make([]gen.TField, n)
	for i := range fs {
		fs[i] = d.f
	}
	others := []gen.TField{one, eight, unk2, unkVar, unkZero, str}
	for k := rapid.IntRange(0, 3).Draw(t, "n_other"); k > 0; k-- {
		o := others[rapid.IntRange(0, len(others)-1).Draw(t, "other")]
		at := rapid.IntRange(0, len(fs)).Draw(t, "other_at")
		fs = append(fs[:at], append([]gen.TField{o}, fs[at:]...)...)
	}
	strictOK := d.strict
	for _, f := range fs {
		if f.Unknown {
			strictOK = false
		}
	}
	if strictOK && rapid.Bool().Draw(t, "strict") {
		c.Mode = "Strict"
	} else {
		c.Mode = rapid.SampledFrom([]string{"LenientKeepUnknown", "LenientDropUnknown"}).Draw(t, "mode")
	}
	tm := ref.TemplateMessage(ref.Header{Domain: 1, Seq: 1}, gen.Wire(256, fs))
	if len(tm) > 65535 {
		t.Fatalf("harness: template message of %d bytes", len(tm))
	}
	c.Packets = append(c.Packets, tm)
	view := gen.View(fs)
	min := ref.MinRecLen(view)
	for k := rapid.IntRange(1, 2).Draw(t, "n_data"); k > 0; k-- {
		var l int
		switch rapid.IntRange(0, 4).Draw(t, "len_class") {
		case 0:
			l = rapid.IntRange(0, 200).Draw(t, "len")
		case 1:
			l = 65000 - rapid.IntRange(0, 40).Draw(t, "len")
		case 2: // around a whole number of shortest records
			if min > 0 && min < 65000 {
				l = min*rapid.IntRange(1, 65000/min).Draw(t, "recs") + rapid.IntRange(-1, 1).Draw(t, "off")
			}
		case 3: // around the sum of the widths taken modulo 65536
			l = min%65536 + rapid.IntRange(-1, 40).Draw(t, "off")
		default:
			l = rapid.IntRange(0, 65000).Draw(t, "len")
		}
		if l < 0 {
			l = 0
		}
		if l > 65000 {
			l = 65000
		}
		var body []byte
		switch rapid.IntRange(0, 2).Draw(t, "fill") {
		case 0:
			body = make([]byte, l)
		case 1:
			body = gen.BytesN(t, l, "body")
		default: // short variable-length values all the way
			body = make([]byte, l)
			for i := range body {
				body[i] = byte(i % 3)
			}
		}
		c.Packets = append(c.Packets, ref.EncodeMessage(ref.Header{Domain: 1, Seq: 2}, 256, body))
	}
	return c
}
