//go:build verif

// C03 — collector decoding is total and exact on arbitrary bytes.
package c03

import (
	"bytes"
	"fmt"
	"os"
	"testing"
	"time"

	"pgregory.net/rapid"

	"github.com/vmware/go-ipfix/pkg/collector"
	"github.com/vmware/go-ipfix/pkg/entities"

	"verifharness/ev"
	"verifharness/gen"
	"verifharness/glue"
	ref "verifharness/refipfix"
)

// Case is a history of packets presented to one collecting process.
type Case struct {
	Mode    string   `json:"mode"`
	Proto   string   `json:"proto"`
	Packets [][]byte `json:"packets"`
	// NumExtra: the collector's NumExtraElements setting (spare capacity of decoded element lists)
	NumExtra int `json:"num_extra,omitempty"`
}

// Stats is what a run observed (for the evidence only).
type Stats struct {
	Reached, AcceptedData, AcceptedTpl, Rejected, Records, Judged, SecondSet int
}

var (
	rec  *ev.Recorder
	pool *gen.Pool
)

func TestMain(m *testing.M) {
	glue.SilenceKlog()
	pool = gen.NewPool(glue.NewCollectorPoolArgs())
	if rp := ev.LoadReplay(); rp != nil {
		if rp.Phase == "verbose_logging" {
			glue.SetKlogVerbosity(10)
		}
		if rp.Phase == "template_flip" {
			ev.RunReplay(rp, runFlip)
		}
		if rp.Phase == "udp_degenerate_datagrams" {
			ev.RunReplay(rp, runUDP)
		}
		if rp.Phase == "tcp_retention" {
			ev.RunReplay(rp, runTCase)
		}
		ev.RunReplay(rp, func(c Case) *ev.Failure { return runCase(c, nil) })
	}
	rec = ev.New("C03", "histories of 1..6 packets (random bytes behind a valid prefix; grammar-generated template and data messages incl. degenerate templates; truncations at every offset, padding extensions, length-prefix / field-count / set-id tampering, byte flips, appended sets) x 3 decoding modes x tcp/udp; non-trivial = some packet got past the header check into field-specifier or record decoding; distinct by hash(mode, proto, packets)",
		"reference codec refipfix", "verif hooks VerifDecodePacket / VerifTemplates (plain calls / read-only snapshot)",
		"template in force = what the collector stores (right-template logic is C04's subject); wire lengths that differ from the registry are not judged")
	code := m.Run()
	rec.Write()
	os.Exit(code)
}

func newCol(c Case) *glue.Col {
	var clk collector.VerifClock
	if c.Proto == "udp" {
		clk = glue.FrozenClock{T: time.Unix(1700000000, 0)}
	}
	glue.NumExtraElements = c.NumExtra
	defer func() { glue.NumExtraElements = 0 }()
	return glue.NewCol(c.Proto, collector.DecodingMode(c.Mode), clk, 1800)
}

func runCase(c Case, st *Stats) *ev.Failure {
	if st == nil {
		st = &Stats{}
	}
	col := newCol(c)
	for i, pkt := range c.Packets {
		before := col.StoredTemplates()
		dr := col.Decode(pkt, "10.1.2.3:4739")
		if dr.Hung {
			return ev.Failf("HUNG packet %d: %s", i, dr.HungWhy)
		}
		if dr.Panic != "" {
			return ev.Failf("packet %d: decoding panicked (this crashes the collecting process): %s", i, dr.Panic)
		}
		if dr.Err != nil {
			st.Rejected++
			if dr.Msg != nil || len(dr.Deliveries) != 0 {
				return ev.Failf("packet %d: error returned together with a message / %d deliveries", i, len(dr.Deliveries))
			}
			if len(pkt) >= 24 {
				st.Reached++
			}
			continue
		}
		if dr.Msg == nil {
			return ev.Failf("packet %d: neither an error nor a message", i)
		}
		if len(dr.Deliveries) != 1 || dr.Deliveries[0] != dr.Msg {
			return ev.Failf("packet %d: %d deliveries on the message channel for one returned message", i, len(dr.Deliveries))
		}
		if len(pkt) < 20 {
			return ev.Failf("packet %d: a message was returned for %d bytes (no complete message and set header)", i, len(pkt))
		}
		h, _, _ := ref.ParseMessage(pkt[:16])
		if h.Version != 10 {
			return ev.Failf("packet %d: version %d accepted", i, h.Version)
		}
		st.Reached++
		if dr.Msg.GetObsDomainID() != h.Domain || dr.Msg.GetSequenceNum() != h.Seq || dr.Msg.GetExportTime() != h.ExportTime {
			return ev.Failf("packet %d: header fields delivered (%d,%d,%d) differ from the wire (%d,%d,%d)", i, dr.Msg.GetObsDomainID(), dr.Msg.GetSequenceNum(), dr.Msg.GetExportTime(), h.Domain, h.Seq, h.ExportTime)
		}
		setID := uint16(pkt[16])<<8 | uint16(pkt[17])
		setLen := int(pkt[18])<<8 | int(pkt[19])
		if n := len(dr.Msg.GetSet().GetRecords()); int(h.Length) == len(pkt) && setID >= 256 && setLen < 4 && n > 0 {
			return ev.Failf("packet %d: %d records were delivered for a data set whose length field says %d, less than its own 4-byte header: they were made of the %d bytes that follow the set in the message", i, n, setLen, len(pkt)-20)
		}
		// the set body is what the set's own length field covers; further sets may follow it
		consistent := int(h.Length) == len(pkt) && setLen >= 4 && setLen <= len(pkt)-16
		body := pkt[20:]
		if consistent {
			body = pkt[20 : 16+setLen]
			if setLen < len(pkt)-16 {
				st.SecondSet++
			}
		}
		if setID == 2 {
			st.AcceptedTpl++
			t, f := glue.CheckTemplateMsg(dr.Msg, body)
			if f != nil {
				return ev.Failf("packet %d: %s", i, f.Msg)
			}
			// what is stored must be what was delivered
			stored, ok := col.StoredTemplates()[glue.TplKey{Domain: h.Domain, ID: t.ID}]
			if !ok {
				return ev.Failf("packet %d: template %d accepted but not stored", i, t.ID)
			}
			els := dr.Msg.GetSet().GetRecords()[0].GetOrderedElementList()
			for k, el := range els {
				f, _ := glue.FieldOf(el.GetInfoElement())
				if f != stored[k] {
					return ev.Failf("packet %d: stored template field %d %+v differs from the delivered one %+v", i, k, stored[k], f)
				}
			}
			continue
		}
		st.AcceptedData++
		fields, ok := before[glue.TplKey{Domain: h.Domain, ID: setID}]
		if !ok {
			return ev.Failf("packet %d: data set %d decoded although no template (domain %d) is held", i, setID, h.Domain)
		}
		if dr.Msg.GetSet().GetSetType() != entities.Data {
			return ev.Failf("packet %d: set id %d but no data set delivered", i, setID)
		}
		st.Records += len(dr.Msg.GetSet().GetRecords())
		if !consistent {
			continue // length fields disagree with the byte string: acceptance and content not judged
		}
		st.Judged++
		if f := glue.CheckDataMsg(dr.Msg, fields, body, col.Mode); f != nil {
			return ev.Failf("packet %d: %s", i, f.Msg)
		}
	}
	return nil
}

// ---------------------------------------------------------------- generators

type tplInfo struct {
	domain uint32
	id     uint16
	fields []gen.TField
}

func genTemplate(t *rapid.T) tplInfo {
	ti := tplInfo{domain: uint32(rapid.IntRange(1, 2).Draw(t, "domain"))}
	ti.id = rapid.SampledFrom([]uint16{256, 256, 257, 257, 258, 300, 65535, 255, 3, 2}).Draw(t, "tid")
	var n int
	switch c := rapid.IntRange(0, 19).Draw(t, "nfcls"); {
	case c == 0:
		n = 0
	case c < 17:
		n = rapid.IntRange(1, 10).Draw(t, "nf")
	case c < 19:
		n = rapid.IntRange(11, 40).Draw(t, "nf")
	default:
		n = rapid.IntRange(41, 300).Draw(t, "nf")
	}
	punk := rapid.SampledFrom([]int{0, 0, 2, 5, 10}).Draw(t, "punk")
	for i := 0; i < n; i++ {
		if rapid.IntRange(0, 9).Draw(t, "unk") < punk {
			ti.fields = append(ti.fields, pool.UnknownField(t, true))
		} else {
			f := pool.KnownField(t)
			if rapid.IntRange(0, 19).Draw(t, "wl") == 0 { // wire length that differs from the registry's
				f.WireLen = rapid.SampledFrom([]uint16{0, 1, 2, 4, 8, ref.VarLen}).Draw(t, "wirelen")
			}
			ti.fields = append(ti.fields, f)
		}
	}
	return ti
}

func hdr(t *rapid.T, domain uint32) ref.Header {
	return ref.Header{ExportTime: rapid.Uint32().Draw(t, "et"), Seq: rapid.Uint32().Draw(t, "seq"), Domain: domain}
}

func genData(t *rapid.T, ti tplInfo) []byte {
	view := gen.View(ti.fields)
	min := ref.MinRecLen(view)
	maxRecs := 6
	if rapid.IntRange(0, 19).Draw(t, "manyrec") == 0 {
		maxRecs = 60
	}
	// keep the legitimate output (records x fields) far below the hang rule's thresholds
	if len(view) > 0 && maxRecs*len(view) > 4000 {
		maxRecs = 4000 / len(view)
	}
	n := rapid.IntRange(0, maxRecs).Draw(t, "nrec")
	var body []byte
	for i := 0; i < n; i++ {
		r := gen.Record(t, view, 400)
		gen.LongPrefixes(t, view, r)
		body = ref.EncodeDataRecord(body, view, r)
		if len(body) > 60000 {
			break
		}
	}
	if min == 0 && rapid.Bool().Draw(t, "zbody") {
		body = gen.BytesN(t, rapid.IntRange(1, 40).Draw(t, "zn"), "zbytes")
	}
	m := ref.EncodeMessage(hdr(t, ti.domain), ti.id, body)
	if len(m) > 65535 {
		m = gen.FixLengths(m[:65535])
	}
	return m
}

func mutate(t *rapid.T, m []byte, minRec int) ([]byte, string) {
	m = append([]byte(nil), m...)
	class := ""
	switch rapid.IntRange(0, 10).Draw(t, "mut") {
	case 0, 1:
		m = m[:rapid.IntRange(0, len(m)).Draw(t, "cut")]
		class = "truncated"
	case 2:
		m = append(m, make([]byte, rapid.IntRange(1, minRec+2).Draw(t, "pad"))...)
		class = "padded_zero"
	case 3:
		m = append(m, gen.BytesN(t, rapid.IntRange(1, minRec+2).Draw(t, "pad"), "padbytes")...)
		class = "padded_nonzero"
	case 4:
		for k := rapid.IntRange(1, 3).Draw(t, "nflip"); k > 0 && len(m) > 0; k-- {
			m[rapid.IntRange(0, len(m)-1).Draw(t, "flipat")] ^= byte(1 << rapid.IntRange(0, 7).Draw(t, "bit"))
		}
		class = "bitflip"
	case 5:
		if len(m) > 20 {
			p := rapid.IntRange(20, len(m)-1).Draw(t, "ffat")
			m[p] = 0xFF
			if rapid.Bool().Draw(t, "ff3") && p+2 < len(m) {
				m[p+1], m[p+2] = 0xFF, rapid.Byte().Draw(t, "ffl")
			}
		}
		class = "prefix_tamper"
	case 6:
		if len(m) >= 24 {
			v := rapid.SampledFrom([]int{0, 1, 2, 255, 256, 16379, 65535}).Draw(t, "fc")
			m[22], m[23] = byte(v>>8), byte(v)
		}
		class = "fieldcount_tamper"
	case 7:
		if len(m) >= 18 {
			v := rapid.SampledFrom([]int{0, 1, 2, 3, 4, 255, 256, 257, 258}).Draw(t, "sid")
			m[16], m[17] = byte(v>>8), byte(v)
		}
		class = "setid_tamper"
	case 8:
		// a second set behind the first one, whose own length field stays as it is: a copy of the first
		// set (the same template once more), or a short set of arbitrary content
		extra := []byte{1, 0, 0, byte(4 + rapid.IntRange(0, 8).Draw(t, "s2len"))}
		extra = append(extra, gen.BytesN(t, int(extra[3])-4, "s2")...)
		if len(m) > 20 && rapid.Bool().Draw(t, "s2copy") {
			extra = append([]byte(nil), m[16:]...)
		}
		m = append(m, extra...)
		if len(m) <= 65535 {
			m[2], m[3] = byte(len(m)>>8), byte(len(m))
			return m, "second_set"
		}
		class = "second_set"
	case 9:
		if len(m) >= 4 {
			switch rapid.IntRange(0, 2).Draw(t, "hdrmut") {
			case 0:
				m[1] = rapid.SampledFrom([]byte{0, 5, 9, 11}).Draw(t, "ver")
			case 1:
				m[2], m[3] = rapid.Byte().Draw(t, "l0"), rapid.Byte().Draw(t, "l1")
			case 2:
				if len(m) >= 20 {
					m[18], m[19] = rapid.Byte().Draw(t, "sl0"), rapid.Byte().Draw(t, "sl1")
				}
			}
		}
		return m, "header_tamper"
	case 10:
		if len(m) > 24 { // field length tamper inside a template / arbitrary 16-bit write
			p := rapid.IntRange(20, len(m)-2).Draw(t, "w16at")
			v := rapid.SampledFrom([]int{0, 1, 254, 255, 256, 65535}).Draw(t, "w16")
			m[p], m[p+1] = byte(v>>8), byte(v)
		}
		class = "word_tamper"
	}
	if len(m) > 65535 {
		m = m[:65535]
	}
	if rapid.IntRange(0, 9).Draw(t, "fix") < 8 {
		m = gen.FixLengths(m)
	}
	return m, class
}

func genCase(t *rapid.T) Case {
	c := Case{
		Mode:  rapid.SampledFrom([]string{"Strict", "LenientKeepUnknown", "LenientDropUnknown"}).Draw(t, "mode"),
		Proto: rapid.SampledFrom([]string{"tcp", "udp"}).Draw(t, "proto"),
	}
	c.NumExtra = rapid.SampledFrom([]int{0, 0, 1, 3, 16}).Draw(t, "num_extra")
	var tpls []tplInfo
	n := rapid.IntRange(1, 6).Draw(t, "npkt")
	for i := 0; i < n; i++ {
		kind := rapid.IntRange(0, 11).Draw(t, "kind")
		if len(tpls) == 0 && kind >= 3 && kind != 11 {
			kind = 1
		}
		switch {
		case kind == 0 || kind == 11:
			l := rapid.IntRange(0, 120).Draw(t, "rndlen")
			b := gen.BytesN(t, l, "rnd")
			if l >= 4 && kind == 0 {
				b[0], b[1] = 0, 10
				b = gen.FixLengths(b)
				if l >= 18 && rapid.Bool().Draw(t, "rndtpl") {
					b[16], b[17] = 0, 2
				}
			}
			c.Packets = append(c.Packets, b)
		case kind <= 2:
			ti := genTemplate(t)
			tpls = append(tpls, ti)
			c.Packets = append(c.Packets, ref.TemplateMessage(hdr(t, ti.domain), gen.Wire(ti.id, ti.fields)))
		case kind <= 6:
			ti := tpls[rapid.IntRange(0, len(tpls)-1).Draw(t, "whichtpl")]
			c.Packets = append(c.Packets, genData(t, ti))
		case kind <= 8:
			ti := tpls[rapid.IntRange(0, len(tpls)-1).Draw(t, "whichtpl")]
			m, _ := mutate(t, genData(t, ti), ref.MinRecLen(gen.View(ti.fields)))
			c.Packets = append(c.Packets, m)
		default:
			ti := genTemplate(t)
			m, _ := mutate(t, ref.TemplateMessage(hdr(t, ti.domain), gen.Wire(ti.id, ti.fields)), 4)
			c.Packets = append(c.Packets, m)
		}
	}
	return c
}

// ---------------------------------------------------------------- driver

func classify(c Case, st *Stats) []string {
	cl := []string{"mode_" + c.Mode, "proto_" + c.Proto}
	if st.AcceptedData > 0 {
		cl = append(cl, "accepted_data")
	}
	if st.Judged > 0 {
		cl = append(cl, "data_judged_exactly")
	}
	if st.AcceptedTpl > 0 {
		cl = append(cl, "accepted_template")
	}
	if st.Rejected > 0 {
		cl = append(cl, "rejected_some")
	}
	if st.Records > 1 {
		cl = append(cl, "multi_record")
	}
	if st.SecondSet > 0 {
		cl = append(cl, "accepted_message_with_a_second_set")
	}
	return cl
}

func runRecorded(phase string, c Case, extra ...string) *ev.Failure {
	st := &Stats{}
	f := runCase(c, st)
	h := ev.HashBytes(append([][]byte{[]byte(c.Mode), []byte(c.Proto)}, c.Packets...)...)
	rec.Case(h, st.Reached > 0, append(classify(c, st), extra...)...)
	if len(c.Packets) <= 3 {
		tot := 0
		for _, p := range c.Packets {
			tot += len(p)
		}
		if tot < 400 {
			cls := phase
			if st.Judged > 0 {
				cls += "_judged"
			}
			rec.Sample(cls, c)
		}
	}
	if f != nil && len(f.Msg) > 4 && f.Msg[:4] == "HUNG" {
		// a spinning decoder cannot be killed and keeps allocating: report and leave at once
		rec.Violation(phase, c, f.Msg)
		rec.Write()
		os.Exit(1)
	}
	return f
}

var modes = []string{"Strict", "LenientKeepUnknown", "LenientDropUnknown"}

func fixed(name string, ent uint32) gen.TField {
	for _, f := range pool.Known {
		if f.Name == name && f.Ent == ent {
			return gen.TField{Field: f, WireLen: f.Len}
		}
	}
	panic("no element " + name)
}

// preamble enumerates every truncation point and padding extension of small valid messages.
func preamble(t *testing.T) bool {
	unkVar := gen.TField{Field: ref.Field{ID: 20001, Ent: 0, Len: ref.VarLen, Type: ref.TOctets}, Unknown: true, WireLen: ref.VarLen}
	unk3 := gen.TField{Field: ref.Field{ID: 777, Ent: 4242, Len: 3, Type: ref.TOctets}, Unknown: true, WireLen: 3}
	known := []gen.TField{fixed("sourceIPv4Address", 0), fixed("sourcePodName", 56506), fixed("protocolIdentifier", 0),
		fixed("octetDeltaCount", 0), fixed("sourceMacAddress", 0), fixed("destinationIPv6Address", 0), fixed("tcpState", 56506)}
	withUnknown := append(append([]gen.TField{}, known[:3]...), unkVar, unk3, known[3])
	long := bytes.Repeat([]byte("x"), 260)
	mkVals := func(fs []gen.TField, k int) []ref.Value {
		var vs []ref.Value
		for _, f := range fs {
			switch {
			case f.Type == ref.TString || (f.Type == ref.TOctets && f.Len == ref.VarLen):
				if k == 1 {
					vs = append(vs, ref.Value{B: long})
				} else if k == 3 {
					// 255 bytes: the three-byte length prefix is ff 00 ff, so that a cut inside it leaves a
					// first length byte of zero behind
					vs = append(vs, ref.Value{B: long[:255]})
				} else {
					vs = append(vs, ref.Value{B: []byte("pod-a")})
				}
			case f.Type.IsBytes():
				n := int(f.Len)
				vs = append(vs, ref.Value{B: bytes.Repeat([]byte{byte(0x10 + k)}, n)})
			default:
				vs = append(vs, ref.Value{U: 0x0102030405060708 + uint64(k)})
			}
		}
		return vs
	}
	ok := true
	run := func(c Case, cls string) bool {
		if f := runRecorded("preamble", c, cls); f != nil {
			rec.Violation("preamble", c, f.Msg)
			t.Errorf("preamble: %s", f.Msg)
			ok = false
			return false
		}
		return true
	}
	for _, fs := range [][]gen.TField{known, withUnknown} {
		view := gen.View(fs)
		min := ref.MinRecLen(view)
		tm := ref.TemplateMessage(ref.Header{Domain: 1, Seq: 9, ExportTime: 77}, gen.Wire(256, fs))
		dm := ref.DataMessage(ref.Header{Domain: 1, Seq: 10, ExportTime: 78}, ref.Template{ID: 256, Fields: view}, [][]ref.Value{mkVals(fs, 0), mkVals(fs, 1), mkVals(fs, 2), mkVals(fs, 3)})
		for _, mode := range modes {
			for _, proto := range []string{"tcp", "udp"} {
				base := Case{Mode: mode, Proto: proto}
				for k := 0; k <= len(dm); k++ {
					cut := append([]byte(nil), dm[:k]...)
					for _, fix := range []bool{true, false} {
						c := base
						p := append([]byte(nil), cut...)
						if fix {
							p = gen.FixLengths(p)
						}
						c.Packets = [][]byte{tm, p}
						if !run(c, "enum_truncated_data") {
							return false
						}
					}
				}
				for k := 0; k <= len(tm); k++ {
					c := base
					c.Packets = [][]byte{tm, gen.FixLengths(append([]byte(nil), tm[:k]...)), dm}
					if !run(c, "enum_truncated_template") {
						return false
					}
				}
				for n := 1; n <= min+2; n++ {
					for _, fill := range []byte{0, 0xFF, 0x01} {
						c := base
						c.Packets = [][]byte{tm, gen.FixLengths(append(append([]byte(nil), dm...), bytes.Repeat([]byte{fill}, n)...))}
						if !run(c, "enum_padded_data") {
							return false
						}
					}
				}
			}
		}
	}
	// an application-registered element of a fixed-size type declared with a shorter length: whatever
	// the collector makes of its data, it must survive it
	{
		glue.UserFields()
		rt := ref.TemplateMessage(ref.Header{Domain: 1}, ref.Template{ID: 256, Fields: []ref.Field{{ID: 8, Len: 4}, {ID: glue.ReducedU32.ID, Ent: glue.ReducedU32.Ent, Len: 2}, {ID: 4, Len: 1}}})
		for _, mode := range modes {
			for _, n := range []int{2, 6, 7, 14, 21} {
				col := newCol(Case{Mode: mode, Proto: "tcp"})
				for k, pkt := range [][]byte{rt, ref.EncodeMessage(ref.Header{Domain: 1}, 256, bytes.Repeat([]byte{1, 2, 3, 4, 5, 6, 7}, 3)[:n])} {
					dr := col.Decode(pkt, "10.1.2.3:4739")
					if dr.Hung || dr.Panic != "" {
						c := Case{Mode: mode, Proto: "tcp", Packets: [][]byte{rt, pkt}}
						msg := fmt.Sprintf("registry holding an unsigned32 element declared with length 2: packet %d: decoding panicked or hung (this crashes the collecting process): %s%s", k, dr.Panic, dr.HungWhy)
						rec.Violation("preamble", c, msg)
						t.Errorf("preamble: %s", msg)
						return false
					}
				}
				rec.Case(ev.Hash([]any{"reduced", mode, n}), true, "enum_reduced_size_registered_element")
			}
		}
	}
	// degenerate templates: zero fields, single zero-length unknown element, followed by data
	zero := ref.TemplateMessage(ref.Header{Domain: 1}, ref.Template{ID: 256})
	zlen := ref.TemplateMessage(ref.Header{Domain: 1}, ref.Template{ID: 256, Fields: []ref.Field{{ID: 20001, Len: 0}}})
	zlen2 := ref.TemplateMessage(ref.Header{Domain: 1}, ref.Template{ID: 256, Fields: []ref.Field{{ID: 20001, Len: 0}, {ID: 333, Ent: 4242, Len: 0}}})
	for _, tm := range [][]byte{zero, zlen, zlen2} {
		for _, mode := range modes {
			for _, proto := range []string{"tcp", "udp"} {
				for _, n := range []int{0, 1, 2, 7, 100} {
					c := Case{Mode: mode, Proto: proto, Packets: [][]byte{tm, ref.EncodeMessage(ref.Header{Domain: 1}, 256, make([]byte, n))}}
					if !run(c, "enum_degenerate_template") {
						return false
					}
				}
			}
		}
	}
	return ok
}

// TCase is a stream of valid messages for the transport phase: one template and data messages of
// its records, presented to the TCP connection handler as one connection; every delivered message is
// retained and compared with its own wire bytes only after the whole stream was read, so a field that
// shares memory with a read buffer shows.
type TCase struct {
	Mode   string          `json:"mode"`
	Fields []gen.TField    `json:"fields"`
	Msgs   [][][]ref.Value `json:"msgs"` // data messages -> records -> values
	Cut    int             `json:"cut"`  // one segment boundary (0 = none)
}

func runTCase(c TCase) *ev.Failure {
	mode := collector.DecodingMode(c.Mode)
	cp, err := collector.InitCollectingProcess(collector.CollectorInput{Address: "127.0.0.1:0", Protocol: "tcp", MaxBufferSize: 65535, DecodingMode: mode})
	if err != nil {
		return ev.Failf("InitCollectingProcess: %v", err)
	}
	view := gen.View(c.Fields)
	stream := ref.TemplateMessage(ref.Header{Domain: 4, Seq: 1}, gen.Wire(256, c.Fields))
	var wires [][]byte
	for k, recs := range c.Msgs {
		w := ref.DataMessage(ref.Header{Domain: 4, Seq: uint32(2 + k)}, ref.Template{ID: 256, Fields: view}, recs)
		if len(w) > 65535 {
			continue
		}
		wires = append(wires, w)
		stream = append(stream, w...)
	}
	chunks := [][]byte{stream}
	if c.Cut > 0 && c.Cut < len(stream) {
		chunks = [][]byte{append([]byte(nil), stream[:c.Cut]...), append([]byte(nil), stream[c.Cut:]...)}
	}
	got, ok := glue.ServeTCP(cp, &glue.ChunkConn{Chunks: chunks}, 15*time.Second)
	if !ok {
		return ev.Failf("the connection handler did not return within 15 s")
	}
	if len(got) != 1+len(wires) {
		return ev.Failf("%d messages delivered over the TCP handler, %d valid messages sent", len(got), 1+len(wires))
	}
	for k, w := range wires {
		if f := glue.CheckDataMsg(got[1+k], view, w[20:], mode); f != nil {
			return ev.Failf("message %d, inspected after the whole stream was read: %s", k, f.Msg)
		}
	}
	return nil
}

func genTCase(t *rapid.T) TCase {
	c := TCase{Mode: rapid.SampledFrom([]string{"LenientKeepUnknown", "LenientDropUnknown", "Strict"}).Draw(t, "mode")}
	for n := rapid.IntRange(1, 8).Draw(t, "nf"); n > 0; n-- {
		if c.Mode != "Strict" && rapid.IntRange(0, 3).Draw(t, "unk") == 0 {
			c.Fields = append(c.Fields, pool.UnknownField(t, false))
		} else {
			c.Fields = append(c.Fields, pool.KnownField(t))
		}
	}
	view := gen.View(c.Fields)
	for n := rapid.IntRange(2, 5).Draw(t, "nmsg"); n > 0; n-- {
		var recs [][]ref.Value
		for k := rapid.IntRange(1, 3).Draw(t, "nrec"); k > 0; k-- {
			r := gen.Record(t, view, rapid.SampledFrom([]int{8, 40, 300, 5000}).Draw(t, "maxvar"))
			gen.LongPrefixes(t, view, r)
			recs = append(recs, r)
		}
		c.Msgs = append(c.Msgs, recs)
	}
	c.Cut = rapid.IntRange(0, 200).Draw(t, "cut")
	return c
}

func TestC03(t *testing.T) {
	if !preamble(t) {
		return
	}
	if !ev.Rapid(t, rec, "tcp_retention", rec.Scale(3000, 1000000), genTCase, func(c TCase) *ev.Failure {
		rec.Case(ev.Hash(c), true, "tcp_retention", "mode_"+c.Mode)
		return runTCase(c)
	}) {
		return
	}
	if !ev.Rapid(t, rec, "histories", rec.Scale(50000, 10000000), genCase, func(c Case) *ev.Failure {
		return runRecorded("histories", c)
	}) {
		return
	}
	if !ev.Rapid(t, rec, "large_products", rec.Scale(120, 4000), genLargeCase, func(c Case) *ev.Failure {
		return runRecorded("large_products", c, "large_products")
	}) {
		return
	}
	// the same oracle with the process-wide log verbosity raised (the decoder logs at V(4)/V(5);
	// logging must not change what is decoded)
	glue.SetKlogVerbosity(10)
	defer glue.SetKlogVerbosity(0)
	ev.Rapid(t, rec, "verbose_logging", rec.Scale(2500, 200000), genCase, func(c Case) *ev.Failure {
		return runRecorded("verbose_logging", c)
	})
}

// FuzzDecode is the native coverage-guided target (thorough tier): the input is split into
// a mode byte and up to six length-prefixed packets; the oracle is the same runCase.
func FuzzDecode(f *testing.F) {
	tm := ref.TemplateMessage(ref.Header{Domain: 1}, ref.Template{ID: 256, Fields: []ref.Field{{ID: 8, Len: 4}, {ID: 101, Ent: 56506, Len: 65535}, {ID: 4, Len: 1}}})
	dm := ref.EncodeMessage(ref.Header{Domain: 1}, 256, []byte{1, 2, 3, 4, 3, 'a', 'b', 'c', 6, 9, 9, 9, 9, 0xFF, 0, 1, 'z', 17})
	pack := func(mode byte, pk ...[]byte) []byte {
		out := []byte{mode}
		for _, p := range pk {
			out = append(out, byte(len(p)>>8), byte(len(p)))
			out = append(out, p...)
		}
		return out
	}
	f.Add(pack(0, tm, dm))
	f.Add(pack(1, tm, dm[:len(dm)-3]))
	f.Add(pack(2, ref.TemplateMessage(ref.Header{Domain: 1}, ref.Template{ID: 256}), dm))
	f.Add(pack(1, ref.TemplateMessage(ref.Header{Domain: 1}, ref.Template{ID: 256, Fields: []ref.Field{{ID: 20001, Len: 0}, {ID: 30000, Ent: 9, Len: 65535}}}), dm))
	f.Add(pack(4, tm, append(append([]byte(nil), dm...), 0, 0, 0)))
	f.Add([]byte{3, 0, 20, 0, 10, 0, 20, 0, 0, 0, 0, 0, 0, 0, 0, 0, 0, 0, 0, 0, 2, 0xFF, 0xFF})
	f.Fuzz(func(t *testing.T, in []byte) {
		if len(in) == 0 {
			return
		}
		c := Case{Mode: modes[int(in[0])%3], Proto: []string{"tcp", "udp"}[int(in[0]/3)%2]}
		in = in[1:]
		for len(in) >= 2 && len(c.Packets) < 6 {
			n := int(in[0])<<8 | int(in[1])
			in = in[2:]
			if n > len(in) {
				n = len(in)
			}
			p := append([]byte(nil), in[:n]...)
			in = in[n:]
			if len(p) >= 4 { // get past the version check and keep lengths consistent so the content is judged
				p[0], p[1] = 0, 10
				p = gen.FixLengths(p)
			}
			c.Packets = append(c.Packets, p)
		}
		// bound the legitimate output so that the hang rule keeps its margin
		for _, p := range c.Packets {
			if len(p) >= 24 && p[16] == 0 && p[17] == 2 && (int(p[22])<<8|int(p[23])) > 64 {
				return
			}
		}
		if fl := runCase(c, nil); fl != nil {
			t.Fatalf("%s\ncase: %s", fl.Msg, fmt.Sprintf("%+v", c))
		}
	})
}
