//go:build verif

package c03

import (
	"net"
	"sync"
	"testing"
	"time"

	"github.com/vmware/go-ipfix/pkg/collector"
	"github.com/vmware/go-ipfix/pkg/entities"

	"verifharness/ev"
	"verifharness/glue"
	ref "verifharness/refipfix"
)

// UDPCase: degenerate datagrams on a real udp socket - "every byte string presented" includes the
// empty one and the ones shorter than a message header. Each is refused (or ignored); the valid
// message that follows every one of them must still be delivered: one bad datagram does not take
// the collector out of service.
type UDPCase struct {
	Mode string   `json:"mode"`
	Junk [][]byte `json:"junk"`
}

func runUDP(c UDPCase) *ev.Failure {
	cp, err := collector.InitCollectingProcess(collector.CollectorInput{Address: "127.0.0.1:0", Protocol: "udp", MaxBufferSize: 65535, TemplateTTL: 3600, DecodingMode: collector.DecodingMode(c.Mode)})
	if err != nil {
		return ev.Failf("InitCollectingProcess: %v", err)
	}
	go cp.Start()
	for i := 0; i < 3000 && cp.GetAddress() == nil; i++ {
		time.Sleep(time.Millisecond)
	}
	if cp.GetAddress() == nil {
		return nil
	}
	var mu sync.Mutex
	var got []*entities.Message
	stop, done := make(chan struct{}), make(chan struct{})
	go func() {
		defer close(done)
		for {
			select {
			case m := <-cp.GetMsgChan():
				mu.Lock()
				got = append(got, m)
				mu.Unlock()
			case <-stop:
				return
			}
		}
	}()
	defer func() { cp.Stop(); close(stop); <-done }()
	conn, err := net.Dial("udp", cp.GetAddress().String())
	if err != nil {
		return nil
	}
	defer conn.Close()
	var f ref.Field
	for _, x := range glue.RegistryFields() {
		if x.Name == "sourceTransportPort" && x.Ent == 0 {
			f = x
		}
	}
	valid := func(seq uint32) []byte {
		return ref.TemplateMessage(ref.Header{Domain: 12, Seq: seq}, ref.Template{ID: 256, Fields: []ref.Field{f}})
	}
	wait := func(n int) bool {
		for end := time.Now().Add(3 * time.Second); time.Now().Before(end); time.Sleep(time.Millisecond) {
			mu.Lock()
			k := len(got)
			mu.Unlock()
			if k >= n {
				return true
			}
		}
		return false
	}
	conn.Write(valid(0))
	if !wait(1) {
		return nil // the first datagram did not arrive: loss, no verdict
	}
	for k, j := range c.Junk {
		conn.Write(j)
		time.Sleep(2 * time.Millisecond)
		// the valid message after it: up to three attempts (a datagram can be lost; three cannot)
		ok := false
		for a := 0; a < 3 && !ok; a++ {
			mu.Lock()
			before := len(got)
			mu.Unlock()
			conn.Write(valid(uint32(k + 1)))
			ok = wait(before + 1)
		}
		if !ok {
			return ev.Failf("udp collector (%s): after a datagram of %d bytes (% x) three valid messages in a row were not delivered: the collector stopped receiving", c.Mode, len(j), j[:min(len(j), 12)])
		}
	}
	return nil
}

func TestC03UDPDegenerate(t *testing.T) {
	if ev.Shard() > 1 {
		return
	}
	// ... and data sets for the template the collector holds that carry no record: a set of its
	// header only, and one whose body is a single byte of padding
	empty := ref.EncodeMessage(ref.Header{Domain: 12, Seq: 99}, 256, nil)
	padOnly := ref.EncodeMessage(ref.Header{Domain: 12, Seq: 99}, 256, []byte{0})
	junk := [][]byte{{}, {0}, {0, 10}, {0, 10, 0}, make([]byte, 15), make([]byte, 16), {0xff}, {}, {}, empty, padOnly, empty}
	for _, mode := range []string{"Strict", "LenientKeepUnknown"} {
		c := UDPCase{Mode: mode, Junk: junk}
		f := runUDP(c)
		rec.Case(ev.Hash(c), true, "udp_degenerate_datagrams", "mode_"+mode)
		rec.Sample("udp_degenerate_datagrams", c)
		if f != nil {
			rec.Violation("udp_degenerate_datagrams", c, f.Msg)
			t.Fatalf("%s", f.Msg)
		}
	}
}

// runFlip: one goroutine decodes the same 20-byte data set over and over while another keeps
// re-defining its template, alternating between a one-byte and a sixteen-byte layout (two exporters
// sharing an observation domain). Whatever the interleaving, a delivered message is what ONE of the
// two templates defines: 20 one-byte records, or 1 sixteen-byte record followed by 4 bytes of
// padding. N is the number of decodes.
func runFlip(n int) *ev.Failure {
	cp, err := collector.InitCollectingProcess(collector.CollectorInput{Address: "127.0.0.1:0", Protocol: "tcp", MaxBufferSize: 65535, DecodingMode: collector.DecodingModeLenientKeepUnknown})
	if err != nil {
		return ev.Failf("InitCollectingProcess: %v", err)
	}
	h := ref.Header{Domain: 21}
	one := ref.TemplateMessage(h, ref.Template{ID: 256, Fields: []ref.Field{{ID: 30001, Ent: 4242, Len: 1, Type: ref.TOctets}}})
	sixteen := ref.TemplateMessage(h, ref.Template{ID: 256, Fields: []ref.Field{{ID: 30002, Ent: 4242, Len: 16, Type: ref.TOctets}}})
	body := make([]byte, 20)
	for i := range body {
		body[i] = byte(i + 1)
	}
	data := ref.EncodeMessage(h, 256, body)
	stop, stopConsumer := make(chan struct{}), make(chan struct{})
	var wg, cwg sync.WaitGroup
	cwg.Add(1)
	go func() { // the consumer: decodePacket hands every message to the message channel
		defer cwg.Done()
		for {
			select {
			case <-cp.GetMsgChan():
			case <-stopConsumer:
				return
			}
		}
	}()
	defer func() { close(stopConsumer); cwg.Wait() }() // after the flipping goroutine has returned
	if _, err := cp.VerifDecodePacket(one, "10.0.0.1:1"); err != nil {
		return ev.Failf("template: %v", err)
	}
	wg.Add(1)
	go func() {
		defer wg.Done()
		for k := 0; ; k++ {
			select {
			case <-stop:
				return
			default:
			}
			if k%2 == 0 {
				cp.VerifDecodePacket(append([]byte(nil), sixteen...), "10.0.0.2:1")
			} else {
				cp.VerifDecodePacket(append([]byte(nil), one...), "10.0.0.2:1")
			}
		}
	}()
	var fail *ev.Failure
	seen := map[int]int{}
	for k := 0; k < n && fail == nil; k++ {
		m, err := cp.VerifDecodePacket(append([]byte(nil), data...), "10.0.0.1:1")
		if err != nil {
			continue
		}
		recs := m.GetSet().GetRecords()
		seen[len(recs)]++
		switch len(recs) {
		case 20:
		case 1:
			if v := recs[0].GetOrderedElementList()[0].GetOctetArrayValue(); len(v) != 16 {
				fail = ev.Failf("a 20-byte data set was delivered as 1 record of %d bytes while its template flipped between a 1-byte and a 16-byte layout", len(v))
			}
		default:
			fail = ev.Failf("a 20-byte data set was delivered as %d records while its template flipped between a 1-byte layout (20 records) and a 16-byte layout (1 record and padding): consistent with neither template (decode %d of %d)", len(recs), k, n)
		}
	}
	close(stop)
	wg.Wait()
	return fail
}

func TestC03TemplateFlip(t *testing.T) {
	if ev.Shard() > 1 {
		return
	}
	n := int(rec.Scale(300000, 5000000))
	f := runFlip(n)
	rec.Case(ev.Hash([]any{"template_flip", n}), true, "template_flips_during_decodes")
	if f != nil {
		rec.Violation("template_flip", n, f.Msg)
		t.Fatalf("%s", f.Msg)
	}
}
