//go:build verif

// C18 — encrypted transports authenticate the peer and never fall back to plaintext.
package c18

import (
	"bytes"
	"crypto/tls"
	"crypto/x509"
	"encoding/pem"
	"fmt"
	"net"
	"os"
	"strings"
	"sync"
	"sync/atomic"
	"testing"
	"time"

	"github.com/pion/dtls/v2"
	"pgregory.net/rapid"

	"github.com/vmware/go-ipfix/pkg/collector"
	"github.com/vmware/go-ipfix/pkg/entities"
	"github.com/vmware/go-ipfix/pkg/exporter"

	"verifharness/ev"
	"verifharness/exph"
	"verifharness/glue"
	ref "verifharness/refipfix"
)

// Cell is one cell of the configuration matrix.
//
//	Dir "exporter": library exporter (tls or dtls) against a harness-controlled server presenting ServerCert.
//	Dir "collector": harness-controlled TLS client presenting ClientCert against the library collector.
//	Dir "plaintext": Plain names the plaintext scenario.
//	Dir "sequence": a correctly configured exporter, then a second one (Plain names its fault) against the same collector.
type Cell struct {
	Dir        string `json:"dir"`
	Proto      string `json:"proto"` // tls | dtls
	ServerCert string `json:"server_cert,omitempty"`
	ServerName string `json:"server_name,omitempty"` // matching | unset | mismatching | ip_matching | ip_mismatching
	ClientCert string `json:"client_cert,omitempty"`
	ClientCA   bool   `json:"client_ca,omitempty"`
	MaxVersion string `json:"max_version,omitempty"` // 1.1 | 1.2 | 1.3
	Plain      string `json:"plain,omitempty"`
	// AddrHost (exporter direction): the collector is addressed by this host name instead of the
	// IP literal 127.0.0.1; with ServerName unset it is the name the certificate must match.
	AddrHost string `json:"addr_host,omitempty"`
}

var (
	rec             *ev.Recorder
	caGood, caOther *glue.CA
	serverCerts     map[string]glue.Leaf
	serverSANs      map[string][]string
	clientCerts     map[string]*glue.Leaf
	collectorCert   glue.Leaf
)

var trustDir string

var versions = map[string]uint16{"1.1": tls.VersionTLS11, "1.2": tls.VersionTLS12, "1.3": tls.VersionTLS13}

func TestMain(m *testing.M) {
	glue.SilenceKlog()
	glue.LoadRegistry()
	// The hosting program decides what crypto/tls does by default (its go directive, a //go:debug
	// line, the GODEBUG variable): here a program that still lets its servers speak TLS 1.0/1.1 unless
	// their configuration says otherwise. What the library promises must come from its own settings.
	os.Setenv("GODEBUG", "tls10server=1")
	caGood, caOther = glue.NewCA("verif trusted CA"), glue.NewCA("verif other CA")
	// the host's trust store holds the "other" CA (and nothing else): a certificate that chains to a
	// root the machine trusts is still not one that chains to the configured CA. Go reads the store
	// once, on first use, from these variables.
	if dir, err := os.MkdirTemp("", "c18-trust"); err == nil {
		trustDir = dir
		os.WriteFile(dir+"/roots.pem", caOther.CertPEM, 0o600)
		os.Mkdir(dir+"/empty", 0o700)
		os.Setenv("SSL_CERT_FILE", dir+"/roots.pem")
		os.Setenv("SSL_CERT_DIR", dir+"/empty")
	}
	lo := []net.IP{net.IPv4(127, 0, 0, 1), net.IPv6loopback}
	past, future := time.Now().Add(-48*time.Hour), time.Now().Add(48*time.Hour)
	serverCerts = map[string]glue.Leaf{
		"trusted":       caGood.LoopbackServer(),
		"other_ca":      caOther.LoopbackServer(),
		"self_signed":   caGood.Issue(glue.LeafSpec{CN: "collector", DNS: []string{"localhost"}, IPs: lo, SelfSign: true}),
		"expired":       caGood.Issue(glue.LeafSpec{CN: "collector", DNS: []string{"localhost"}, IPs: lo, NotBefore: past, NotAfter: time.Now().Add(-time.Hour)}),
		"not_yet_valid": caGood.Issue(glue.LeafSpec{CN: "collector", DNS: []string{"localhost"}, IPs: lo, NotBefore: time.Now().Add(time.Hour), NotAfter: future}),
		"wrong_san":     caGood.Issue(glue.LeafSpec{CN: "localhost", DNS: []string{"other.example"}}),
		"no_san":        caGood.Issue(glue.LeafSpec{CN: "localhost"}),
	}
	// a bundle: the wrong-SAN leaf (valid chain) followed by a self-signed certificate that carries the
	// expected names; only the leaf counts
	decoy := caGood.Issue(glue.LeafSpec{CN: "collector", DNS: []string{"localhost"}, IPs: lo, SelfSign: true})
	ws := serverCerts["wrong_san"]
	serverCerts["wrong_san_with_decoy"] = glue.Leaf{CertPEM: append(append([]byte(nil), ws.CertPEM...), decoy.CertPEM...), KeyPEM: ws.KeyPEM}
	serverSANs = map[string][]string{"wrong_san": {"other.example"}, "no_san": {}, "wrong_san_with_decoy": {"other.example"}}
	for _, k := range []string{"trusted", "other_ca", "self_signed", "expired", "not_yet_valid"} {
		serverSANs[k] = []string{"localhost", "127.0.0.1", "::1"}
	}
	mk := func(l glue.Leaf) *glue.Leaf { return &l }
	clientCerts = map[string]*glue.Leaf{
		"none":     nil,
		"trusted":  mk(caGood.Issue(glue.LeafSpec{CN: "exporter", Client: true})),
		"other_ca": mk(caOther.Issue(glue.LeafSpec{CN: "exporter", Client: true})),
		"expired":  mk(caGood.Issue(glue.LeafSpec{CN: "exporter", Client: true, NotBefore: past, NotAfter: time.Now().Add(-time.Hour)})),
	}
	collectorCert = caGood.LoopbackServer()
	if rp := ev.LoadReplay(); rp != nil {
		if rp.Phase == "generated_identities" {
			ev.RunReplay(rp, func(g GenCell) *ev.Failure { f, _ := runGen(g); return f })
		}
		ev.RunReplay(rp, func(c Cell) *ev.Failure { f, _ := runCell(c); return f })
	}
	rec = ev.New("C18", "the configuration matrix, enumerated completely in both tiers: library exporter against a harness-controlled server, {server certificate: trusted / other CA / self-signed / expired / not-yet-valid / wrong SAN / no SAN} x {ServerName matching DNS name / unset / mismatching DNS name / matching IP literal / mismatching IP literal} x {tls with server max version 1.1 / 1.2 / 1.3, dtls}; harness-controlled TLS client against the library collector, {client certificate: none / trusted / other CA / expired} x {client CA set / unset} x {client max version 1.1 / 1.2 / 1.3}; plaintext peers against encrypted endpoints and encrypted exporters against plaintext collectors (tcp and udp); an independent predicate written from the statement decides each cell; non-trivial = every cell (each is a distinct session with a decided expectation)",
		"certificates (ECDSA P-256) minted in-process", "Go crypto/tls and pion/dtls as the harness-side peers", "the client-certificate dimensions do not apply to the exporter direction, nor to DTLS (the library documents that DTLS client authentication is unsupported; pion speaks DTLS 1.2 only)")
	code := m.Run()
	rec.Write()
	if trustDir != "" {
		os.RemoveAll(trustDir)
	}
	os.Exit(code)
}

func sanOK(cert, sn, addrHost string) bool {
	want := map[string]string{"matching": "localhost", "unset": "127.0.0.1", "mismatching": "other.example", "ip_matching": "127.0.0.1", "ip_mismatching": "192.0.2.1"}[sn]
	if sn == "unset" && addrHost != "" {
		want = addrHost
	}
	for _, s := range serverSANs[cert] {
		if s == want {
			return true
		}
	}
	return false
}

func snValue(sn string) string {
	return map[string]string{"matching": "localhost", "unset": "", "mismatching": "other.example", "ip_matching": "127.0.0.1", "ip_mismatching": "192.0.2.1"}[sn]
}

var tplFields = []ref.Field{{ID: 8, Len: 4, Type: ref.TIPv4, Name: "sourceIPv4Address"}, {ID: 4, Len: 1, Type: ref.TU8, Name: "protocolIdentifier"}}

func sendTemplate(ep *exporter.ExportingProcess) error {
	set, err := exph.TemplateSet(256, tplFields, 0)
	if err != nil {
		return err
	}
	_, err = ep.SendSet(set)
	return err
}

// expectation: may a session complete / a message be accepted?
func expectAccept(c Cell) bool {
	switch c.Dir {
	case "exporter":
		ok := c.ServerCert == "trusted" || c.ServerCert == "wrong_san" || c.ServerCert == "no_san" || c.ServerCert == "wrong_san_with_decoy"
		ok = ok && sanOK(c.ServerCert, c.ServerName, c.AddrHost)
		if c.Proto == "tls" {
			ok = ok && c.MaxVersion != "1.1"
		}
		return ok
	case "collector":
		return (!c.ClientCA || c.ClientCert == "trusted") && c.MaxVersion != "1.1"
	}
	return false
}

// runCell returns a failure when the cell's expectation is violated; the bool reports whether a
// session was observed to complete.
func runCell(c Cell) (*ev.Failure, bool) {
	switch c.Dir {
	case "exporter":
		if c.Proto == "tls" {
			return exporterVsTLSServer(c)
		}
		return exporterVsDTLSServer(c)
	case "collector":
		return clientVsCollector(c)
	case "sequence":
		return sequence(c)
	case "collector_bad_ca":
		return badClientCA(c)
	case "resume":
		return resumedSession(c)
	}
	return plaintext(c)
}

// resumedSession: a client that keeps a TLS session cache authenticates to collector A (client CA:
// the trusted one) with a certificate of that CA. A is stopped; collector B serves the same server
// certificate and key (a restart, another replica) with another client CA. The client connects again
// under the same server name, offering whatever session it kept. B delivers messages only from peers
// that hold a certificate of B's CA: this one does not (its only certificate is of A's CA), so nothing
// it sends may be delivered, resumed session or not.
func resumedSession(c Cell) (*ev.Failure, bool) {
	in := collector.CollectorInput{Address: "127.0.0.1:0", Protocol: "tcp", MaxBufferSize: 65535, IsEncrypted: true, ServerCert: collectorCert.CertPEM, ServerKey: collectorCert.KeyPEM, CACert: caGood.CertPEM}
	colA, err := startCollector(in)
	if err != nil {
		return envFail(err), false
	}
	roots := x509.NewCertPool()
	roots.AppendCertsFromPEM(caGood.CertPEM)
	kp, err := tls.X509KeyPair(clientCerts["trusted"].CertPEM, clientCerts["trusted"].KeyPEM)
	if err != nil {
		colA.cp.Stop()
		return envFail(err), false
	}
	cfg := &tls.Config{RootCAs: roots, ServerName: "localhost", MinVersion: tls.VersionTLS12, MaxVersion: versions[c.MaxVersion], Certificates: []tls.Certificate{kp}, ClientSessionCache: tls.NewLRUClientSessionCache(8)}
	conn, err := tls.DialWithDialer(&net.Dialer{Timeout: 5 * time.Second}, "tcp", colA.cp.GetAddress().String(), cfg)
	if err != nil {
		colA.cp.Stop()
		return ev.Failf("harness: a correctly configured client cannot connect: %v", err), false
	}
	conn.Write(ref.TemplateMessage(ref.Header{Domain: 4100}, ref.Template{ID: 256, Fields: tplFields}))
	okA := colA.waitDelivered(4100, 10*time.Second)
	conn.SetReadDeadline(time.Now().Add(300 * time.Millisecond))
	conn.Read(make([]byte, 1)) // lets the client take the session tickets of TLS 1.3
	conn.Close()
	colA.cp.Stop()
	if !okA {
		return nil, false
	}
	in.CACert = caOther.CertPEM
	colB, err := startCollector(in)
	if err != nil {
		return envFail(err), false
	}
	defer colB.cp.Stop()
	const domain = 4243
	resumed := false
	if conn, err = tls.DialWithDialer(&net.Dialer{Timeout: 5 * time.Second}, "tcp", colB.cp.GetAddress().String(), cfg); err == nil {
		resumed = conn.ConnectionState().DidResume
		conn.Write(ref.TemplateMessage(ref.Header{Domain: domain}, ref.Template{ID: 256, Fields: tplFields}))
		conn.SetReadDeadline(time.Now().Add(500 * time.Millisecond))
		conn.Read(make([]byte, 1))
		conn.Close()
	}
	// a client of B's own CA proves that B listens and has had time to process
	good := &tls.Config{RootCAs: roots, ServerName: "localhost", MinVersion: tls.VersionTLS12}
	okp, _ := tls.X509KeyPair(clientCerts["other_ca"].CertPEM, clientCerts["other_ca"].KeyPEM)
	good.Certificates = []tls.Certificate{okp}
	gc, err := tls.Dial("tcp", colB.cp.GetAddress().String(), good)
	if err != nil {
		return ev.Failf("harness: a client with a certificate of the second collector's CA cannot connect: %v", err), false
	}
	gc.Write(ref.TemplateMessage(ref.Header{Domain: 999}, ref.Template{ID: 256, Fields: tplFields}))
	okSentinel := colB.waitDelivered(999, 10*time.Second)
	gc.Close()
	if !okSentinel {
		return nil, false
	}
	if colB.delivered(domain) {
		return ev.Failf("a collector whose client CA is B delivered a message from a client whose only certificate was issued by CA A: the client had authenticated to an earlier collector with the same server key pair and client CA A, kept its TLS session and connected again (session resumed: %v, TLS %s)", resumed, c.MaxVersion), true
	}
	return nil, true
}

// leafFor returns the server certificate of a cell. Two kinds are minted when the cell runs: one
// that becomes valid 20 s from now and one that expired 20 s ago (a validity check with a tolerance
// accepts them; the statement has none). judged reports afterwards whether the cell ran clear of the
// instant at which the first of them becomes valid.
func leafFor(name string) (leaf glue.Leaf, judged func() bool) {
	lo := []net.IP{net.IPv4(127, 0, 0, 1), net.IPv6loopback}
	now := time.Now()
	switch name {
	case "valid_in_20s":
		return caGood.Issue(glue.LeafSpec{CN: "collector", DNS: []string{"localhost"}, IPs: lo, NotBefore: now.Add(20 * time.Second), NotAfter: now.Add(48 * time.Hour)}),
			func() bool { return time.Since(now) < 12*time.Second }
	case "expired_20s_ago":
		return caGood.Issue(glue.LeafSpec{CN: "collector", DNS: []string{"localhost"}, IPs: lo, NotBefore: now.Add(-48 * time.Hour), NotAfter: now.Add(-20 * time.Second)}), func() bool { return true }
	}
	return serverCerts[name], func() bool { return true }
}

func exporterVsTLSServer(c Cell) (*ev.Failure, bool) {
	leaf, judged := leafFor(c.ServerCert)
	f, seen := exporterVsTLS(leaf, versions[c.MaxVersion], snValue(c.ServerName), c.AddrHost, expectAccept(c), c)
	if !judged() {
		return nil, false
	}
	return f, seen
}

// addrOf: the collector address handed to the exporter: the listener's IP literal, or (host != "")
// that host name with the listener's port.
func addrOf(a net.Addr, host string) string {
	if host == "" {
		return a.String()
	}
	_, port, _ := net.SplitHostPort(a.String())
	return net.JoinHostPort(host, port)
}

// localhostIsLoopback4: the host-name cells need "localhost" to resolve to 127.0.0.1 only.
var localhostIsLoopback4 = func() bool {
	a, err := net.LookupHost("localhost")
	return err == nil && len(a) == 1 && a[0] == "127.0.0.1"
}()

// exporterVsTLS: the library exporter (trusting caGood, expecting serverName) against a harness
// TLS server that presents leaf and speaks at most maxVersion; want is what the statement allows.
func exporterVsTLS(leaf glue.Leaf, maxVersion uint16, serverName, addrHost string, want bool, c any) (*ev.Failure, bool) {
	cert, err := tls.X509KeyPair(leaf.CertPEM, leaf.KeyPEM)
	if err != nil {
		return envFail(err), false
	}
	ln, err := tls.Listen("tcp", "127.0.0.1:0", &tls.Config{Certificates: []tls.Certificate{cert}, MinVersion: tls.VersionTLS10, MaxVersion: maxVersion})
	if err != nil {
		return envFail(err), false
	}
	defer ln.Close()
	type srv struct {
		hsErr   error
		version uint16
		data    []byte
	}
	resc := make(chan srv, 1)
	go func() {
		conn, err := ln.Accept()
		if err != nil {
			resc <- srv{hsErr: err}
			return
		}
		defer conn.Close()
		tc := conn.(*tls.Conn)
		tc.SetDeadline(time.Now().Add(10 * time.Second))
		if err := tc.Handshake(); err != nil {
			resc <- srv{hsErr: err}
			return
		}
		buf := make([]byte, 4096)
		n, _ := tc.Read(buf)
		resc <- srv{version: tc.ConnectionState().Version, data: buf[:n]}
	}()
	ep, err := exporter.InitExportingProcess(exporter.ExporterInput{CollectorAddress: addrOf(ln.Addr(), addrHost), CollectorProtocol: "tcp", ObservationDomainID: 1,
		TLSClientConfig: &exporter.ExporterTLSClientConfig{ServerName: serverName, CAData: caGood.CertPEM}, CheckConnInterval: time.Hour})
	if err != nil {
		if want {
			return ev.Failf("exporter refused a collector it must accept (cell %+v): %v", c, err), false
		}
		return nil, false
	}
	defer ep.CloseConnToCollector()
	if !want {
		return ev.Failf("exporter completed a TLS session with a collector it must refuse (cell %+v)", c), true
	}
	if err := sendTemplate(ep); err != nil {
		return ev.Failf("send over the established session failed: %v", err), true
	}
	select {
	case r := <-resc:
		if r.hsErr != nil {
			return ev.Failf("server side handshake failed although the exporter reported a session: %v", r.hsErr), true
		}
		if r.version < tls.VersionTLS12 {
			return ev.Failf("session negotiated TLS version %#x, below 1.2", r.version), true
		}
		if _, _, err := ref.ParseMessage(r.data); err != nil {
			return ev.Failf("the message did not arrive intact through the session: %v", err), true
		}
	case <-time.After(10 * time.Second):
		return nil, true
	}
	return nil, true
}

func exporterVsDTLSServer(c Cell) (*ev.Failure, bool) {
	leaf, judged := leafFor(c.ServerCert)
	f, seen := exporterVsDTLS(leaf, snValue(c.ServerName), c.AddrHost, expectAccept(c), c)
	if !judged() {
		return nil, false
	}
	return f, seen
}

func exporterVsDTLS(leaf glue.Leaf, serverName, addrHost string, want bool, c any) (*ev.Failure, bool) {
	cert, err := tls.X509KeyPair(leaf.CertPEM, leaf.KeyPEM)
	if err != nil {
		return envFail(err), false
	}
	addr, _ := net.ResolveUDPAddr("udp", "127.0.0.1:0")
	ln, err := dtls.Listen("udp", addr, &dtls.Config{Certificates: []tls.Certificate{cert}, ExtendedMasterSecret: dtls.RequireExtendedMasterSecret})
	if err != nil {
		return envFail(err), false
	}
	defer ln.Close()
	datac := make(chan []byte, 1)
	go func() {
		conn, err := ln.Accept()
		if err != nil {
			return
		}
		defer conn.Close()
		buf := make([]byte, 4096)
		conn.SetReadDeadline(time.Now().Add(10 * time.Second))
		n, _ := conn.Read(buf)
		datac <- buf[:n]
	}()
	ep, err := exporter.InitExportingProcess(exporter.ExporterInput{CollectorAddress: addrOf(ln.Addr(), addrHost), CollectorProtocol: "udp", ObservationDomainID: 1, TempRefTimeout: 3600,
		TLSClientConfig: &exporter.ExporterTLSClientConfig{ServerName: serverName, CAData: caGood.CertPEM}})
	if err != nil {
		if want {
			return ev.Failf("DTLS exporter refused a collector it must accept (cell %+v): %v", c, err), false
		}
		return nil, false
	}
	defer ep.CloseConnToCollector()
	if !want {
		return ev.Failf("DTLS exporter completed a session with a collector it cannot verify (cell %+v; expected name %q, unset = the collector address 127.0.0.1)", c, serverName), true
	}
	if err := sendTemplate(ep); err != nil {
		return ev.Failf("send over the established DTLS session failed: %v", err), true
	}
	select {
	case d := <-datac:
		if _, _, err := ref.ParseMessage(d); err != nil {
			return ev.Failf("the message did not arrive intact through the DTLS session: %v", err), true
		}
	case <-time.After(10 * time.Second):
	}
	return nil, true
}

// collectorUnderTest starts a library collector and drains its message channel.
type cut struct {
	cp   *collector.CollectingProcess
	mu   sync.Mutex
	msgs []*entities.Message
}

func startCollector(in collector.CollectorInput) (*cut, error) {
	cp, err := collector.InitCollectingProcess(in)
	if err != nil {
		return nil, err
	}
	c := &cut{cp: cp}
	go cp.Start()
	go func() {
		for m := range cp.GetMsgChan() {
			c.mu.Lock()
			c.msgs = append(c.msgs, m)
			c.mu.Unlock()
		}
	}()
	for i := 0; i < 2000 && cp.GetAddress() == nil; i++ {
		time.Sleep(time.Millisecond)
	}
	if cp.GetAddress() == nil {
		return nil, fmt.Errorf("collector did not start listening")
	}
	return c, nil
}

func (c *cut) delivered(domain uint32) bool {
	c.mu.Lock()
	defer c.mu.Unlock()
	for _, m := range c.msgs {
		if m.GetObsDomainID() == domain {
			return true
		}
	}
	return false
}

func (c *cut) waitDelivered(domain uint32, limit time.Duration) bool {
	for end := time.Now().Add(limit); time.Now().Before(end); time.Sleep(2 * time.Millisecond) {
		if c.delivered(domain) {
			return true
		}
	}
	return c.delivered(domain)
}

func clientVsCollector(c Cell) (*ev.Failure, bool) {
	in := collector.CollectorInput{Address: "127.0.0.1:0", Protocol: "tcp", MaxBufferSize: 65535, IsEncrypted: true, ServerCert: collectorCert.CertPEM, ServerKey: collectorCert.KeyPEM}
	if c.ClientCA {
		in.CACert = caGood.CertPEM
	}
	col, err := startCollector(in)
	if err != nil {
		return envFail(err), false
	}
	defer col.cp.Stop()
	roots := x509.NewCertPool()
	roots.AppendCertsFromPEM(caGood.CertPEM)
	cfg := &tls.Config{RootCAs: roots, ServerName: "localhost", MinVersion: tls.VersionTLS10, MaxVersion: versions[c.MaxVersion]}
	if l := clientCerts[c.ClientCert]; l != nil {
		kp, err := tls.X509KeyPair(l.CertPEM, l.KeyPEM)
		if err != nil {
			return envFail(err), false
		}
		cfg.Certificates = []tls.Certificate{kp}
	}
	const domain = 4242
	msg := ref.TemplateMessage(ref.Header{Domain: domain}, ref.Template{ID: 256, Fields: tplFields})
	conn, err := tls.DialWithDialer(&net.Dialer{Timeout: 5 * time.Second}, "tcp", col.cp.GetAddress().String(), cfg)
	sessionUp := false
	if err == nil {
		conn.Write(msg)
		conn.SetReadDeadline(time.Now().Add(500 * time.Millisecond))
		_, rerr := conn.Read(make([]byte, 1))
		if ne, ok := rerr.(net.Error); ok && ne.Timeout() {
			sessionUp = true // still open after half a second: the server did not reject us
		}
		conn.Close()
	}
	// a well-behaved peer afterwards proves the collector was listening and had time to process
	good := &tls.Config{RootCAs: roots, ServerName: "localhost", MinVersion: tls.VersionTLS12}
	kp, _ := tls.X509KeyPair(clientCerts["trusted"].CertPEM, clientCerts["trusted"].KeyPEM)
	good.Certificates = []tls.Certificate{kp}
	gc, err := tls.Dial("tcp", col.cp.GetAddress().String(), good)
	if err != nil {
		return ev.Failf("harness: a correctly configured client cannot connect: %v", err), false
	}
	gc.Write(ref.TemplateMessage(ref.Header{Domain: 999}, ref.Template{ID: 256, Fields: tplFields}))
	okSentinel := col.waitDelivered(999, 10*time.Second)
	gc.Close()
	if !okSentinel {
		return nil, false // inconclusive: not counted
	}
	want := expectAccept(c)
	got := col.delivered(domain)
	if !got && sessionUp {
		got = col.waitDelivered(domain, 2*time.Second)
	}
	if got && !want {
		return ev.Failf("collector delivered a message from a client it must not accept (cell %+v)", c), true
	}
	if !got && want {
		return ev.Failf("collector did not deliver the message of a client it must accept (cell %+v)", c), false
	}
	return nil, got
}

// badClientCA: the collector is configured with a client CA that cannot be used (Plain names the
// form). It may refuse to start; if it does listen, it has no basis for accepting anybody: a client
// without a certificate, or with one of another CA, must not get a message through.
func badClientCA(c Cell) (*ev.Failure, bool) {
	der, _ := pem.Decode(caGood.CertPEM)
	forms := map[string][]byte{
		"bom_before_pem":      append([]byte{0xEF, 0xBB, 0xBF}, caGood.CertPEM...),
		"der_not_pem":         der.Bytes,
		"empty":               {},
		"trusted_certificate": bytes.ReplaceAll(caGood.CertPEM, []byte("CERTIFICATE-----"), []byte("TRUSTED CERTIFICATE-----")),
		"garbage":             []byte("not a certificate at all"),
	}
	in := collector.CollectorInput{Address: "127.0.0.1:0", Protocol: "tcp", MaxBufferSize: 65535, IsEncrypted: true, ServerCert: collectorCert.CertPEM, ServerKey: collectorCert.KeyPEM, CACert: forms[c.Plain]}
	cp, err := collector.InitCollectingProcess(in)
	if err != nil {
		return nil, false // refused at construction
	}
	col := &cut{cp: cp}
	go cp.Start()
	go func() {
		for m := range cp.GetMsgChan() {
			col.mu.Lock()
			col.msgs = append(col.msgs, m)
			col.mu.Unlock()
		}
	}()
	for i := 0; i < 600 && cp.GetAddress() == nil; i++ {
		time.Sleep(time.Millisecond)
	}
	defer cp.Stop()
	if cp.GetAddress() == nil {
		return nil, false // it does not listen with such a CA: nobody gets in
	}
	roots := x509.NewCertPool()
	roots.AppendCertsFromPEM(caGood.CertPEM)
	cfg := &tls.Config{RootCAs: roots, ServerName: "localhost", MinVersion: tls.VersionTLS12}
	if l := clientCerts[c.ClientCert]; l != nil {
		if kp, err := tls.X509KeyPair(l.CertPEM, l.KeyPEM); err == nil {
			cfg.Certificates = []tls.Certificate{kp}
		}
	}
	conn, err := tls.DialWithDialer(&net.Dialer{Timeout: 5 * time.Second}, "tcp", cp.GetAddress().String(), cfg)
	if err != nil {
		return nil, false
	}
	conn.Write(ref.TemplateMessage(ref.Header{Domain: 4242}, ref.Template{ID: 256, Fields: tplFields}))
	got := col.waitDelivered(4242, 1500*time.Millisecond)
	conn.Close()
	if got {
		return ev.Failf("a collector configured with a client CA that cannot be used (%s) listens and delivered a message from a client presenting %s", c.Plain, map[string]string{"none": "no certificate", "other_ca": "a certificate of another CA"}[c.ClientCert]), true
	}
	return nil, false
}

func plaintext(c Cell) (*ev.Failure, bool) {
	msg := ref.TemplateMessage(ref.Header{Domain: 4242}, ref.Template{ID: 256, Fields: tplFields})
	switch c.Plain {
	case "plain_tcp_client_to_tls_collector":
		col, err := startCollector(collector.CollectorInput{Address: "127.0.0.1:0", Protocol: "tcp", MaxBufferSize: 65535, IsEncrypted: true, ServerCert: collectorCert.CertPEM, ServerKey: collectorCert.KeyPEM, CACert: map[bool][]byte{true: caGood.CertPEM, false: nil}[c.ClientCA]})
		if err != nil {
			return envFail(err), false
		}
		defer col.cp.Stop()
		conn, err := net.Dial("tcp", col.cp.GetAddress().String())
		if err == nil {
			conn.Write(msg)
			conn.SetReadDeadline(time.Now().Add(300 * time.Millisecond))
			conn.Read(make([]byte, 16))
			conn.Close()
		}
		roots := x509.NewCertPool()
		roots.AppendCertsFromPEM(caGood.CertPEM)
		kp, _ := tls.X509KeyPair(clientCerts["trusted"].CertPEM, clientCerts["trusted"].KeyPEM)
		gc, err := tls.Dial("tcp", col.cp.GetAddress().String(), &tls.Config{RootCAs: roots, ServerName: "localhost", Certificates: []tls.Certificate{kp}})
		if err != nil {
			return ev.Failf("harness: a correctly configured client cannot connect: %v", err), false
		}
		gc.Write(ref.TemplateMessage(ref.Header{Domain: 999}, ref.Template{ID: 256, Fields: tplFields}))
		ok := col.waitDelivered(999, 10*time.Second)
		gc.Close()
		if ok && col.delivered(4242) {
			return ev.Failf("TLS collector delivered a message received over an unencrypted connection"), true
		}
	case "tls_exporter_to_plain_tcp_collector":
		col, err := startCollector(collector.CollectorInput{Address: "127.0.0.1:0", Protocol: "tcp", MaxBufferSize: 65535})
		if err != nil {
			return envFail(err), false
		}
		defer col.cp.Stop()
		ep, err := exporter.InitExportingProcess(exporter.ExporterInput{CollectorAddress: col.cp.GetAddress().String(), CollectorProtocol: "tcp", ObservationDomainID: 4242,
			TLSClientConfig: &exporter.ExporterTLSClientConfig{ServerName: "localhost", CAData: caGood.CertPEM}, CheckConnInterval: time.Hour})
		if err == nil {
			sendTemplate(ep)
			ep.CloseConnToCollector()
			time.Sleep(50 * time.Millisecond)
			return ev.Failf("exporter with TLS settings established a session with a plaintext collector (message delivered in clear: %v)", col.delivered(4242)), true
		}
		if col.delivered(4242) {
			return ev.Failf("exporter with TLS settings sent a message in clear"), true
		}
	case "secured_exporter_other_network_name":
		// CollectorProtocol given as one of Go's other network names for the same transports
		// (c.Proto: tcp4, tcp6, udp4, udp6) together with security settings: whatever the exporter
		// makes of it (an error, a process without a connection), no message may travel in clear.
		// The peer is a plain harness socket that records what arrives.
		host := "127.0.0.1:0"
		if strings.HasSuffix(c.Proto, "6") {
			host = "[::1]:0"
		}
		got := make(chan []byte, 16)
		var addr string
		if strings.HasPrefix(c.Proto, "tcp") {
			ln, err := net.Listen("tcp", host)
			if err != nil {
				return envFail(err), false
			}
			defer ln.Close()
			addr = ln.Addr().String()
			go func() {
				conn, err := ln.Accept()
				if err != nil {
					return
				}
				defer conn.Close()
				buf := make([]byte, 4096)
				conn.SetReadDeadline(time.Now().Add(2 * time.Second))
				n, _ := conn.Read(buf)
				got <- buf[:n]
			}()
		} else {
			ua, _ := net.ResolveUDPAddr("udp", host)
			pc, err := net.ListenUDP("udp", ua)
			if err != nil {
				return envFail(err), false
			}
			defer pc.Close()
			addr = pc.LocalAddr().String()
			go func() {
				buf := make([]byte, 4096)
				pc.SetReadDeadline(time.Now().Add(2 * time.Second))
				n, _, _ := pc.ReadFromUDP(buf)
				got <- buf[:n]
			}()
		}
		tlsCfg := &exporter.ExporterTLSClientConfig{ServerName: "localhost", CAData: caGood.CertPEM}
		proto := c.Proto
		switch c.ClientCert { // security settings that cannot be used: still no fallback to plaintext
		case "garbage_ca":
			tlsCfg.CAData = []byte("-----BEGIN CERTIFICATE-----\nbm90IGEgY2VydGlmaWNhdGU=\n-----END CERTIFICATE-----\n")
		case "empty_ca":
			tlsCfg.CAData = nil
		case "mismatched_client_keypair":
			tlsCfg.CertData, tlsCfg.KeyData = clientCerts["trusted"].CertPEM, clientCerts["other_ca"].KeyPEM
		}
		func() {
			defer func() { recover() }() // a process left without a connection panics on use; not judged here
			ep, err := exporter.InitExportingProcess(exporter.ExporterInput{CollectorAddress: addr, CollectorProtocol: proto, ObservationDomainID: 4242, TempRefTimeout: 3600,
				TLSClientConfig: tlsCfg, CheckConnInterval: time.Hour})
			if err != nil || ep == nil {
				return
			}
			defer func() {
				defer func() { recover() }()
				ep.CloseConnToCollector()
			}()
			sendTemplate(ep)
		}()
		select {
		case b := <-got:
			if _, _, err := ref.ParseMessage(b); err == nil && len(b) > 0 {
				return ev.Failf("exporter configured with security settings and CollectorProtocol %q sent a message in clear (%d bytes arrived at a plaintext socket: % x)", c.Proto, len(b), b[:min(len(b), 24)]), true
			}
		case <-time.After(400 * time.Millisecond):
		}
	case "plain_udp_client_to_dtls_collector":
		col, err := startCollector(collector.CollectorInput{Address: "127.0.0.1:0", Protocol: "udp", MaxBufferSize: 65535, IsEncrypted: true, ServerCert: collectorCert.CertPEM, ServerKey: collectorCert.KeyPEM})
		if err != nil {
			return envFail(err), false
		}
		defer col.cp.Stop()
		conn, err := net.Dial("udp", col.cp.GetAddress().String())
		if err == nil {
			conn.Write(msg)
			conn.Write(msg)
			conn.Close()
		}
		ep, err := exporter.InitExportingProcess(exporter.ExporterInput{CollectorAddress: col.cp.GetAddress().String(), CollectorProtocol: "udp", ObservationDomainID: 999, TempRefTimeout: 3600,
			TLSClientConfig: &exporter.ExporterTLSClientConfig{ServerName: "localhost", CAData: caGood.CertPEM}})
		if err != nil {
			return nil, false // inconclusive: the DTLS collector could not be reached by a good peer
		}
		sendTemplate(ep)
		ok := col.waitDelivered(999, 10*time.Second)
		ep.CloseConnToCollector()
		if ok && col.delivered(4242) {
			return ev.Failf("DTLS collector delivered a message received in an unencrypted datagram"), true
		}
	case "dtls_exporter_to_plain_udp_collector":
		col, err := startCollector(collector.CollectorInput{Address: "127.0.0.1:0", Protocol: "udp", MaxBufferSize: 65535})
		if err != nil {
			return envFail(err), false
		}
		defer col.cp.Stop()
		ep, err := exporter.InitExportingProcess(exporter.ExporterInput{CollectorAddress: col.cp.GetAddress().String(), CollectorProtocol: "udp", ObservationDomainID: 4242, TempRefTimeout: 3600,
			TLSClientConfig: &exporter.ExporterTLSClientConfig{ServerName: "localhost", CAData: caGood.CertPEM}})
		if err == nil {
			sendTemplate(ep)
			ep.CloseConnToCollector()
			time.Sleep(50 * time.Millisecond)
			return ev.Failf("exporter with DTLS settings established a session with a plaintext collector (message delivered in clear: %v)", col.delivered(4242)), true
		}
		if col.delivered(4242) {
			return ev.Failf("exporter with DTLS settings sent a message in clear"), true
		}
	}
	return nil, false
}

// sequence cells: two exporters in one process, one after the other, against the same live
// collector. The first is correctly configured and completes a session; the second is not and must
// be refused whatever the first one left behind (session tickets, caches).
func sequence(c Cell) (*ev.Failure, bool) {
	in := collector.CollectorInput{Address: "127.0.0.1:0", Protocol: "tcp", MaxBufferSize: 65535, IsEncrypted: true, ServerCert: collectorCert.CertPEM, ServerKey: collectorCert.KeyPEM}
	if c.ClientCA {
		in.CACert = caGood.CertPEM
	}
	col, err := startCollector(in)
	if err != nil {
		return envFail(err), false
	}
	defer col.cp.Stop()
	mk := func(domain uint32, ca []byte, client *glue.Leaf) (*exporter.ExportingProcess, error) {
		cfg := &exporter.ExporterTLSClientConfig{ServerName: snValue(c.ServerName), CAData: ca}
		if client != nil {
			cfg.CertData, cfg.KeyData = client.CertPEM, client.KeyPEM
		}
		return exporter.InitExportingProcess(exporter.ExporterInput{CollectorAddress: col.cp.GetAddress().String(), CollectorProtocol: "tcp", ObservationDomainID: domain,
			TLSClientConfig: cfg, CheckConnInterval: 3 * time.Millisecond})
	}
	// The cached state a second exporter could wrongly profit from (a TLS 1.3 session ticket) only
	// reaches the first exporter when one of its periodic connection checks reads from the socket,
	// and such a read has a 1 ms deadline: on a busy machine several checks in a row can time out
	// before reading. The pair is therefore repeated with longer and longer lifetimes of the first
	// exporter; any repetition in which the second exporter completes a session is a failure.
	for i, life := range []time.Duration{30 * time.Millisecond, 120 * time.Millisecond, 400 * time.Millisecond, 900 * time.Millisecond} {
		goodDomain, badDomain := uint32(999+i), uint32(4242+i)
		goodClient := clientCerts["trusted"]
		if c.Plain == "second_exporter_other_ca_no_client_certs" {
			goodClient = nil // neither exporter has a key pair of its own: the other shape of the client configuration
		}
		good, err := mk(goodDomain, caGood.CertPEM, goodClient)
		if err != nil {
			return ev.Failf("harness: the correctly configured exporter cannot connect: %v", err), false
		}
		sendTemplate(good)
		if !col.waitDelivered(goodDomain, 10*time.Second) {
			good.CloseConnToCollector()
			return nil, false
		}
		time.Sleep(life) // several connection checks read from the session (tickets arrive)
		good.CloseConnToCollector()
		var bad *exporter.ExportingProcess
		switch c.Plain {
		case "second_exporter_other_ca":
			bad, err = mk(badDomain, caOther.CertPEM, clientCerts["trusted"])
		case "second_exporter_other_ca_no_client_certs":
			bad, err = mk(badDomain, caOther.CertPEM, nil)
		case "second_exporter_without_client_cert":
			bad, err = mk(badDomain, caGood.CertPEM, nil)
		}
		if err == nil {
			sendTemplate(bad)
			got := col.waitDelivered(badDomain, 700*time.Millisecond)
			bad.CloseConnToCollector()
			if c.Plain == "second_exporter_other_ca" || c.Plain == "second_exporter_other_ca_no_client_certs" {
				return ev.Failf("after a correctly configured exporter had completed a session, a second exporter in the same process whose CA does not cover the collector's certificate completed one too (message delivered: %v)", got), true
			}
			if got {
				return ev.Failf("after an exporter with a valid client certificate had completed a session, the collector delivered a message from a second exporter that presented no certificate"), true
			}
		}
	}
	return nil, false
}

// envFail: the harness could not set up its own side of a cell (no free port, ...). That is not a
// verdict about the library: the cell is left unjudged and counted; too many of them make the run
// inconclusive.
var envFails atomic.Int64

func envFail(err error) *ev.Failure {
	envFails.Add(1)
	return nil
}

// GenCell is one generated server identity for the exporter direction, beyond the stated matrix:
// who signed the leaf (also through an intermediate), the validity window, a list of subject
// alternative names (wildcards included) and the name the exporter expects.
type GenCell struct {
	Proto      string   `json:"proto"`                 // tls | dtls
	MaxVersion string   `json:"max_version,omitempty"` // tls: 1.1 | 1.2 | 1.3
	Issuer     string   `json:"issuer"`                // root | inter | inter_unsent | inter_not_ca | inter_expired | other_root | self
	Validity   string   `json:"validity"`              // valid | expired | not_yet
	SANs       []string `json:"sans"`
	ServerName string   `json:"server_name"`         // "" = unset (the host of the collector address is expected)
	AddrHost   string   `json:"addr_host,omitempty"` // "" = the IP literal 127.0.0.1; else a host name resolving to it
}

// nameMatches: RFC 6125 as the statement needs it - IP literals match IP SANs exactly, DNS names
// match DNS SANs case-insensitively, "*." stands for exactly one leftmost label.
func nameMatches(sans []string, expected string) bool {
	if ip := net.ParseIP(expected); ip != nil {
		for _, s := range sans {
			if sip := net.ParseIP(s); sip != nil && sip.Equal(ip) {
				return true
			}
		}
		return false
	}
	for _, s := range sans {
		if net.ParseIP(s) != nil {
			continue
		}
		s, e := strings.ToLower(s), strings.ToLower(expected)
		if s == e {
			return true
		}
		if strings.HasPrefix(s, "*.") {
			if i := strings.Index(e, "."); i > 0 && e[i:] == s[1:] {
				return true
			}
		}
	}
	return false
}

func (g GenCell) expected() string {
	switch {
	case g.ServerName != "":
		return g.ServerName
	case g.AddrHost != "":
		return g.AddrHost
	}
	return "127.0.0.1"
}

func (g GenCell) want() bool {
	ok := (g.Issuer == "root" || g.Issuer == "inter") && g.Validity == "valid"
	ok = ok && nameMatches(g.SANs, g.expected())
	if g.Proto == "tls" {
		ok = ok && g.MaxVersion != "1.1"
	}
	return ok
}

// mint builds the server's certificate bundle for the cell.
func (g GenCell) mint() glue.Leaf {
	now := time.Now()
	spec := glue.LeafSpec{CN: "collector"}
	for _, s := range g.SANs {
		if ip := net.ParseIP(s); ip != nil {
			spec.IPs = append(spec.IPs, ip)
		} else {
			spec.DNS = append(spec.DNS, s)
		}
	}
	switch g.Validity {
	case "expired":
		spec.NotBefore, spec.NotAfter = now.Add(-48*time.Hour), now.Add(-time.Hour)
	case "not_yet":
		spec.NotBefore, spec.NotAfter = now.Add(time.Hour), now.Add(48*time.Hour)
	}
	switch g.Issuer {
	case "root":
		return caGood.Issue(spec)
	case "other_root":
		return caOther.Issue(spec)
	case "self":
		spec.SelfSign = true
		return caGood.Issue(spec)
	}
	nb, na := now.Add(-time.Hour), now.Add(24*time.Hour)
	if g.Issuer == "inter_expired" {
		nb, na = now.Add(-48*time.Hour), now.Add(-time.Hour)
	}
	inter := caGood.Sub("verif intermediate", g.Issuer != "inter_not_ca", nb, na)
	leaf := inter.Issue(spec)
	if g.Issuer != "inter_unsent" {
		leaf.CertPEM = append(append([]byte(nil), leaf.CertPEM...), inter.CertPEM...)
	}
	return leaf
}

func runGen(g GenCell) (*ev.Failure, bool) {
	if g.Proto == "dtls" {
		return exporterVsDTLS(g.mint(), g.ServerName, g.AddrHost, g.want(), g)
	}
	return exporterVsTLS(g.mint(), versions[g.MaxVersion], g.ServerName, g.AddrHost, g.want(), g)
}

func genGenCell(t *rapid.T) GenCell {
	g := GenCell{Proto: rapid.SampledFrom([]string{"tls", "tls", "tls", "dtls"}).Draw(t, "proto")}
	if g.Proto == "tls" {
		g.MaxVersion = rapid.SampledFrom([]string{"1.3", "1.3", "1.2", "1.2", "1.1"}).Draw(t, "max_version")
	}
	g.Issuer = rapid.SampledFrom([]string{"root", "root", "root", "inter", "inter", "inter", "inter_unsent", "inter_not_ca", "inter_expired", "other_root", "self"}).Draw(t, "issuer")
	g.Validity = rapid.SampledFrom([]string{"valid", "valid", "valid", "valid", "expired", "not_yet"}).Draw(t, "validity")
	g.ServerName = rapid.SampledFrom([]string{"", "", "localhost", "other.example", "a.example.com", "a.b.example.com", "example.com", "collector.example.com", "localhost.example.org", "127.0.0.1", "192.0.2.1", "::1"}).Draw(t, "server_name")
	g.SANs = rapid.SliceOfNDistinct(rapid.SampledFrom([]string{"localhost", "other.example", "*.example.com", "collector.example.com", "127.0.0.1", "192.0.2.1", "::1", "LocalHost.Example.Org"}), 0, 4, rapid.ID[string]).Draw(t, "sans")
	// so that the name is not what decides most cells: two times in three the list also has an
	// entry that covers the expected name
	if localhostIsLoopback4 && rapid.IntRange(0, 2).Draw(t, "by_name") == 0 {
		g.AddrHost = "localhost"
	}
	if rapid.IntRange(0, 2).Draw(t, "covered") > 0 {
		e := g.expected()
		if !nameMatches(g.SANs, e) {
			if i := strings.Index(e, "."); net.ParseIP(e) == nil && i > 0 && strings.Count(e, ".") >= 2 && rapid.Bool().Draw(t, "wild") {
				e = "*" + e[i:]
			}
			g.SANs = append(g.SANs, e)
		}
	}
	return g
}

func cells() []Cell {
	var out []Cell
	for _, sc := range []string{"trusted", "other_ca", "self_signed", "expired", "not_yet_valid", "wrong_san", "no_san", "wrong_san_with_decoy"} {
		for _, sn := range []string{"matching", "unset", "mismatching", "ip_matching", "ip_mismatching"} {
			for _, v := range []string{"1.1", "1.2", "1.3"} {
				out = append(out, Cell{Dir: "exporter", Proto: "tls", ServerCert: sc, ServerName: sn, MaxVersion: v})
			}
			out = append(out, Cell{Dir: "exporter", Proto: "dtls", ServerCert: sc, ServerName: sn})
		}
		// the collector addressed by host name, with ServerName unset (the address host is the expected
		// name) and with a mismatching ServerName (which wins)
		if localhostIsLoopback4 {
			for _, sn := range []string{"unset", "mismatching"} {
				out = append(out, Cell{Dir: "exporter", Proto: "tls", ServerCert: sc, ServerName: sn, MaxVersion: "1.3", AddrHost: "localhost"},
					Cell{Dir: "exporter", Proto: "dtls", ServerCert: sc, ServerName: sn, AddrHost: "localhost"})
			}
		}
	}
	// certificates at 20 s from either end of their validity period
	for _, sc := range []string{"valid_in_20s", "expired_20s_ago"} {
		for _, sn := range []string{"matching", "unset"} {
			out = append(out, Cell{Dir: "exporter", Proto: "tls", ServerCert: sc, ServerName: sn, MaxVersion: "1.3"}, Cell{Dir: "exporter", Proto: "tls", ServerCert: sc, ServerName: sn, MaxVersion: "1.2"},
				Cell{Dir: "exporter", Proto: "dtls", ServerCert: sc, ServerName: sn})
		}
	}
	for _, cc := range []string{"none", "trusted", "other_ca", "expired"} {
		for _, ca := range []bool{true, false} {
			for _, v := range []string{"1.1", "1.2", "1.3"} {
				out = append(out, Cell{Dir: "collector", Proto: "tls", ClientCert: cc, ClientCA: ca, MaxVersion: v})
			}
		}
	}
	out = append(out, Cell{Dir: "resume", Proto: "tls", MaxVersion: "1.2"}, Cell{Dir: "resume", Proto: "tls", MaxVersion: "1.3"})
	for _, form := range []string{"bom_before_pem", "der_not_pem", "empty", "trusted_certificate", "garbage"} {
		for _, cc := range []string{"none", "other_ca"} {
			out = append(out, Cell{Dir: "collector_bad_ca", Proto: "tls", ClientCert: cc, ClientCA: true, Plain: form})
		}
	}
	for _, sn := range []string{"matching", "unset"} {
		out = append(out, Cell{Dir: "sequence", Proto: "tls", ServerName: sn, Plain: "second_exporter_other_ca"}, Cell{Dir: "sequence", Proto: "tls", ServerName: sn, Plain: "second_exporter_other_ca_no_client_certs"},
			Cell{Dir: "sequence", Proto: "tls", ServerName: sn, ClientCA: true, Plain: "second_exporter_without_client_cert"})
	}
	out = append(out,
		Cell{Dir: "plaintext", Plain: "plain_tcp_client_to_tls_collector", ClientCA: true},
		Cell{Dir: "plaintext", Plain: "plain_tcp_client_to_tls_collector"},
		Cell{Dir: "plaintext", Plain: "tls_exporter_to_plain_tcp_collector"},
		Cell{Dir: "plaintext", Plain: "plain_udp_client_to_dtls_collector"},
		Cell{Dir: "plaintext", Plain: "dtls_exporter_to_plain_udp_collector"},
		Cell{Dir: "plaintext", Plain: "secured_exporter_other_network_name", Proto: "tcp4"},
		Cell{Dir: "plaintext", Plain: "secured_exporter_other_network_name", Proto: "tcp6"},
		Cell{Dir: "plaintext", Plain: "secured_exporter_other_network_name", Proto: "udp4"},
		Cell{Dir: "plaintext", Plain: "secured_exporter_other_network_name", Proto: "udp6"},
		// security settings that cannot be used (unparsable or missing CA, client certificate and key that
		// do not belong together): against a plain socket, nothing may travel in clear
		Cell{Dir: "plaintext", Plain: "secured_exporter_other_network_name", Proto: "tcp", ClientCert: "garbage_ca"},
		Cell{Dir: "plaintext", Plain: "secured_exporter_other_network_name", Proto: "udp", ClientCert: "garbage_ca"},
		Cell{Dir: "plaintext", Plain: "secured_exporter_other_network_name", Proto: "tcp", ClientCert: "empty_ca"},
		Cell{Dir: "plaintext", Plain: "secured_exporter_other_network_name", Proto: "udp", ClientCert: "empty_ca"},
		Cell{Dir: "plaintext", Plain: "secured_exporter_other_network_name", Proto: "tcp", ClientCert: "mismatched_client_keypair"},
	)
	return out
}

func TestC18(t *testing.T) {
	all := cells()
	type result struct {
		c  Cell
		f  *ev.Failure
		up bool
	}
	results := make([]result, len(all))
	var wg sync.WaitGroup
	sem := make(chan struct{}, 8)
	for i, c := range all {
		wg.Add(1)
		go func(i int, c Cell) {
			defer wg.Done()
			sem <- struct{}{}
			defer func() { <-sem }()
			f, up := runCell(c)
			results[i] = result{c, f, up}
		}(i, c)
	}
	wg.Wait()
	for _, r := range results {
		cl := []string{"dir_" + r.c.Dir, "proto_" + r.c.Proto}
		if expectAccept(r.c) {
			cl = append(cl, "expected_accept")
		} else {
			cl = append(cl, "expected_refuse")
		}
		if r.up {
			cl = append(cl, "session_observed")
		}
		// known finding D9 (if still open): DTLS exporter does not check the name when ServerName is unset
		if r.f != nil && rec.Open("D9") && r.c.Dir == "exporter" && r.c.Proto == "dtls" && (r.c.ServerName == "unset") && (r.c.ServerCert == "wrong_san" || r.c.ServerCert == "no_san") {
			rec.Excluded("D9_dtls_servername_unset")
			rec.Known("D9", fmt.Sprintf("DTLS exporter with ServerName unset accepts a certificate of the trusted CA that is not valid for the collector address (certificate %s)", r.c.ServerCert))
			continue
		}
		rec.Case(ev.Hash(r.c), true, cl...)
		if r.c.ServerCert == "wrong_san" || r.c.Dir != "exporter" && r.c.MaxVersion == "1.3" {
			rec.Sample(r.c.Dir+"_"+r.c.Proto, r.c)
		}
		if r.f != nil {
			rec.Violation("matrix", r.c, r.f.Msg)
			t.Errorf("%s", r.f.Msg)
		}
	}
	rec.SetExhaustive()
	rec.Extra("cells", len(all))
	if t.Failed() {
		return
	}
	// beyond the stated matrix: generated server identities (exporter direction)
	ev.Rapid(t, rec, "generated_identities", rec.Scale(150, 120000), genGenCell, func(g GenCell) *ev.Failure {
		start := time.Now()
		f, up := runGen(g)
		if g.Proto == "tls" && rec.Thorough() {
			// every TLS cell leaves a TCP port in TIME_WAIT for a minute: the shards together stay
			// below about 400 cells a second
			time.Sleep(time.Until(start.Add(20 * time.Millisecond)))
		}
		cl := []string{"generated_identity", "gen_proto_" + g.Proto, "gen_issuer_" + g.Issuer}
		if g.want() {
			cl = append(cl, "gen_expected_accept")
		} else {
			cl = append(cl, "gen_expected_refuse")
		}
		if up {
			cl = append(cl, "session_observed")
		}
		rec.Case(ev.Hash(g), true, cl...)
		return f
	})
	if n := envFails.Load(); n > 0 {
		rec.Extra("cells_unjudged_environment", n)
		if n > 20 {
			rec.Inconclusive(fmt.Sprintf("%d cells could not be set up by the harness (ports exhausted?)", n))
		}
	}
}
