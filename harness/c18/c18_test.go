//go:build verif

// C18 — encrypted transports authenticate the peer and never fall back to plaintext.
package c18

import (
	"crypto/tls"
	"crypto/x509"
	"fmt"
	"net"
	"os"
	"sync"
	"testing"
	"time"

	"github.com/pion/dtls/v2"

	"github.com/vmware/go-ipfix/pkg/collector"
	"github.com/vmware/go-ipfix/pkg/entities"
	"github.com/vmware/go-ipfix/pkg/exporter"

	"verifharness/ev"
	"verifharness/exph"
	"verifharness/glue"
	ref "verifharness/refipfix"
)

// Cell is one cell of the configuration matrix.
//
//	Dir "exporter": library exporter (tls or dtls) against a harness-controlled server presenting ServerCert.
//	Dir "collector": harness-controlled TLS client presenting ClientCert against the library collector.
//	Dir "plaintext": Plain names the plaintext scenario.
//	Dir "sequence": a correctly configured exporter, then a second one (Plain names its fault) against the same collector.
type Cell struct {
	Dir        string `json:"dir"`
	Proto      string `json:"proto"` // tls | dtls
	ServerCert string `json:"server_cert,omitempty"`
	ServerName string `json:"server_name,omitempty"` // matching | unset | mismatching | ip_matching | ip_mismatching
	ClientCert string `json:"client_cert,omitempty"`
	ClientCA   bool   `json:"client_ca,omitempty"`
	MaxVersion string `json:"max_version,omitempty"` // 1.1 | 1.2 | 1.3
	Plain      string `json:"plain,omitempty"`
}

var (
	rec               *ev.Recorder
	caGood, caOther   *glue.CA
	serverCerts       map[string]glue.Leaf
	serverSANs        map[string][]string
	clientCerts       map[string]*glue.Leaf
	collectorCert     glue.Leaf
)

var versions = map[string]uint16{"1.1": tls.VersionTLS11, "1.2": tls.VersionTLS12, "1.3": tls.VersionTLS13}

func TestMain(m *testing.M) {
	glue.SilenceKlog()
	glue.LoadRegistry()
	caGood, caOther = glue.NewCA("verif trusted CA"), glue.NewCA("verif other CA")
	lo := []net.IP{net.IPv4(127, 0, 0, 1), net.IPv6loopback}
	past, future := time.Now().Add(-48*time.Hour), time.Now().Add(48*time.Hour)
	serverCerts = map[string]glue.Leaf{
		"trusted":       caGood.LoopbackServer(),
		"other_ca":      caOther.LoopbackServer(),
		"self_signed":   caGood.Issue(glue.LeafSpec{CN: "collector", DNS: []string{"localhost"}, IPs: lo, SelfSign: true}),
		"expired":       caGood.Issue(glue.LeafSpec{CN: "collector", DNS: []string{"localhost"}, IPs: lo, NotBefore: past, NotAfter: time.Now().Add(-time.Hour)}),
		"not_yet_valid": caGood.Issue(glue.LeafSpec{CN: "collector", DNS: []string{"localhost"}, IPs: lo, NotBefore: time.Now().Add(time.Hour), NotAfter: future}),
		"wrong_san":     caGood.Issue(glue.LeafSpec{CN: "localhost", DNS: []string{"other.example"}}),
		"no_san":        caGood.Issue(glue.LeafSpec{CN: "localhost"}),
	}
	// a bundle: the wrong-SAN leaf (valid chain) followed by a self-signed certificate that carries the
	// expected names; only the leaf counts
	decoy := caGood.Issue(glue.LeafSpec{CN: "collector", DNS: []string{"localhost"}, IPs: lo, SelfSign: true})
	ws := serverCerts["wrong_san"]
	serverCerts["wrong_san_with_decoy"] = glue.Leaf{CertPEM: append(append([]byte(nil), ws.CertPEM...), decoy.CertPEM...), KeyPEM: ws.KeyPEM}
	serverSANs = map[string][]string{"wrong_san": {"other.example"}, "no_san": {}, "wrong_san_with_decoy": {"other.example"}}
	for _, k := range []string{"trusted", "other_ca", "self_signed", "expired", "not_yet_valid"} {
		serverSANs[k] = []string{"localhost", "127.0.0.1", "::1"}
	}
	mk := func(l glue.Leaf) *glue.Leaf { return &l }
	clientCerts = map[string]*glue.Leaf{
		"none":     nil,
		"trusted":  mk(caGood.Issue(glue.LeafSpec{CN: "exporter", Client: true})),
		"other_ca": mk(caOther.Issue(glue.LeafSpec{CN: "exporter", Client: true})),
		"expired":  mk(caGood.Issue(glue.LeafSpec{CN: "exporter", Client: true, NotBefore: past, NotAfter: time.Now().Add(-time.Hour)})),
	}
	collectorCert = caGood.LoopbackServer()
	if rp := ev.LoadReplay(); rp != nil {
		ev.RunReplay(rp, func(c Cell) *ev.Failure { f, _ := runCell(c); return f })
	}
	rec = ev.New("C18", "the configuration matrix, enumerated completely in both tiers: library exporter against a harness-controlled server, {server certificate: trusted / other CA / self-signed / expired / not-yet-valid / wrong SAN / no SAN} x {ServerName matching DNS name / unset / mismatching DNS name / matching IP literal / mismatching IP literal} x {tls with server max version 1.1 / 1.2 / 1.3, dtls}; harness-controlled TLS client against the library collector, {client certificate: none / trusted / other CA / expired} x {client CA set / unset} x {client max version 1.1 / 1.2 / 1.3}; plaintext peers against encrypted endpoints and encrypted exporters against plaintext collectors (tcp and udp); an independent predicate written from the statement decides each cell; non-trivial = every cell (each is a distinct session with a decided expectation)",
		"certificates (ECDSA P-256) minted in-process", "Go crypto/tls and pion/dtls as the harness-side peers", "the client-certificate dimensions do not apply to the exporter direction, nor to DTLS (the library documents that DTLS client authentication is unsupported; pion speaks DTLS 1.2 only)")
	code := m.Run()
	rec.Write()
	os.Exit(code)
}

func sanOK(cert, sn string) bool {
	want := map[string]string{"matching": "localhost", "unset": "127.0.0.1", "mismatching": "other.example", "ip_matching": "127.0.0.1", "ip_mismatching": "192.0.2.1"}[sn]
	for _, s := range serverSANs[cert] {
		if s == want {
			return true
		}
	}
	return false
}

func snValue(sn string) string {
	return map[string]string{"matching": "localhost", "unset": "", "mismatching": "other.example", "ip_matching": "127.0.0.1", "ip_mismatching": "192.0.2.1"}[sn]
}

var tplFields = []ref.Field{{ID: 8, Len: 4, Type: ref.TIPv4, Name: "sourceIPv4Address"}, {ID: 4, Len: 1, Type: ref.TU8, Name: "protocolIdentifier"}}

func sendTemplate(ep *exporter.ExportingProcess) error {
	set, err := exph.TemplateSet(256, tplFields, 0)
	if err != nil {
		return err
	}
	_, err = ep.SendSet(set)
	return err
}

// expectation: may a session complete / a message be accepted?
func expectAccept(c Cell) bool {
	switch c.Dir {
	case "exporter":
		ok := c.ServerCert == "trusted" || c.ServerCert == "wrong_san" || c.ServerCert == "no_san" || c.ServerCert == "wrong_san_with_decoy"
		ok = ok && sanOK(c.ServerCert, c.ServerName)
		if c.Proto == "tls" {
			ok = ok && c.MaxVersion != "1.1"
		}
		return ok
	case "collector":
		return (!c.ClientCA || c.ClientCert == "trusted") && c.MaxVersion != "1.1"
	}
	return false
}

// runCell returns a failure when the cell's expectation is violated; the bool reports whether a
// session was observed to complete.
func runCell(c Cell) (*ev.Failure, bool) {
	switch c.Dir {
	case "exporter":
		if c.Proto == "tls" {
			return exporterVsTLSServer(c)
		}
		return exporterVsDTLSServer(c)
	case "collector":
		return clientVsCollector(c)
	case "sequence":
		return sequence(c)
	}
	return plaintext(c)
}

func exporterVsTLSServer(c Cell) (*ev.Failure, bool) {
	leaf := serverCerts[c.ServerCert]
	cert, err := tls.X509KeyPair(leaf.CertPEM, leaf.KeyPEM)
	if err != nil {
		return ev.Failf("harness: %v", err), false
	}
	ln, err := tls.Listen("tcp", "127.0.0.1:0", &tls.Config{Certificates: []tls.Certificate{cert}, MinVersion: tls.VersionTLS10, MaxVersion: versions[c.MaxVersion]})
	if err != nil {
		return ev.Failf("harness: %v", err), false
	}
	defer ln.Close()
	type srv struct {
		hsErr   error
		version uint16
		data    []byte
	}
	resc := make(chan srv, 1)
	go func() {
		conn, err := ln.Accept()
		if err != nil {
			resc <- srv{hsErr: err}
			return
		}
		defer conn.Close()
		tc := conn.(*tls.Conn)
		tc.SetDeadline(time.Now().Add(10 * time.Second))
		if err := tc.Handshake(); err != nil {
			resc <- srv{hsErr: err}
			return
		}
		buf := make([]byte, 4096)
		n, _ := tc.Read(buf)
		resc <- srv{version: tc.ConnectionState().Version, data: buf[:n]}
	}()
	ep, err := exporter.InitExportingProcess(exporter.ExporterInput{CollectorAddress: ln.Addr().String(), CollectorProtocol: "tcp", ObservationDomainID: 1,
		TLSClientConfig: &exporter.ExporterTLSClientConfig{ServerName: snValue(c.ServerName), CAData: caGood.CertPEM}, CheckConnInterval: time.Hour})
	want := expectAccept(c)
	if err != nil {
		if want {
			return ev.Failf("exporter refused a collector it must accept (cell %+v): %v", c, err), false
		}
		return nil, false
	}
	defer ep.CloseConnToCollector()
	if !want {
		return ev.Failf("exporter completed a TLS session with a collector it must refuse (cell %+v)", c), true
	}
	if err := sendTemplate(ep); err != nil {
		return ev.Failf("send over the established session failed: %v", err), true
	}
	select {
	case r := <-resc:
		if r.hsErr != nil {
			return ev.Failf("server side handshake failed although the exporter reported a session: %v", r.hsErr), true
		}
		if r.version < tls.VersionTLS12 {
			return ev.Failf("session negotiated TLS version %#x, below 1.2", r.version), true
		}
		if _, _, err := ref.ParseMessage(r.data); err != nil {
			return ev.Failf("the message did not arrive intact through the session: %v", err), true
		}
	case <-time.After(10 * time.Second):
		return nil, true
	}
	return nil, true
}

func exporterVsDTLSServer(c Cell) (*ev.Failure, bool) {
	leaf := serverCerts[c.ServerCert]
	cert, err := tls.X509KeyPair(leaf.CertPEM, leaf.KeyPEM)
	if err != nil {
		return ev.Failf("harness: %v", err), false
	}
	addr, _ := net.ResolveUDPAddr("udp", "127.0.0.1:0")
	ln, err := dtls.Listen("udp", addr, &dtls.Config{Certificates: []tls.Certificate{cert}, ExtendedMasterSecret: dtls.RequireExtendedMasterSecret})
	if err != nil {
		return ev.Failf("harness: %v", err), false
	}
	defer ln.Close()
	datac := make(chan []byte, 1)
	go func() {
		conn, err := ln.Accept()
		if err != nil {
			return
		}
		defer conn.Close()
		buf := make([]byte, 4096)
		conn.SetReadDeadline(time.Now().Add(10 * time.Second))
		n, _ := conn.Read(buf)
		datac <- buf[:n]
	}()
	ep, err := exporter.InitExportingProcess(exporter.ExporterInput{CollectorAddress: ln.Addr().String(), CollectorProtocol: "udp", ObservationDomainID: 1, TempRefTimeout: 3600,
		TLSClientConfig: &exporter.ExporterTLSClientConfig{ServerName: snValue(c.ServerName), CAData: caGood.CertPEM}})
	want := expectAccept(c)
	if err != nil {
		if want {
			return ev.Failf("DTLS exporter refused a collector it must accept (cell %+v): %v", c, err), false
		}
		return nil, false
	}
	defer ep.CloseConnToCollector()
	if !want {
		return ev.Failf("DTLS exporter completed a session with a collector it cannot verify (cell %+v): certificate %s, expected name/address %q", c, c.ServerCert, map[string]string{"matching": "localhost", "unset": "127.0.0.1 (the collector address)", "mismatching": "other.example", "ip_matching": "127.0.0.1", "ip_mismatching": "192.0.2.1"}[c.ServerName]), true
	}
	if err := sendTemplate(ep); err != nil {
		return ev.Failf("send over the established DTLS session failed: %v", err), true
	}
	select {
	case d := <-datac:
		if _, _, err := ref.ParseMessage(d); err != nil {
			return ev.Failf("the message did not arrive intact through the DTLS session: %v", err), true
		}
	case <-time.After(10 * time.Second):
	}
	return nil, true
}

// collectorUnderTest starts a library collector and drains its message channel.
type cut struct {
	cp   *collector.CollectingProcess
	mu   sync.Mutex
	msgs []*entities.Message
}

func startCollector(in collector.CollectorInput) (*cut, error) {
	cp, err := collector.InitCollectingProcess(in)
	if err != nil {
		return nil, err
	}
	c := &cut{cp: cp}
	go cp.Start()
	go func() {
		for m := range cp.GetMsgChan() {
			c.mu.Lock()
			c.msgs = append(c.msgs, m)
			c.mu.Unlock()
		}
	}()
	for i := 0; i < 2000 && cp.GetAddress() == nil; i++ {
		time.Sleep(time.Millisecond)
	}
	if cp.GetAddress() == nil {
		return nil, fmt.Errorf("collector did not start listening")
	}
	return c, nil
}

func (c *cut) delivered(domain uint32) bool {
	c.mu.Lock()
	defer c.mu.Unlock()
	for _, m := range c.msgs {
		if m.GetObsDomainID() == domain {
			return true
		}
	}
	return false
}

func (c *cut) waitDelivered(domain uint32, limit time.Duration) bool {
	for end := time.Now().Add(limit); time.Now().Before(end); time.Sleep(2 * time.Millisecond) {
		if c.delivered(domain) {
			return true
		}
	}
	return c.delivered(domain)
}

func clientVsCollector(c Cell) (*ev.Failure, bool) {
	in := collector.CollectorInput{Address: "127.0.0.1:0", Protocol: "tcp", MaxBufferSize: 65535, IsEncrypted: true, ServerCert: collectorCert.CertPEM, ServerKey: collectorCert.KeyPEM}
	if c.ClientCA {
		in.CACert = caGood.CertPEM
	}
	col, err := startCollector(in)
	if err != nil {
		return ev.Failf("harness: %v", err), false
	}
	defer col.cp.Stop()
	roots := x509.NewCertPool()
	roots.AppendCertsFromPEM(caGood.CertPEM)
	cfg := &tls.Config{RootCAs: roots, ServerName: "localhost", MinVersion: tls.VersionTLS10, MaxVersion: versions[c.MaxVersion]}
	if l := clientCerts[c.ClientCert]; l != nil {
		kp, err := tls.X509KeyPair(l.CertPEM, l.KeyPEM)
		if err != nil {
			return ev.Failf("harness: %v", err), false
		}
		cfg.Certificates = []tls.Certificate{kp}
	}
	const domain = 4242
	msg := ref.TemplateMessage(ref.Header{Domain: domain}, ref.Template{ID: 256, Fields: tplFields})
	conn, err := tls.DialWithDialer(&net.Dialer{Timeout: 5 * time.Second}, "tcp", col.cp.GetAddress().String(), cfg)
	sessionUp := false
	if err == nil {
		conn.Write(msg)
		conn.SetReadDeadline(time.Now().Add(500 * time.Millisecond))
		_, rerr := conn.Read(make([]byte, 1))
		if ne, ok := rerr.(net.Error); ok && ne.Timeout() {
			sessionUp = true // still open after half a second: the server did not reject us
		}
		conn.Close()
	}
	// a well-behaved peer afterwards proves the collector was listening and had time to process
	good := &tls.Config{RootCAs: roots, ServerName: "localhost", MinVersion: tls.VersionTLS12}
	kp, _ := tls.X509KeyPair(clientCerts["trusted"].CertPEM, clientCerts["trusted"].KeyPEM)
	good.Certificates = []tls.Certificate{kp}
	gc, err := tls.Dial("tcp", col.cp.GetAddress().String(), good)
	if err != nil {
		return ev.Failf("harness: a correctly configured client cannot connect: %v", err), false
	}
	gc.Write(ref.TemplateMessage(ref.Header{Domain: 999}, ref.Template{ID: 256, Fields: tplFields}))
	okSentinel := col.waitDelivered(999, 10*time.Second)
	gc.Close()
	if !okSentinel {
		return nil, false // inconclusive: not counted
	}
	want := expectAccept(c)
	got := col.delivered(domain)
	if !got && sessionUp {
		got = col.waitDelivered(domain, 2*time.Second)
	}
	if got && !want {
		return ev.Failf("collector delivered a message from a client it must not accept (cell %+v)", c), true
	}
	if !got && want {
		return ev.Failf("collector did not deliver the message of a client it must accept (cell %+v)", c), false
	}
	return nil, got
}

func plaintext(c Cell) (*ev.Failure, bool) {
	msg := ref.TemplateMessage(ref.Header{Domain: 4242}, ref.Template{ID: 256, Fields: tplFields})
	switch c.Plain {
	case "plain_tcp_client_to_tls_collector":
		col, err := startCollector(collector.CollectorInput{Address: "127.0.0.1:0", Protocol: "tcp", MaxBufferSize: 65535, IsEncrypted: true, ServerCert: collectorCert.CertPEM, ServerKey: collectorCert.KeyPEM, CACert: map[bool][]byte{true: caGood.CertPEM, false: nil}[c.ClientCA]})
		if err != nil {
			return ev.Failf("harness: %v", err), false
		}
		defer col.cp.Stop()
		conn, err := net.Dial("tcp", col.cp.GetAddress().String())
		if err == nil {
			conn.Write(msg)
			conn.SetReadDeadline(time.Now().Add(300 * time.Millisecond))
			conn.Read(make([]byte, 16))
			conn.Close()
		}
		roots := x509.NewCertPool()
		roots.AppendCertsFromPEM(caGood.CertPEM)
		kp, _ := tls.X509KeyPair(clientCerts["trusted"].CertPEM, clientCerts["trusted"].KeyPEM)
		gc, err := tls.Dial("tcp", col.cp.GetAddress().String(), &tls.Config{RootCAs: roots, ServerName: "localhost", Certificates: []tls.Certificate{kp}})
		if err != nil {
			return ev.Failf("harness: a correctly configured client cannot connect: %v", err), false
		}
		gc.Write(ref.TemplateMessage(ref.Header{Domain: 999}, ref.Template{ID: 256, Fields: tplFields}))
		ok := col.waitDelivered(999, 10*time.Second)
		gc.Close()
		if ok && col.delivered(4242) {
			return ev.Failf("TLS collector delivered a message received over an unencrypted connection"), true
		}
	case "tls_exporter_to_plain_tcp_collector":
		col, err := startCollector(collector.CollectorInput{Address: "127.0.0.1:0", Protocol: "tcp", MaxBufferSize: 65535})
		if err != nil {
			return ev.Failf("harness: %v", err), false
		}
		defer col.cp.Stop()
		ep, err := exporter.InitExportingProcess(exporter.ExporterInput{CollectorAddress: col.cp.GetAddress().String(), CollectorProtocol: "tcp", ObservationDomainID: 4242,
			TLSClientConfig: &exporter.ExporterTLSClientConfig{ServerName: "localhost", CAData: caGood.CertPEM}, CheckConnInterval: time.Hour})
		if err == nil {
			sendTemplate(ep)
			ep.CloseConnToCollector()
			time.Sleep(50 * time.Millisecond)
			return ev.Failf("exporter with TLS settings established a session with a plaintext collector (message delivered in clear: %v)", col.delivered(4242)), true
		}
		if col.delivered(4242) {
			return ev.Failf("exporter with TLS settings sent a message in clear"), true
		}
	case "plain_udp_client_to_dtls_collector":
		col, err := startCollector(collector.CollectorInput{Address: "127.0.0.1:0", Protocol: "udp", MaxBufferSize: 65535, IsEncrypted: true, ServerCert: collectorCert.CertPEM, ServerKey: collectorCert.KeyPEM})
		if err != nil {
			return ev.Failf("harness: %v", err), false
		}
		defer col.cp.Stop()
		conn, err := net.Dial("udp", col.cp.GetAddress().String())
		if err == nil {
			conn.Write(msg)
			conn.Write(msg)
			conn.Close()
		}
		ep, err := exporter.InitExportingProcess(exporter.ExporterInput{CollectorAddress: col.cp.GetAddress().String(), CollectorProtocol: "udp", ObservationDomainID: 999, TempRefTimeout: 3600,
			TLSClientConfig: &exporter.ExporterTLSClientConfig{ServerName: "localhost", CAData: caGood.CertPEM}})
		if err != nil {
			return nil, false // inconclusive: the DTLS collector could not be reached by a good peer
		}
		sendTemplate(ep)
		ok := col.waitDelivered(999, 10*time.Second)
		ep.CloseConnToCollector()
		if ok && col.delivered(4242) {
			return ev.Failf("DTLS collector delivered a message received in an unencrypted datagram"), true
		}
	case "dtls_exporter_to_plain_udp_collector":
		col, err := startCollector(collector.CollectorInput{Address: "127.0.0.1:0", Protocol: "udp", MaxBufferSize: 65535})
		if err != nil {
			return ev.Failf("harness: %v", err), false
		}
		defer col.cp.Stop()
		ep, err := exporter.InitExportingProcess(exporter.ExporterInput{CollectorAddress: col.cp.GetAddress().String(), CollectorProtocol: "udp", ObservationDomainID: 4242, TempRefTimeout: 3600,
			TLSClientConfig: &exporter.ExporterTLSClientConfig{ServerName: "localhost", CAData: caGood.CertPEM}})
		if err == nil {
			sendTemplate(ep)
			ep.CloseConnToCollector()
			time.Sleep(50 * time.Millisecond)
			return ev.Failf("exporter with DTLS settings established a session with a plaintext collector (message delivered in clear: %v)", col.delivered(4242)), true
		}
		if col.delivered(4242) {
			return ev.Failf("exporter with DTLS settings sent a message in clear"), true
		}
	}
	return nil, false
}

// sequence cells: two exporters in one process, one after the other, against the same live
// collector. The first is correctly configured and completes a session; the second is not and must
// be refused whatever the first one left behind (session tickets, caches).
func sequence(c Cell) (*ev.Failure, bool) {
	in := collector.CollectorInput{Address: "127.0.0.1:0", Protocol: "tcp", MaxBufferSize: 65535, IsEncrypted: true, ServerCert: collectorCert.CertPEM, ServerKey: collectorCert.KeyPEM}
	if c.ClientCA {
		in.CACert = caGood.CertPEM
	}
	col, err := startCollector(in)
	if err != nil {
		return ev.Failf("harness: %v", err), false
	}
	defer col.cp.Stop()
	mk := func(domain uint32, ca []byte, client *glue.Leaf) (*exporter.ExportingProcess, error) {
		cfg := &exporter.ExporterTLSClientConfig{ServerName: snValue(c.ServerName), CAData: ca}
		if client != nil {
			cfg.CertData, cfg.KeyData = client.CertPEM, client.KeyPEM
		}
		return exporter.InitExportingProcess(exporter.ExporterInput{CollectorAddress: col.cp.GetAddress().String(), CollectorProtocol: "tcp", ObservationDomainID: domain,
			TLSClientConfig: cfg, CheckConnInterval: 3 * time.Millisecond})
	}
	good, err := mk(999, caGood.CertPEM, clientCerts["trusted"])
	if err != nil {
		return ev.Failf("harness: the correctly configured exporter cannot connect: %v", err), false
	}
	sendTemplate(good)
	if !col.waitDelivered(999, 10*time.Second) {
		good.CloseConnToCollector()
		return nil, false
	}
	time.Sleep(30 * time.Millisecond) // several connection checks read from the session (tickets arrive)
	good.CloseConnToCollector()
	var bad *exporter.ExportingProcess
	switch c.Plain {
	case "second_exporter_other_ca":
		bad, err = mk(4242, caOther.CertPEM, clientCerts["trusted"])
	case "second_exporter_without_client_cert":
		bad, err = mk(4242, caGood.CertPEM, nil)
	}
	if err == nil {
		sendTemplate(bad)
		got := col.waitDelivered(4242, 700*time.Millisecond)
		bad.CloseConnToCollector()
		if c.Plain == "second_exporter_other_ca" {
			return ev.Failf("after a correctly configured exporter had completed a session, a second exporter in the same process whose CA does not cover the collector's certificate completed one too (message delivered: %v)", got), true
		}
		if got {
			return ev.Failf("after an exporter with a valid client certificate had completed a session, the collector delivered a message from a second exporter that presented no certificate"), true
		}
	}
	return nil, false
}

func cells() []Cell {
	var out []Cell
	for _, sc := range []string{"trusted", "other_ca", "self_signed", "expired", "not_yet_valid", "wrong_san", "no_san", "wrong_san_with_decoy"} {
		for _, sn := range []string{"matching", "unset", "mismatching", "ip_matching", "ip_mismatching"} {
			for _, v := range []string{"1.1", "1.2", "1.3"} {
				out = append(out, Cell{Dir: "exporter", Proto: "tls", ServerCert: sc, ServerName: sn, MaxVersion: v})
			}
			out = append(out, Cell{Dir: "exporter", Proto: "dtls", ServerCert: sc, ServerName: sn})
		}
	}
	for _, cc := range []string{"none", "trusted", "other_ca", "expired"} {
		for _, ca := range []bool{true, false} {
			for _, v := range []string{"1.1", "1.2", "1.3"} {
				out = append(out, Cell{Dir: "collector", Proto: "tls", ClientCert: cc, ClientCA: ca, MaxVersion: v})
			}
		}
	}
	for _, sn := range []string{"matching", "unset"} {
		out = append(out, Cell{Dir: "sequence", Proto: "tls", ServerName: sn, Plain: "second_exporter_other_ca"},
			Cell{Dir: "sequence", Proto: "tls", ServerName: sn, ClientCA: true, Plain: "second_exporter_without_client_cert"})
	}
	out = append(out,
		Cell{Dir: "plaintext", Plain: "plain_tcp_client_to_tls_collector", ClientCA: true},
		Cell{Dir: "plaintext", Plain: "plain_tcp_client_to_tls_collector"},
		Cell{Dir: "plaintext", Plain: "tls_exporter_to_plain_tcp_collector"},
		Cell{Dir: "plaintext", Plain: "plain_udp_client_to_dtls_collector"},
		Cell{Dir: "plaintext", Plain: "dtls_exporter_to_plain_udp_collector"},
	)
	return out
}

func TestC18(t *testing.T) {
	all := cells()
	type result struct {
		c  Cell
		f  *ev.Failure
		up bool
	}
	results := make([]result, len(all))
	var wg sync.WaitGroup
	sem := make(chan struct{}, 8)
	for i, c := range all {
		wg.Add(1)
		go func(i int, c Cell) {
			defer wg.Done()
			sem <- struct{}{}
			defer func() { <-sem }()
			f, up := runCell(c)
			results[i] = result{c, f, up}
		}(i, c)
	}
	wg.Wait()
	for _, r := range results {
		cl := []string{"dir_" + r.c.Dir, "proto_" + r.c.Proto}
		if expectAccept(r.c) {
			cl = append(cl, "expected_accept")
		} else {
			cl = append(cl, "expected_refuse")
		}
		if r.up {
			cl = append(cl, "session_observed")
		}
		// known finding D9 (if still open): DTLS exporter does not check the name when ServerName is unset
		if r.f != nil && rec.Open("D9") && r.c.Dir == "exporter" && r.c.Proto == "dtls" && (r.c.ServerName == "unset") && (r.c.ServerCert == "wrong_san" || r.c.ServerCert == "no_san") {
			rec.Excluded("D9_dtls_servername_unset")
			rec.Known("D9", fmt.Sprintf("DTLS exporter with ServerName unset accepts a certificate of the trusted CA that is not valid for the collector address (certificate %s)", r.c.ServerCert))
			continue
		}
		rec.Case(ev.Hash(r.c), true, cl...)
		if r.c.ServerCert == "wrong_san" || r.c.Dir != "exporter" && r.c.MaxVersion == "1.3" {
			rec.Sample(r.c.Dir+"_"+r.c.Proto, r.c)
		}
		if r.f != nil {
			rec.Violation("matrix", r.c, r.f.Msg)
			t.Errorf("%s", r.f.Msg)
		}
	}
	rec.SetExhaustive()
	rec.Extra("cells", len(all))
}
