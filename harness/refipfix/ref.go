// Package refipfix is an independent reference implementation of the subset of
// RFC 7011 / RFC 7012 that go-ipfix claims to speak. It is written against the RFC
// text and imports nothing from go-ipfix, so that it can serve as an oracle that
// does not share the library's mistakes.
package refipfix

import (
	"bytes"
	"encoding/binary"
	"errors"
	"fmt"
)

// Type is an abstract data type of RFC 7012 section 3.1 (only those go-ipfix supports).
type Type uint8

const (
	TOctets Type = iota
	TU8
	TU16
	TU32
	TU64
	TI8
	TI16
	TI32
	TI64
	TF32
	TF64
	TBool
	TMac
	TString
	TDTSec
	TDTMilli
	TIPv4
	TIPv6
	NumTypes
)

var typeNames = [...]string{"octetArray", "unsigned8", "unsigned16", "unsigned32", "unsigned64", "signed8", "signed16", "signed32", "signed64", "float32", "float64", "boolean", "macAddress", "string", "dateTimeSeconds", "dateTimeMilliseconds", "ipv4Address", "ipv6Address"}

func (t Type) String() string {
	if int(t) < len(typeNames) {
		return typeNames[t]
	}
	return fmt.Sprintf("type%d", uint8(t))
}

// VarLen is the field length that marks a variable-length element (RFC 7011 7).
const VarLen uint16 = 65535

// Width is the fixed encoded width of a type, 0 for the types that have no natural one.
func (t Type) Width() int {
	switch t {
	case TU8, TI8, TBool:
		return 1
	case TU16, TI16:
		return 2
	case TU32, TI32, TF32, TDTSec, TIPv4:
		return 4
	case TU64, TI64, TF64, TDTMilli:
		return 8
	case TMac:
		return 6
	case TIPv6:
		return 16
	}
	return 0
}

// IsBytes reports whether values of the type are carried as byte strings.
func (t Type) IsBytes() bool {
	switch t {
	case TOctets, TString, TMac, TIPv4, TIPv6:
		return true
	}
	return false
}

// Field is one field specifier of a template record.
type Field struct {
	ID   uint16 `json:"id"`
	Ent  uint32 `json:"ent"`
	Len  uint16 `json:"len"`
	Type Type   `json:"type"`
	Name string `json:"name,omitempty"`
}

// Template is a template record.
type Template struct {
	ID     uint16  `json:"id"`
	Fields []Field `json:"fields"`
}

// Value is a typed value: numeric types (and booleans, 1 = true / 0 = false) keep their
// bit pattern at the type's width in U; byte-string types keep their bytes in B.
type Value struct {
	U uint64 `json:"u,omitempty"`
	B []byte `json:"b,omitempty"`
	// Long (variable-length fields, encoder side of the collector checks only): the value is
	// written with the three-byte length prefix even if it is shorter than 255 bytes, which RFC 7011
	// section 7 allows (exporters with a fixed-size prefix do that)
	Long bool `json:"long,omitempty"`
}

// MinRecLen is the minimum number of bytes a data record of this template occupies.
func MinRecLen(fields []Field) int {
	n := 0
	for _, f := range fields {
		if f.Len == VarLen {
			n++
		} else {
			n += int(f.Len)
		}
	}
	return n
}

// EncodeValue appends the RFC 7011 encoding of v for field f.
func EncodeValue(dst []byte, f Field, v Value) []byte {
	switch f.Type {
	case TBool:
		if v.U == 1 {
			return append(dst, 1)
		}
		return append(dst, 2)
	case TOctets, TString:
		if f.Len == VarLen {
			n := len(v.B)
			if n < 255 && !v.Long {
				dst = append(dst, byte(n))
			} else {
				dst = append(dst, 0xFF, byte(n>>8), byte(n))
			}
		}
		return append(dst, v.B...)
	case TIPv4, TIPv6:
		return append(dst, CanonIP(f.Type, v.B)...)
	case TMac:
		return append(dst, v.B...)
	}
	w := f.Type.Width()
	for i := w - 1; i >= 0; i-- {
		dst = append(dst, byte(v.U>>(8*uint(i))))
	}
	return dst
}

// CanonIP returns the wire form of an address value: an application may hold an IPv4 address as 4
// bytes or as the 16 bytes of its IPv4-mapped form (net.IP semantics: the same address); an
// ipv4Address field carries the 4 bytes, an ipv6Address field the 16. Other lengths are returned
// as they are (they have no faithful encoding; the checks that use them say so).
func CanonIP(t Type, b []byte) []byte {
	switch {
	case t == TIPv6 && len(b) == 4:
		return append([]byte{0, 0, 0, 0, 0, 0, 0, 0, 0, 0, 0xFF, 0xFF}, b...)
	case t == TIPv4 && len(b) == 16 && bytes.Equal(b[:12], []byte{0, 0, 0, 0, 0, 0, 0, 0, 0, 0, 0xFF, 0xFF}):
		return b[12:]
	}
	return b
}

// EncodedLen is the number of bytes EncodeValue produces.
func EncodedLen(f Field, v Value) int {
	switch f.Type {
	case TOctets, TString:
		if f.Len == VarLen {
			if len(v.B) < 255 && !v.Long {
				return len(v.B) + 1
			}
			return len(v.B) + 3
		}
		return len(v.B)
	case TIPv4, TIPv6:
		return len(CanonIP(f.Type, v.B))
	case TMac:
		return len(v.B)
	}
	return f.Type.Width()
}

// DecodeValue interprets the bytes of one field (length prefix already removed).
func DecodeValue(t Type, b []byte) Value {
	if t.IsBytes() {
		return Value{B: append([]byte(nil), b...)}
	}
	if t == TBool {
		if len(b) > 0 && b[0] == 1 {
			return Value{U: 1}
		}
		return Value{U: 0}
	}
	var u uint64
	for _, x := range b {
		u = u<<8 | uint64(x)
	}
	return Value{U: u}
}

// EncodeDataRecord encodes one data record.
func EncodeDataRecord(dst []byte, fields []Field, vals []Value) []byte {
	for i, f := range fields {
		dst = EncodeValue(dst, f, vals[i])
	}
	return dst
}

// EncodeTemplateRecord encodes (id, count) and the field specifiers.
func EncodeTemplateRecord(dst []byte, t Template) []byte {
	dst = append(dst, byte(t.ID>>8), byte(t.ID), byte(len(t.Fields)>>8), byte(len(t.Fields)))
	for _, f := range t.Fields {
		id := f.ID
		if f.Ent != 0 {
			id |= 0x8000
		}
		dst = append(dst, byte(id>>8), byte(id), byte(f.Len>>8), byte(f.Len))
		if f.Ent != 0 {
			dst = append(dst, byte(f.Ent>>24), byte(f.Ent>>16), byte(f.Ent>>8), byte(f.Ent))
		}
	}
	return dst
}

// Header is an IPFIX message header.
type Header struct {
	Version    uint16 `json:"version"`
	Length     uint16 `json:"length"`
	ExportTime uint32 `json:"export_time"`
	Seq        uint32 `json:"seq"`
	Domain     uint32 `json:"domain"`
}

// EncodeMessage builds header + one set (id, body). Length fields are computed.
func EncodeMessage(h Header, setID uint16, body []byte) []byte {
	total := 16 + 4 + len(body)
	out := make([]byte, 0, total)
	out = append(out, 0, 10, byte(total>>8), byte(total))
	out = binary.BigEndian.AppendUint32(out, h.ExportTime)
	out = binary.BigEndian.AppendUint32(out, h.Seq)
	out = binary.BigEndian.AppendUint32(out, h.Domain)
	sl := 4 + len(body)
	out = append(out, byte(setID>>8), byte(setID), byte(sl>>8), byte(sl))
	return append(out, body...)
}

// TemplateMessage is a message carrying one template record.
func TemplateMessage(h Header, t Template) []byte {
	return EncodeMessage(h, 2, EncodeTemplateRecord(nil, t))
}

// DataMessage is a message carrying the given records of template t.
func DataMessage(h Header, t Template, recs [][]Value) []byte {
	var body []byte
	for _, r := range recs {
		body = EncodeDataRecord(body, t.Fields, r)
	}
	return EncodeMessage(h, t.ID, body)
}

// RawSet is a set as found in a message.
type RawSet struct {
	ID   uint16
	Body []byte
}

// ParseMessage parses one complete message strictly: the header length must equal
// len(b) and the sets must tile the rest exactly.
func ParseMessage(b []byte) (Header, []RawSet, error) {
	var h Header
	if len(b) < 16 {
		return h, nil, errors.New("short header")
	}
	h.Version = binary.BigEndian.Uint16(b[0:])
	h.Length = binary.BigEndian.Uint16(b[2:])
	h.ExportTime = binary.BigEndian.Uint32(b[4:])
	h.Seq = binary.BigEndian.Uint32(b[8:])
	h.Domain = binary.BigEndian.Uint32(b[12:])
	if h.Version != 10 {
		return h, nil, fmt.Errorf("version %d", h.Version)
	}
	if int(h.Length) != len(b) {
		return h, nil, fmt.Errorf("header length %d but message has %d bytes", h.Length, len(b))
	}
	var sets []RawSet
	p := 16
	for p < len(b) {
		if len(b)-p < 4 {
			return h, sets, errors.New("truncated set header")
		}
		id := binary.BigEndian.Uint16(b[p:])
		sl := int(binary.BigEndian.Uint16(b[p+2:]))
		if sl < 4 || p+sl > len(b) {
			return h, sets, fmt.Errorf("set length %d does not fit (%d left)", sl, len(b)-p)
		}
		sets = append(sets, RawSet{ID: id, Body: b[p+4 : p+sl]})
		p += sl
	}
	return h, sets, nil
}

// ParseTemplateRecord parses one template record at the start of body and returns the
// number of bytes consumed. Field types are not known from the wire (Type is left 0).
func ParseTemplateRecord(body []byte) (Template, int, error) {
	var t Template
	if len(body) < 4 {
		return t, 0, errors.New("truncated template record header")
	}
	t.ID = binary.BigEndian.Uint16(body)
	n := int(binary.BigEndian.Uint16(body[2:]))
	p := 4
	t.Fields = make([]Field, 0, n)
	for i := 0; i < n; i++ {
		if len(body)-p < 4 {
			return t, p, fmt.Errorf("truncated field specifier %d", i)
		}
		id := binary.BigEndian.Uint16(body[p:])
		l := binary.BigEndian.Uint16(body[p+2:])
		p += 4
		f := Field{ID: id & 0x7FFF, Len: l}
		if id&0x8000 != 0 {
			if len(body)-p < 4 {
				return t, p, fmt.Errorf("truncated enterprise number in field %d", i)
			}
			f.Ent = binary.BigEndian.Uint32(body[p:])
			p += 4
		}
		t.Fields = append(t.Fields, f)
	}
	return t, p, nil
}

// DataSetResult is the outcome of slicing a data set body by a template.
type DataSetResult struct {
	// NoRecordsDefinable: the template's minimum record length is zero.
	NoRecordsDefinable bool
	// Malformed: some field did not fit with its full encoded width.
	Malformed bool
	Why       string
	// Records[i][j] is the value bytes of field j of record i (length prefix removed).
	Records [][][]byte
	// Consumed[i] is the number of body bytes record i occupies.
	Consumed []int
	Padding  []byte
}

// ParseDataSet applies the strict full-width rule of DESIGN.md A.1.
func ParseDataSet(fields []Field, body []byte) DataSetResult {
	var r DataSetResult
	min := MinRecLen(fields)
	if min == 0 {
		r.NoRecordsDefinable = true
		return r
	}
	pos := 0
	for len(body)-pos >= min {
		start := pos
		rec := make([][]byte, 0, len(fields))
		for i, f := range fields {
			n := int(f.Len)
			if f.Len == VarLen {
				if len(body)-pos < 1 {
					r.Malformed, r.Why = true, fmt.Sprintf("record %d field %d: no length prefix", len(r.Records), i)
					return r
				}
				n = int(body[pos])
				pos++
				if n == 255 {
					if len(body)-pos < 2 {
						r.Malformed, r.Why = true, fmt.Sprintf("record %d field %d: truncated 3-byte prefix", len(r.Records), i)
						return r
					}
					n = int(binary.BigEndian.Uint16(body[pos:]))
					pos += 2
				}
			}
			if len(body)-pos < n {
				r.Malformed, r.Why = true, fmt.Sprintf("record %d field %d: needs %d bytes, %d left", len(r.Records), i, n, len(body)-pos)
				return r
			}
			rec = append(rec, body[pos:pos+n])
			pos += n
		}
		r.Records = append(r.Records, rec)
		r.Consumed = append(r.Consumed, pos-start)
	}
	r.Padding = body[pos:]
	return r
}

// Frame splits a TCP byte stream into messages by the header length field. It stops at
// the first message whose length field is below 16 (cannot even hold a header) or which
// is incomplete; rest is what was not framed.
func Frame(stream []byte) (msgs [][]byte, rest []byte) {
	p := 0
	for len(stream)-p >= 4 {
		l := int(binary.BigEndian.Uint16(stream[p+2:]))
		if l < 16 || p+l > len(stream) {
			break
		}
		msgs = append(msgs, stream[p:p+l])
		p += l
	}
	return msgs, stream[p:]
}
