//go:build verif

// C04 — data is decoded with the right template: scoping, replacement, invalidation.
package c04

import (
	"fmt"
	"os"
	"testing"
	"time"

	"pgregory.net/rapid"

	"github.com/vmware/go-ipfix/pkg/collector"

	"verifharness/ev"
	"verifharness/gen"
	"verifharness/glue"
	ref "verifharness/refipfix"
)

// Step is one message of a history. Kind: "tpl" (template with Fields), "trunc" (template
// message for Fields cut to Cut bytes after the set header), "badcount" (template message for
// Fields whose field count is overwritten with Count, larger than the specifiers present), "data"
// (records of DataFields under set id ID). A template that declares a known element with a length
// other than the registry's makes its key "unjudged" (the library ignores declared lengths of known
// elements; whether it should is outside the statement), but must not influence any other key.
type Step struct {
	Kind   string        `json:"kind"`
	Domain uint32        `json:"domain"`
	ID     uint16        `json:"id"`
	Fields []gen.TField  `json:"fields,omitempty"`
	Cut    int           `json:"cut,omitempty"`
	Count  int           `json:"count,omitempty"` // kind badcount: the field count written into the record header
	Recs   [][]ref.Value `json:"recs,omitempty"`
	Secs   int           `json:"secs,omitempty"` // kind wait: seconds that pass (tcp only; templates of a tcp session have no lifetime)
}

// Case is a history against one collecting process.
type Case struct {
	Mode  string `json:"mode"`
	Proto string `json:"proto"`
	TTL   uint32 `json:"ttl,omitempty"` // tcp: the TemplateTTL of the configuration (udp always runs with 1800 on a frozen clock)
	Steps []Step `json:"steps"`
	// Prefill: before the steps, domain 1 receives this many templates (ids 256.., the two-field
	// layout of the exhaustive alphabet)
	Prefill int `json:"prefill,omitempty"`
}

type Stats struct{ AfterReplace, AfterInvalidate, CrossDomain, Accepted, Rejected, Waited bool }

var (
	rec  *ev.Recorder
	pool *gen.Pool
)

func TestMain(m *testing.M) {
	glue.SilenceKlog()
	pool = gen.NewPool(glue.NewCollectorPoolArgs())
	if rp := ev.LoadReplay(); rp != nil {
		ev.RunReplay(rp, func(c Case) *ev.Failure { return runCase(c, nil) })
	}
	rec = ev.New("C04", "histories of template / undecodable-template / data messages over 2 observation domains x 2 template ids x 3 decoding modes x tcp/udp: exhaustive over a 31-symbol alphabet (including 61 s passing on tcp sessions configured with a 60 s template TTL, which must not expire anything) and over a second 22-symbol alphabet (re-announcements differing only in an unknown element's declared length, field counts far beyond the specifiers present, a known octet-array element declared with a fixed length in the other domain) to depth 3 (quick) / 4 (thorough), rapid histories up to length 60 with random templates beyond; non-trivial = a data message is judged after a replacement or an invalidation of its template, or the same id is live in both domains; distinct by hash of the history",
		"reference codec refipfix and an independent map model of the template table", "verif hooks VerifDecodePacket / VerifTemplates")
	code := m.Run()
	rec.Write()
	os.Exit(code)
}

func (s Step) packet() []byte {
	h := ref.Header{Domain: s.Domain, ExportTime: 1700000000, Seq: 5}
	switch s.Kind {
	case "tpl":
		return ref.TemplateMessage(h, gen.Wire(s.ID, s.Fields))
	case "trunc":
		m := ref.TemplateMessage(h, gen.Wire(s.ID, s.Fields))
		if 20+s.Cut < len(m) {
			m = m[:20+s.Cut]
		}
		return gen.FixLengths(append([]byte(nil), m...))
	case "tplmore":
		// the template record is followed by more content in the same message (everyday traffic from
		// other exporters; this library's exporter sends one record per message): Cut 1 = a second
		// template record for the spare id 60000 in the same set, 2 = four bytes that are not padding,
		// 3 = a second set (a data set) behind the template set
		m := ref.TemplateMessage(h, gen.Wire(s.ID, s.Fields))
		switch s.Cut {
		case 1:
			m = ref.EncodeTemplateRecord(m, ref.Template{ID: 60000, Fields: []ref.Field{{ID: 8, Len: 4}}})
			return gen.FixLengths(m)
		case 2:
			return gen.FixLengths(append(m, 0xDE, 0xAD, 0xBE, 0xEF))
		default:
			m = append(m, 0xEA, 0x60, 0, 8, 1, 2, 3, 4) // set id 60000, length 8
			m[2], m[3] = byte(len(m)>>8), byte(len(m))
			return m
		}
	case "badtype":
		t := gen.Wire(s.ID, s.Fields)
		t.Fields = append(t.Fields, ref.Field{ID: 154, Ent: 0, Len: 8}) // flowStartMicroseconds
		return ref.TemplateMessage(h, t)
	case "badcount":
		m := ref.TemplateMessage(h, gen.Wire(s.ID, s.Fields))
		m[22], m[23] = byte(s.Count>>8), byte(s.Count)
		return m
	}
	var body []byte
	view := gen.View(s.Fields)
	for _, r := range s.Recs {
		body = ref.EncodeDataRecord(body, view, r)
	}
	return ref.EncodeMessage(h, s.ID, body)
}

func runCase(c Case, st *Stats) *ev.Failure {
	if st == nil {
		st = &Stats{}
	}
	if c.Prefill > 0 {
		a := []gen.TField{named("sourceIPv4Address", 0), named("protocolIdentifier", 0)}
		pre := make([]Step, 0, c.Prefill+len(c.Steps))
		for k := 0; k < c.Prefill; k++ {
			pre = append(pre, Step{Kind: "tpl", Domain: 1, ID: uint16(256 + k), Fields: a})
		}
		c.Steps = append(pre, c.Steps...)
	}
	var clk collector.VerifClock
	var hclk *glue.HClock
	ttl := uint32(1800)
	if c.Proto == "udp" {
		clk = glue.FrozenClock{T: time.Unix(1700000000, 0)}
	} else {
		hclk = glue.NewHClock(time.Unix(1700000000, 0))
		clk, ttl = hclk, c.TTL
	}
	mode := collector.DecodingMode(c.Mode)
	col := glue.NewCol(c.Proto, mode, clk, ttl)
	if mode == "" { // not configured: strict is the documented default
		mode = collector.DecodingModeStrict
	}
	model := map[glue.TplKey][]ref.Field{}
	replaced := map[glue.TplKey]bool{}
	invalidated := map[glue.TplKey]bool{}
	unjudged := map[glue.TplKey]bool{}
	for i, s := range c.Steps {
		key := glue.TplKey{Domain: s.Domain, ID: s.ID}
		if s.Kind == "wait" {
			// time passes on a tcp session: whatever timers the collector armed fire and run
			if hclk != nil {
				hclk.Advance(time.Duration(s.Secs) * time.Second)
				for len(hclk.Pending) > 0 {
					if !hclk.Start(0, 10*time.Second) || !hclk.Finish(10*time.Second) {
						return ev.Failf("step %d: a timer callback did not return", i)
					}
				}
				st.Waited = true
			}
			if f := compareStored(col, model, unjudged, i, s); f != nil {
				return f
			}
			continue
		}
		pkt := s.packet()
		dr := col.Decode(pkt, "10.1.2.3:4739")
		if dr.Hung || dr.Panic != "" {
			return ev.Failf("step %d (%s): decoder crashed or hung: %s%s", i, s.Kind, dr.Panic, dr.HungWhy)
		}
		switch s.Kind {
		case "tpl", "tplmore":
			valid := true
			for _, f := range s.Fields {
				if f.Unknown && mode == collector.DecodingModeStrict {
					valid = false
				}
			}
			if valid && s.Kind == "tplmore" && dr.Err != nil {
				// A collector may refuse a message whose template record is followed by content it does
				// not support. The id was read by then: the older template must be gone.
				if _, had := model[key]; had {
					invalidated[key] = true
				}
				delete(model, key)
				delete(unjudged, key)
				break
			}
			if valid {
				if dr.Err != nil {
					return ev.Failf("step %d: valid template (domain %d id %d) rejected: %v", i, s.Domain, s.ID, dr.Err)
				}
				if old, had := model[key]; had && ev.Hash(old) != ev.Hash(gen.View(s.Fields)) {
					replaced[key] = true
				}
				model[key] = gen.View(s.Fields)
				delete(invalidated, key)
				delete(unjudged, key)
				for _, f := range s.Fields {
					if !f.Unknown && f.WireLen != f.Len {
						unjudged[key] = true
					}
				}
			} else {
				if dr.Err == nil {
					return ev.Failf("step %d: template with an unknown element accepted in strict mode", i)
				}
				if _, had := model[key]; had {
					invalidated[key] = true
				}
				delete(model, key)
			}
		case "badtype":
			if dr.Err == nil {
				return ev.Failf("step %d: template naming flowStartMicroseconds (a data type the library cannot decode) accepted", i)
			}
			if _, had := model[key]; had {
				invalidated[key] = true
			}
			delete(model, key)
			delete(unjudged, key)
		case "badcount":
			if dr.Err == nil {
				return ev.Failf("step %d: template record announcing %d fields but carrying %d accepted", i, s.Count, len(s.Fields))
			}
			if _, had := model[key]; had {
				invalidated[key] = true
			}
			delete(model, key)
			delete(unjudged, key)
		case "trunc":
			if dr.Err == nil {
				return ev.Failf("step %d: truncated template (cut %d) accepted", i, s.Cut)
			}
			// The id counts as read once the 4-byte record header (id, field count) was decoded:
			// the repository's own test "malformed record header" pins that a 3-byte header
			// leaves the old template in place ("cannot decode the message to get a template ID").
			if s.Cut >= 4 {
				if _, had := model[key]; had {
					invalidated[key] = true
				}
				delete(model, key)
				delete(unjudged, key)
			}
		case "data":
			if unjudged[key] {
				break
			}
			fields, ok := model[key]
			if !ok {
				if dr.Err == nil {
					why := "was never defined"
					if invalidated[key] {
						why = "was invalidated by an undecodable template set"
					}
					return ev.Failf("step %d: data set (domain %d id %d) accepted although its template %s", i, s.Domain, s.ID, why)
				}
				st.Rejected = true
				break
			}
			body := pkt[20:]
			r := ref.ParseDataSet(fields, body)
			if r.NoRecordsDefinable {
				break
			}
			if r.Malformed {
				if dr.Err == nil {
					return ev.Failf("step %d: data set that does not fit the template in force (domain %d id %d: %s) was accepted", i, s.Domain, s.ID, r.Why)
				}
				st.Rejected = true
				break
			}
			if dr.Err != nil {
				return ev.Failf("step %d: data set well-formed under the template in force (domain %d id %d, %d records) rejected: %v", i, s.Domain, s.ID, len(r.Records), dr.Err)
			}
			if f := glue.CheckDataMsg(dr.Msg, fields, body, mode); f != nil {
				return ev.Failf("step %d (domain %d id %d): %s", i, s.Domain, s.ID, f.Msg)
			}
			st.Accepted = true
			if replaced[key] {
				st.AfterReplace = true
			}
			other := glue.TplKey{Domain: 3 - s.Domain, ID: s.ID}
			if _, both := model[other]; both {
				st.CrossDomain = true
			}
		}
		if s.Kind == "data" && invalidated[key] {
			st.AfterInvalidate = true
		}
		// the full table comparison is linear in the number of templates: with hundreds of templates
		// it runs every 512th step and for the last steps
		if len(model) > 64 && i%512 != 0 && i < len(c.Steps)-4 {
			continue
		}
		if f := compareStored(col, model, unjudged, i, s); f != nil {
			return f
		}
	}
	return nil
}

// compareStored checks that the collector's template table equals the model.
func compareStored(col *glue.Col, model map[glue.TplKey][]ref.Field, unjudged map[glue.TplKey]bool, i int, s Step) *ev.Failure {
	stored := col.StoredTemplates()
	for k := range stored {
		if k.ID == 60000 { // the spare id of the "tplmore" steps: whether it is taken is not judged
			delete(stored, k)
		}
	}
	if len(stored) != len(model) {
		return ev.Failf("after step %d (%s domain %d id %d): collector holds %d templates, model %d (%v vs %v)", i, s.Kind, s.Domain, s.ID, len(stored), len(model), keys(stored), keys(model))
	}
	for k, fs := range model {
		sf, ok := stored[k]
		if !ok {
			return ev.Failf("after step %d: template %+v missing from the collector", i, k)
		}
		if len(sf) != len(fs) {
			return ev.Failf("after step %d: template %+v has %d fields, model %d", i, k, len(sf), len(fs))
		}
		for j := range fs {
			if sf[j].ID != fs[j].ID || sf[j].Ent != fs[j].Ent || (sf[j].Len != fs[j].Len && !unjudged[k]) {
				return ev.Failf("after step %d: template %+v field %d is %+v, model %+v", i, k, j, sf[j], fs[j])
			}
		}
	}
	return nil
}

func keys(m map[glue.TplKey][]ref.Field) []string {
	var out []string
	for k := range m {
		out = append(out, fmt.Sprintf("%d/%d", k.Domain, k.ID))
	}
	return out
}

func named(name string, ent uint32) gen.TField {
	for _, f := range pool.Known {
		if f.Name == name && f.Ent == ent {
			return gen.TField{Field: f, WireLen: f.Len}
		}
	}
	panic("no element " + name)
}

func nontrivial(st *Stats) bool { return st.AfterReplace || st.AfterInvalidate || st.CrossDomain }

func runRecorded(phase string, c Case) *ev.Failure {
	st := &Stats{}
	f := runCase(c, st)
	var cl []string
	if st.AfterReplace {
		cl = append(cl, "data_after_replacement")
	}
	if st.AfterInvalidate {
		cl = append(cl, "data_after_invalidation")
	}
	if st.CrossDomain {
		cl = append(cl, "same_id_two_domains")
	}
	if st.Accepted {
		cl = append(cl, "data_accepted")
	}
	if st.Rejected {
		cl = append(cl, "data_rejected")
	}
	if st.Waited && c.TTL > 0 {
		cl = append(cl, "tcp_time_passes_with_ttl_configured")
	}
	rec.Case(ev.Hash(c), nontrivial(st), append(cl, phase, "mode_"+c.Mode, "proto_"+c.Proto)...)
	if nontrivial(st) && len(c.Steps) <= 4 {
		rec.Sample(phase, c)
	}
	return f
}

func TestC04(t *testing.T) {
	A := []gen.TField{named("sourceIPv4Address", 0), named("protocolIdentifier", 0)}
	B := []gen.TField{named("octetDeltaCount", 0), named("sourceTransportPort", 0), named("sourcePodName", 56506)}
	unk := gen.TField{Field: ref.Field{ID: 20001, Ent: 0, Len: 3, Type: ref.TOctets}, Unknown: true, WireLen: 3}
	U := []gen.TField{A[0], unk, A[1]}
	recA := [][]ref.Value{{{B: []byte{10, 0, 0, 1}}, {U: 6}}, {{B: []byte{10, 0, 0, 2}}, {U: 17}}}
	recB := [][]ref.Value{{{U: 123456789}, {U: 443}, {B: []byte("pod-b")}}}
	recU := [][]ref.Value{{{B: []byte{10, 0, 0, 3}}, {B: []byte{1, 2, 3}}, {U: 1}}}
	var alphabet []Step
	for _, d := range []uint32{1, 2} {
		for _, id := range []uint16{256, 257} {
			alphabet = append(alphabet,
				Step{Kind: "tpl", Domain: d, ID: id, Fields: A},
				Step{Kind: "tpl", Domain: d, ID: id, Fields: B},
				Step{Kind: "tpl", Domain: d, ID: id, Fields: U},
				Step{Kind: "trunc", Domain: d, ID: id, Fields: A, Cut: 9},
				Step{Kind: "data", Domain: d, ID: id, Fields: A, Recs: recA},
				Step{Kind: "data", Domain: d, ID: id, Fields: B, Recs: recB},
			)
		}
		alphabet = append(alphabet,
			Step{Kind: "trunc", Domain: d, ID: 256, Fields: A, Cut: 1}, // id not readable
			Step{Kind: "trunc", Domain: d, ID: 256, Fields: A, Cut: 3}, // record header incomplete
			Step{Kind: "data", Domain: d, ID: 256, Fields: U, Recs: recU},
		)
	}
	alphabet = append(alphabet, Step{Kind: "wait", Secs: 61})
	// second alphabet (one id, both domains): re-announcements that differ only in the declared
	// length of an unknown element, field counts far beyond the specifiers present, and a known
	// octet-array element declared with a fixed length in the other domain
	unk5 := unk
	unk5.Len, unk5.WireLen = 5, 5
	unkV := unk
	unkV.Len, unkV.WireLen = ref.VarLen, ref.VarLen
	unkE := unk
	unkE.Ent = 4242
	UE := []gen.TField{A[0], unkE, A[1]}
	U5 := []gen.TField{A[0], unk5, A[1]}
	UV := []gen.TField{A[0], unkV, A[1]}
	recU5 := [][]ref.Value{{{B: []byte{10, 0, 0, 4}}, {B: []byte{1, 2, 3, 4, 5}}, {U: 17}}}
	recUV := [][]ref.Value{{{B: []byte{10, 0, 0, 5}}, {B: []byte{9, 8}}, {U: 6}}}
	oct := named("mplsTopLabelStackSection", 0)
	octFixed := oct
	octFixed.WireLen = 4
	V := []gen.TField{oct, A[1]}
	W := []gen.TField{octFixed, A[1]}
	recV := [][]ref.Value{{{B: []byte{0xAA, 0xBB, 0xCC}}, {U: 6}}, {{B: []byte{}}, {U: 17}}}
	// the same element id and length under another enterprise number (a reverse element)
	P := []gen.TField{named("packetDeltaCount", 0), A[1]}
	PR := []gen.TField{named("reversePacketDeltaCount", 29305), A[1]}
	recP := [][]ref.Value{{{U: 77}, {U: 6}}}
	alphabet2 := []Step{
		{Kind: "tpl", Domain: 1, ID: 256, Fields: P}, {Kind: "tpl", Domain: 1, ID: 256, Fields: PR}, {Kind: "data", Domain: 1, ID: 256, Fields: P, Recs: recP},
		{Kind: "tpl", Domain: 1, ID: 256, Fields: U}, {Kind: "tpl", Domain: 1, ID: 256, Fields: U5}, {Kind: "tpl", Domain: 1, ID: 256, Fields: UV},
		{Kind: "data", Domain: 1, ID: 256, Fields: U, Recs: recU}, {Kind: "data", Domain: 1, ID: 256, Fields: U5, Recs: recU5}, {Kind: "data", Domain: 1, ID: 256, Fields: UV, Recs: recUV},
		{Kind: "tpl", Domain: 1, ID: 256, Fields: A}, {Kind: "data", Domain: 1, ID: 256, Fields: A, Recs: recA},
		{Kind: "badcount", Domain: 1, ID: 256, Fields: A, Count: 0xFFFF}, {Kind: "badcount", Domain: 1, ID: 256, Fields: B, Count: 0x4000}, {Kind: "badcount", Domain: 1, ID: 256, Fields: A, Count: 3},
		{Kind: "tpl", Domain: 2, ID: 256, Fields: W}, {Kind: "tpl", Domain: 1, ID: 256, Fields: V}, {Kind: "data", Domain: 1, ID: 256, Fields: V, Recs: recV},
		// template records with a field count of zero (what RFC 7011 8.1 uses for withdrawals, which the
		// library does not implement: they are templates without fields), for a live id and for id 2, in
		// the other domain
		{Kind: "tpl", Domain: 2, ID: 256}, {Kind: "tpl", Domain: 2, ID: 2},
		// the same unknown element id and length under another enterprise number (a replacement that
		// differs in nothing else), and a re-definition naming a registry element whose data type the
		// library cannot decode (refused in every mode; the older template goes)
		{Kind: "tpl", Domain: 1, ID: 256, Fields: UE}, {Kind: "data", Domain: 1, ID: 256, Fields: UE, Recs: recU},
		{Kind: "badtype", Domain: 1, ID: 256, Fields: A},
	}
	depth := 3
	if rec.Thorough() {
		depth = 4
	}
	if ev.Shard() > 1 { // the exhaustive part runs once, in the first shard
		depth = 0
	}
	failed := false
	var enum func(prefix []Step, mode, proto string)
	enum = func(prefix []Step, mode, proto string) {
		if failed {
			return
		}
		if len(prefix) > 0 {
			c := Case{Mode: mode, Proto: proto, Steps: append([]Step(nil), prefix...)}
			if proto == "tcp" {
				c.TTL = 60
			}
			if f := runRecorded("exhaustive", c); f != nil {
				rec.Violation("exhaustive", c, f.Msg)
				t.Errorf("exhaustive: %s", f.Msg)
				failed = true
				return
			}
		}
		if len(prefix) == depth {
			return
		}
		for _, s := range alphabet {
			enum(append(prefix, s), mode, proto)
		}
	}
	// every history of length == depth contains its prefixes' steps, so judging only full-length
	// histories would do; prefixes are run too because they are cheap and shrink better.
	for _, mode := range []string{"Strict", "LenientKeepUnknown", "LenientDropUnknown"} {
		for _, proto := range []string{"tcp", "udp"} {
			if depth > 0 {
				enum(nil, mode, proto)
			}
		}
	}
	first := alphabet
	alphabet = alphabet2
	for _, mode := range []string{"Strict", "LenientKeepUnknown", "LenientDropUnknown"} {
		for _, proto := range []string{"tcp", "udp"} {
			if depth > 0 {
				enum(nil, mode, proto)
			}
		}
	}
	alphabet = first
	if failed {
		return
	}
	if depth > 0 {
		rec.SetExhaustive()
		rec.Extra("exhaustive_depth", depth)
		rec.Extra("alphabet_size", len(alphabet))
		rec.Extra("second_alphabet_size", len(alphabet2))
	}
	// every run: one observation domain holding thousands of templates, then a replacement of one of
	// them and data in the new and in an untouched layout
	if ev.Shard() <= 1 {
		for _, proto := range []string{"tcp", "udp"} {
			c := Case{Mode: "Strict", Proto: proto, Prefill: 5000}
			c.Steps = append(c.Steps, Step{Kind: "tpl", Domain: 1, ID: 300, Fields: B}, Step{Kind: "data", Domain: 1, ID: 300, Fields: B, Recs: recB},
				Step{Kind: "data", Domain: 1, ID: 301, Fields: A, Recs: recA}, Step{Kind: "tpl", Domain: 2, ID: 300, Fields: A}, Step{Kind: "data", Domain: 1, ID: 300, Fields: B, Recs: recB})
			f := runCase(c, nil)
			rec.Case(ev.Hash(c), true, "many_templates_in_one_domain")
			if f != nil {
				if len(f.Msg) > 400 {
					f.Msg = f.Msg[:400] + "…"
				}
				rec.Violation("many_templates", c, f.Msg)
				t.Fatalf("many templates: %s", f.Msg)
			}
		}
	}
	ev.Rapid(t, rec, "random", rec.Scale(4000, 2000000), genCase, func(c Case) *ev.Failure { return runRecorded("random", c) })
}

func genCase(t *rapid.T) Case {
	c := Case{
		Mode:  rapid.SampledFrom([]string{"Strict", "LenientKeepUnknown", "LenientDropUnknown", ""}).Draw(t, "mode"),
		Proto: rapid.SampledFrom([]string{"tcp", "udp"}).Draw(t, "proto"),
	}
	if c.Proto == "tcp" {
		c.TTL = rapid.SampledFrom([]uint32{0, 0, 1, 60, 1800}).Draw(t, "ttl")
	}
	var tpls [][]gen.TField
	n := rapid.IntRange(2, 60).Draw(t, "n")
	for i := 0; i < n; i++ {
		s := Step{Domain: uint32(rapid.IntRange(1, 2).Draw(t, "dom")), ID: rapid.SampledFrom([]uint16{256, 257, 300}).Draw(t, "id")}
		kind := rapid.IntRange(0, 9).Draw(t, "kind")
		if len(tpls) == 0 {
			kind = 0
		}
		if kind == 9 && c.Proto == "tcp" && rapid.Bool().Draw(t, "wait") {
			c.Steps = append(c.Steps, Step{Kind: "wait", Secs: rapid.SampledFrom([]int{1, 59, 61, 1799, 1801, 4000}).Draw(t, "secs")})
			continue
		}
		switch {
		case kind <= 2: // new template
			nf := rapid.IntRange(1, 6).Draw(t, "nf")
			punk := rapid.SampledFrom([]int{0, 0, 3}).Draw(t, "punk")
			for j := 0; j < nf; j++ {
				if rapid.IntRange(0, 9).Draw(t, "u") < punk {
					s.Fields = append(s.Fields, pool.UnknownField(t, false))
				} else {
					f := pool.KnownField(t)
					if f.Type == ref.TOctets && f.Len == ref.VarLen && rapid.IntRange(0, 2).Draw(t, "fixoct") == 0 {
						f.WireLen = uint16(rapid.IntRange(1, 8).Draw(t, "octlen")) // makes this key unjudged
					}
					s.Fields = append(s.Fields, f)
				}
			}
			s.Kind = "tpl"
			tpls = append(tpls, s.Fields)
		case kind == 3 && rapid.IntRange(0, 2).Draw(t, "more") == 0, kind == 4 && rapid.IntRange(0, 4).Draw(t, "more") == 0:
			s.Kind = "tplmore"
			s.Fields = tpls[rapid.IntRange(0, len(tpls)-1).Draw(t, "which")]
			s.Cut = rapid.IntRange(1, 3).Draw(t, "more_what")
		case kind == 3: // an earlier template again (refresh or replacement under another id)
			s.Kind = "tpl"
			s.Fields = tpls[rapid.IntRange(0, len(tpls)-1).Draw(t, "which")]
		case kind == 4 && rapid.Bool().Draw(t, "relen"):
			// an earlier template re-announced with the declared length of one unknown element changed
			s.Kind = "tpl"
			src := tpls[rapid.IntRange(0, len(tpls)-1).Draw(t, "which")]
			s.Fields = append([]gen.TField(nil), src...)
			for j := range s.Fields {
				if s.Fields[j].Unknown {
					l := rapid.SampledFrom([]uint16{1, 2, 4, 6, 8, ref.VarLen}).Draw(t, "newlen")
					s.Fields[j].Len, s.Fields[j].WireLen = l, l
					break
				}
			}
			tpls = append(tpls, s.Fields)
		case kind == 4 && rapid.IntRange(0, 3).Draw(t, "badtype") == 0:
			s.Kind = "badtype"
			s.Fields = tpls[rapid.IntRange(0, len(tpls)-1).Draw(t, "which")]
		case kind == 4 && rapid.Bool().Draw(t, "badcount"):
			s.Kind = "badcount"
			s.Fields = tpls[rapid.IntRange(0, len(tpls)-1).Draw(t, "which")]
			s.Count = rapid.SampledFrom([]int{len(s.Fields) + 1, 255, 256, 0x4000, 0x7FFF, 0xFFFF}).Draw(t, "count")
		case kind == 4:
			s.Kind = "trunc"
			s.Fields = tpls[rapid.IntRange(0, len(tpls)-1).Draw(t, "which")]
			full := len(ref.EncodeTemplateRecord(nil, gen.Wire(s.ID, s.Fields)))
			s.Cut = rapid.IntRange(0, full-1).Draw(t, "cut")
		default:
			s.Kind = "data"
			s.Fields = tpls[rapid.IntRange(0, len(tpls)-1).Draw(t, "which")]
			view := gen.View(s.Fields)
			for k := rapid.IntRange(1, 3).Draw(t, "nrec"); k > 0; k-- {
				r := gen.Record(t, view, 300)
				gen.LongPrefixes(t, view, r)
				s.Recs = append(s.Recs, r)
			}
		}
		c.Steps = append(c.Steps, s)
	}
	return c
}
