//go:build verif

package c14

import (
	"bytes"
	"crypto/tls"
	"crypto/x509"
	"encoding/json"
	"fmt"
	"net"
	"sync"
	"time"

	"github.com/pion/dtls/v2"
	"k8s.io/klog/v2"

	"github.com/vmware/go-ipfix/pkg/entities"
	"github.com/vmware/go-ipfix/pkg/exporter"
	"github.com/vmware/go-ipfix/pkg/registry"

	"verifharness/ev"
	"verifharness/exph"
	"verifharness/glue"
	ref "verifharness/refipfix"
)

// Extra is a scenario in one of the exporter's less common configurations.
//
//	json_refresh      udp exporter in JSON output mode with registered templates: refresh rounds (hook;
//	                  Ticker: the real ticker at 1 s for 2.3 s) must not put anything but JSON documents
//	                  on the wire
//	tls_idleclose     the idleclose scenario over TLS (harness crypto/tls server)
//	tls_abrupt_close  the collector ends a TLS session without a close_notify: it turns the client away
//	                  with a fatal alert after the client side of the handshake was done (TLS 1.3: a
//	                  collector that demands a client certificate, an exporter without one; N even),
//	                  or it sends bytes that are no TLS record (N odd); either way it then closes the
//	                  connection. The application is idle; its next SendSet must fail
//	close_overlap_slow_close  tcp: closing the connection takes 300 ms (hook VerifWrapConn; crypto/tls
//	                  takes up to 5 s to close a congested connection). A second Close is called N*20 ms
//	                  after the first; once it has returned, SendSet fails and the collector receives
//	                  nothing more
//	template_after_tick  udp, the real refresh ticker at 1 s: a template is sent, a tick passes, a template
//	                  with a new id is sent (and so on, 2+N%2 times), with data sets in between; every
//	                  template is retransmitted after it was sent, everything on the wire is well-formed
//	dtls_ticker       the real refresh ticker (1 s) over DTLS (harness pion server): within 2.6 s every
//	                  template is retransmitted at least once, well-formed
//	refresh_unbuildable  udp: a registered template holds an element whose declared type the library
//	                  cannot instantiate; whatever a refresh round makes of it, the application's next
//	                  SendSet and Close must return
type Extra struct {
	Kind   string `json:"kind"`
	Ticker bool   `json:"ticker,omitempty"`
	N      int    `json:"n,omitempty"`
}

var (
	xCA   *glue.CA
	xCert glue.Leaf
	xOnce sync.Once
)

func xCerts() {
	xOnce.Do(func() {
		xCA = glue.NewCA("verif CA")
		xCert = xCA.LoopbackServer()
	})
}

func runExtra(c Extra) *ev.Failure {
	switch c.Kind {
	case "json_refresh":
		return runJSONRefresh(c)
	case "tls_idleclose":
		return runTLSIdleClose(c)
	case "tls_abrupt_close":
		return runTLSAbruptClose(c)
	case "dtls_ticker":
		return runDTLSTicker(c)
	case "refresh_unbuildable":
		return runRefreshUnbuildable(c)
	case "default_refresh_interval":
		return runDefaultRefresh(0)
	case "close_overlap":
		return runCloseOverlap(0)
	case "close_overlap_slow_close":
		return runCloseOverlapSlowClose(c)
	case "cumulative_template_set":
		return runCumulativeTemplates(c)
	case "template_after_tick":
		return runTemplateAfterTick(c)
	case "refresh_after_outage":
		// the pending socket error is a kernel matter: a miss is confirmed twice before it counts
		var f *ev.Failure
		for k := 0; k < 3; k++ {
			if f = runRefreshAfterOutage(c); f == nil {
				return nil
			}
		}
		return f
	}
	return nil
}

func runJSONRefresh(c Extra) *ev.Failure {
	peer, err := exph.NewPeer("udp", false)
	if err != nil {
		return nil
	}
	defer peer.Close()
	in := exporter.ExporterInput{CollectorAddress: peer.Addr, CollectorProtocol: "udp", ObservationDomainID: 21, TempRefTimeout: 3600, SendJSONRecord: true}
	if c.Ticker {
		in.TempRefTimeout = 1
	}
	ep, err := exporter.InitExportingProcess(in)
	if err != nil {
		return ev.Failf("InitExportingProcess (JSON mode): %v", err)
	}
	defer ep.CloseConnToCollector()
	nData := 0
	for t := 0; t < 2; t++ {
		ts, err := exph.TemplateSet(uint16(256+t), templates[t], t)
		if err != nil {
			return ev.Failf("template set: %v", err)
		}
		if _, err := ep.SendSet(ts); err != nil {
			return ev.Failf("JSON mode: SendSet(template): %v", err)
		}
		ds, err := exph.DataSet(uint16(256+t), templates[t], dataRecs(t, 2, t), 0)
		if err != nil {
			return ev.Failf("data set: %v", err)
		}
		if _, err := ep.SendSet(ds); err != nil {
			return ev.Failf("JSON mode: SendSet(data): %v", err)
		}
		nData += 2
	}
	if c.Ticker {
		time.Sleep(2300 * time.Millisecond)
	} else {
		for k := 0; k < 1+c.N%3; k++ {
			if err := ep.VerifSendRefreshedTemplates(); err != nil {
				return ev.Failf("JSON mode: refresh round failed: %v", err)
			}
		}
	}
	ds, _ := exph.DataSet(256, templates[0], dataRecs(0, 1, 9), 0)
	if _, err := ep.SendSet(ds); err != nil {
		return ev.Failf("JSON mode: SendSet(data) after the refresh activity: %v", err)
	}
	nData++
	peer.WaitDatagrams(nData, 5*time.Second)
	time.Sleep(20 * time.Millisecond)
	dgrams, _ := peer.WaitDatagrams(nData, time.Second)
	for k, d := range dgrams {
		var doc map[string]interface{}
		if err := json.Unmarshal(d, &doc); err != nil {
			what := "is not a JSON document"
			if _, sets, perr := ref.ParseMessage(d); perr == nil && len(sets) == 1 && sets[0].ID == 2 {
				what = "is a binary IPFIX template message"
			}
			return ev.Failf("JSON output mode, after template refresh activity: datagram %d of %d %s (% x…)", k, len(dgrams), what, d[:min(len(d), 16)])
		}
	}
	if len(dgrams) > nData {
		return ev.Failf("JSON output mode: %d datagrams on the wire, the application sent %d records", len(dgrams), nData)
	}
	return nil
}

func runTLSIdleClose(c Extra) *ev.Failure {
	xCerts()
	cert, err := tls.X509KeyPair(xCert.CertPEM, xCert.KeyPEM)
	if err != nil {
		return nil
	}
	ln, err := tls.Listen("tcp", "127.0.0.1:0", &tls.Config{Certificates: []tls.Certificate{cert}, MinVersion: tls.VersionTLS12})
	if err != nil {
		return nil
	}
	defer ln.Close()
	closeNow := make(chan struct{})
	go func() {
		conn, err := ln.Accept()
		if err != nil {
			return
		}
		buf := make([]byte, 4096)
		conn.Read(buf) // the template
		<-closeNow
		conn.Close()
	}()
	interval := time.Duration(1+c.N%5) * time.Millisecond
	ep, err := exporter.InitExportingProcess(exporter.ExporterInput{CollectorAddress: ln.Addr().String(), CollectorProtocol: "tcp", ObservationDomainID: 14, CheckConnInterval: interval,
		TLSClientConfig: &exporter.ExporterTLSClientConfig{ServerName: "localhost", CAData: xCA.CertPEM}})
	if err != nil {
		close(closeNow)
		return nil // environment
	}
	defer ep.CloseConnToCollector()
	ts, _ := exph.TemplateSet(256, templates[0], 0)
	if _, err := ep.SendSet(ts); err != nil {
		close(closeNow)
		return ev.Failf("template over TLS: %v", err)
	}
	time.Sleep(time.Duration(c.N%4) * interval)
	close(closeNow)
	time.Sleep(20*interval + 300*time.Millisecond)
	ds, _ := exph.DataSet(256, templates[0], dataRecs(0, 1, 1), 0)
	if _, err := ep.SendSet(ds); err == nil {
		return ev.Failf("over TLS the collector closed the connection %v ago (check interval %v, the application was idle meanwhile) and SendSet still reports success: the message vanishes", 20*interval+300*time.Millisecond, interval)
	}
	return nil
}

// runTLSAbruptClose: a collector-side close that does not read as a clean end of stream on the
// exporter's side (crypto/tls reports "remote error: tls: ..." or a local record error from then
// on, never io.EOF).
func runTLSAbruptClose(c Extra) *ev.Failure {
	xCerts()
	cert, err := tls.X509KeyPair(xCert.CertPEM, xCert.KeyPEM)
	if err != nil {
		return nil
	}
	alert := c.N%2 == 0
	cfg := &tls.Config{Certificates: []tls.Certificate{cert}, MinVersion: tls.VersionTLS13}
	if alert {
		pool := x509.NewCertPool()
		pool.AppendCertsFromPEM(xCA.CertPEM)
		cfg.ClientAuth, cfg.ClientCAs = tls.RequireAndVerifyClientCert, pool
	}
	ln, err := net.Listen("tcp", "127.0.0.1:0")
	if err != nil {
		return nil
	}
	defer ln.Close()
	closed := make(chan struct{})
	go func() {
		defer close(closed)
		raw, err := ln.Accept()
		if err != nil {
			return
		}
		defer raw.Close()
		conn := tls.Server(raw, cfg)
		raw.SetDeadline(time.Now().Add(10 * time.Second))
		err = conn.Handshake()
		if alert {
			// the handshake fails on the missing client certificate: crypto/tls has sent the alert
			return
		}
		if err != nil {
			return
		}
		time.Sleep(time.Duration(c.N%4) * time.Millisecond)
		raw.Write([]byte("this is not a TLS record, it is what a broken middlebox or a crashing collector may leave behind"))
	}()
	interval := time.Duration(1+c.N%5) * time.Millisecond
	ep, err := exporter.InitExportingProcess(exporter.ExporterInput{CollectorAddress: ln.Addr().String(), CollectorProtocol: "tcp", ObservationDomainID: 14, CheckConnInterval: interval,
		TLSClientConfig: &exporter.ExporterTLSClientConfig{ServerName: "localhost", CAData: xCA.CertPEM}})
	if err != nil {
		return nil // turned away during the handshake already: nothing to check
	}
	defer ep.CloseConnToCollector()
	select {
	case <-closed:
	case <-time.After(12 * time.Second):
		return nil
	}
	time.Sleep(20*interval + 300*time.Millisecond)
	ts, _ := exph.TemplateSet(256, templates[0], 0)
	if _, err := ep.SendSet(ts); err == nil {
		how := "sent bytes that are no TLS record"
		if alert {
			how = "turned the client away with a fatal alert (no client certificate)"
		}
		return ev.Failf("over TLS the collector %s and closed the connection %v ago (check interval %v, the application was idle meanwhile) and SendSet still reports success: the message vanishes", how, 20*interval+300*time.Millisecond, interval)
	}
	return nil
}

func runDTLSTicker(c Extra) *ev.Failure {
	xCerts()
	cert, err := tls.X509KeyPair(xCert.CertPEM, xCert.KeyPEM)
	if err != nil {
		return nil
	}
	addr, _ := net.ResolveUDPAddr("udp", "127.0.0.1:0")
	ln, err := dtls.Listen("udp", addr, &dtls.Config{Certificates: []tls.Certificate{cert}, ExtendedMasterSecret: dtls.RequireExtendedMasterSecret})
	if err != nil {
		return nil
	}
	defer ln.Close()
	var mu sync.Mutex
	var dgrams [][]byte
	go func() {
		conn, err := ln.Accept()
		if err != nil {
			return
		}
		defer conn.Close()
		buf := make([]byte, 8192)
		for {
			conn.SetReadDeadline(time.Now().Add(10 * time.Second))
			n, err := conn.Read(buf)
			if err != nil {
				return
			}
			mu.Lock()
			dgrams = append(dgrams, append([]byte(nil), buf[:n]...))
			mu.Unlock()
		}
	}()
	ep, err := exporter.InitExportingProcess(exporter.ExporterInput{CollectorAddress: ln.Addr().String(), CollectorProtocol: "udp", ObservationDomainID: 31, TempRefTimeout: 1,
		TLSClientConfig: &exporter.ExporterTLSClientConfig{ServerName: "localhost", CAData: xCA.CertPEM}})
	if err != nil {
		return nil // environment
	}
	defer ep.CloseConnToCollector()
	for t := 0; t < 2; t++ {
		ts, _ := exph.TemplateSet(uint16(256+t), templates[t], t)
		if _, err := ep.SendSet(ts); err != nil {
			return ev.Failf("template over DTLS: %v", err)
		}
	}
	time.Sleep(2600 * time.Millisecond)
	mu.Lock()
	defer mu.Unlock()
	seen := map[uint16]int{}
	for k, d := range dgrams {
		_, sets, err := ref.ParseMessage(d)
		if err != nil || len(sets) != 1 {
			return ev.Failf("DTLS: datagram %d is not a well-formed message: %v", k, err)
		}
		if sets[0].ID == 2 {
			tr, _, err := ref.ParseTemplateRecord(sets[0].Body)
			if err != nil {
				return ev.Failf("DTLS: datagram %d: bad template record: %v", k, err)
			}
			seen[tr.ID]++
		}
	}
	if len(dgrams) < 2 {
		return nil // the session did not carry the templates at all: environment
	}
	for t := 0; t < 2; t++ {
		if seen[uint16(256+t)] < 2 {
			return ev.Failf("over DTLS with a refresh interval of 1 s, template %d was on the wire %d time(s) in 2.6 s: it is never retransmitted (templates seen: %v)", 256+t, seen[uint16(256+t)], seen)
		}
	}
	return nil
}

func runRefreshUnbuildable(c Extra) *ev.Failure {
	peer, err := exph.NewPeer("udp", false)
	if err != nil {
		return nil
	}
	defer peer.Close()
	ep, err := exporter.InitExportingProcess(exporter.ExporterInput{CollectorAddress: peer.Addr, CollectorProtocol: "udp", ObservationDomainID: 41, TempRefTimeout: 3600})
	if err != nil {
		return ev.Failf("InitExportingProcess: %v", err)
	}
	ts, _ := exph.TemplateSet(256, templates[0], 0)
	if _, err := ep.SendSet(ts); err != nil {
		return ev.Failf("template: %v", err)
	}
	// a template with flowStartMicroseconds: the element is in the IANA registry, the library has no
	// value type for it, an application carries it in an unsigned64 element
	ie, err := registry.GetInfoElement("flowStartMicroseconds", registry.IANAEnterpriseID)
	if err != nil {
		return nil
	}
	set := entities.NewSet(false)
	if err := set.PrepareSet(entities.Template, 300); err != nil {
		return nil
	}
	if err := set.AddRecord([]entities.InfoElementWithValue{entities.NewUnsigned64InfoElement(ie, 0), glue.Element(glue.IE(templates[2][0]), templates[2][0].Type, ref.Value{})}, 300); err != nil {
		return nil // the library refuses such a template up front: nothing to check
	}
	if _, err := ep.SendSet(set); err != nil {
		return nil
	}
	for k := 0; k < 1+c.N%2; k++ {
		rdone := make(chan struct{})
		go func() { ep.VerifSendRefreshedTemplates(); close(rdone) }() // may fail: the library cannot rebuild that template
		select {
		case <-rdone:
		case <-time.After(10 * time.Second):
			return ev.Failf("template refresh round %d did not return within 10 s after an earlier round could not rebuild one of the registered templates (goroutines of the exporter: %s)", k+1, firstLines(exporterGoroutines(), 12))
		}
	}
	done := make(chan error, 1)
	go func() {
		ds, err := exph.DataSet(256, templates[0], dataRecs(0, 1, 1), 0)
		if err == nil {
			_, err = ep.SendSet(ds)
		}
		done <- err
	}()
	select {
	case <-done: // success or an error: both are answers
	case <-time.After(10 * time.Second):
		return ev.Failf("after a template refresh round that could not rebuild one of the registered templates, the application's next SendSet did not return within 10 s (goroutines of the exporter: %s)", firstLines(exporterGoroutines(), 12))
	}
	closed := make(chan struct{})
	go func() { ep.CloseConnToCollector(); close(closed) }()
	select {
	case <-closed:
	case <-time.After(10 * time.Second):
		return ev.Failf("CloseConnToCollector did not return within 10 s after a failed refresh round")
	}
	return nil
}

// closeGate holds the first log line that contains "Closing connection to the collector" until
// released (the library's log output is a writer owned by the harness).
type closeGate struct {
	mu      sync.Mutex
	armed   bool
	hit     chan struct{}
	release chan struct{}
}

func (g *closeGate) Write(p []byte) (int, error) {
	g.mu.Lock()
	if g.armed && bytes.Contains(p, []byte("Closing connection to the collector")) {
		g.armed = false
		hit, release := g.hit, g.release
		g.mu.Unlock()
		close(hit)
		<-release
		return len(p), nil
	}
	g.mu.Unlock()
	return len(p), nil
}

// runCloseOverlap: "no byte is written after Close" holds for every Close call that returned, also
// when two calls overlap: the first Close is held at its first log line (before it stopped
// anything) for 2.4 s while the 1 s refresh ticker keeps running; a second Close is called
// meanwhile. Whatever it does, once it has returned no datagram may follow. Runs alone (it takes
// over the process-wide log output).
func runCloseOverlap(_ int) *ev.Failure {
	peer, err := exph.NewPeer("udp", false)
	if err != nil {
		return nil
	}
	defer peer.Close()
	ep, err := exporter.InitExportingProcess(exporter.ExporterInput{CollectorAddress: peer.Addr, CollectorProtocol: "udp", ObservationDomainID: 51, TempRefTimeout: 1})
	if err != nil {
		return ev.Failf("InitExportingProcess: %v", err)
	}
	for t := 0; t < 2; t++ {
		ts, _ := exph.TemplateSet(uint16(256+t), templates[t], t)
		if _, err := ep.SendSet(ts); err != nil {
			return ev.Failf("template: %v", err)
		}
	}
	g := &closeGate{armed: true, hit: make(chan struct{}), release: make(chan struct{})}
	klog.SetOutput(g)
	defer glue.SilenceKlog()
	firstDone, secondDone := make(chan struct{}), make(chan time.Time, 1)
	go func() { ep.CloseConnToCollector(); close(firstDone) }()
	select {
	case <-g.hit:
	case <-firstDone: // this version does not log before closing: nothing to hold, nothing to check
		return nil
	case <-time.After(5 * time.Second):
		close(g.release)
		return nil
	}
	time.Sleep(100 * time.Millisecond)
	go func() { ep.CloseConnToCollector(); secondDone <- time.Now() }()
	time.Sleep(2300 * time.Millisecond)
	var second time.Time
	select {
	case second = <-secondDone:
	default:
	}
	n1, _ := peer.WaitDatagrams(0, 0)
	close(g.release)
	select {
	case <-firstDone:
	case <-time.After(10 * time.Second):
		return ev.Failf("the first CloseConnToCollector did not return within 10 s of being released")
	}
	if second.IsZero() {
		select {
		case second = <-secondDone:
		case <-time.After(10 * time.Second):
			return ev.Failf("a second, overlapping CloseConnToCollector did not return within 10 s of the first one finishing")
		}
		// both calls have returned by now: one more refresh interval must stay silent
		time.Sleep(50 * time.Millisecond)
		n3, _ := peer.WaitDatagrams(0, 0)
		time.Sleep(1200 * time.Millisecond)
		n4, _ := peer.WaitDatagrams(0, 0)
		if len(n4) > len(n3) {
			return ev.Failf("%d datagrams were written after both overlapping CloseConnToCollector calls had returned", len(n4)-len(n3))
		}
		return nil
	}
	// the second call returned while the first was still held: from then on nothing may be written
	if len(n1) > 2 {
		return ev.Failf("a second CloseConnToCollector returned while the first call was still in progress (held at its first log line, before it stopped anything); in the 2.3 s after that, the refresh ticker wrote %d more datagrams: bytes are written after a Close call returned", len(n1)-2)
	}
	return nil
}

// slowCloseConn is a connection whose Close takes a while.
type slowCloseConn struct {
	net.Conn
	d time.Duration
}

func (c slowCloseConn) Close() error { time.Sleep(c.d); return c.Conn.Close() }

// runCloseOverlapSlowClose: "no byte is written after Close" holds for every Close call that has
// returned, whichever of two overlapping calls does the work.
func runCloseOverlapSlowClose(c Extra) *ev.Failure {
	peer, err := exph.NewPeer("tcp", false)
	if err != nil {
		return nil
	}
	defer peer.Close()
	ep, err := exporter.InitExportingProcess(exporter.ExporterInput{CollectorAddress: peer.Addr, CollectorProtocol: "tcp", ObservationDomainID: 52, CheckConnInterval: time.Hour})
	if err != nil {
		return ev.Failf("InitExportingProcess: %v", err)
	}
	ep.VerifWrapConn(func(nc net.Conn) net.Conn { return slowCloseConn{nc, 300 * time.Millisecond} })
	ts, _ := exph.TemplateSet(256, templates[0], 0)
	n0, err := ep.SendSet(ts)
	if err != nil {
		return ev.Failf("template: %v", err)
	}
	if _, ok := peer.WaitStream(n0, 5*time.Second); !ok {
		return nil
	}
	firstDone := make(chan struct{})
	go func() { ep.CloseConnToCollector(); close(firstDone) }()
	time.Sleep(time.Duration(c.N%8) * 20 * time.Millisecond)
	ep.CloseConnToCollector()
	// this call has returned: the exporter is closed
	ds, _ := exph.DataSet(256, templates[0], dataRecs(0, 1, 1), 0)
	_, sendErr := ep.SendSet(ds)
	<-firstDone
	time.Sleep(50 * time.Millisecond)
	got, _ := peer.WaitStream(0, 0)
	if sendErr == nil || len(got) > n0 {
		return ev.Failf("two overlapping CloseConnToCollector calls (the second %d ms after the first; closing the connection takes 300 ms): after the second call had returned, SendSet returned error %v and the collector received %d bytes more: the call returned while the exporter was still open", (c.N%8)*20, sendErr, len(got)-n0)
	}
	return nil
}

// runDefaultRefresh (thorough tier: it takes ten minutes of wall time): TempRefTimeout left at 0
// means the documented default of 600 s; a template must be retransmitted 600 s (+/- 15 s) after
// the exporter was created.
func runDefaultRefresh(_ int) *ev.Failure {
	peer, err := exph.NewPeer("udp", false)
	if err != nil {
		return nil
	}
	defer peer.Close()
	t0 := time.Now()
	ep, err := exporter.InitExportingProcess(exporter.ExporterInput{CollectorAddress: peer.Addr, CollectorProtocol: "udp", ObservationDomainID: 61})
	if err != nil {
		return ev.Failf("InitExportingProcess: %v", err)
	}
	defer ep.CloseConnToCollector()
	ts, _ := exph.TemplateSet(256, templates[0], 0)
	if _, err := ep.SendSet(ts); err != nil {
		return ev.Failf("template: %v", err)
	}
	time.Sleep(time.Until(t0.Add(585 * time.Second)))
	early, _ := peer.WaitDatagrams(0, 0)
	if len(early) > 1 {
		return ev.Failf("default refresh interval: %d retransmissions within the first 585 s (the documented default is 600 s)", len(early)-1)
	}
	if d, ok := peer.WaitDatagrams(2, 30*time.Second); !ok {
		return ev.Failf("default refresh interval (TempRefTimeout left at 0, documented default 600 s): no retransmission of the template within %v of the exporter's creation (%d datagrams in all)", time.Since(t0).Round(time.Second), len(d))
	}
	return nil
}

// runRefreshAfterOutage: the udp collector goes away, the application sends exactly one message
// into the void (the kernel then holds a pending "connection refused" for the socket), a collector
// listens again on the same port, and the application stays quiet: the next writer is the refresh
// ticker (1 s). Within that refresh interval one of two things must be visible: the templates are
// retransmitted to the collector, or the exporter has given up the connection and the
// application's next SendSet fails. A refresh interval that passes with neither leaves the new
// collector without templates while every send "succeeds".
func runRefreshAfterOutage(c Extra) *ev.Failure {
	pc, err := net.ListenUDP("udp", &net.UDPAddr{IP: net.IPv4(127, 0, 0, 1)})
	if err != nil {
		return nil
	}
	addr := pc.LocalAddr().(*net.UDPAddr)
	t0 := time.Now()
	ep, err := exporter.InitExportingProcess(exporter.ExporterInput{CollectorAddress: addr.String(), CollectorProtocol: "udp", ObservationDomainID: 71, TempRefTimeout: 1})
	if err != nil {
		pc.Close()
		return nil
	}
	defer ep.CloseConnToCollector()
	for t := 0; t < 2; t++ {
		ts, _ := exph.TemplateSet(uint16(256+t), templates[t], t)
		if _, err := ep.SendSet(ts); err != nil {
			pc.Close()
			return ev.Failf("template: %v", err)
		}
	}
	pc.Close()
	time.Sleep(20 * time.Millisecond)
	ds, _ := exph.DataSet(256, templates[0], dataRecs(0, 1, 1), 0)
	ep.SendSet(ds) // into the void: not judged
	time.Sleep(30 * time.Millisecond)
	pc2, err := net.ListenUDP("udp", addr)
	if err != nil {
		return nil
	}
	defer pc2.Close()
	if time.Since(t0) > 700*time.Millisecond {
		return nil // too slow to be ahead of the first tick: no verdict
	}
	// the application is quiet until after the first tick (t0 + 1 s)
	var tpl int
	buf := make([]byte, 65536)
	pc2.SetReadDeadline(t0.Add(1600 * time.Millisecond))
	for {
		n, _, err := pc2.ReadFromUDP(buf)
		if err != nil {
			break
		}
		if _, sets, perr := ref.ParseMessage(buf[:n]); perr == nil && len(sets) == 1 && sets[0].ID == 2 {
			tpl++
		}
	}
	ds2, _ := exph.DataSet(256, templates[0], dataRecs(0, 1, 2), 0)
	_, serr := ep.SendSet(ds2)
	if tpl == 0 && serr == nil {
		// one more tick could still come: only the first interval after the restart is judged, and it is over
		return ev.Failf("udp collector back on its port after an outage during which one message was sent into the void: the refresh tick at 1 s retransmitted no template to it (0 template messages in 1.6 s) and the exporter did not give up the connection either (the next SendSet succeeded): a refresh interval passed without retransmission")
	}
	return nil
}

// runCumulativeTemplates: an application that keeps one template set and appends to it: it sends
// {T0}, then {T0, T1}, then {T0, T1, T2} (N odd: the new template first). Every template of every
// set was sent: data for each of them is accepted, and a refresh round retransmits each of them.
// runTemplateAfterTick: applications register templates as they meet new kinds of flows, also
// long after the exporter was started, between two refresh rounds of the real ticker.
func runTemplateAfterTick(c Extra) *ev.Failure {
	peer, err := exph.NewPeer("udp", false)
	if err != nil {
		return nil
	}
	defer peer.Close()
	ep, err := exporter.InitExportingProcess(exporter.ExporterInput{CollectorAddress: peer.Addr, CollectorProtocol: "udp", ObservationDomainID: 24, TempRefTimeout: 1})
	if err != nil {
		return ev.Failf("InitExportingProcess: %v", err)
	}
	defer ep.CloseConnToCollector()
	n := 2 + c.N%2
	for t := 0; t < n; t++ {
		ts, _ := exph.TemplateSet(uint16(256+t), templates[t%len(templates)], t)
		if _, err := ep.SendSet(ts); err != nil {
			return ev.Failf("template %d, sent %d refresh intervals after the exporter was started: %v", 256+t, t, err)
		}
		ds, _ := exph.DataSet(uint16(256+t), templates[t%len(templates)], dataRecs(t, 1, t), 0)
		if _, err := ep.SendSet(ds); err != nil {
			return ev.Failf("data for template %d: %v", 256+t, err)
		}
		time.Sleep(1250 * time.Millisecond) // a tick of the real ticker passes
	}
	ep.CloseConnToCollector()
	time.Sleep(20 * time.Millisecond)
	all, _ := peer.WaitDatagrams(0, 0)
	seen := map[uint16]int{}
	for k, d := range all {
		_, sets, err := ref.ParseMessage(d)
		if err != nil || len(sets) != 1 {
			return ev.Failf("datagram %d of the session is not a well-formed message with one set: %v", k, err)
		}
		if sets[0].ID != 2 {
			continue
		}
		for body := sets[0].Body; len(body) >= 4; {
			t, m, err := ref.ParseTemplateRecord(body)
			if err != nil {
				return ev.Failf("datagram %d: malformed template record: %v", k, err)
			}
			seen[t.ID]++
			body = body[m:]
		}
	}
	if len(all) < 2*n {
		return nil // datagram loss: no verdict
	}
	for t := 0; t < n; t++ {
		if seen[uint16(256+t)] < 2 && len(all) >= 2*n+n {
			return ev.Failf("template %d was sent %d refresh intervals after the exporter was started and at least one interval (1 s) before the exporter was closed; it is on the wire %d time(s): it was never retransmitted (all templates seen: %v)", 256+t, t, seen[uint16(256+t)], seen)
		}
	}
	return nil
}

func runCumulativeTemplates(c Extra) *ev.Failure {
	peer, err := exph.NewPeer("udp", false)
	if err != nil {
		return nil
	}
	defer peer.Close()
	ep, err := exporter.InitExportingProcess(exporter.ExporterInput{CollectorAddress: peer.Addr, CollectorProtocol: "udp", ObservationDomainID: 23, TempRefTimeout: 3600})
	if err != nil {
		return ev.Failf("InitExportingProcess: %v", err)
	}
	defer ep.CloseConnToCollector()
	sent := 0
	for upTo := 0; upTo < 3; upTo++ {
		set := entities.NewSet(false)
		if err := set.PrepareSet(entities.Template, 256); err != nil {
			return ev.Failf("PrepareSet: %v", err)
		}
		order := []int{}
		for t := 0; t <= upTo; t++ {
			order = append(order, t)
		}
		if c.N%2 == 1 { // the newest template first
			order = append([]int{upTo}, order[:upTo]...)
		}
		for _, t := range order {
			els := make([]entities.InfoElementWithValue, len(templates[t]))
			for i, f := range templates[t] {
				els[i] = glue.Element(glue.IE(f), f.Type, ref.Value{})
				els[i].ResetValue()
			}
			if err := set.AddRecord(els, uint16(256+t)); err != nil {
				return ev.Failf("adding template %d to the set: %v", 256+t, err)
			}
		}
		if _, err := ep.SendSet(set); err != nil {
			return ev.Failf("SendSet of a template set holding %d template records: %v", upTo+1, err)
		}
		sent++
	}
	for t := 0; t < 3; t++ {
		ds, err := exph.DataSet(uint16(256+t), templates[t], dataRecs(t, 1, t), 0)
		if err != nil {
			return ev.Failf("data set: %v", err)
		}
		if _, err := ep.SendSet(ds); err != nil {
			return ev.Failf("data for template %d, which was sent as record %d of a template set, is refused: %v", 256+t, t+1, err)
		}
		sent++
	}
	peer.WaitDatagrams(sent, 5*time.Second)
	before, _ := peer.WaitDatagrams(sent, time.Second)
	if len(before) != sent {
		return nil // datagram loss
	}
	if err := ep.VerifSendRefreshedTemplates(); err != nil {
		return ev.Failf("refresh round: %v", err)
	}
	time.Sleep(50 * time.Millisecond)
	all, _ := peer.WaitDatagrams(sent+1, time.Second)
	refreshed := map[uint16]int{}
	for _, d := range all[sent:] {
		_, sets, err := ref.ParseMessage(d)
		if err != nil || len(sets) != 1 || sets[0].ID != 2 {
			return ev.Failf("a refresh round wrote something that is not a template message")
		}
		for body := sets[0].Body; len(body) >= 4; {
			t, n, err := ref.ParseTemplateRecord(body)
			if err != nil {
				return ev.Failf("refresh round: malformed template record: %v", err)
			}
			refreshed[t.ID]++
			body = body[n:]
		}
	}
	for t := 0; t < 3; t++ {
		if refreshed[uint16(256+t)] == 0 {
			// loss of exactly that datagram is possible but then the others are there: confirm once
			return ev.Failf("template %d was sent (as one of several records of a template set); a refresh round retransmitted %v and not it", 256+t, refreshed)
		}
	}
	return nil
}

func extraCases(thorough bool) []Extra {
	out := []Extra{{Kind: "refresh_after_outage"}, {Kind: "cumulative_template_set"}, {Kind: "cumulative_template_set", N: 1}, {Kind: "template_after_tick"}, {Kind: "json_refresh"}, {Kind: "json_refresh", N: 1}, {Kind: "json_refresh", Ticker: true}, {Kind: "dtls_ticker"}, {Kind: "refresh_unbuildable"}, {Kind: "refresh_unbuildable", N: 1}}
	n := 4
	if thorough {
		n = 20
		if ev.Shard() <= 1 {
			out = append(out, Extra{Kind: "default_refresh_interval"})
		}
	}
	for k := 0; k < n; k++ {
		out = append(out, Extra{Kind: "tls_idleclose", N: k})
		out = append(out, Extra{Kind: "tls_abrupt_close", N: k})
		out = append(out, Extra{Kind: "close_overlap_slow_close", N: k})
	}
	return out
}

var _ = fmt.Sprintf
