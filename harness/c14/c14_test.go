//go:build verif

// C14 — exporter background activity and lifecycle never corrupt the stream.
// Built with -race: a data race reported during a case fails that case's subtest, which is how
// the race detector's verdict becomes part of the oracle.
package c14

import (
	"bytes"
	"fmt"
	"os"
	"runtime"
	"strings"
	"sync"
	"sync/atomic"
	"testing"
	"time"

	"pgregory.net/rapid"

	"github.com/vmware/go-ipfix/pkg/entities"
	"github.com/vmware/go-ipfix/pkg/exporter"

	"verifharness/ev"
	"verifharness/exph"
	"verifharness/glue"
	ref "verifharness/refipfix"
)

// Step of the application goroutine: a template send (Tpl >= 0 names the template) or a data
// send (NRecs records of template Of), preceded by a pause.
type Step struct {
	Tpl     int `json:"tpl"` // -1: data
	Of      int `json:"of,omitempty"`
	NRecs   int `json:"nrecs,omitempty"`
	PauseUs int `json:"pause_us,omitempty"`
}

// Case kinds:
//
//	refresh  udp: application steps while a second goroutine runs refresh rounds at RoundPausesUs
//	ticker   udp: the real refresh ticker at the minimum interval (1 s) runs for ~2.3 s of sends
//	peerclose tcp: the collector side closes after CloseAfterUs; CheckIntervalMs is the check interval
//	idleclose tcp: the application is idle while the collector side closes CloseAfterUs after the
//	          exporter was created; after 20 check intervals (+0.2 s) a single send must fail, not vanish
//	close    tcp or udp: Closers goroutines call CloseConnToCollector after ClosePausesUs while the application sends
type Case struct {
	Kind            string `json:"kind"`
	Proto           string `json:"proto"`
	Steps           []Step `json:"steps,omitempty"`
	RoundPausesUs   []int  `json:"round_pauses_us,omitempty"`
	CloseAfterUs    int    `json:"close_after_us,omitempty"`
	CheckIntervalMs int    `json:"check_interval_ms,omitempty"`
	ClosePausesUs   []int  `json:"close_pauses_us,omitempty"`
	Procs           int    `json:"gomaxprocs,omitempty"`
	// PeerWrites (idleclose): the collector side writes this many bytes to the exporter before it
	// closes the connection
	PeerWrites int `json:"peer_writes,omitempty"`
}

var rec *ev.Recorder

var templates [][]ref.Field

func TestMain(m *testing.M) {
	glue.SilenceKlog()
	glue.UserFields()
	templates = [][]ref.Field{
		{glue.UserField(ref.TU32), glue.UserField(ref.TString)},
		{glue.UserField(ref.TIPv4), glue.UserField(ref.TU16)},
		{glue.UserField(ref.TU64)},
		{glue.UserField(ref.TMac), glue.UserField(ref.TOctets), glue.UserField(ref.TU8)},
	}
	if rp := ev.LoadReplay(); rp != nil {
		if rp.Phase == "extra" {
			ev.RunReplay(rp, runExtra)
		}
		ev.RunReplay(rp, func(c Case) *ev.Failure { f, _ := runCase(c); return f })
	}
	rec = ev.New("C14", "generated timings, under the race detector: (refresh) a udp application goroutine sending templates and data with generated pauses while a second goroutine runs template-refresh rounds (the ticker's body, through the verif hook) at generated moments; (ticker) the real refresh ticker at its minimum interval of 1 s during ~2.3 s of sends; (peerclose) a tcp collector-side close at a generated moment with a check interval of a few ms; (close) 1..8 goroutines calling CloseConnToCollector at generated moments while the application sends, repeated; GOMAXPROCS drawn from {2,4,16}; non-trivial = a refresh round / tick, a peer close or a Close overlapped in time with application sends; distinct by hash of the case",
		"Go race detector (dynamic: executed paths only)", "schedules are sampled, not enumerated", "verif hook VerifSendRefreshedTemplates is the body of the refresh tick", "reference codec refipfix")
	code := m.Run()
	rec.Write()
	os.Exit(code)
}

var clock atomic.Int64 // logical clock ordering events of different goroutines consistently with real time

func tick() int64 { return clock.Add(1) }

func dataRecs(t, n, salt int) [][]ref.Value {
	out := make([][]ref.Value, n)
	for k := range out {
		for _, f := range templates[t] {
			switch {
			case f.Type == ref.TString || f.Type == ref.TOctets:
				out[k] = append(out[k], ref.Value{B: []byte(fmt.Sprintf("r%d-%d", salt, k))})
			case f.Type.IsBytes():
				out[k] = append(out[k], ref.Value{B: make([]byte, f.Type.Width())})
			default:
				out[k] = append(out[k], ref.Value{U: uint64(salt*1000 + k)})
			}
		}
	}
	return out
}

func sleepUs(us int) {
	if us <= 0 {
		return
	}
	if us < 50 {
		runtime.Gosched()
		return
	}
	time.Sleep(time.Duration(us) * time.Microsecond)
}

func exporterGoroutines() string {
	buf := make([]byte, 1<<20)
	n := runtime.Stack(buf, true)
	for _, g := range strings.Split(string(buf[:n]), "\n\n") {
		if strings.Contains(g, "go-ipfix/pkg/exporter.") && !strings.Contains(g, "verifharness/c14.exporterGoroutines") {
			return g
		}
	}
	return ""
}

// runCase returns (failure, overlapped): overlapped reports that background activity really
// overlapped application sends.
func runCase(c Case) (*ev.Failure, bool) {
	if c.Procs > 0 {
		defer runtime.GOMAXPROCS(runtime.GOMAXPROCS(c.Procs))
	}
	switch c.Kind {
	case "refresh", "ticker":
		return runRefresh(c)
	case "peerclose":
		return runPeerClose(c)
	case "idleclose":
		return runIdleClose(c)
	case "latenotice":
		return runLateNotice(c)
	}
	return runClose(c)
}

type appMsg struct {
	at         time.Duration // when the send returned, relative to the exporter's creation
	want       []byte
	tplID      uint16 // template id if this is a template message
	isTpl      bool
	nrecs      int
	start, end int64
}

func runRefresh(c Case) (*ev.Failure, bool) {
	peer, err := exph.NewPeer("udp", false)
	if err != nil {
		return nil, false
	}
	defer peer.Close()
	in := exporter.ExporterInput{CollectorAddress: peer.Addr, CollectorProtocol: "udp", ObservationDomainID: 11, TempRefTimeout: 3600}
	if c.Kind == "ticker" {
		in.TempRefTimeout = 1
		// an application that fills one configuration for any transport: the connection-check
		// interval means nothing over udp
		in.CheckConnInterval = time.Duration(c.CheckIntervalMs) * time.Millisecond
	}
	ep, err := exporter.InitExportingProcess(in)
	if err != nil {
		return ev.Failf("InitExportingProcess: %v", err), false
	}
	defer ep.CloseConnToCollector()
	h := ref.Header{Domain: 11}
	var app []appMsg
	var appErr *ev.Failure
	sentTpl := map[int]bool{}
	type round struct{ start, end int64 }
	var rounds []round
	var rerr error
	var wg sync.WaitGroup
	wg.Add(1)
	t0 := time.Now()
	go func() { // the application: one goroutine, as the property assumes
		defer wg.Done()
		deadline := time.Now().Add(2300 * time.Millisecond)
		if c.CloseAfterUs > 0 {
			deadline = time.Now().Add(2900 * time.Millisecond)
		}
		for i := 0; ; i++ {
			var s Step
			if c.Kind == "ticker" {
				if time.Now().After(deadline) {
					return
				}
				s = Step{Tpl: -1, Of: i % len(templates), NRecs: 1 + i%5, PauseUs: 2000}
				if c.CloseAfterUs == 0 && i < len(templates) {
					s = Step{Tpl: i} // all templates right after the start
				}
				if c.CloseAfterUs > 0 { // staggered: template k is first sent k*CloseAfterUs after the start
					for k := range templates {
						if !sentTpl[k] && time.Since(t0) >= time.Duration(k*c.CloseAfterUs)*time.Microsecond {
							s = Step{Tpl: k}
							break
						}
					}
				}
			} else {
				if i >= len(c.Steps) {
					return
				}
				s = c.Steps[i]
			}
			sleepUs(s.PauseUs)
			var set entities.Set
			var err error
			var m appMsg
			if s.Tpl >= 0 {
				t := s.Tpl % len(templates)
				if sentTpl[t] {
					continue // each template is sent once by the application (RFC 7011 8: no redefinition)
				}
				sentTpl[t] = true
				id := uint16(256 + t)
				set, err = exph.TemplateSet(id, templates[t], i%4)
				m = appMsg{want: ref.TemplateMessage(h, ref.Template{ID: id, Fields: templates[t]}), isTpl: true, tplID: id}
			} else {
				t := s.Of % len(templates)
				if !sentTpl[t] {
					continue
				}
				recs := dataRecs(t, max(1, s.NRecs), i)
				set, err = exph.DataSet(uint16(256+t), templates[t], recs, i%3)
				m = appMsg{want: ref.DataMessage(h, ref.Template{ID: uint16(256 + t), Fields: templates[t]}, recs), nrecs: len(recs)}
			}
			if err != nil {
				appErr = ev.Failf("building set: %v", err)
				return
			}
			m.start = tick()
			_, err = ep.SendSet(set)
			m.end = tick()
			m.at = time.Since(t0)
			if err != nil {
				appErr = ev.Failf("application SendSet %d failed while the refresh activity ran: %v", i, err)
				return
			}
			app = append(app, m)
		}
	}()
	if c.Kind == "refresh" {
		wg.Add(1)
		go func() {
			defer wg.Done()
			for _, p := range c.RoundPausesUs {
				sleepUs(p)
				r := round{start: tick()}
				if err := ep.VerifSendRefreshedTemplates(); err != nil {
					rerr = err
					return
				}
				r.end = tick()
				rounds = append(rounds, r)
			}
		}()
	}
	wg.Wait()
	if appErr != nil {
		return appErr, false
	}
	if rerr != nil {
		return ev.Failf("refresh round failed: %v", rerr), false
	}
	// a final marker from the application: once it arrived everything before it did
	mk := []ref.Field{glue.UserField(ref.TI32)}
	ts, _ := exph.TemplateSet(999, mk, 0)
	if _, err := ep.SendSet(ts); err != nil {
		return ev.Failf("marker template: %v", err), false
	}
	app = append(app, appMsg{want: ref.TemplateMessage(h, ref.Template{ID: 999, Fields: mk}), isTpl: true, tplID: 999, start: tick(), end: tick()})
	ds, _ := exph.DataSet(999, mk, [][]ref.Value{{{U: 0x7FFFFFFF}}}, 0)
	if _, err := ep.SendSet(ds); err != nil {
		return ev.Failf("marker data: %v", err), false
	}
	markerBytes := ref.DataMessage(h, ref.Template{ID: 999, Fields: mk}, [][]ref.Value{{{U: 0x7FFFFFFF}}})
	app = append(app, appMsg{want: markerBytes, nrecs: 1})
	arrived := func() bool {
		msgs, _ := peer.Messages()
		return len(msgs) > 0 && exph.SameExceptTimeSeq(msgs[len(msgs)-1], markerBytes)
	}
	for end := time.Now().Add(10 * time.Second); !arrived(); time.Sleep(time.Millisecond) {
		if time.Now().After(end) {
			return nil, false // datagram loss: inconclusive
		}
	}
	got, _ := peer.Messages()
	// every datagram is a well-formed message; application messages appear in order; the others are
	// template messages for templates the application had already sent
	ptr := 0
	seq := uint32(0)
	refreshCount := map[uint16]int{}
	tplSentAt := map[uint16]appMsg{}
	overlapped := false
	for k, g := range got {
		hd, sets, err := ref.ParseMessage(g)
		if err != nil || len(sets) != 1 {
			return ev.Failf("datagram %d is not a well-formed message: %v (% x ...)", k, err, g[:min(len(g), 32)]), overlapped
		}
		if hd.Domain != 11 {
			return ev.Failf("datagram %d carries observation domain %d", k, hd.Domain), overlapped
		}
		if ptr < len(app) && exph.SameExceptTimeSeq(g, app[ptr].want) {
			m := app[ptr]
			ptr++
			seq += uint32(m.nrecs)
			if !m.isTpl && hd.Seq != seq {
				return ev.Failf("application data message %d carries sequence number %d, %d data records were sent so far", ptr-1, hd.Seq, seq), overlapped
			}
			if m.isTpl {
				tplSentAt[m.tplID] = m
			}
			continue
		}
		if sets[0].ID != 2 {
			return ev.Failf("datagram %d (data set %d, %d bytes) is neither the application's next message nor a template retransmission: the application's stream was corrupted or reordered", k, sets[0].ID, len(g)), overlapped
		}
		t, _, err := ref.ParseTemplateRecord(sets[0].Body)
		if err != nil {
			return ev.Failf("datagram %d: malformed template record: %v", k, err), overlapped
		}
		m, ok := tplSentAt[t.ID]
		if !ok {
			return ev.Failf("datagram %d retransmits template %d which the application had not sent before it", k, t.ID), overlapped
		}
		if !exph.SameExceptTimeSeq(g, m.want) {
			return ev.Failf("datagram %d: retransmitted template %d differs from the template that was sent", k, t.ID), overlapped
		}
		// a retransmitted template is a message of this exporting process like any other: its sequence
		// number is the number of data records in the data messages that are on the wire before it
		if hd.Seq != seq {
			return ev.Failf("datagram %d (template %d retransmitted by the refresh activity) carries sequence number %d; the data messages on the wire before it hold %d records: numbering and writing are not one step", k, t.ID, hd.Seq, seq), overlapped
		}
		refreshCount[t.ID]++
	}
	if ptr != len(app) {
		return ev.Failf("%d of the application's %d messages arrived, in order", ptr, len(app)), overlapped
	}
	if c.Kind == "refresh" {
		for id, m := range tplSentAt {
			if id == 999 {
				continue
			}
			lo, hi := 0, 0
			for _, r := range rounds {
				if r.start > m.end {
					lo++
				}
				if r.end > m.start {
					hi++
				}
				if r.start < m.end && r.end > m.start {
					overlapped = true
				}
			}
			if n := refreshCount[id]; n < lo || n > hi {
				return ev.Failf("template %d was retransmitted %d times; %d refresh rounds started after it had been sent and %d ended after its send began", id, n, lo, hi), overlapped
			}
		}
		for _, r := range rounds {
			for _, m := range app {
				if r.start < m.end && r.end > m.start {
					overlapped = true
				}
			}
		}
	} else {
		// the ticker fires 1 s, 2 s, ... after the exporter was created: a template whose first send had
		// returned 150 ms before a tick (that lies 150 ms before the end of the run) is in that round
		total := time.Since(t0)
		for id, m := range tplSentAt {
			if id == 999 {
				continue
			}
			due := 0
			for j := 1; time.Duration(j)*time.Second < total-600*time.Millisecond; j++ {
				if m.at < time.Duration(j)*time.Second-150*time.Millisecond {
					due++
				}
			}
			if refreshCount[id] < due {
				return ev.Failf("template %d (first sent %v after the start) was retransmitted %d times in %v; %d refresh ticks (every 1 s) were due for it", id, m.at.Round(time.Millisecond), refreshCount[id], total.Round(time.Millisecond), due), overlapped
			}
		}
		overlapped = true
	}
	return nil, overlapped
}

func runPeerClose(c Case) (*ev.Failure, bool) {
	peer, err := exph.NewPeer("tcp", false)
	if err != nil {
		return nil, false
	}
	defer peer.Close()
	interval := time.Duration(max(1, c.CheckIntervalMs)) * time.Millisecond
	ep, err := exporter.InitExportingProcess(exporter.ExporterInput{CollectorAddress: peer.Addr, CollectorProtocol: "tcp", ObservationDomainID: 12, CheckConnInterval: interval})
	if err != nil {
		return ev.Failf("InitExportingProcess: %v", err), false
	}
	defer ep.CloseConnToCollector()
	ts, _ := exph.TemplateSet(256, templates[0], 0)
	if _, err := ep.SendSet(ts); err != nil {
		return ev.Failf("template: %v", err), false
	}
	closedAt := make(chan time.Time, 1)
	go func() {
		sleepUs(c.CloseAfterUs)
		peer.CloseConn()
		closedAt <- time.Now()
	}()
	limit := interval*20 + 2*time.Second
	var failedAt time.Time
	sends, okAfterClose := 0, 0
	var tClosed time.Time
	for start := time.Now(); ; {
		ds, _ := exph.DataSet(256, templates[0], dataRecs(0, 1, sends), sends%3)
		_, err := ep.SendSet(ds)
		sends++
		select {
		case tClosed = <-closedAt:
		default:
		}
		if err != nil {
			failedAt = time.Now()
			break
		}
		if !tClosed.IsZero() {
			okAfterClose++
			if time.Since(tClosed) > limit {
				return ev.Failf("the collector closed the connection %v ago and SendSet still reports success (%d sends after the close; check interval %v)", time.Since(tClosed).Round(time.Millisecond), okAfterClose, interval), true
			}
		}
		if time.Since(start) > limit+10*time.Second {
			return nil, false
		}
		time.Sleep(200 * time.Microsecond)
	}
	_ = failedAt
	for k := 0; k < 5; k++ { // once a send failed every later one fails
		ds, _ := exph.DataSet(256, templates[0], dataRecs(0, 1, 1000+k), 0)
		if _, err := ep.SendSet(ds); err == nil {
			return ev.Failf("SendSet succeeded after an earlier SendSet had failed because the collector closed the connection"), true
		}
		time.Sleep(time.Duration(k) * time.Millisecond)
	}
	return nil, true
}

// runIdleClose: nothing is sent while the collector side closes; only the exporter's connection
// check can notice. A send made well after the check interval must then fail instead of being
// written into a connection nobody reads.
func runIdleClose(c Case) (*ev.Failure, bool) {
	peer, err := exph.NewPeer("tcp", false)
	if err != nil {
		return nil, false
	}
	defer peer.Close()
	interval := time.Duration(max(1, c.CheckIntervalMs)) * time.Millisecond
	ep, err := exporter.InitExportingProcess(exporter.ExporterInput{CollectorAddress: peer.Addr, CollectorProtocol: "tcp", ObservationDomainID: 14, CheckConnInterval: interval})
	if err != nil {
		return ev.Failf("InitExportingProcess: %v", err), false
	}
	defer ep.CloseConnToCollector()
	ts, _ := exph.TemplateSet(256, templates[0], 0)
	if _, err := ep.SendSet(ts); err != nil {
		return ev.Failf("template: %v", err), false
	}
	sleepUs(c.CloseAfterUs)
	if c.PeerWrites > 0 {
		peer.WriteThenCloseConn(bytes.Repeat([]byte("x"), c.PeerWrites))
	} else {
		peer.CloseConn()
	}
	time.Sleep(20*interval + 200*time.Millisecond)
	ds, _ := exph.DataSet(256, templates[0], dataRecs(0, 1, 1), 0)
	if _, err := ep.SendSet(ds); err == nil {
		return ev.Failf("the collector wrote %d bytes and closed the connection %v ago (check interval %v, the application was idle meanwhile) and SendSet still reports success: the message vanishes", c.PeerWrites, 20*interval+200*time.Millisecond, interval), true
	}
	return nil, true
}

// runLateNotice: "noticed within the check interval". With an interval of 300 ms the application
// sends right after a tick, the peer closes right after that send, the application stays idle and
// sends again 1.6 intervals after the close: by then one full interval (+120 ms of slack) has passed,
// so the close must have been noticed and the send must fail.
func runLateNotice(c Case) (*ev.Failure, bool) {
	peer, err := exph.NewPeer("tcp", false)
	if err != nil {
		return nil, false
	}
	defer peer.Close()
	const interval = 300 * time.Millisecond
	t0 := time.Now()
	ep, err := exporter.InitExportingProcess(exporter.ExporterInput{CollectorAddress: peer.Addr, CollectorProtocol: "tcp", ObservationDomainID: 15, CheckConnInterval: interval})
	if err != nil {
		return ev.Failf("InitExportingProcess: %v", err), false
	}
	defer ep.CloseConnToCollector()
	ts, _ := exph.TemplateSet(256, templates[0], 0)
	if _, err := ep.SendSet(ts); err != nil {
		return ev.Failf("template: %v", err), false
	}
	// just after tick k (k = 1 or 2): a data send, then the peer closes
	k := 1 + c.CheckIntervalMs%2
	time.Sleep(time.Until(t0.Add(time.Duration(k)*interval + interval/10)))
	ds, _ := exph.DataSet(256, templates[0], dataRecs(0, 1, 1), 0)
	if _, err := ep.SendSet(ds); err != nil {
		return nil, false
	}
	late := time.Since(t0) - (time.Duration(k)*interval + interval/10)
	peer.CloseConn()
	closed := time.Now()
	time.Sleep(time.Until(closed.Add(interval * 16 / 10)))
	if late > 40*time.Millisecond || time.Since(closed) > interval*19/10 {
		return nil, false // the machine was too slow to keep the schedule: inconclusive
	}
	ds2, _ := exph.DataSet(256, templates[0], dataRecs(0, 1, 2), 0)
	if _, err := ep.SendSet(ds2); err == nil {
		return ev.Failf("the collector closed the connection %v ago (check interval %v, last send just before the close) and SendSet still reports success: the close was not noticed within the check interval and the message vanishes", time.Since(closed).Round(time.Millisecond), interval), true
	}
	return nil, true
}

func runClose(c Case) (*ev.Failure, bool) {
	// repeated: the window for two Close calls to collide is narrow
	over := false
	for rep := 0; rep < 6; rep++ {
		f, o := runCloseOnce(c)
		over = over || o
		if f != nil {
			return f, over
		}
	}
	return nil, over
}

func runCloseOnce(c Case) (*ev.Failure, bool) {
	peer, err := exph.NewPeer(c.Proto, false)
	if err != nil {
		return nil, false
	}
	defer peer.Close()
	ep, err := exporter.InitExportingProcess(exporter.ExporterInput{CollectorAddress: peer.Addr, CollectorProtocol: c.Proto, ObservationDomainID: 13, TempRefTimeout: 1, CheckConnInterval: 2 * time.Millisecond})
	if err != nil {
		return ev.Failf("InitExportingProcess: %v", err), false
	}
	ts, _ := exph.TemplateSet(256, templates[0], 0)
	if _, err := ep.SendSet(ts); err != nil {
		return ev.Failf("template: %v", err), false
	}
	stop := make(chan struct{})
	var appWG, closeWG sync.WaitGroup
	var lastOK, firstFail atomic.Int64
	appWG.Add(1)
	go func() {
		defer appWG.Done()
		for i := 0; ; i++ {
			select {
			case <-stop:
				return
			default:
			}
			ds, _ := exph.DataSet(256, templates[0], dataRecs(0, 1, i), i%3)
			if _, err := ep.SendSet(ds); err == nil {
				lastOK.Store(tick())
			} else if firstFail.Load() == 0 {
				firstFail.Store(tick())
			}
			runtime.Gosched()
		}
	}()
	var closeDone atomic.Int64
	returned := make(chan struct{})
	barrier := make(chan struct{})
	var ready sync.WaitGroup
	for _, p := range c.ClosePausesUs {
		closeWG.Add(1)
		if p == 0 {
			ready.Add(1)
		}
		go func(p int) {
			defer closeWG.Done()
			if p == 0 { // the zero-pause closers start together, to contend on the first close
				ready.Done()
				<-barrier
			} else {
				sleepUs(p)
			}
			ep.CloseConnToCollector()
			closeDone.CompareAndSwap(0, tick())
		}(p)
	}
	ready.Wait()
	close(barrier)
	go func() { closeWG.Wait(); close(returned) }()
	select {
	case <-returned:
	case <-time.After(30 * time.Second):
		return ev.Failf("%d concurrent CloseConnToCollector calls had not all returned after 30 s (normal: microseconds)", len(c.ClosePausesUs)), true
	}
	firstClose := closeDone.Load()
	time.Sleep(2 * time.Millisecond)
	close(stop)
	appWG.Wait()
	// after Close returned: sends fail, nothing more is written, Close again returns, no goroutine remains
	msgsBefore, restBefore := peer.Messages()
	for k := 0; k < 3; k++ {
		ds, _ := exph.DataSet(256, templates[0], dataRecs(0, 1, 5000+k), 0)
		if _, err := ep.SendSet(ds); err == nil {
			return ev.Failf("SendSet succeeded after CloseConnToCollector had returned"), true
		}
	}
	again := make(chan struct{})
	go func() { ep.CloseConnToCollector(); ep.CloseConnToCollector(); close(again) }()
	select {
	case <-again:
	case <-time.After(30 * time.Second):
		return ev.Failf("a further CloseConnToCollector call did not return"), true
	}
	time.Sleep(8 * time.Millisecond)
	msgsAfter, restAfter := peer.Messages()
	_ = firstClose
	// anything the application got out before the close may still be in flight for a moment; but a
	// message carrying a record salt >= 5000 (sent after Close) must never show up
	for _, g := range msgsAfter {
		if _, sets, err := ref.ParseMessage(g); err == nil && len(sets) == 1 && sets[0].ID == 256 {
			r := ref.ParseDataSet(templates[0], sets[0].Body)
			for _, recd := range r.Records {
				if v := ref.DecodeValue(ref.TU32, recd[0]); v.U >= 5000*1000 {
					return ev.Failf("a message sent after CloseConnToCollector returned was written to the connection"), true
				}
			}
		} else if err != nil {
			return ev.Failf("a malformed message is on the wire after the close race: %v", err), true
		}
	}
	if c.Proto == "tcp" && len(restAfter) != 0 && len(restAfter) == len(restBefore) && len(msgsAfter) == len(msgsBefore) {
		// a partial message at the end of the stream: the close cut a write short; allowed (the stream ended)
	}
	var g string
	for end := time.Now().Add(5 * time.Second); time.Now().Before(end); time.Sleep(2 * time.Millisecond) {
		if g = exporterGoroutines(); g == "" {
			break
		}
	}
	if g != "" {
		return ev.Failf("a goroutine of the exporting process is still running after CloseConnToCollector returned:\n%s", firstLines(g, 12)), true
	}
	return nil, lastOK.Load() > 0
}

func firstLines(s string, n int) string {
	l := strings.SplitN(s, "\n", n+1)
	if len(l) > n {
		l = l[:n]
	}
	return strings.Join(l, "\n")
}

func genCase(t *rapid.T) Case {
	c := Case{Procs: rapid.SampledFrom([]int{2, 4, 16}).Draw(t, "procs")}
	switch rapid.IntRange(0, 11).Draw(t, "kind") {
	case 0, 1, 2, 3, 4, 5:
		c.Kind, c.Proto = "refresh", "udp"
		for n := rapid.IntRange(3, 40).Draw(t, "nsteps"); n > 0; n-- {
			s := Step{Tpl: -1, Of: rapid.IntRange(0, 3).Draw(t, "of"), NRecs: rapid.IntRange(1, 8).Draw(t, "nrecs"), PauseUs: rapid.SampledFrom([]int{0, 0, 0, 10, 100, 400}).Draw(t, "pause")}
			if rapid.IntRange(0, 3).Draw(t, "tpl") == 0 || len(c.Steps) == 0 {
				s = Step{Tpl: rapid.IntRange(0, 3).Draw(t, "which"), PauseUs: s.PauseUs}
			}
			c.Steps = append(c.Steps, s)
		}
		for n := rapid.IntRange(1, 12).Draw(t, "nrounds"); n > 0; n-- {
			c.RoundPausesUs = append(c.RoundPausesUs, rapid.SampledFrom([]int{0, 0, 10, 60, 200, 500}).Draw(t, "rpause"))
		}
	case 10:
		c.Kind, c.Proto = "idleclose", "tcp"
		c.CheckIntervalMs = rapid.SampledFrom([]int{1, 2, 5}).Draw(t, "interval")
		c.PeerWrites = rapid.SampledFrom([]int{0, 0, 1, 41, 200, 5000}).Draw(t, "peer_writes")
		// before the first check, between checks, well after several checks
		c.CloseAfterUs = c.CheckIntervalMs * rapid.SampledFrom([]int{0, 500, 1500, 3500, 10000}).Draw(t, "closeafter_permille")
	case 6, 7:
		c.Kind, c.Proto = "peerclose", "tcp"
		c.CloseAfterUs = rapid.SampledFrom([]int{0, 100, 1000, 5000, 20000}).Draw(t, "closeafter")
		c.CheckIntervalMs = rapid.SampledFrom([]int{1, 2, 5, 10}).Draw(t, "interval")
	default:
		c.Kind, c.Proto = "close", rapid.SampledFrom([]string{"tcp", "udp"}).Draw(t, "proto")
		for n := rapid.IntRange(1, 8).Draw(t, "nclosers"); n > 0; n-- {
			c.ClosePausesUs = append(c.ClosePausesUs, rapid.SampledFrom([]int{0, 0, 0, 0, 50, 300, 1000}).Draw(t, "cpause"))
		}
	}
	return c
}

func TestC14(t *testing.T) {
	n := rec.Scale(400, 30000)
	g := rapid.Custom(genCase)
	var cases []Case
	for i := 0; i < n; i++ {
		cases = append(cases, g.Example(int(ev.Seed())*1000003+i))
	}
	// a few cases with the real ticker, run side by side (each takes ~2.5 s)
	nt := 3
	if rec.Thorough() {
		nt = 12
	}
	var tw sync.WaitGroup
	tickerFails := make([]*ev.Failure, nt)
	for i := 0; i < nt; i++ {
		tw.Add(1)
		go func(i int) {
			defer tw.Done()
			c := Case{Kind: "ticker", Proto: "udp"}
			if i%3 == 1 {
				c.CloseAfterUs = 600000 // staggered: a new template every 0.6 s
			}
			if i%3 == 2 {
				c.CloseAfterUs = 450000
			}
			c.CheckIntervalMs = []int{0, 60000, 0, 3600000}[i%4]
			tickerFails[i], _ = runRefresh(c)
		}(i)
	}
	// scenarios in the exporter's less common configurations (JSON output, TLS, DTLS, a template the
	// library cannot rebuild) run beside the ticker cases: they mostly wait
	extras := extraCases(rec.Thorough())
	extraFails := make([]*ev.Failure, len(extras))
	for i := range extras {
		tw.Add(1)
		go func(i int) {
			defer tw.Done()
			extraFails[i] = runExtra(extras[i])
		}(i)
	}
	lateFails := make([]*ev.Failure, nt)
	lateJudged := 0
	tickOK := t.Run("ticker", func(t *testing.T) {
		tw.Wait()
		// the timing-sensitive cases run on a quiet machine, side by side with each other only
		var lw sync.WaitGroup
		var lm sync.Mutex
		for i := 0; i < nt; i++ {
			lw.Add(1)
			go func(i int) {
				defer lw.Done()
				f, judged := runLateNotice(Case{Kind: "latenotice", Proto: "tcp", CheckIntervalMs: i})
				// a real defect shows every time, a scheduling hiccup of the loaded machine does not: the
				// scenario must fail three times in a row to count
				for r := 0; r < 2 && f != nil; r++ {
					f, judged = runLateNotice(Case{Kind: "latenotice", Proto: "tcp", CheckIntervalMs: i})
				}
				lm.Lock()
				lateFails[i] = f
				if judged {
					lateJudged++
				}
				lm.Unlock()
			}(i)
		}
		lw.Wait()
	})
	rec.Class("latenotice_judged", int64(lateJudged))
	for i, f := range tickerFails {
		c := Case{Kind: "ticker", Proto: "udp"}
		rec.Case(ev.Hash([]any{c, i}), true, "kind_ticker")
		if f != nil {
			rec.Violation("ticker", c, f.Msg)
			t.Errorf("%s", f.Msg)
			return
		}
	}
	for i, f := range extraFails {
		rec.Case(ev.Hash(extras[i]), true, "kind_"+extras[i].Kind)
		if i < 6 {
			rec.Sample("extra", extras[i])
		}
		if f != nil {
			rec.Violation("extra", extras[i], f.Msg)
			t.Errorf("%s", f.Msg)
			return
		}
	}
	for i, f := range lateFails {
		c := Case{Kind: "latenotice", Proto: "tcp", CheckIntervalMs: i}
		rec.Case(ev.Hash([]any{c, i}), true, "kind_latenotice")
		if f != nil {
			rec.Violation("timings", c, f.Msg)
			t.Errorf("%s", f.Msg)
			return
		}
	}
	if !tickOK {
		rec.Violation("race", Case{Kind: "ticker", Proto: "udp"}, "the race detector reported a data race between the refresh ticker and the application's sends (the report is in the check's output)")
		return
	}
	for i, c := range cases {
		var fail *ev.Failure
		var overlapped bool
		ok := t.Run(fmt.Sprintf("case%d", i), func(t *testing.T) {
			fail, overlapped = runCase(c)
			if fail != nil {
				t.Errorf("%s", fail.Msg)
			}
		})
		rec.Case(ev.Hash(c), overlapped, "kind_"+c.Kind, fmt.Sprintf("gomaxprocs_%d", c.Procs))
		if i < 60 {
			rec.Sample(c.Kind, c)
		}
		if fail != nil {
			rec.Violation("timings", c, fail.Msg)
			return
		}
		if !ok {
			rec.Violation("race", c, "the race detector reported a data race while this case ran (the report is in the check's output)")
			return
		}
	}
	// alone, last: two overlapping Close calls with the first one held at its log line
	if ev.Shard() <= 1 {
		var f *ev.Failure
		ok := t.Run("close_overlap", func(t *testing.T) {
			f = runCloseOverlap(0)
			rec.Case(ev.Hash([]any{"close_overlap"}), true, "kind_close_overlap")
			if f != nil {
				rec.Violation("extra", Extra{Kind: "close_overlap"}, f.Msg)
				t.Errorf("%s", f.Msg)
			}
		})
		if !ok && f == nil {
			rec.Violation("race", Extra{Kind: "close_overlap"}, "the race detector reported a data race in the overlapping-Close scenario (the report is in the check's output)")
		}
	}
}
