//go:build verif

// C02 — exporter output is well-formed RFC 7011 as judged by an independent decoder.
package c02

import (
	"bytes"
	"fmt"
	"os"
	"runtime"
	"sync"
	"testing"
	"time"

	"pgregory.net/rapid"

	"github.com/vmware/go-ipfix/pkg/entities"
	"github.com/vmware/go-ipfix/pkg/exporter"

	"verifharness/ev"
	"verifharness/exph"
	"verifharness/gen"
	"verifharness/glue"
	ref "verifharness/refipfix"
)

// Step is one SendSet call: a template set (Tpl) or a data set for template index Of.
type Step struct {
	Tpl    bool          `json:"tpl"`
	ID     uint16        `json:"id"`
	Fields []ref.Field   `json:"fields,omitempty"`
	Of     int           `json:"of,omitempty"`
	Recs   [][]ref.Value `json:"recs,omitempty"`
	Path   int           `json:"path"`
	// BadAt > 0 (data sets of >= 2 records): record BadAt-1 (never the first) is offered with one
	// field fewer than the template. The library is expected to refuse the set (C09 judges that);
	// here only the wire counts: if anything is transmitted it must still be well-formed.
	BadAt int `json:"bad_at,omitempty"`
}

// Case is a session of one exporting process.
type Case struct {
	Proto  string `json:"proto"`
	V6     bool   `json:"v6"`
	Domain uint32 `json:"domain"`
	Steps  []Step `json:"steps"`
	// Refresh (udp): after the steps one template-refresh round is run (the body of the refresh
	// tick); its messages are on the wire too and must be the templates sent so far.
	Refresh bool `json:"refresh,omitempty"`
	// Reuse: the application keeps one set object and one list of element objects per template and
	// writes each record's values into them (setters, ResetValue for empty values) instead of
	// building new elements per record. Such sessions carry one record per set.
	Reuse bool `json:"reuse,omitempty"`
}

// SweepCase is one attempt to send a data set whose message would have Size bytes (around the
// 65535 limit); whether or not it is refused, what is on the wire must be well-formed.
type SweepCase struct {
	Proto string `json:"proto"`
	Size  int    `json:"size"`
}

var (
	rec  *ev.Recorder
	pool []ref.Field
)

func TestMain(m *testing.M) {
	glue.SilenceKlog()
	pool, _ = glue.NewPoolArgs()
	if rp := ev.LoadReplay(); rp != nil {
		if rp.Phase == "size_sweep" {
			ev.RunReplay(rp, runSweep)
		}
		if rp.Phase == "slow_collector" {
			ev.RunReplay(rp, runSlow)
		}
		ev.RunReplay(rp, runCase)
	}
	rec = ev.New("C02", "sessions of 1..8 SendSet calls (template sets through AddRecord / AddRecordWithExtraElements / AddRecordV2 / MakeTemplateSet, data sets of 1..n records, single-record data sets also through MakeDataSet; a quarter of the sessions reuse one set object and one list of element objects per template, writing values with the setters and ResetValue) over tcp and udp, IPv4 and IPv6 loopback, elements from IANA, 29305, 56506 and a user-registered enterprise covering all 18 types; every byte is captured by a harness-owned socket and parsed by the reference codec; non-trivial = the session has an enterprise-specific element and (a variable-length value or >= 2 records in a set); distinct by hash of the case",
		"reference codec refipfix", "loopback sockets deliver what was written, in order")
	code := m.Run()
	rec.Write()
	os.Exit(code)
}

const waitLimit = 20 * time.Second

// lost is set when a udp run ended without a verdict because a datagram did not arrive. A
// datagram lost on the loopback is a rare, random event: the session is run again, and the same
// session losing a datagram three times in a row is a message that is reported sent and never
// written.
var lost string

func runRetry(c Case) *ev.Failure {
	for attempt := 1; ; attempt++ {
		lost = ""
		f := runCase(c)
		if f != nil || lost == "" {
			return f
		}
		if attempt == 3 {
			return ev.Failf("over udp, three times in a row: %s", lost)
		}
	}
}

func runCase(c Case) *ev.Failure {
	peer, err := exph.NewPeer(c.Proto, c.V6)
	if err != nil {
		return nil // environment: no such loopback
	}
	defer peer.Close()
	ep, err := exph.StartExporter(peer, c.Domain, c.V6)
	if err != nil {
		return ev.Failf("InitExportingProcess: %v", err)
	}
	defer ep.CloseConnToCollector()
	var tpls []Step
	reused := map[uint16][]entities.InfoElementWithValue{}
	reusedSet := entities.NewSet(false)
	sent, total := 0, 0
	for i, s := range c.Steps {
		var want []byte
		h := ref.Header{Domain: c.Domain}
		var n int
		if s.Tpl {
			set, err := exph.TemplateSet(s.ID, s.Fields, s.Path)
			if err != nil {
				return ev.Failf("step %d: building the template set failed: %v", i, err)
			}
			want = ref.TemplateMessage(h, ref.Template{ID: s.ID, Fields: s.Fields})
			if n, err = ep.SendSet(set); err != nil {
				return ev.Failf("step %d: SendSet(template %d, %d fields) failed: %v", i, s.ID, len(s.Fields), err)
			}
			tpls = append(tpls, s)
		} else {
			tp := tpls[s.Of%len(tpls)]
			var set entities.Set
			var err error
			if c.Reuse {
				if reused[tp.ID] == nil {
					reused[tp.ID] = exph.NewElements(tp.Fields)
				}
				set, err = exph.DataSetReusing(reusedSet, reused[tp.ID], tp.ID, tp.Fields, s.Recs, s.Path)
			} else {
				set, err = exph.DataSet(tp.ID, tp.Fields, s.Recs, s.Path)
			}
			if err != nil {
				return ev.Failf("step %d: building the data set failed: %v", i, err)
			}
			want = ref.DataMessage(h, ref.Template{ID: tp.ID, Fields: tp.Fields}, s.Recs)
			if s.BadAt > 0 && !c.Reuse && len(s.Recs) >= 2 && len(tp.Fields) >= 2 {
				k := 1 + (s.BadAt-1)%(len(s.Recs)-1)
				short := tp.Fields[:len(tp.Fields)-1]
				bad, berr := exph.DataSet(tp.ID, tp.Fields, s.Recs[:k], s.Path)
				if berr == nil {
					els := exph.Elements(short, s.Recs[k][:len(short)])
					if s.Path == exph.PathV2 {
						berr = bad.AddRecordV2(els, tp.ID)
					} else {
						berr = bad.AddRecord(els, tp.ID)
					}
				}
				if berr == nil {
					if nb, err := ep.SendSet(bad); err == nil {
						// transmitted (C09 judges that it should not have been): it is on the wire in
						// front of the good set and must at least be well-formed under the template
						sent++
						total += nb
						peer.WaitMessages(sent, total, waitLimit)
						msgs, rest := peer.Messages()
						if len(rest) != 0 || len(msgs) != sent {
							return ev.Failf("step %d: after a data set with a short record %d was transmitted the wire holds %d framed messages and %d stray bytes, %d sends succeeded", i, k, len(msgs), len(rest), sent)
						}
						_, sets, perr := ref.ParseMessage(msgs[sent-1])
						if perr != nil || len(sets) != 1 {
							return ev.Failf("step %d: a data set whose record %d has %d fields (template %d has %d) was transmitted and is not a well-formed message: %v", i, k, len(short), tp.ID, len(tp.Fields), perr)
						}
						if r := ref.ParseDataSet(tp.Fields, sets[0].Body); r.Malformed || len(r.Records) != k+1 {
							return ev.Failf("step %d: a data set whose record %d has %d fields (template %d has %d) was transmitted: its %d-byte body is not %d records of the template (%d parsed; %s)", i, k, len(short), tp.ID, len(tp.Fields), len(sets[0].Body), k+1, len(r.Records), r.Why)
						}
					}
				}
			}
			if n, err = ep.SendSet(set); err != nil {
				return ev.Failf("step %d: SendSet(data for template %d, %d records, %d bytes) failed: %v", i, tp.ID, len(s.Recs), len(want), err)
			}
		}
		exph.ReleaseAdopted() // SendSet has returned: the application reuses the slices it handed over
		if !exph.PlaceholdersIntact() {
			return ev.Failf("step %d: setting an address element's value wrote into the all-zero placeholder the element had been created with (memory shared with other elements, not owned by this one)", i)
		}
		sent++
		total += len(want)
		if n != len(want) {
			return ev.Failf("step %d: SendSet reported %d bytes, the message has %d", i, n, len(want))
		}
		if !peer.WaitMessages(sent, total, waitLimit) {
			msgs, rest := peer.Messages()
			if c.Proto == "tcp" {
				return ev.Failf("step %d: SendSet succeeded (%d bytes) but the stream holds only %d complete messages + %d bytes after %v", i, n, len(msgs), len(rest), waitLimit)
			}
			lost = fmt.Sprintf("step %d: SendSet reported %d bytes sent, the datagram did not arrive within %v", i, n, waitLimit)
			return nil // UDP datagram lost on loopback: no verdict for this run (see runRetry)
		}
		msgs, rest := peer.Messages()
		if len(rest) != 0 || len(msgs) != sent {
			return ev.Failf("step %d: the wire holds %d framed messages and %d stray bytes after %d sends", i, len(msgs), len(rest), sent)
		}
		got := msgs[sent-1]
		hd, sets, err := ref.ParseMessage(got)
		if err != nil {
			return ev.Failf("step %d: the message on the wire is not well-formed: %v (% x ...)", i, err, clip(got))
		}
		if len(sets) != 1 {
			return ev.Failf("step %d: message carries %d sets", i, len(sets))
		}
		if hd.Domain != c.Domain {
			return ev.Failf("step %d: observation domain %d on the wire, configured %d", i, hd.Domain, c.Domain)
		}
		wantID := uint16(2)
		if !s.Tpl {
			wantID = tpls[s.Of%len(tpls)].ID
		}
		if sets[0].ID != wantID {
			return ev.Failf("step %d: set id %d on the wire, want %d", i, sets[0].ID, wantID)
		}
		if !exph.SameExceptTimeSeq(got, want) {
			return ev.Failf("step %d: bytes on the wire differ from the RFC encoding at offset %d:\n got  % x\n want % x", i, firstDiff(got, want), around(got, firstDiff(got, want)), around(want, firstDiff(got, want)))
		}
	}
	if c.Refresh && c.Proto == "udp" && len(tpls) > 0 {
		if err := ep.VerifSendRefreshedTemplates(); err != nil {
			return ev.Failf("template refresh round failed: %v", err)
		}
		uniq := map[uint16]Step{}
		for _, tp := range tpls {
			uniq[tp.ID] = tp
		}
		if !peer.WaitMessages(sent+len(uniq), 0, waitLimit) {
			lost = fmt.Sprintf("the refresh round reported success, %d template datagrams did not all arrive within %v", len(uniq), waitLimit)
			return nil // datagram loss: no verdict for this run
		}
		msgs, _ := peer.Messages()
		seen := map[uint16]bool{}
		for k, got := range msgs[sent:] {
			_, sets, err := ref.ParseMessage(got)
			if err != nil || len(sets) != 1 || sets[0].ID != 2 {
				return ev.Failf("refresh message %d is not a well-formed template message: %v", k, err)
			}
			t, _, err := ref.ParseTemplateRecord(sets[0].Body)
			if err != nil {
				return ev.Failf("refresh message %d: %v", k, err)
			}
			tp, ok := uniq[t.ID]
			if !ok || seen[t.ID] {
				return ev.Failf("refresh round retransmitted template %d (known %v, already seen %v)", t.ID, ok, seen[t.ID])
			}
			seen[t.ID] = true
			want := ref.TemplateMessage(ref.Header{Domain: c.Domain}, ref.Template{ID: tp.ID, Fields: tp.Fields})
			if !exph.SameExceptTimeSeq(got, want) {
				return ev.Failf("refreshed template %d differs from the template that was sent, at offset %d: got % x want % x", t.ID, firstDiff(got, want), around(got, firstDiff(got, want)), around(want, firstDiff(got, want)))
			}
		}
		if len(seen) != len(uniq) {
			return ev.Failf("refresh round retransmitted %d of %d templates", len(seen), len(uniq))
		}
	}
	return nil
}

// runSweep: a data set around the size limit, then a small marker message.
func runSweep(c SweepCase) *ev.Failure {
	peer, err := exph.NewPeer(c.Proto, false)
	if err != nil {
		return nil
	}
	defer peer.Close()
	ep, err := exph.StartExporter(peer, 9, false)
	if err != nil {
		return ev.Failf("InitExportingProcess: %v", err)
	}
	defer ep.CloseConnToCollector()
	f := []ref.Field{glue.UserField(ref.TString)}
	mk := []ref.Field{glue.UserField(ref.TU32)}
	n, total := 0, 0
	send := func(set entities.Set, err error) {
		if err != nil {
			return
		}
		if k, err := ep.SendSet(set); err == nil {
			n++
			total += k
		}
	}
	send(exph.TemplateSet(256, f, 0))
	send(exph.TemplateSet(257, mk, 0))
	send(exph.DataSet(256, f, [][]ref.Value{{{B: bytes.Repeat([]byte("z"), c.Size-23)}}}, c.Size%3))
	send(exph.DataSet(257, mk, [][]ref.Value{{{U: 0xABCD}}}, 0))
	if !peer.WaitMessages(n, total, waitLimit) && c.Proto == "udp" {
		return nil
	}
	if c.Proto == "udp" {
		msgs, _ := peer.Messages()
		for k, m := range msgs {
			if _, sets, err := ref.ParseMessage(m); err != nil || len(sets) != 1 {
				return ev.Failf("attempt to send a %d-byte message: datagram %d on the wire is not a well-formed message: %v", c.Size, k, err)
			}
		}
		return nil
	}
	stream, _ := peer.WaitStream(total, time.Second)
	// the stream must tile into well-formed messages whose header length is what was sent
	p := 0
	for k := 0; p < len(stream); k++ {
		if len(stream)-p < 20 {
			return ev.Failf("attempt to send a %d-byte message: %d stray bytes at the end of the stream", c.Size, len(stream)-p)
		}
		l := int(stream[p+2])<<8 | int(stream[p+3])
		if l < 20 || p+l > len(stream) {
			return ev.Failf("attempt to send a %d-byte message: message %d on the wire declares length %d in its header, %d bytes of stream follow (the stream holds %d bytes for %d successful sends)", c.Size, k, l, len(stream)-p, len(stream), n)
		}
		if _, sets, err := ref.ParseMessage(stream[p : p+l]); err != nil || len(sets) != 1 {
			return ev.Failf("attempt to send a %d-byte message: message %d on the wire is not well-formed: %v", c.Size, k, err)
		}
		p += l
	}
	return nil
}

// SlowCase: a TCP collector that does not read for PauseMs while the exporter sends N data
// messages of about Size bytes each (enough to fill the socket buffers, so a send blocks), with
// the exporter's connection check running every IntervalMs.
type SlowCase struct {
	PauseMs    int `json:"pause_ms"`
	N          int `json:"n"`
	Size       int `json:"size"`
	IntervalMs int `json:"interval_ms"`
	// Others: while the collector is not reading (and the exporter's send is parked in the middle of a
	// message), this many other exporters of the same program - other observation domains, another
	// template - send ten 48 KB messages each to collectors of their own that read at once.
	Others int `json:"others,omitempty"`
}

// runOther is one of SlowCase's other exporters; it returns a description of what was wrong with
// its own stream, if anything.
func runOther(i int) string {
	peer, err := exph.NewPeer("tcp", false)
	if err != nil {
		return ""
	}
	defer peer.Close()
	ep, err := exporter.InitExportingProcess(exporter.ExporterInput{CollectorAddress: peer.Addr, CollectorProtocol: "tcp", ObservationDomainID: uint32(100 + i), TempRefTimeout: 3600})
	if err != nil {
		return ""
	}
	defer ep.CloseConnToCollector()
	f := []ref.Field{glue.UserField(ref.TString), glue.UserField(ref.TU64)}
	h := ref.Header{Domain: uint32(100 + i)}
	ts, _ := exph.TemplateSet(300, f, 0)
	total := 0
	n, err := ep.SendSet(ts)
	if err != nil {
		return ""
	}
	total += n
	want := [][]byte{ref.TemplateMessage(h, ref.Template{ID: 300, Fields: f})}
	for k := 0; k < 10; k++ {
		r := [][]ref.Value{{{B: bytes.Repeat([]byte{0xbb}, 48000)}, {U: 0xbbbbbbbbbbbbbbbb}}}
		ds, _ := exph.DataSet(300, f, r, 0)
		n, err := ep.SendSet(ds)
		if err != nil {
			return ""
		}
		total += n
		want = append(want, ref.DataMessage(h, ref.Template{ID: 300, Fields: f}, r))
	}
	peer.WaitStream(total, waitLimit)
	msgs, rest := peer.Messages()
	if len(rest) != 0 || len(msgs) != len(want) {
		return fmt.Sprintf("exporter %d beside it: %d messages and %d stray bytes on the wire for %d successful sends", i, len(msgs), len(rest), len(want))
	}
	for k := range msgs {
		if !exph.SameExceptTimeSeq(msgs[k], want[k]) {
			return fmt.Sprintf("exporter %d beside it: message %d on the wire is not what was sent", i, k)
		}
	}
	return ""
}

// runSlow: whatever happens to the individual sends, the byte stream the collector finally reads
// must tile into well-formed messages, and the messages of the successful sends are all there, in
// order (a send that reports an error is not judged, the bytes it may have left behind are).
func runSlow(c SlowCase) *ev.Failure {
	peer, err := exph.NewPeer("tcp", false)
	if err != nil {
		return nil
	}
	defer peer.Close()
	peer.SetReadDelay(time.Duration(c.PauseMs) * time.Millisecond)
	ep, err := exporter.InitExportingProcess(exporter.ExporterInput{CollectorAddress: peer.Addr, CollectorProtocol: "tcp", ObservationDomainID: 9,
		TempRefTimeout: 3600, CheckConnInterval: time.Duration(c.IntervalMs) * time.Millisecond})
	if err != nil {
		return ev.Failf("InitExportingProcess: %v", err)
	}
	f := []ref.Field{glue.UserField(ref.TU32), glue.UserField(ref.TString)}
	h := ref.Header{Domain: 9}
	var want [][]byte
	total := 0
	ts, err := exph.TemplateSet(256, f, 0)
	if err != nil {
		return ev.Failf("template set: %v", err)
	}
	if n, err := ep.SendSet(ts); err != nil {
		return ev.Failf("SendSet(template): %v", err)
	} else {
		want = append(want, ref.TemplateMessage(h, ref.Template{ID: 256, Fields: f}))
		total += n
	}
	otherFail := make([]string, c.Others)
	var ow sync.WaitGroup
	for i := 0; i < c.Others; i++ {
		ow.Add(1)
		go func(i int) {
			defer ow.Done()
			// spread over the first half of the pause, from the moment the main exporter starts to send:
			// some of them build their messages just after it was parked in the middle of one
			time.Sleep(time.Duration(min(i*12, c.PauseMs/2)) * time.Millisecond)
			otherFail[i] = runOther(i)
		}(i)
	}
	defer ow.Wait()
	failed := 0
	var firstErr error
	for k := 0; k < c.N; k++ {
		r := [][]ref.Value{{{U: uint64(k)}, {B: bytes.Repeat([]byte{byte('a' + k%26)}, c.Size)}}}
		ds, err := exph.DataSet(256, f, r, k%3)
		if err != nil {
			return ev.Failf("data set: %v", err)
		}
		n, err := ep.SendSet(ds)
		if err != nil {
			failed++
			if firstErr == nil {
				firstErr = fmt.Errorf("send %d of %d: %v (%d bytes written)", k, c.N, err, n)
			}
			continue
		}
		want = append(want, ref.DataMessage(h, ref.Template{ID: 256, Fields: f}, r))
		total += n
	}
	peer.WaitStream(total, waitLimit)
	ep.CloseConnToCollector()
	peer.WaitStream(1<<40, 2*time.Second) // until the end of the stream
	msgs, rest := peer.Messages()
	if len(rest) != 0 {
		return ev.Failf("collector paused %d ms, %d sends of ~%d bytes (%d reported an error; first: %v): the stream ends with %d bytes that do not frame as a message, after %d framed messages", c.PauseMs, c.N, c.Size, failed, firstErr, len(rest), len(msgs))
	}
	wi := 0
	for k, m := range msgs {
		if _, sets, err := ref.ParseMessage(m); err != nil || len(sets) != 1 {
			return ev.Failf("collector paused %d ms (%d of %d sends reported an error; first: %v): message %d on the wire is not well-formed: %v", c.PauseMs, failed, c.N, firstErr, k, err)
		}
		if wi < len(want) && exph.SameExceptTimeSeq(m, want[wi]) {
			wi++
		}
	}
	if wi != len(want) {
		return ev.Failf("collector paused %d ms (%d of %d sends reported an error; first: %v; %d other exporters were sending meanwhile): %d sends succeeded but only %d of their messages are on the wire, in order, among %d framed messages", c.PauseMs, failed, c.N, firstErr, c.Others, len(want), wi, len(msgs))
	}
	ow.Wait()
	for _, o := range otherFail {
		if o != "" {
			return ev.Failf("collector paused %d ms while its exporter was sending: %s", c.PauseMs, o)
		}
	}
	return nil
}

func firstDiff(a, b []byte) int {
	for i := 0; i < len(a) && i < len(b); i++ {
		if a[i] != b[i] && !(i >= 4 && i < 12) {
			return i
		}
	}
	return min(len(a), len(b))
}

func around(b []byte, at int) []byte {
	lo, hi := max(0, at-8), min(len(b), at+24)
	return b[lo:hi]
}

func clip(b []byte) []byte {
	if len(b) > 40 {
		return b[:40]
	}
	return b
}

func genCase(t *rapid.T) Case {
	c := Case{
		Proto:  rapid.SampledFrom([]string{"tcp", "udp"}).Draw(t, "proto"),
		V6:     rapid.IntRange(0, 3).Draw(t, "v6") == 0,
		Domain: rapid.SampledFrom([]uint32{0, 1, 7, 0x80000000, 0xFFFFFFFF, 123456}).Draw(t, "domain"),
	}
	c.Refresh = c.Proto == "udp" && rapid.Bool().Draw(t, "refresh")
	c.Reuse = rapid.IntRange(0, 3).Draw(t, "reuse") == 0
	limit := 65535
	if c.Proto == "udp" {
		limit = 65507
	}
	var tpls []Step
	n := rapid.IntRange(1, 8).Draw(t, "n")
	nextID := uint16(256)
	for i := 0; i < n; i++ {
		if len(tpls) == 0 || rapid.IntRange(0, 3).Draw(t, "kind") == 0 {
			s := Step{Tpl: true, ID: nextID, Path: rapid.IntRange(0, 3).Draw(t, "tpath")}
			nextID += uint16(rapid.IntRange(1, 300).Draw(t, "idstep"))
			nf := rapid.IntRange(1, 12).Draw(t, "nf")
			if rapid.IntRange(0, 19).Draw(t, "wide") == 0 {
				nf = rapid.IntRange(13, 120).Draw(t, "nfw")
			}
			for j := 0; j < nf; j++ {
				var f ref.Field
				if rapid.IntRange(0, 2).Draw(t, "userel") == 0 {
					u := glue.UserFields()
					f = u[rapid.IntRange(0, len(u)-1).Draw(t, "uf")]
				} else {
					f = pool[rapid.IntRange(0, len(pool)-1).Draw(t, "f")]
				}
				s.Fields = append(s.Fields, f)
			}
			tpls = append(tpls, s)
			c.Steps = append(c.Steps, s)
			continue
		}
		s := Step{Of: rapid.IntRange(0, len(tpls)-1).Draw(t, "of"), Path: rapid.IntRange(0, 3).Draw(t, "dpath")}
		tp := tpls[s.Of]
		maxVar := rapid.SampledFrom([]int{40, 300, 300, 2000, 70000}).Draw(t, "maxvar")
		want := rapid.IntRange(1, 6).Draw(t, "nrec")
		if rapid.IntRange(0, 9).Draw(t, "many") == 0 {
			want = rapid.IntRange(7, 200).Draw(t, "nrecmany")
		}
		if c.Reuse {
			// a record keeps references to the element objects until the set is sent, so an
			// application that reuses them sends one record per set (as the known users do)
			want = 1
		}
		size := 20
		for k := 0; k < want; k++ {
			r := gen.Record(t, tp.Fields, maxVar)
			if c.Reuse {
				// optional fields left empty in some records: the reused element is reset, not set
				for fi, f := range tp.Fields {
					if f.Len == ref.VarLen && rapid.IntRange(0, 3).Draw(t, "empty") == 0 {
						r[fi].B = nil
					}
				}
			}
			l := len(ref.EncodeDataRecord(nil, tp.Fields, r))
			if size+l > limit {
				// shrink the variable-length values of this record until it fits
				for fi, f := range tp.Fields {
					if f.Len == ref.VarLen && len(r[fi].B) > 3 {
						r[fi].B = r[fi].B[:3]
					}
				}
				l = len(ref.EncodeDataRecord(nil, tp.Fields, r))
				if size+l > limit {
					break
				}
			}
			size += l
			s.Recs = append(s.Recs, r)
		}
		if len(s.Recs) == 0 {
			continue
		}
		if len(s.Recs) >= 2 && rapid.IntRange(0, 5).Draw(t, "bad") == 0 {
			s.BadAt = rapid.IntRange(1, len(s.Recs)).Draw(t, "bad_at")
		}
		c.Steps = append(c.Steps, s)
	}
	return c
}

func classify(c Case) (bool, []string) {
	ent, varlen, multi, long, user := false, false, false, false, false
	paths := map[int]bool{}
	var tpls []Step
	for _, s := range c.Steps {
		paths[s.Path] = true
		if s.Tpl {
			tpls = append(tpls, s)
			for _, f := range s.Fields {
				ent = ent || f.Ent != 0
				user = user || f.Ent == glue.UserEnt
			}
			continue
		}
		multi = multi || len(s.Recs) >= 2
		tp := tpls[s.Of%len(tpls)]
		for _, r := range s.Recs {
			for fi, f := range tp.Fields {
				if f.Len == ref.VarLen {
					varlen = true
					long = long || len(r[fi].B) >= 255
				}
			}
		}
	}
	cl := []string{"proto_" + c.Proto}
	for k, b := range map[string]bool{"enterprise_element": ent, "user_registered_element": user, "variable_length_value": varlen, "multi_record_set": multi, "value_255_or_longer": long, "ipv6_loopback": c.V6, "refresh_round": c.Refresh, "application_reuses_its_element_objects": c.Reuse} {
		if b {
			cl = append(cl, k)
		}
	}
	for p := range paths {
		cl = append(cl, fmt.Sprintf("add_path_%d", p))
	}
	return ent && (varlen || multi), cl
}

func TestC02(t *testing.T) {
	// deterministic boundary preamble: variable-length values of every length around 255,
	// through every add path, tcp and udp
	str := glue.UserField(ref.TString)
	oct := glue.UserField(ref.TOctets)
	u8 := glue.UserField(ref.TU8)
	for _, proto := range []string{"tcp", "udp"} {
		for n := 250; n <= 260; n++ {
			for path := 0; path < 3; path++ {
				c := Case{Proto: proto, Domain: 5, Steps: []Step{
					{Tpl: true, ID: 256, Fields: []ref.Field{u8, str, oct, u8}, Path: path},
					{Of: 0, Path: path, Recs: [][]ref.Value{
						{{U: 1}, {B: bytes.Repeat([]byte("s"), n)}, {B: bytes.Repeat([]byte{7}, n)}, {U: 2}},
						{{U: 3}, {B: []byte{}}, {B: bytes.Repeat([]byte{9}, 510-n)}, {U: 4}}}},
				}}
				nt, cl := classify(c)
				rec.Case(ev.Hash(c), nt, append(cl, "preamble_len_boundary")...)
				if f := runRetry(c); f != nil {
					rec.Violation("preamble", c, f.Msg)
					t.Fatalf("preamble: %s", f.Msg)
				}
			}
		}
	}
	// every run: attempts around the message size limit; whatever is refused, the wire stays well-formed
	for _, proto := range []string{"tcp", "udp"} {
		for size := 65500; size <= 65560; size++ {
			c := SweepCase{Proto: proto, Size: size}
			rec.Case(ev.Hash(c), true, "size_sweep")
			if f := runSweep(c); f != nil {
				rec.Violation("size_sweep", c, f.Msg)
				t.Fatalf("size sweep: %s", f.Msg)
			}
		}
	}
	// every run: a collector that is slow to read, so that sends block on a full socket while the
	// connection check keeps running
	slow := []SlowCase{{PauseMs: 400, N: 300, Size: 60000, IntervalMs: 10}, {PauseMs: 250, N: 400, Size: 30000, IntervalMs: 5},
		{PauseMs: 900, N: 300, Size: 60000, IntervalMs: 1000, Others: 2 * runtime.GOMAXPROCS(0)}, {PauseMs: 900, N: 300, Size: 48000, IntervalMs: 1000, Others: 2 * runtime.GOMAXPROCS(0)}}
	if rec.Thorough() {
		for k := 0; k < 10; k++ {
			slow = append(slow, SlowCase{PauseMs: 100 + 60*k, N: 200 + 40*k, Size: 65000 - 6000*k, IntervalMs: 1 + 3*k})
		}
	}
	slowFails := make([]*ev.Failure, len(slow))
	var wg sync.WaitGroup
	for k := range slow {
		wg.Add(1)
		go func(k int) { defer wg.Done(); slowFails[k] = runSlow(slow[k]) }(k)
		if k%4 == 3 {
			wg.Wait()
		}
	}
	wg.Wait()
	for k, c := range slow {
		rec.Case(ev.Hash(c), true, "slow_collector")
		if k == 0 {
			rec.Sample("slow_collector", c)
		}
		if slowFails[k] != nil {
			rec.Violation("slow_collector", c, slowFails[k].Msg)
			t.Fatalf("slow collector: %s", slowFails[k].Msg)
		}
	}
	ev.Rapid(t, rec, "sessions", rec.Scale(4000, 2000000), genCase, func(c Case) *ev.Failure {
		nt, cl := classify(c)
		rec.Case(ev.Hash(c), nt, cl...)
		if len(c.Steps) <= 2 {
			small := true
			for _, s := range c.Steps {
				small = small && len(s.Fields) <= 4 && len(s.Recs) <= 2
				for _, r := range s.Recs {
					for _, v := range r {
						small = small && len(v.B) < 40
					}
				}
			}
			if small {
				rec.Sample("session", c)
			}
		}
		return runRetry(c)
	})
}
