package glue

import (
	"crypto/ecdsa"
	"crypto/elliptic"
	"crypto/rand"
	"crypto/x509"
	"crypto/x509/pkix"
	"encoding/pem"
	"math/big"
	"net"
	"sync/atomic"
	"time"
)

// CA is a certificate authority minted in-process (ECDSA P-256). The repository's static
// test certificates are expired, so every check that needs TLS/DTLS makes its own.
type CA struct {
	Cert    *x509.Certificate
	Key     *ecdsa.PrivateKey
	CertPEM []byte
}

// Leaf is a leaf certificate with its key, PEM-encoded.
type Leaf struct {
	CertPEM, KeyPEM []byte
}

var serial atomic.Int64

func nextSerial() *big.Int { return big.NewInt(1000 + serial.Add(1)) }

// NewCA mints a self-signed CA.
func NewCA(cn string) *CA {
	key, err := ecdsa.GenerateKey(elliptic.P256(), rand.Reader)
	if err != nil {
		panic(err)
	}
	tpl := &x509.Certificate{
		SerialNumber: nextSerial(), Subject: pkix.Name{CommonName: cn},
		NotBefore: time.Now().Add(-time.Hour), NotAfter: time.Now().Add(24 * time.Hour),
		IsCA: true, BasicConstraintsValid: true, KeyUsage: x509.KeyUsageCertSign | x509.KeyUsageDigitalSignature,
	}
	der, err := x509.CreateCertificate(rand.Reader, tpl, tpl, &key.PublicKey, key)
	if err != nil {
		panic(err)
	}
	cert, _ := x509.ParseCertificate(der)
	return &CA{Cert: cert, Key: key, CertPEM: pem.EncodeToMemory(&pem.Block{Type: "CERTIFICATE", Bytes: der})}
}

// Sub mints an intermediate certificate under the CA (isCA false gives a certificate that has
// signed leaves without being allowed to).
func (ca *CA) Sub(cn string, isCA bool, notBefore, notAfter time.Time) *CA {
	key, err := ecdsa.GenerateKey(elliptic.P256(), rand.Reader)
	if err != nil {
		panic(err)
	}
	tpl := &x509.Certificate{
		SerialNumber: nextSerial(), Subject: pkix.Name{CommonName: cn},
		NotBefore: notBefore, NotAfter: notAfter,
		IsCA: isCA, BasicConstraintsValid: true, KeyUsage: x509.KeyUsageCertSign | x509.KeyUsageDigitalSignature,
	}
	if !isCA {
		tpl.KeyUsage = x509.KeyUsageDigitalSignature
	}
	der, err := x509.CreateCertificate(rand.Reader, tpl, ca.Cert, &key.PublicKey, ca.Key)
	if err != nil {
		panic(err)
	}
	cert, _ := x509.ParseCertificate(der)
	return &CA{Cert: cert, Key: key, CertPEM: pem.EncodeToMemory(&pem.Block{Type: "CERTIFICATE", Bytes: der})}
}

// LeafSpec describes a leaf certificate.
type LeafSpec struct {
	CN        string
	DNS       []string
	IPs       []net.IP
	NotBefore time.Time
	NotAfter  time.Time
	Client    bool
	SelfSign  bool
}

// Issue mints a leaf signed by the CA (or self-signed).
func (ca *CA) Issue(s LeafSpec) Leaf {
	key, err := ecdsa.GenerateKey(elliptic.P256(), rand.Reader)
	if err != nil {
		panic(err)
	}
	if s.NotBefore.IsZero() {
		s.NotBefore = time.Now().Add(-time.Hour)
	}
	if s.NotAfter.IsZero() {
		s.NotAfter = time.Now().Add(24 * time.Hour)
	}
	eku := []x509.ExtKeyUsage{x509.ExtKeyUsageServerAuth}
	if s.Client {
		eku = []x509.ExtKeyUsage{x509.ExtKeyUsageClientAuth}
	}
	tpl := &x509.Certificate{
		SerialNumber: nextSerial(), Subject: pkix.Name{CommonName: s.CN},
		NotBefore: s.NotBefore, NotAfter: s.NotAfter,
		KeyUsage: x509.KeyUsageDigitalSignature | x509.KeyUsageKeyEncipherment, ExtKeyUsage: eku,
		DNSNames: s.DNS, IPAddresses: s.IPs, BasicConstraintsValid: true,
	}
	parent, signer := ca.Cert, ca.Key
	if s.SelfSign {
		parent, signer = tpl, key
	}
	der, err := x509.CreateCertificate(rand.Reader, tpl, parent, &key.PublicKey, signer)
	if err != nil {
		panic(err)
	}
	kb, err := x509.MarshalECPrivateKey(key)
	if err != nil {
		panic(err)
	}
	return Leaf{
		CertPEM: pem.EncodeToMemory(&pem.Block{Type: "CERTIFICATE", Bytes: der}),
		KeyPEM:  pem.EncodeToMemory(&pem.Block{Type: "EC PRIVATE KEY", Bytes: kb}),
	}
}

// LoopbackServer issues a server certificate valid for localhost, 127.0.0.1 and ::1.
func (ca *CA) LoopbackServer() Leaf {
	return ca.Issue(LeafSpec{CN: "collector", DNS: []string{"localhost"}, IPs: []net.IP{net.IPv4(127, 0, 0, 1), net.IPv6loopback}})
}
