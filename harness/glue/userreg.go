package glue

import (
	"fmt"
	"sync"

	"github.com/vmware/go-ipfix/pkg/entities"
	"github.com/vmware/go-ipfix/pkg/registry"

	ref "verifharness/refipfix"
)

// UserEnt is the enterprise number of the user-registered registry used by the checks.
const UserEnt uint32 = 55555

var (
	userOnce   sync.Once
	userFields []ref.Field
)

// UserFields registers (once) and returns a user enterprise registry with one element of
// every supported data type (ids 1..18 in reference-type order: id = type+1), a
// variable-length octet array (id 1) and string (id 14), and fixed-length octet arrays of
// every length 1..100 and of the LongFixedOctets lengths (id 1000+len).
func UserFields() []ref.Field {
	userOnce.Do(func() {
		LoadRegistry()
		if err := registry.InitNewRegistry(UserEnt); err != nil {
			panic(err)
		}
		for t := ref.Type(0); t < ref.NumTypes; t++ {
			l := uint16(t.Width())
			if l == 0 {
				l = ref.VarLen
			}
			userFields = append(userFields, ref.Field{ID: uint16(t) + 1, Ent: UserEnt, Len: l, Type: t, Name: "user" + t.String()})
		}
		for n := 1; n <= 100; n++ {
			userFields = append(userFields, ref.Field{ID: uint16(1000 + n), Ent: UserEnt, Len: uint16(n), Type: ref.TOctets, Name: fmt.Sprintf("userFixedOctets%d", n)})
		}
		for _, n := range LongFixedOctets {
			userFields = append(userFields, ref.Field{ID: uint16(1000 + n), Ent: UserEnt, Len: uint16(n), Type: ref.TOctets, Name: fmt.Sprintf("userFixedOctets%d", n)})
		}
		// a string element declared with a fixed length (on the wire: exactly that many bytes, no
		// length prefix; the pinned tree wrote a prefix all the same - defect D17, repaired)
		FixedString = ref.Field{ID: 900, Ent: UserEnt, Len: 16, Type: ref.TString, Name: "userFixedString16"}
		if err := registry.PutInfoElement(*entities.NewInfoElement(FixedString.Name, FixedString.ID, LibType(FixedString.Type), FixedString.Ent, FixedString.Len), UserEnt); err != nil {
			panic(err)
		}
		// an unsigned32 element registered with length 2 (reduced-size encoding, which the library does
		// not implement): in no pool; used by C03 only, which demands nothing of it but survival
		ReducedU32 = ref.Field{ID: 901, Ent: UserEnt, Len: 2, Type: ref.TU32, Name: "userReducedU32"}
		if err := registry.PutInfoElement(*entities.NewInfoElement(ReducedU32.Name, ReducedU32.ID, LibType(ReducedU32.Type), ReducedU32.Ent, ReducedU32.Len), UserEnt); err != nil {
			panic(err)
		}
		for _, f := range userFields {
			ie := entities.NewInfoElement(f.Name, f.ID, LibType(f.Type), f.Ent, f.Len)
			if err := registry.PutInfoElement(*ie, UserEnt); err != nil {
				panic(err)
			}
		}
	})
	return userFields
}

// FixedString is a user-registered string element declared with a fixed length of 16.
var FixedString ref.Field

// ReducedU32 is a user-registered unsigned32 element declared with length 2.
var ReducedU32 ref.Field

// UserField returns the user-registered element of type t (variable-length for octets/string).
func UserField(t ref.Type) ref.Field { return UserFields()[int(t)] }

// LongFixedOctets are the additional fixed octet-array lengths registered (around the 255
// boundary of the variable-length prefix, and large).
var LongFixedOctets = []int{254, 255, 256, 257, 300, 1000, 4000, 30000}

// UserFixedOctets returns the fixed-length octet array element of length n (1..100 or one of
// LongFixedOctets).
func UserFixedOctets(n int) ref.Field {
	if n <= 100 {
		return UserFields()[int(ref.NumTypes)+n-1]
	}
	for _, f := range UserFields()[int(ref.NumTypes)+100:] {
		if int(f.Len) == n {
			return f
		}
	}
	panic(fmt.Sprintf("no fixed octet array element of length %d", n))
}
