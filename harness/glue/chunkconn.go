//go:build verif

package glue

import (
	"io"
	"net"
	"sync"
	"time"

	"github.com/vmware/go-ipfix/pkg/collector"
	"github.com/vmware/go-ipfix/pkg/entities"
)

// ChunkConn is an in-memory net.Conn whose Read returns exactly the scripted segments, then EOF.
type ChunkConn struct {
	mu     sync.Mutex
	Chunks [][]byte
	closed bool
}

func (c *ChunkConn) Read(p []byte) (int, error) {
	c.mu.Lock()
	defer c.mu.Unlock()
	if c.closed {
		return 0, net.ErrClosed
	}
	for len(c.Chunks) > 0 && len(c.Chunks[0]) == 0 {
		c.Chunks = c.Chunks[1:]
	}
	if len(c.Chunks) == 0 {
		return 0, io.EOF
	}
	n := copy(p, c.Chunks[0])
	c.Chunks[0] = c.Chunks[0][n:]
	return n, nil
}
func (c *ChunkConn) Write(p []byte) (int, error)      { return len(p), nil }
func (c *ChunkConn) Close() error                     { c.mu.Lock(); c.closed = true; c.mu.Unlock(); return nil }
func (c *ChunkConn) Closed() bool                     { c.mu.Lock(); defer c.mu.Unlock(); return c.closed }
func (c *ChunkConn) LocalAddr() net.Addr              { return &net.TCPAddr{IP: net.IPv4(127, 0, 0, 1), Port: 4739} }
func (c *ChunkConn) RemoteAddr() net.Addr             { return &net.TCPAddr{IP: net.IPv4(127, 0, 0, 1), Port: 40000} }
func (c *ChunkConn) SetDeadline(time.Time) error      { return nil }
func (c *ChunkConn) SetReadDeadline(time.Time) error  { return nil }
func (c *ChunkConn) SetWriteDeadline(time.Time) error { return nil }

// ServeTCP runs the collector's TCP connection handler on conn and returns every message it
// delivered (retained, so that they can be inspected after later messages were read).
func ServeTCP(cp *collector.CollectingProcess, conn net.Conn, limit time.Duration) ([]*entities.Message, bool) {
	done := make(chan struct{})
	go func() {
		defer close(done)
		cp.VerifHandleTCPClient(conn)
	}()
	var got []*entities.Message
	timer := time.NewTimer(limit)
	defer timer.Stop()
	for {
		select {
		case m := <-cp.GetMsgChan():
			got = append(got, m)
		case <-done:
			return got, true
		case <-timer.C:
			return got, false
		}
	}
}
