package glue

import "math"

func f32frombits(u uint32) float32 { return math.Float32frombits(u) }
func f64frombits(u uint64) float64 { return math.Float64frombits(u) }
func f32bits(f float32) uint32     { return math.Float32bits(f) }
func f64bits(f float64) uint64     { return math.Float64bits(f) }
