//go:build verif

package glue

import (
	"sync"
	"time"

	"github.com/vmware/go-ipfix/pkg/collector"
)

// HClock is a clock owned by the harness with Go's documented AfterFunc semantics, in which
// firing a timer only queues its callback: the harness decides when a queued callback starts,
// and a started callback parks inside its first Now() call until the harness releases it. All
// other actions run on one harness goroutine, so a history is a total order and replays exactly.
type HClock struct {
	mu      sync.Mutex
	now     time.Time
	Timers  []*HTimer
	Pending []*HCallback // fired, not yet started
	InFlight *HCallback  // started, parked in Now() (or running to completion)
	// Tag is attached to timers created while it is set (the harness sets it to the template
	// key being processed).
	Tag any

	expectNow bool
	reached   chan struct{}
	release   chan struct{}
}

// HTimer states.
const (
	TArmed = iota
	TFired
	TStopped
)

// HTimer is a timer of HClock.
type HTimer struct {
	c      *HClock
	ID     int
	Tag    any
	Target time.Time
	State  int
	f      func()
}

// HCallback is one queued or running execution of a timer's function.
type HCallback struct {
	Timer   *HTimer
	SawNow  time.Time
	Parked  bool
	done    chan struct{}
}

// NewHClock starts the clock at t.
func NewHClock(t time.Time) *HClock { return &HClock{now: t} }

// Now implements the clock interface. The first call made by a callback that is being
// started parks until Finish.
func (c *HClock) Now() time.Time {
	c.mu.Lock()
	if c.expectNow {
		c.expectNow = false
		cb := c.InFlight
		cb.SawNow, cb.Parked = c.now, true
		v := c.now
		reached, release := c.reached, c.release
		c.mu.Unlock()
		close(reached)
		<-release
		return v
	}
	v := c.now
	c.mu.Unlock()
	return v
}

// Time returns the current virtual time (never parks).
func (c *HClock) Time() time.Time { c.mu.Lock(); defer c.mu.Unlock(); return c.now }

// AfterFunc implements the clock interface.
func (c *HClock) AfterFunc(d time.Duration, f func()) collector.VerifTimer {
	c.mu.Lock()
	defer c.mu.Unlock()
	t := &HTimer{c: c, ID: len(c.Timers), Tag: c.Tag, Target: c.now.Add(d), State: TArmed, f: f}
	c.Timers = append(c.Timers, t)
	return t
}

// Stop prevents the timer from firing; it reports whether it did.
func (t *HTimer) Stop() bool {
	t.c.mu.Lock()
	defer t.c.mu.Unlock()
	if t.State == TArmed {
		t.State = TStopped
		return true
	}
	return false
}

// Reset re-targets an armed timer (true) or schedules the function to run again (false).
func (t *HTimer) Reset(d time.Duration) bool {
	t.c.mu.Lock()
	defer t.c.mu.Unlock()
	was := t.State == TArmed
	t.State, t.Target = TArmed, t.c.now.Add(d)
	return was
}

// Advance moves time on; every armed timer whose target is reached fires (its callback is
// queued, in target order).
func (c *HClock) Advance(d time.Duration) {
	c.mu.Lock()
	defer c.mu.Unlock()
	c.now = c.now.Add(d)
	for {
		var best *HTimer
		for _, t := range c.Timers {
			if t.State == TArmed && !t.Target.After(c.now) && (best == nil || t.Target.Before(best.Target)) {
				best = t
			}
		}
		if best == nil {
			return
		}
		best.State = TFired
		c.Pending = append(c.Pending, &HCallback{Timer: best})
	}
}

// Start runs pending callback i on its own goroutine until it calls Now() (it parks there) or
// returns. It reports false when the callback neither parked nor returned within limit.
func (c *HClock) Start(i int, limit time.Duration) bool {
	c.mu.Lock()
	if c.InFlight != nil || i < 0 || i >= len(c.Pending) {
		c.mu.Unlock()
		return true
	}
	cb := c.Pending[i]
	c.Pending = append(c.Pending[:i:i], c.Pending[i+1:]...)
	cb.done = make(chan struct{})
	c.InFlight, c.expectNow = cb, true
	c.reached, c.release = make(chan struct{}), make(chan struct{})
	reached := c.reached
	c.mu.Unlock()
	go func() {
		defer close(cb.done)
		cb.Timer.f()
	}()
	select {
	case <-reached:
		return true
	case <-cb.done: // returned without reading the clock
		c.mu.Lock()
		c.InFlight, c.expectNow = nil, false
		c.mu.Unlock()
		return true
	case <-time.After(limit):
		return false
	}
}

// Finish releases the parked callback and waits until it has returned.
func (c *HClock) Finish(limit time.Duration) bool {
	c.mu.Lock()
	cb := c.InFlight
	if cb == nil {
		c.mu.Unlock()
		return true
	}
	release := c.release
	c.mu.Unlock()
	close(release)
	select {
	case <-cb.done:
	case <-time.After(limit):
		return false
	}
	c.mu.Lock()
	c.InFlight = nil
	c.mu.Unlock()
	return true
}
