//go:build verif

package glue

import (
	"runtime"
	"sync"
	"sync/atomic"
	"time"
	"unsafe"

	"k8s.io/klog/v2"

	"github.com/vmware/go-ipfix/pkg/collector"
)

// HClock is a clock owned by the harness with Go's documented AfterFunc semantics, in which
// firing a timer only queues its callback: the harness decides when a queued callback starts,
// and a started callback parks inside its first Now() call until the harness releases it. All
// other actions run on one harness goroutine, so a history is a total order and replays exactly.
type HClock struct {
	mu       sync.Mutex
	now      time.Time
	Timers   []*HTimer
	Pending  []*HCallback // fired, not yet started
	InFlight *HCallback   // started, parked in Now() (or running to completion)
	// Tag is attached to timers created while it is set (the harness sets it to the template
	// key being processed).
	Tag any

	expectNow bool
	reached   chan struct{}
	release   chan struct{}

	// LogYield: a log line written by the in-flight callback is a yield point too (see LogWriter):
	// the callback parks inside the write until Step or Finish. free is set by Finish: the
	// callback then runs to its end without parking again.
	LogYield bool
	free     bool

	start    time.Time
	mono     bool
	wallSkew time.Duration
}

// HTimer states.
const (
	TArmed = iota
	TFired
	TStopped
)

// HTimer is a timer of HClock.
type HTimer struct {
	c      *HClock
	ID     int
	Tag    any
	Target time.Time
	State  int
	f      func()
}

// HCallback is one queued or running execution of a timer's function.
type HCallback struct {
	Timer  *HTimer
	SawNow time.Time
	Parked bool // the callback read the clock (SawNow is what it saw)
	// AtLog: the callback is parked inside a log write (LogYield), not in Now()
	AtLog bool
	gid   int64
	done  chan struct{}
}

// NewHClock starts the clock at t.
func NewHClock(t time.Time) *HClock { return &HClock{now: t, start: t} }

// NewHClockMono starts a clock whose times carry a monotonic reading, like the ones time.Now()
// returns (the virtual time is the monotonic one). WallSkew then models steps of the wall clock
// (settimeofday, an NTP step): the times handed to the library show a wall clock that is off by
// WallSkew while their monotonic reading is unaffected. Elapsed() is the virtual time since the start.
func NewHClockMono() *HClock {
	t := time.Now()
	return &HClock{now: t, start: t, mono: true}
}

// Elapsed returns the virtual time since the clock was started.
func (c *HClock) Elapsed() time.Duration { c.mu.Lock(); defer c.mu.Unlock(); return c.now.Sub(c.start) }

// StepWall moves the wall clock by d without touching the monotonic clock (mono clocks only).
func (c *HClock) StepWall(d time.Duration) {
	c.mu.Lock()
	c.wallSkew += d
	c.mu.Unlock()
}

// rawTime mirrors time.Time's layout (wall: flag, 33 bits of seconds since 1885, 30 bits of
// nanoseconds when the flag is set; ext: the monotonic reading).
type rawTime struct {
	wall uint64
	ext  int64
	loc  *time.Location
}

// skewed returns t with its wall-clock reading shifted by whole seconds of skew and its monotonic
// reading untouched. Self-checked: the result must differ from t by exactly that in Unix() and by
// nothing in Sub().
func skewed(t time.Time, skew time.Duration) time.Time {
	secs := int64(skew / time.Second)
	if secs == 0 {
		return t
	}
	u := t
	r := (*rawTime)(unsafe.Pointer(&u))
	if r.wall>>63 == 0 {
		return t.Add(skew) // no monotonic reading: nothing to keep apart
	}
	const mask = uint64(1)<<33 - 1
	sec := int64((r.wall >> 30) & mask)
	r.wall = r.wall&^(mask<<30) | (uint64(sec+secs)&mask)<<30
	if u.Unix()-t.Unix() != secs || u.Sub(t) != 0 {
		panic("glue: time.Time layout is not what skewed() assumes")
	}
	return u
}

// Now implements the clock interface. The first call made by a callback that is being
// started parks until Finish.
func (c *HClock) Now() time.Time {
	c.mu.Lock()
	if c.expectNow && c.InFlight != nil && c.InFlight.gid == curGID() { // the callback's own first clock read
		c.expectNow = false
		cb := c.InFlight
		cb.SawNow, cb.Parked = c.now, true
		v := skewed(c.now, c.wallSkew)
		if c.free { // released by Finish while parked at an earlier yield point: run on
			c.mu.Unlock()
			return v
		}
		cb.AtLog = false
		reached, release := c.reached, c.release
		c.mu.Unlock()
		close(reached)
		<-release
		return v
	}
	v := skewed(c.now, c.wallSkew)
	c.mu.Unlock()
	return v
}

// logYield is called by the log writer for every line: when the writing goroutine is the in-flight
// callback (and LogYield is on, and Finish has not released it yet) it parks here.
func (c *HClock) logYield() {
	c.mu.Lock()
	cb := c.InFlight
	if !c.LogYield || cb == nil || c.free || cb.gid != curGID() {
		c.mu.Unlock()
		return
	}
	cb.AtLog = true
	reached, release := c.reached, c.release
	c.mu.Unlock()
	close(reached)
	<-release
}

// curGID returns the id of the calling goroutine (parsed from its stack header; used only to tell
// the callback goroutine from the harness goroutine).
func curGID() int64 {
	var buf [64]byte
	n := runtime.Stack(buf[:], false)
	var id int64
	for _, ch := range buf[len("goroutine "):n] {
		if ch < '0' || ch > '9' {
			break
		}
		id = id*10 + int64(ch-'0')
	}
	return id
}

// currentClock is the clock whose callbacks park at log lines (one case runs at a time).
var currentClock atomic.Pointer[HClock]

type yieldWriter struct{}

func (yieldWriter) Write(p []byte) (int, error) {
	if c := currentClock.Load(); c != nil {
		c.logYield()
	}
	return len(p), nil
}

// YieldOnLogs routes the library's log output through a writer that makes every log line of c's
// in-flight callback a yield point (c.LogYield must be set too). Pass nil to detach. Note that the
// logging package holds its own lock during the write: the harness goroutine must not log while a
// callback is parked there (strict-mode decoding does not).
func YieldOnLogs(c *HClock) {
	currentClock.Store(c)
	klog.SetOutput(yieldWriter{})
}

// Time returns the current virtual time (never parks).
func (c *HClock) Time() time.Time { c.mu.Lock(); defer c.mu.Unlock(); return c.now }

// AfterFunc implements the clock interface.
func (c *HClock) AfterFunc(d time.Duration, f func()) collector.VerifTimer {
	c.mu.Lock()
	defer c.mu.Unlock()
	t := &HTimer{c: c, ID: len(c.Timers), Tag: c.Tag, Target: c.now.Add(d), State: TArmed, f: f}
	c.Timers = append(c.Timers, t)
	return t
}

// Stop prevents the timer from firing; it reports whether it did.
func (t *HTimer) Stop() bool {
	t.c.mu.Lock()
	defer t.c.mu.Unlock()
	if t.State == TArmed {
		t.State = TStopped
		return true
	}
	return false
}

// Reset re-targets an armed timer (true) or schedules the function to run again (false).
func (t *HTimer) Reset(d time.Duration) bool {
	t.c.mu.Lock()
	defer t.c.mu.Unlock()
	was := t.State == TArmed
	t.State, t.Target = TArmed, t.c.now.Add(d)
	return was
}

// Advance moves time on; every armed timer whose target is reached fires (its callback is
// queued, in target order).
func (c *HClock) Advance(d time.Duration) {
	c.mu.Lock()
	defer c.mu.Unlock()
	c.now = c.now.Add(d)
	for {
		var best *HTimer
		for _, t := range c.Timers {
			if t.State == TArmed && !t.Target.After(c.now) && (best == nil || t.Target.Before(best.Target)) {
				best = t
			}
		}
		if best == nil {
			return
		}
		best.State = TFired
		c.Pending = append(c.Pending, &HCallback{Timer: best})
	}
}

// Start runs pending callback i on its own goroutine until it calls Now() (it parks there) or
// returns. It reports false when the callback neither parked nor returned within limit.
func (c *HClock) Start(i int, limit time.Duration) bool {
	c.mu.Lock()
	if c.InFlight != nil || i < 0 || i >= len(c.Pending) {
		c.mu.Unlock()
		return true
	}
	cb := c.Pending[i]
	c.Pending = append(c.Pending[:i:i], c.Pending[i+1:]...)
	cb.done = make(chan struct{})
	c.InFlight, c.expectNow, c.free = cb, true, false
	c.reached, c.release = make(chan struct{}), make(chan struct{})
	reached := c.reached
	started := make(chan struct{})
	go func() {
		defer close(cb.done)
		cb.gid = curGID()
		close(started)
		cb.Timer.f()
	}()
	<-started
	c.mu.Unlock()
	select {
	case <-reached:
		return true
	case <-cb.done: // returned without reading the clock
		c.mu.Lock()
		c.InFlight, c.expectNow = nil, false
		c.mu.Unlock()
		return true
	case <-time.After(limit):
		return false
	}
}

// Step releases the parked callback until its next yield point (it parks again) or its end. It
// reports false when neither happens within limit; done tells whether the callback returned.
func (c *HClock) Step(limit time.Duration) (ok, done bool) {
	c.mu.Lock()
	cb := c.InFlight
	if cb == nil {
		c.mu.Unlock()
		return true, true
	}
	release := c.release
	c.reached, c.release = make(chan struct{}), make(chan struct{})
	reached := c.reached
	c.mu.Unlock()
	close(release)
	select {
	case <-reached:
		return true, false
	case <-cb.done:
		c.mu.Lock()
		c.InFlight, c.expectNow = nil, false
		c.mu.Unlock()
		return true, true
	case <-time.After(limit):
		return false, false
	}
}

// Finish releases the parked callback and waits until it has returned.
func (c *HClock) Finish(limit time.Duration) bool {
	c.mu.Lock()
	cb := c.InFlight
	if cb == nil {
		c.mu.Unlock()
		return true
	}
	c.free = true
	release := c.release
	c.mu.Unlock()
	close(release)
	select {
	case <-cb.done:
	case <-time.After(limit):
		return false
	}
	c.mu.Lock()
	c.InFlight = nil
	c.mu.Unlock()
	return true
}
