//go:build verif

package glue

import (
	"fmt"
	"runtime"
	"runtime/debug"
	"time"

	"github.com/vmware/go-ipfix/pkg/collector"
	"github.com/vmware/go-ipfix/pkg/entities"

	ref "verifharness/refipfix"
)

// Col wraps a collecting process that is driven in-process through the verif hooks.
type Col struct {
	CP    *collector.CollectingProcess
	Mode  collector.DecodingMode
	Proto string
	timer *time.Timer
}

// DecodeResult is what one decode attempt produced.
type DecodeResult struct {
	Msg        *entities.Message
	Err        error
	Deliveries []*entities.Message
	Panic      string
	Hung       bool
	HungWhy    string
}

// NewCol builds a collecting process (never started) for in-process decoding.
func NewCol(proto string, mode collector.DecodingMode, clk collector.VerifClock, ttl uint32) *Col {
	return NewColEnc(proto, mode, clk, ttl, false)
}

// NumExtraElements is the NumExtraElements setting of the collecting processes built by NewCol /
// NewColEnc (spare capacity of every decoded record's element list; 0 unless a check sets it for a
// case). Checks run their cases one after the other.
var NumExtraElements int

// MaxBufferSize is the MaxBufferSize setting of the collecting processes built by NewCol / NewColEnc
// (0: 65535). It sizes the datagram buffer of udp collectors; a stream collector has no use for it,
// and what it decodes must not depend on it.
var MaxBufferSize uint16

// NewColEnc is NewCol with the IsEncrypted flag of the configuration set as given (no socket is
// opened, so no certificate is needed).
func NewColEnc(proto string, mode collector.DecodingMode, clk collector.VerifClock, ttl uint32, encrypted bool) *Col {
	mbs := uint16(65535)
	if MaxBufferSize != 0 {
		mbs = MaxBufferSize
	}
	in := collector.CollectorInput{Address: "127.0.0.1:0", Protocol: proto, MaxBufferSize: mbs, TemplateTTL: ttl, DecodingMode: mode, IsEncrypted: encrypted, NumExtraElements: NumExtraElements}
	var cp *collector.CollectingProcess
	var err error
	if clk != nil {
		cp, err = collector.VerifNewCollectingProcess(in, clk)
	} else {
		cp, err = collector.InitCollectingProcess(in)
	}
	if err != nil {
		panic(err)
	}
	return &Col{CP: cp, Mode: mode, Proto: proto, timer: time.NewTimer(time.Hour)}
}

// HangLimit is how long a decode may take before it is declared hung (normal: < 1 ms);
// HeapLimit is how much the heap may grow during one decode of a <= 64 KiB input
// (normal: a few MiB). Both are about three orders of magnitude above normal.
var (
	HangLimit        = 10 * time.Second
	HeapLimit uint64 = 1 << 30
)

// Decode feeds one packet; deliveries on the message channel are collected until the
// decoder returns. Panics are recovered and reported; a decoder that does not return
// within HangLimit is reported as hung (the goroutine cannot be killed: the caller must
// abandon the process).
func (c *Col) Decode(pkt []byte, addr string) DecodeResult {
	done := make(chan DecodeResult, 1)
	go func() {
		defer func() {
			if p := recover(); p != nil {
				done <- DecodeResult{Panic: fmt.Sprintf("%v\n%s", p, firstLines(string(debug.Stack()), 14))}
			}
		}()
		m, err := c.CP.VerifDecodePacket(pkt, addr)
		done <- DecodeResult{Msg: m, Err: err}
	}()
	if !c.timer.Stop() {
		select {
		case <-c.timer.C:
		default:
		}
	}
	c.timer.Reset(200 * time.Millisecond)
	var del []*entities.Message
	start := time.Now()
	var base uint64
	for {
		select {
		case m := <-c.CP.GetMsgChan():
			del = append(del, m)
		case r := <-done:
			r.Deliveries = del
			return r
		case <-c.timer.C:
			var ms runtime.MemStats
			runtime.ReadMemStats(&ms)
			if base == 0 {
				base = ms.HeapAlloc
			}
			if el := time.Since(start); el > HangLimit {
				return DecodeResult{Hung: true, Deliveries: del, HungWhy: fmt.Sprintf("decode has not returned after %v", el.Round(time.Second))}
			}
			if ms.HeapAlloc > base+HeapLimit {
				return DecodeResult{Hung: true, Deliveries: del, HungWhy: fmt.Sprintf("heap grew by %d MiB within %v while decoding a %d-byte packet", (ms.HeapAlloc-base)>>20, time.Since(start).Round(time.Millisecond), len(pkt))}
			}
			c.timer.Reset(200 * time.Millisecond)
		}
	}
}

func firstLines(s string, n int) string {
	cnt := 0
	for i, ch := range s {
		if ch == '\n' {
			cnt++
			if cnt == n {
				return s[:i]
			}
		}
	}
	return s
}

// RecValue is one delivered field.
type RecValue struct {
	F ref.Field
	V ref.Value
}

// Records extracts the delivered records of a message in reference form.
func Records(m *entities.Message) ([][]RecValue, error) {
	var out [][]RecValue
	for _, r := range m.GetSet().GetRecords() {
		var rec []RecValue
		for _, el := range r.GetOrderedElementList() {
			f, ok := FieldOf(el.GetInfoElement())
			if !ok {
				return nil, fmt.Errorf("delivered element %q has unsupported type %d", el.GetName(), el.GetDataType())
			}
			v, _, err := ValueOf(el)
			if err != nil {
				return nil, err
			}
			rec = append(rec, RecValue{F: f, V: v})
		}
		out = append(out, rec)
	}
	return out, nil
}
