//go:build verif

package glue

import (
	"fmt"
	"reflect"
	"time"

	"github.com/vmware/go-ipfix/pkg/collector"
	"github.com/vmware/go-ipfix/pkg/entities"

	"verifharness/ev"
	ref "verifharness/refipfix"
)

// FrozenClock is a VerifClock whose time never moves and whose timers never fire.
type FrozenClock struct{ T time.Time }

type frozenTimer struct{}

func (frozenTimer) Stop() bool                                             { return true }
func (frozenTimer) Reset(time.Duration) bool                               { return true }
func (c FrozenClock) Now() time.Time                                       { return c.T }
func (c FrozenClock) AfterFunc(time.Duration, func()) collector.VerifTimer { return frozenTimer{} }

// TplKey identifies a template.
type TplKey struct {
	Domain uint32
	ID     uint16
}

// StoredTemplates snapshots the collector's template table in reference form. Unknown
// elements have an empty Name.
func (c *Col) StoredTemplates() map[TplKey][]ref.Field {
	out := map[TplKey][]ref.Field{}
	for _, t := range c.CP.VerifTemplates() {
		fs := make([]ref.Field, len(t.Elements))
		for i, ie := range t.Elements {
			f, _ := FieldOf(ie)
			fs[i] = f
		}
		out[TplKey{t.ObsDomainID, t.TemplateID}] = fs
	}
	return out
}

// CheckTemplateMsg checks a delivered template message against the wire bytes of the
// template record (everything after the set header).
func CheckTemplateMsg(msg *entities.Message, body []byte) (ref.Template, *ev.Failure) {
	t, _, err := ref.ParseTemplateRecord(body)
	if err != nil {
		return t, ev.Failf("a template message was returned although the wire record is incomplete (%v)", err)
	}
	set := msg.GetSet()
	if set == nil || set.GetSetType() != entities.Template {
		return t, ev.Failf("set id 2 but the returned message does not carry a template set")
	}
	recs := set.GetRecords()
	if len(recs) != 1 {
		return t, ev.Failf("template message has %d records, want 1", len(recs))
	}
	if recs[0].GetTemplateID() != t.ID {
		return t, ev.Failf("template id delivered %d, wire %d", recs[0].GetTemplateID(), t.ID)
	}
	els := recs[0].GetOrderedElementList()
	if len(els) != len(t.Fields) {
		return t, ev.Failf("template message has %d fields, wire field count %d", len(els), len(t.Fields))
	}
	for i, el := range els {
		ie := el.GetInfoElement()
		if ie.ElementId != t.Fields[i].ID || ie.EnterpriseId != t.Fields[i].Ent {
			return t, ev.Failf("template field %d delivered (id %d, enterprise %d), wire (id %d, enterprise %d)", i, ie.ElementId, ie.EnterpriseId, t.Fields[i].ID, t.Fields[i].Ent)
		}
	}
	return t, nil
}

// CheckDataMsg checks a delivered data message against the reference slicing of the set
// body under the template in force (fields, in the collector's view of the lengths).
func CheckDataMsg(msg *entities.Message, fields []ref.Field, body []byte, mode collector.DecodingMode) *ev.Failure {
	set := msg.GetSet()
	if set == nil || set.GetSetType() != entities.Data {
		return ev.Failf("the returned message does not carry a data set")
	}
	r := ref.ParseDataSet(fields, body)
	if r.Malformed {
		return ev.Failf("a data message was returned although the set body does not hold complete records: %s", r.Why)
	}
	recs := set.GetRecords()
	if r.NoRecordsDefinable {
		if len(recs) != 0 {
			return ev.Failf("%d records delivered for a template whose records have zero length", len(recs))
		}
		return nil
	}
	if len(recs) != len(r.Records) {
		return ev.Failf("%d records delivered, the set body holds exactly %d (padding %d bytes, min record %d)", len(recs), len(r.Records), len(r.Padding), ref.MinRecLen(fields))
	}
	// every delivered field is an object of its own: consumers fill fields in place (the library's
	// aggregation process sets empty correlate fields of a held record), so two fields that are one
	// object make a write to one record show in another
	owner := map[entities.InfoElementWithValue]int{}
	for ri, rec := range recs {
		els := rec.GetOrderedElementList()
		if int(rec.GetFieldCount()) != len(els) {
			return ev.Failf("record %d: field count %d but %d elements", ri, rec.GetFieldCount(), len(els))
		}
		for fi, el := range els {
			if prev, dup := owner[el]; dup && reflect.ValueOf(el).Kind() == reflect.Ptr {
				return ev.Failf("record %d field %d is the same element object as a field of record %d: filling one in place changes the other", ri, fi, prev)
			}
			owner[el] = ri
		}
		k := 0
		for fi, f := range fields {
			if mode == collector.DecodingModeLenientDropUnknown && f.Name == "" {
				continue
			}
			if k >= len(els) {
				return ev.Failf("record %d: only %d fields delivered, field %d (%d/%d) missing", ri, len(els), fi, f.Ent, f.ID)
			}
			el := els[k]
			k++
			ie := el.GetInfoElement()
			if ie.ElementId != f.ID || ie.EnterpriseId != f.Ent {
				return ev.Failf("record %d field %d: delivered element (%d/%d), template says (%d/%d)", ri, fi, ie.EnterpriseId, ie.ElementId, f.Ent, f.ID)
			}
			got, t, err := ValueOf(el)
			if err != nil {
				return ev.Failf("record %d field %d: %v", ri, fi, err)
			}
			raw := r.Records[ri][fi]
			if t == ref.TBool && (len(raw) != 1 || (raw[0] != 1 && raw[0] != 2)) {
				continue // not a valid IPFIX boolean: value not judged
			}
			want := ref.DecodeValue(t, raw)
			if !SameValue(t, got, want) {
				return ev.Failf("record %d field %d (%s %d/%d): delivered %s, wire bytes % x", ri, fi, t, f.Ent, f.ID, fmtV(got), clipB(raw))
			}
		}
		if k != len(els) {
			return ev.Failf("record %d: %d fields delivered, template defines %d", ri, len(els), k)
		}
	}
	return nil
}

// ExtendAndRecheck plays a consumer that extends the records of a delivered data message: the records
// are the consumer's once delivered, and consumers append fields to them (the library's own aggregation
// process does). One more field on every record must leave every other record of the message as it
// was delivered. The message is changed by the call: use it when everything else has been judged.
func ExtendAndRecheck(msg *entities.Message) *ev.Failure {
	set := msg.GetSet()
	if set == nil || set.GetSetType() != entities.Data {
		return nil
	}
	recs := set.GetRecords()
	type seen struct {
		el entities.InfoElementWithValue
		v  ref.Value
		t  ref.Type
	}
	before := make([][]seen, len(recs))
	for ri, rec := range recs {
		for _, el := range rec.GetOrderedElementList() {
			v, t, _ := ValueOf(el)
			before[ri] = append(before[ri], seen{el, v, t})
		}
	}
	extra := entities.NewInfoElement("verifAppendedByConsumer", 998, entities.Unsigned32, UserEnt, 4)
	for ri, rec := range recs {
		if err := rec.AddInfoElement(entities.NewUnsigned32InfoElement(extra, uint32(ri))); err != nil {
			return nil // records that cannot be extended: nothing to check
		}
	}
	for ri, rec := range recs {
		els := rec.GetOrderedElementList()
		if len(els) != len(before[ri])+1 {
			return ev.Failf("after the consumer appended one field to every delivered record, record %d has %d fields (%d were delivered)", ri, len(els), len(before[ri]))
		}
		for fi, b := range before[ri] {
			v, _, _ := ValueOf(els[fi])
			if els[fi] != b.el || !SameValue(b.t, v, b.v) {
				return ev.Failf("after the consumer appended one field to every delivered record, field %d of record %d is no longer what was delivered (now element %q): the records of one message share storage", fi, ri, els[fi].GetName())
			}
		}
	}
	return nil
}

func clipB(b []byte) []byte {
	if len(b) > 32 {
		return b[:32]
	}
	return b
}

func fmtV(v ref.Value) string {
	if v.B != nil {
		return fmt.Sprintf("bytes[%d] % x", len(v.B), clipB(v.B))
	}
	return fmt.Sprintf("%#x", v.U)
}
