// Package glue adapts between go-ipfix's public API and the reference codec.
package glue

import (
	"flag"
	"fmt"
	"io"
	"net"
	"sort"
	"sync"

	"k8s.io/klog/v2"

	"github.com/vmware/go-ipfix/pkg/entities"
	"github.com/vmware/go-ipfix/pkg/registry"

	ref "verifharness/refipfix"
)

// SilenceKlog discards the library's logging (it logs every decode error).
func SilenceKlog() {
	fs := flag.NewFlagSet("klog", flag.ContinueOnError)
	klog.InitFlags(fs)
	fs.Set("logtostderr", "false")
	fs.Set("alsologtostderr", "false")
	fs.Set("stderrthreshold", "FATAL")
	klog.SetOutput(io.Discard)
}

var libTypes = map[ref.Type]entities.IEDataType{
	ref.TOctets: entities.OctetArray, ref.TU8: entities.Unsigned8, ref.TU16: entities.Unsigned16,
	ref.TU32: entities.Unsigned32, ref.TU64: entities.Unsigned64, ref.TI8: entities.Signed8,
	ref.TI16: entities.Signed16, ref.TI32: entities.Signed32, ref.TI64: entities.Signed64,
	ref.TF32: entities.Float32, ref.TF64: entities.Float64, ref.TBool: entities.Boolean,
	ref.TMac: entities.MacAddress, ref.TString: entities.String, ref.TDTSec: entities.DateTimeSeconds,
	ref.TDTMilli: entities.DateTimeMilliseconds, ref.TIPv4: entities.Ipv4Address, ref.TIPv6: entities.Ipv6Address,
}

var refTypes = func() map[entities.IEDataType]ref.Type {
	m := map[entities.IEDataType]ref.Type{}
	for k, v := range libTypes {
		m[v] = k
	}
	return m
}()

// LibType maps a reference type to the library's enumeration.
func LibType(t ref.Type) entities.IEDataType { return libTypes[t] }

// RefType maps a library type to the reference one; ok is false for unsupported types.
func RefType(t entities.IEDataType) (ref.Type, bool) { r, ok := refTypes[t]; return r, ok }

var (
	regOnce   sync.Once
	regFields []ref.Field
	regTaken  [][2]uint32
)

// RegistryTaken lists every (enterprise, id) present in the loaded registries, whatever the
// data type.
func RegistryTaken() [][2]uint32 {
	RegistryFields()
	return regTaken
}

// NewPoolArgs returns the arguments for gen.NewPool: registry + user elements of supported
// types, and all taken ids.
func NewPoolArgs() ([]ref.Field, [][2]uint32) {
	// (the long fixed-length octet arrays are left out: three records of them exceed a message)
	known := append(append([]ref.Field{}, RegistryFields()...), UserFields()[:int(ref.NumTypes)+100]...)
	// and a string element declared with a fixed length: on the wire exactly that many bytes
	known = append(known, FixedString)
	return known, RegistryTaken()
}

// LoadRegistry loads the library registry once.
func LoadRegistry() { regOnce.Do(func() { registry.LoadRegistry() }) }

// RegistryFields enumerates every element of the loaded IANA / reverse / Antrea
// registries whose data type the codec supports (by probing all ids; the registry has
// no listing API).
func RegistryFields() []ref.Field {
	LoadRegistry()
	regFieldsOnce.Do(fillRegFields)
	return regFields
}

var regFieldsOnce sync.Once

func fillRegFields() {
	for _, ent := range []uint32{registry.IANAEnterpriseID, registry.IANAReversedEnterpriseID, registry.AntreaEnterpriseID} {
		for id := 0; id < 32768; id++ {
			ie, err := registry.GetInfoElementFromID(uint16(id), ent)
			if err != nil || ie == nil {
				continue
			}
			regTaken = append(regTaken, [2]uint32{ent, uint32(id)})
			t, ok := RefType(ie.DataType)
			if !ok {
				continue
			}
			regFields = append(regFields, ref.Field{ID: ie.ElementId, Ent: ie.EnterpriseId, Len: ie.Len, Type: t, Name: ie.Name})
		}
	}
	sort.Slice(regFields, func(i, j int) bool {
		if regFields[i].Ent != regFields[j].Ent {
			return regFields[i].Ent < regFields[j].Ent
		}
		return regFields[i].ID < regFields[j].ID
	})
}

// NewCollectorPoolArgs is NewPoolArgs plus the user-registered string element declared with a
// fixed length (a collector slices it by that length; the exporter side is left out because the
// library encodes every string with a length prefix whatever its declared length).
func NewCollectorPoolArgs() ([]ref.Field, [][2]uint32) {
	known, taken := NewPoolArgs()
	return append(known, FixedString), taken
}

// SetKlogVerbosity sets klog's -v level (output stays discarded).
func SetKlogVerbosity(v int) {
	fs := flag.NewFlagSet("klogv", flag.ContinueOnError)
	klog.InitFlags(fs)
	fs.Set("logtostderr", "false")
	fs.Set("alsologtostderr", "false")
	fs.Set("stderrthreshold", "FATAL")
	fs.Set("v", fmt.Sprint(v))
	klog.SetOutput(io.Discard)
}

// SetValue writes v into an existing element object through its setter, or resets it when the value
// is empty (applications that reuse element objects across records do exactly this).
func SetValue(el entities.InfoElementWithValue, t ref.Type, v ref.Value) {
	if (t.IsBytes() && len(v.B) == 0) || (!t.IsBytes() && v.U == 0) {
		el.ResetValue()
		return
	}
	switch t {
	case ref.TOctets:
		el.SetOctetArrayValue(v.B)
	case ref.TU8:
		el.SetUnsigned8Value(uint8(v.U))
	case ref.TU16:
		el.SetUnsigned16Value(uint16(v.U))
	case ref.TU32, ref.TDTSec:
		el.SetUnsigned32Value(uint32(v.U))
	case ref.TU64, ref.TDTMilli:
		el.SetUnsigned64Value(v.U)
	case ref.TI8:
		el.SetSigned8Value(int8(v.U))
	case ref.TI16:
		el.SetSigned16Value(int16(v.U))
	case ref.TI32:
		el.SetSigned32Value(int32(v.U))
	case ref.TI64:
		el.SetSigned64Value(int64(v.U))
	case ref.TF32:
		el.SetFloat32Value(f32frombits(uint32(v.U)))
	case ref.TF64:
		el.SetFloat64Value(f64frombits(v.U))
	case ref.TBool:
		el.SetBooleanValue(v.U == 1)
	case ref.TMac:
		el.SetMacAddressValue(net.HardwareAddr(v.B))
	case ref.TString:
		el.SetStringValue(string(v.B))
	case ref.TIPv4, ref.TIPv6:
		el.SetIPAddressValue(net.IP(v.B))
	}
}

// IE returns the library element for a field: the registry's own object when it exists
// there, otherwise a fresh one built from the field.
func IE(f ref.Field) *entities.InfoElement {
	if ie, err := registry.GetInfoElementFromID(f.ID, f.Ent); err == nil && ie != nil && ie.Name == f.Name {
		return ie
	}
	return entities.NewInfoElement(f.Name, f.ID, LibType(f.Type), f.Ent, f.Len)
}

// FieldOf describes a library element as a reference field.
func FieldOf(ie *entities.InfoElement) (ref.Field, bool) {
	t, ok := RefType(ie.DataType)
	return ref.Field{ID: ie.ElementId, Ent: ie.EnterpriseId, Len: ie.Len, Type: t, Name: ie.Name}, ok
}

// Element builds the library's element-with-value for (field, value).
func Element(ie *entities.InfoElement, t ref.Type, v ref.Value) entities.InfoElementWithValue {
	switch t {
	case ref.TOctets:
		return entities.NewOctetArrayInfoElement(ie, v.B)
	case ref.TU8:
		return entities.NewUnsigned8InfoElement(ie, uint8(v.U))
	case ref.TU16:
		return entities.NewUnsigned16InfoElement(ie, uint16(v.U))
	case ref.TU32:
		return entities.NewUnsigned32InfoElement(ie, uint32(v.U))
	case ref.TU64:
		return entities.NewUnsigned64InfoElement(ie, v.U)
	case ref.TI8:
		return entities.NewSigned8InfoElement(ie, int8(v.U))
	case ref.TI16:
		return entities.NewSigned16InfoElement(ie, int16(v.U))
	case ref.TI32:
		return entities.NewSigned32InfoElement(ie, int32(v.U))
	case ref.TI64:
		return entities.NewSigned64InfoElement(ie, int64(v.U))
	case ref.TF32:
		return entities.NewFloat32InfoElement(ie, f32frombits(uint32(v.U)))
	case ref.TF64:
		return entities.NewFloat64InfoElement(ie, f64frombits(v.U))
	case ref.TBool:
		return entities.NewBoolInfoElement(ie, v.U == 1)
	case ref.TMac:
		return entities.NewMacAddressInfoElement(ie, net.HardwareAddr(v.B))
	case ref.TString:
		return entities.NewStringInfoElement(ie, string(v.B))
	case ref.TDTSec:
		return entities.NewDateTimeSecondsInfoElement(ie, uint32(v.U))
	case ref.TDTMilli:
		return entities.NewDateTimeMillisecondsInfoElement(ie, v.U)
	case ref.TIPv4, ref.TIPv6:
		return entities.NewIPAddressInfoElement(ie, net.IP(v.B))
	}
	panic(fmt.Sprintf("glue.Element: unsupported type %v", t))
}

// ValueOf extracts the value a library element holds, in reference form. Byte-string
// values are returned as the library holds them (no normalisation).
func ValueOf(el entities.InfoElementWithValue) (ref.Value, ref.Type, error) {
	t, ok := RefType(el.GetDataType())
	if !ok {
		return ref.Value{}, 0, fmt.Errorf("unsupported data type %d", el.GetDataType())
	}
	switch t {
	case ref.TOctets:
		return ref.Value{B: el.GetOctetArrayValue()}, t, nil
	case ref.TU8:
		return ref.Value{U: uint64(el.GetUnsigned8Value())}, t, nil
	case ref.TU16:
		return ref.Value{U: uint64(el.GetUnsigned16Value())}, t, nil
	case ref.TU32, ref.TDTSec:
		return ref.Value{U: uint64(el.GetUnsigned32Value())}, t, nil
	case ref.TU64, ref.TDTMilli:
		return ref.Value{U: el.GetUnsigned64Value()}, t, nil
	case ref.TI8:
		return ref.Value{U: uint64(uint8(el.GetSigned8Value()))}, t, nil
	case ref.TI16:
		return ref.Value{U: uint64(uint16(el.GetSigned16Value()))}, t, nil
	case ref.TI32:
		return ref.Value{U: uint64(uint32(el.GetSigned32Value()))}, t, nil
	case ref.TI64:
		return ref.Value{U: uint64(el.GetSigned64Value())}, t, nil
	case ref.TF32:
		return ref.Value{U: uint64(f32bits(el.GetFloat32Value()))}, t, nil
	case ref.TF64:
		return ref.Value{U: f64bits(el.GetFloat64Value())}, t, nil
	case ref.TBool:
		if el.GetBooleanValue() {
			return ref.Value{U: 1}, t, nil
		}
		return ref.Value{U: 0}, t, nil
	case ref.TMac:
		return ref.Value{B: el.GetMacAddressValue()}, t, nil
	case ref.TString:
		return ref.Value{B: []byte(el.GetStringValue())}, t, nil
	case ref.TIPv4, ref.TIPv6:
		return ref.Value{B: el.GetIPAddressValue()}, t, nil
	}
	return ref.Value{}, t, fmt.Errorf("unsupported type %v", t)
}

// SameValue compares two reference values of type t (nil and empty byte strings are the
// same value; numeric values compare at the type's width).
func SameValue(t ref.Type, a, b ref.Value) bool {
	if t == ref.TIPv4 || t == ref.TIPv6 {
		// a is what was observed (it must have the field's own width), b what the application
		// held (4-byte and IPv4-mapped 16-byte forms are the same address)
		b = ref.Value{B: ref.CanonIP(t, b.B)}
	}
	if t.IsBytes() {
		if len(a.B) != len(b.B) {
			return false
		}
		for i := range a.B {
			if a.B[i] != b.B[i] {
				return false
			}
		}
		return true
	}
	w := t.Width()
	mask := ^uint64(0)
	if w < 8 {
		mask = (uint64(1) << (8 * uint(w))) - 1
	}
	return a.U&mask == b.U&mask
}
