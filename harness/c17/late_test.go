//go:build verif

package c17

import (
	"fmt"
	"testing"

	"github.com/vmware/go-ipfix/pkg/collector"
	"github.com/vmware/go-ipfix/pkg/entities"
	"github.com/vmware/go-ipfix/pkg/registry"

	"verifharness/ev"
	"verifharness/glue"
	ref "verifharness/refipfix"
)

// Late is one "registered later" history: a collector in mode Mode first sees element
// (lateEnt, 100+K) while no registry knows it; then the application registers it (unsigned32) and the
// exporter announces its template again. "Absent from the registry" is judged when a template
// arrives: from the re-announcement on the element is known - strict accepts the template, every
// mode delivers a typed field.
type Late struct {
	Mode string `json:"mode"`
	K    int    `json:"k"`
}

const lateEnt = 55557

var lateRegistry = false

func runLate(c Late) *ev.Failure {
	if !lateRegistry {
		if err := registry.InitNewRegistry(lateEnt); err != nil {
			return ev.Failf("InitNewRegistry: %v", err)
		}
		lateRegistry = true
	}
	mode := collector.DecodingMode(c.Mode)
	col := glue.NewCol("tcp", mode, nil, 0)
	id := uint16(100 + c.K)
	var a, b ref.Field
	for _, f := range glue.RegistryFields() {
		if f.Name == "sourceTransportPort" && f.Ent == 0 {
			a = f
		}
		if f.Name == "protocolIdentifier" && f.Ent == 0 {
			b = f
		}
	}
	x := ref.Field{ID: id, Ent: lateEnt, Len: 4, Type: ref.TU32, Name: fmt.Sprintf("lateElement%d", c.K)}
	h := ref.Header{Domain: 3}
	tpl := ref.TemplateMessage(h, ref.Template{ID: 256, Fields: []ref.Field{a, x, b}})
	data := ref.DataMessage(h, ref.Template{ID: 256, Fields: []ref.Field{a, x, b}}, [][]ref.Value{{{U: 443}, {U: 0xCAFE0000 + uint64(c.K)}, {U: 6}}})
	// before the registration: the element is unknown
	dr := col.Decode(tpl, "10.0.0.1:1")
	if dr.Panic != "" || dr.Hung {
		return ev.Failf("decoder crashed or hung: %s%s", dr.Panic, dr.HungWhy)
	}
	if mode == collector.DecodingModeStrict && dr.Err == nil {
		return ev.Failf("strict mode accepted a template with the (then) unknown element %d/%d", lateEnt, id)
	}
	if mode != collector.DecodingModeStrict {
		if dr.Err != nil {
			return ev.Failf("%s rejected a template with an unknown element: %v", c.Mode, dr.Err)
		}
		if dr := col.Decode(data, "10.0.0.1:1"); dr.Err != nil {
			return ev.Failf("%s rejected data while the element was unknown: %v", c.Mode, dr.Err)
		}
	}
	// the application registers the element
	if err := registry.PutInfoElement(*entities.NewInfoElement(x.Name, id, entities.Unsigned32, lateEnt, 4), lateEnt); err != nil {
		return ev.Failf("PutInfoElement: %v", err)
	}
	// the template is announced again; the element is in the registry now
	if dr := col.Decode(tpl, "10.0.0.1:1"); dr.Err != nil {
		return ev.Failf("%s: template rejected after element %d/%d had been registered: %v", c.Mode, lateEnt, id, dr.Err)
	}
	dr = col.Decode(data, "10.0.0.1:1")
	if dr.Err != nil {
		return ev.Failf("%s: data rejected after element %d/%d had been registered and its template announced again: %v", c.Mode, lateEnt, id, dr.Err)
	}
	recs := dr.Msg.GetSet().GetRecords()
	if len(recs) != 1 {
		return ev.Failf("%s: %d records delivered, 1 sent", c.Mode, len(recs))
	}
	els := recs[0].GetOrderedElementList()
	if len(els) != 3 {
		return ev.Failf("%s: after element %d/%d had been registered and its template announced again, the record is delivered with %d fields (it has 3 registered elements)", c.Mode, lateEnt, id, len(els))
	}
	ie := els[1].GetInfoElement()
	if ie.Name != x.Name || ie.DataType != entities.Unsigned32 {
		return ev.Failf("%s: after element %d/%d had been registered (%q, unsigned32) and its template announced again, it is delivered as %q of type %d", c.Mode, lateEnt, id, x.Name, ie.Name, ie.DataType)
	}
	if v := els[1].GetUnsigned32Value(); v != uint32(0xCAFE0000+c.K) {
		return ev.Failf("%s: registered element delivered with value %#x, sent %#x", c.Mode, v, 0xCAFE0000+c.K)
	}
	return nil
}

// TestC17LateRegistration runs after TestC17 (file order): it adds elements to the process-wide
// registry, under an enterprise number no other phase uses.
func TestC17LateRegistration(t *testing.T) {
	if ev.Shard() > 1 {
		return
	}
	k := 0
	for _, mode := range []string{"Strict", "LenientKeepUnknown", "LenientDropUnknown"} {
		for n := 0; n < 4; n++ {
			c := Late{Mode: mode, K: k}
			k++
			f := runLate(c)
			rec.Case(ev.Hash(c), true, "element_registered_after_it_was_first_seen", "mode_"+mode)
			if n == 0 {
				rec.Sample("late_registration", c)
			}
			if f != nil {
				rec.Violation("late_registration", c, f.Msg)
				t.Fatalf("%s", f.Msg)
			}
		}
	}
}

// TestC17RegistryConsistency: "absent from the registry" is decided here in two independent ways.
// The collector resolves template fields by (enterprise, id); the registry can also be asked by
// (enterprise, name). Every element the id lookup resolves, over all ids of the three shipped
// enterprises, must be one the name lookup knows too, with the same definition - otherwise the
// collector treats as known an element that is not in the registry.
// rfc5103NonReversible: the IANA ids of the information elements RFC 5103, section 6.1, lists as
// having no reverse counterpart (written down from the RFC and the IANA registry, not from the
// library's table): biflowDirection, the collector / exporter addresses, ports and protocol, the
// export and metering statistics, the identifiers, flowKeyIndicator, paddingOctets.
var rfc5103NonReversible = map[uint16]bool{239: true, 211: true, 212: true, 216: true, 137: true, 41: true, 40: true, 42: true, 130: true, 131: true, 217: true,
	213: true, 214: true, 215: true, 148: true, 173: true, 164: true, 165: true, 166: true, 167: true, 168: true, 149: true, 163: true, 210: true, 145: true}

func checkRegistryEntry(a []uint32) *ev.Failure {
	ent, id := a[0], a[1]
	ie, err := registry.GetInfoElementFromID(uint16(id), ent)
	if err != nil || ie == nil {
		return nil
	}
	if ent == registry.IANAReversedEnterpriseID && rfc5103NonReversible[uint16(id)] {
		return ev.Failf("the registry of reverse elements (enterprise %d) holds id %d as %q, an element RFC 5103 (section 6.1) lists as not reversible: a template naming it is a template with an unknown element, to be refused in strict mode and carried as octets otherwise", ent, id, ie.Name)
	}
	byName, err := registry.GetInfoElement(ie.Name, ent)
	if err != nil || byName == nil || byName.ElementId != ie.ElementId || byName.EnterpriseId != ie.EnterpriseId || byName.DataType != ie.DataType || byName.Len != ie.Len {
		return ev.Failf("element (%d, %d) resolves by id to %q (type %d, length %d), but the registry of enterprise %d does not hold an element of that name with that definition (%v): the collector would treat an element that is absent from the registry as known", ent, id, ie.Name, ie.DataType, ie.Len, ent, err)
	}
	return nil
}

func TestC17RegistryConsistency(t *testing.T) {
	if ev.Shard() > 1 {
		return
	}
	n := 0
	for _, ent := range []uint32{registry.IANAEnterpriseID, registry.IANAReversedEnterpriseID, registry.AntreaEnterpriseID} {
		for id := 0; id < 32768; id++ {
			if ie, err := registry.GetInfoElementFromID(uint16(id), ent); err == nil && ie != nil {
				n++
			}
			if f := checkRegistryEntry([]uint32{ent, uint32(id)}); f != nil {
				rec.Violation("registry_consistency", []uint32{ent, uint32(id)}, f.Msg)
				t.Fatalf("%s", f.Msg)
			}
		}
	}
	rec.Case(ev.Hash([]any{"registry_consistency", n}), true, "registry_id_and_name_lookups_agree")
}
