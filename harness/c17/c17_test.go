//go:build verif

// C17 — unknown information elements: strict rejects, keep preserves, drop omits exactly.
package c17

import (
	"bytes"
	"os"
	"testing"
	"time"

	"pgregory.net/rapid"

	"github.com/vmware/go-ipfix/pkg/collector"
	"github.com/vmware/go-ipfix/pkg/entities"

	"verifharness/ev"
	"verifharness/gen"
	"verifharness/glue"
	ref "verifharness/refipfix"
)

// Case is one template (known and unknown elements interleaved) and records for it.
type Case struct {
	Proto  string        `json:"proto"`
	Fields []gen.TField  `json:"fields"`
	Recs   [][]ref.Value `json:"recs"`
	// NumExtra: the collectors' NumExtraElements setting
	NumExtra int `json:"num_extra,omitempty"`
	// Pad > 0: the data set ends with zero bytes of padding, fewer than the shortest possible record
	// (RFC 7011 3.3.1)
	Pad int `json:"pad,omitempty"`
	// MaxBuf: the collectors' MaxBufferSize setting (0: 65535). The messages go straight to the
	// decoder, as on a stream transport, where that setting has nothing to say about field lengths.
	MaxBuf uint16 `json:"max_buf,omitempty"`
}

var (
	rec  *ev.Recorder
	pool *gen.Pool
)

func TestMain(m *testing.M) {
	glue.SilenceKlog()
	pool = gen.NewPool(glue.NewCollectorPoolArgs())
	if rp := ev.LoadReplay(); rp != nil {
		if rp.Phase == "registry_consistency" {
			ev.RunReplay(rp, checkRegistryEntry)
		}
		if rp.Phase == "late_registration" {
			ev.RunReplay(rp, runLate)
		}
		ev.RunReplay(rp, runCase)
	}
	rec = ev.New("C17", "templates of 1..30 fields interleaving registry elements with unknown ones (unassigned IANA ids, unknown ids in enterprises 29305/56506, unknown enterprises; fixed lengths 1..64 and variable length; first/middle/last positions and adjacent runs), 1..5 records with variable-length values straddling 255, the same wire bytes given to a strict, a keep and a drop collector plus a collector that gets the case with the unknown fields deleted; non-trivial = at least one unknown and one known element; distinct by hash of the case",
		"reference codec refipfix", "verif hook VerifDecodePacket")
	code := m.Run()
	rec.Write()
	os.Exit(code)
}

func decodeOK(col *glue.Col, pkt []byte, what string) (*entities.Message, *ev.Failure) {
	dr := col.Decode(pkt, "10.1.2.3:4739")
	if dr.Hung || dr.Panic != "" {
		return nil, ev.Failf("%s: decoder crashed or hung: %s%s", what, dr.Panic, dr.HungWhy)
	}
	if dr.Err != nil {
		return nil, ev.Failf("%s rejected: %v", what, dr.Err)
	}
	return dr.Msg, nil
}

func knownValues(m *entities.Message) [][]glue.RecValue {
	var out [][]glue.RecValue
	recs, _ := glue.Records(m)
	for _, r := range recs {
		var kr []glue.RecValue
		for _, v := range r {
			if v.F.Name != "" {
				kr = append(kr, v)
			}
		}
		out = append(out, kr)
	}
	return out
}

func runCase(c Case) *ev.Failure {
	view := gen.View(c.Fields)
	tm := ref.TemplateMessage(ref.Header{Domain: 9, Seq: 1}, gen.Wire(256, c.Fields))
	dm := ref.DataMessage(ref.Header{Domain: 9, Seq: 2}, ref.Template{ID: 256, Fields: view}, c.Recs)
	if min := ref.MinRecLen(view); c.Pad > 0 && min > 1 && len(dm)+min < 65535 {
		dm = gen.FixLengths(append(dm, make([]byte, 1+(c.Pad-1)%(min-1))...))
	}
	nUnknown := 0
	for _, f := range c.Fields {
		if f.Unknown {
			nUnknown++
		}
	}
	mk := func(mode collector.DecodingMode) *glue.Col {
		var clk collector.VerifClock
		if c.Proto == "udp" {
			clk = glue.FrozenClock{}
		}
		glue.NumExtraElements = c.NumExtra
		defer func() { glue.NumExtraElements = 0 }()
		if c.Proto == "tcp" {
			glue.MaxBufferSize = c.MaxBuf
			defer func() { glue.MaxBufferSize = 0 }()
		}
		return glue.NewCol(c.Proto, mode, clk, 1800)
	}
	// reference run: the same case with the unknown fields deleted, strict collector
	var knownRef [][]glue.RecValue
	known := gen.Drop(c.Fields)
	if len(known) > 0 {
		col := mk(collector.DecodingModeStrict)
		var kf []gen.TField
		for _, f := range c.Fields {
			if !f.Unknown {
				kf = append(kf, f)
			}
		}
		var krecs [][]ref.Value
		for _, r := range c.Recs {
			var kr []ref.Value
			for i, f := range c.Fields {
				if !f.Unknown {
					kr = append(kr, r[i])
				}
			}
			krecs = append(krecs, kr)
		}
		if _, f := decodeOK(col, ref.TemplateMessage(ref.Header{Domain: 9}, gen.Wire(256, kf)), "template without the unknown fields"); f != nil {
			return f
		}
		m, f := decodeOK(col, ref.DataMessage(ref.Header{Domain: 9}, ref.Template{ID: 256, Fields: known}, krecs), "data without the unknown fields")
		if f != nil {
			return f
		}
		knownRef = knownValues(m)
	}
	// strict (the id was defined before with the known fields only, when there are any: a rejected
	// redefinition must not leave the older definition usable for "the data that follows")
	{
		col := mk(collector.DecodingModeStrict)
		if len(known) > 0 && nUnknown > 0 {
			var kf []gen.TField
			for _, f := range c.Fields {
				if !f.Unknown {
					kf = append(kf, f)
				}
			}
			if _, f := decodeOK(col, ref.TemplateMessage(ref.Header{Domain: 9}, gen.Wire(256, kf)), "strict: earlier template of known fields"); f != nil {
				return f
			}
		}
		dr := col.Decode(tm, "10.1.2.3:4739")
		if dr.Hung || dr.Panic != "" {
			return ev.Failf("strict: crashed or hung on the template: %s%s", dr.Panic, dr.HungWhy)
		}
		if nUnknown > 0 {
			if dr.Err == nil {
				return ev.Failf("strict mode accepted a template with %d unknown elements", nUnknown)
			}
			dd := col.Decode(dm, "10.1.2.3:4739")
			if dd.Hung || dd.Panic != "" {
				return ev.Failf("strict: crashed or hung on the data: %s%s", dd.Panic, dd.HungWhy)
			}
			if dd.Err == nil {
				return ev.Failf("strict mode decoded data whose template was rejected")
			}
		} else if dr.Err != nil {
			return ev.Failf("strict mode rejected a template of known elements: %v", dr.Err)
		}
	}
	for _, mode := range []collector.DecodingMode{collector.DecodingModeLenientKeepUnknown, collector.DecodingModeLenientDropUnknown} {
		col := mk(mode)
		tmsg, f := decodeOK(col, tm, string(mode)+": template")
		if f != nil {
			return f
		}
		if _, f := glue.CheckTemplateMsg(tmsg, tm[20:]); f != nil {
			return ev.Failf("%s: %s", mode, f.Msg)
		}
		if len(known) == 0 && mode == collector.DecodingModeLenientDropUnknown {
			// nothing but unknown fields: records are empty, any well-formed outcome is acceptable
		}
		m, f := decodeOK(col, dm, string(mode)+": data")
		if f != nil {
			return f
		}
		if f := glue.CheckDataMsg(m, view, dm[20:], mode); f != nil {
			return ev.Failf("%s: %s", mode, f.Msg)
		}
		recs, err := glue.Records(m)
		if err != nil {
			return ev.Failf("%s: %v", mode, err)
		}
		for ri, r := range recs {
			if mode == collector.DecodingModeLenientKeepUnknown {
				if len(r) != len(c.Fields) {
					return ev.Failf("keep: record %d has %d fields, template %d", ri, len(r), len(c.Fields))
				}
				for fi, f := range c.Fields {
					if !f.Unknown {
						continue
					}
					if r[fi].F.Type != ref.TOctets {
						return ev.Failf("keep: unknown field %d delivered as %s, not as an octet array", fi, r[fi].F.Type)
					}
					if !bytes.Equal(r[fi].V.B, c.Recs[ri][fi].B) {
						return ev.Failf("keep: unknown field %d of record %d holds %d bytes % x, received %d bytes % x", fi, ri, len(r[fi].V.B), clip(r[fi].V.B), len(c.Recs[ri][fi].B), clip(c.Recs[ri][fi].B))
					}
				}
			} else if len(r) != len(known) {
				return ev.Failf("drop: record %d has %d fields, the template has %d known elements", ri, len(r), len(known))
			}
		}
		// re-announcement: the same template id again, identical except for the declared length of its
		// first unknown element; data for the new definition must be decoded with the new length
		for ui, uf := range c.Fields {
			if !uf.Unknown {
				continue
			}
			f2 := append([]gen.TField(nil), c.Fields...)
			newLen := uint16(6)
			if uf.Len == 6 {
				newLen = ref.VarLen
			}
			f2[ui].Len, f2[ui].WireLen = newLen, newLen
			view2 := gen.View(f2)
			var recs2 [][]ref.Value
			for _, r := range c.Recs {
				r2 := append([]ref.Value(nil), r...)
				b := append([]byte(nil), r[ui].B...)
				if newLen != ref.VarLen {
					b = append(b, 0xA1, 0xB2, 0xC3, 0xD4, 0xE5, 0xF6)[:6]
					if len(r[ui].B) > 6 {
						b = append([]byte(nil), r[ui].B[:6]...)
					}
				}
				r2[ui] = ref.Value{B: b}
				recs2 = append(recs2, r2)
			}
			if _, f := decodeOK(col, ref.TemplateMessage(ref.Header{Domain: 9, Seq: 3}, gen.Wire(256, f2)), string(mode)+": template re-announced with another length for the unknown element"); f != nil {
				return f
			}
			dm2 := ref.DataMessage(ref.Header{Domain: 9, Seq: 4}, ref.Template{ID: 256, Fields: view2}, recs2)
			m2, f := decodeOK(col, dm2, string(mode)+": data after the re-announcement")
			if f != nil {
				return f
			}
			if f := glue.CheckDataMsg(m2, view2, dm2[20:], mode); f != nil {
				return ev.Failf("%s, after the template was re-announced with length %d instead of %d for unknown element %d/%d: %s", mode, newLen, uf.Len, uf.Ent, uf.ID, f.Msg)
			}
			break
		}
		// metamorphic: known fields as if the unknown ones were not there
		if knownRef != nil {
			got := knownValues(m)
			if len(got) != len(knownRef) {
				return ev.Failf("%s: %d records, %d without the unknown fields", mode, len(got), len(knownRef))
			}
			for ri := range got {
				if len(got[ri]) != len(knownRef[ri]) {
					return ev.Failf("%s: record %d has %d known fields, %d without the unknown fields", mode, ri, len(got[ri]), len(knownRef[ri]))
				}
				for k := range got[ri] {
					a, b := got[ri][k], knownRef[ri][k]
					if a.F.ID != b.F.ID || a.F.Ent != b.F.Ent || !glue.SameValue(a.F.Type, a.V, b.V) {
						return ev.Failf("%s: record %d known field %d (%s) = %+v, but %+v when the unknown fields are not there", mode, ri, k, a.F.Name, a.V, b.V)
					}
				}
			}
		}
	}
	// the transport path: the same template, then the records as separate data messages, longest
	// first, through the TCP connection handler; every delivered message is retained and inspected
	// only after the whole stream was read (a field must not share memory with the read buffer)
	if c.Proto == "tcp" {
		for _, mode := range []collector.DecodingMode{collector.DecodingModeLenientKeepUnknown, collector.DecodingModeLenientDropUnknown} {
			cp, err := collector.InitCollectingProcess(collector.CollectorInput{Address: "127.0.0.1:0", Protocol: "tcp", MaxBufferSize: 65535, DecodingMode: mode})
			if err != nil {
				return ev.Failf("InitCollectingProcess: %v", err)
			}
			order := make([]int, len(c.Recs))
			for i := range order {
				order[i] = i
			}
			size := func(i int) int { return len(ref.EncodeDataRecord(nil, view, c.Recs[i])) }
			for i := 1; i < len(order); i++ {
				for j := i; j > 0 && size(order[j]) > size(order[j-1]); j-- {
					order[j], order[j-1] = order[j-1], order[j]
				}
			}
			stream := append([]byte(nil), tm...)
			var wires [][]byte
			for k, ri := range order {
				w := ref.DataMessage(ref.Header{Domain: 9, Seq: uint32(10 + k)}, ref.Template{ID: 256, Fields: view}, [][]ref.Value{c.Recs[ri]})
				wires = append(wires, w)
				stream = append(stream, w...)
			}
			got, ok := glue.ServeTCP(cp, &glue.ChunkConn{Chunks: [][]byte{stream}}, 15*time.Second)
			if !ok {
				return ev.Failf("%s over tcp: the connection handler did not return", mode)
			}
			if len(got) != 1+len(wires) {
				return ev.Failf("%s over tcp: %d messages delivered, %d sent", mode, len(got), 1+len(wires))
			}
			for k, w := range wires {
				if f := glue.CheckDataMsg(got[1+k], view, w[20:], mode); f != nil {
					return ev.Failf("%s over tcp, message %d inspected after the whole stream was read: %s", mode, k, f.Msg)
				}
			}
		}
	}
	return nil
}

func clip(b []byte) []byte {
	if len(b) > 24 {
		return b[:24]
	}
	return b
}

func genCase(t *rapid.T) Case {
	c := Case{Proto: rapid.SampledFrom([]string{"tcp", "udp"}).Draw(t, "proto")}
	c.NumExtra = rapid.SampledFrom([]int{0, 0, 1, 3, 16}).Draw(t, "num_extra")
	c.MaxBuf = rapid.SampledFrom([]uint16{0, 0, 1024, 100, 1}).Draw(t, "max_buf")
	if rapid.IntRange(0, 2).Draw(t, "padded") == 0 {
		c.Pad = rapid.IntRange(1, 64).Draw(t, "pad")
	}
	n := rapid.IntRange(1, 30).Draw(t, "nf")
	maxVar := 700
	switch small := rapid.IntRange(0, 15).Draw(t, "small"); {
	case small == 0: // templates as wide as real flow exporters send (Antrea: about 60 to 100 fields)
		n, maxVar = rapid.IntRange(60, 140).Draw(t, "nfw"), 20
		if rapid.IntRange(0, 3).Draw(t, "huge") == 0 { // and far wider: the field count is a 16-bit number
			n, maxVar = rapid.IntRange(250, 420).Draw(t, "nfh"), 4
		}
	case small > 4:
		n = rapid.IntRange(1, 6).Draw(t, "nfs")
	}
	punk := rapid.SampledFrom([]int{0, 2, 5, 8, 10}).Draw(t, "punk")
	for i := 0; i < n; i++ {
		if rapid.IntRange(0, 9).Draw(t, "u") < punk {
			f := pool.UnknownField(t, false)
			if f.Len != ref.VarLen && rapid.Bool().Draw(t, "anylen") {
				f.Len = uint16(rapid.IntRange(1, 64).Draw(t, "ulen2"))
				f.WireLen = f.Len
			}
			c.Fields = append(c.Fields, f)
		} else {
			c.Fields = append(c.Fields, pool.KnownField(t))
		}
	}
	view := gen.View(c.Fields)
	for k := rapid.IntRange(1, 5).Draw(t, "nrec"); k > 0; k-- {
		r := gen.Record(t, view, maxVar)
		gen.LongPrefixes(t, view, r)
		c.Recs = append(c.Recs, r)
	}
	return c
}

func TestC17(t *testing.T) {
	ev.Rapid(t, rec, "random", rec.Scale(20000, 3000000), genCase, func(c Case) *ev.Failure {
		nu, nk, varUnk, first, last, adj := 0, 0, false, false, false, false
		for i, f := range c.Fields {
			if f.Unknown {
				nu++
				varUnk = varUnk || f.Len == ref.VarLen
				first = first || i == 0
				last = last || i == len(c.Fields)-1
				adj = adj || (i > 0 && c.Fields[i-1].Unknown)
			} else {
				nk++
			}
		}
		var cl []string
		for k, b := range map[string]bool{"unknown_variable_length": varUnk, "unknown_first": first, "unknown_last": last, "unknown_adjacent": adj, "only_unknown": nk == 0 && nu > 0, "no_unknown": nu == 0} {
			if b {
				cl = append(cl, k)
			}
		}
		long := false
		for _, r := range c.Recs {
			for _, v := range r {
				long = long || len(v.B) >= 255
			}
		}
		if long {
			cl = append(cl, "value_255_or_longer")
		}
		rec.Case(ev.Hash(c), nu > 0 && nk > 0, cl...)
		if len(c.Fields) <= 4 && len(c.Recs) <= 2 {
			rec.Sample("small", c)
		}
		return runCase(c)
	})
}
