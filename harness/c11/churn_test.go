//go:build verif

package c11

import (
	"encoding/binary"
	"net"
	"sync"
	"sync/atomic"
	"time"

	"github.com/vmware/go-ipfix/pkg/collector"
	"github.com/vmware/go-ipfix/pkg/entities"

	"verifharness/ev"
	ref "verifharness/refipfix"
)

// ChurnCase: a real tcp collector serves Good well-behaved connections that stream data messages
// without pause (each in an observation domain of its own), while Bad clients connect over and
// over, send one undecodable message of kind Kind and wait for the collector to close the
// connection. For Seconds seconds:
//   - every faulty connection must be closed (8 s is the limit for "was not closed");
//   - what the good connections deliver is their own sequence, in order, without holes;
//   - at the end the good connections are still being served.
type ChurnCase struct {
	Good    int    `json:"good"`
	Bad     int    `json:"bad"`
	Kind    string `json:"kind"`
	Seconds int    `json:"seconds"`
	MaxBuf  uint16 `json:"max_buf,omitempty"`
}

func churnBad(kind string, dom uint32) []byte {
	f := fields()[0]
	switch kind {
	case "badversion":
		b := ref.DataMessage(ref.Header{Domain: dom}, ref.Template{ID: 256, Fields: f}, [][]ref.Value{{{B: []byte{10, 0, 0, 1}}, {U: 6}}})
		b[1] = 9
		return b
	case "badtemplate": // field count larger than what the set holds
		b := ref.TemplateMessage(ref.Header{Domain: dom}, ref.Template{ID: 300, Fields: f})
		b[23] = 9
		return b
	}
	// notemplate: a data set for a template nobody defined
	return ref.DataMessage(ref.Header{Domain: dom}, ref.Template{ID: 999, Fields: f}, [][]ref.Value{{{B: []byte{1, 2, 3, 4}}, {U: 6}}})
}

func runChurn(c ChurnCase) *ev.Failure {
	in := collector.CollectorInput{Address: "127.0.0.1:0", Protocol: "tcp", MaxBufferSize: c.MaxBuf}
	if in.MaxBufferSize == 0 {
		in.MaxBufferSize = 65535
	}
	cp, err := collector.InitCollectingProcess(in)
	if err != nil {
		return ev.Failf("InitCollectingProcess: %v", err)
	}
	go cp.Start()
	for i := 0; i < 3000 && cp.GetAddress() == nil; i++ {
		time.Sleep(time.Millisecond)
	}
	if cp.GetAddress() == nil {
		return nil
	}
	addr := cp.GetAddress().String()
	var delivered atomic.Int64
	var orderMu sync.Mutex
	var orderFail *ev.Failure
	next := map[uint32]uint32{}
	stopDrain, drained := make(chan struct{}), make(chan struct{})
	go func() {
		defer close(drained)
		for {
			select {
			case m := <-cp.GetMsgChan():
				delivered.Add(1)
				if d := m.GetObsDomainID(); d >= 100 && d < 1000 && m.GetSet().GetSetType() == entities.Data {
					orderMu.Lock()
					if m.GetSequenceNum() != next[d] && orderFail == nil {
						orderFail = ev.Failf("a well-behaved connection (observation domain %d) sent messages numbered 0,1,2,...: message %d was delivered where %d was due, while other connections sent undecodable messages (%s)", d, m.GetSequenceNum(), next[d], c.Kind)
					}
					next[d] = m.GetSequenceNum() + 1
					orderMu.Unlock()
				}
			case <-stopDrain:
				return
			}
		}
	}()
	var stop, stalled atomic.Bool
	var wg sync.WaitGroup
	var goodConns []net.Conn
	f := fields()[0]
	for g := 0; g < c.Good; g++ {
		conn, err := net.Dial("tcp", addr)
		if err != nil {
			continue
		}
		goodConns = append(goodConns, conn)
		dom := uint32(100 + g)
		wg.Add(1)
		go func() {
			defer wg.Done()
			conn.Write(ref.TemplateMessage(ref.Header{Domain: dom}, ref.Template{ID: 256, Fields: f}))
			data := ref.DataMessage(ref.Header{Domain: dom}, ref.Template{ID: 256, Fields: f}, [][]ref.Value{{{B: []byte{10, 0, 0, 1}}, {U: 6}}})
			for seq := uint32(0); !stop.Load(); seq++ {
				binary.BigEndian.PutUint32(data[8:], seq)
				if _, err := conn.Write(data); err != nil {
					return
				}
			}
		}()
	}
	var faulty atomic.Int64
	deadline := time.Now().Add(time.Duration(c.Seconds) * time.Second)
	for b := 0; b < c.Bad; b++ {
		msg := churnBad(c.Kind, uint32(1000+b))
		wg.Add(1)
		go func() {
			defer wg.Done()
			for time.Now().Before(deadline) && !stalled.Load() {
				conn, err := net.Dial("tcp", addr)
				if err != nil {
					time.Sleep(10 * time.Millisecond)
					continue
				}
				conn.Write(msg)
				conn.SetReadDeadline(time.Now().Add(8 * time.Second))
				_, err = conn.Read(make([]byte, 1))
				if ne, ok := err.(net.Error); ok && ne.Timeout() {
					stalled.Store(true)
				}
				conn.Close()
				faulty.Add(1)
			}
		}()
	}
	for time.Now().Before(deadline) && !stalled.Load() {
		time.Sleep(50 * time.Millisecond)
	}
	before := delivered.Load()
	served := false
	for end := time.Now().Add(8 * time.Second); time.Now().Before(end) && !served; time.Sleep(20 * time.Millisecond) {
		served = delivered.Load() > before
	}
	stop.Store(true)
	for _, conn := range goodConns {
		conn.Close()
	}
	var fail *ev.Failure
	orderMu.Lock()
	fail = orderFail
	orderMu.Unlock()
	switch {
	case stalled.Load():
		fail = ev.Failf("a connection that sent an undecodable message (%s) was not closed within 8 s, while %d other connections were streaming (%d faulty connections had been closed before, %d messages delivered)", c.Kind, c.Good, faulty.Load(), delivered.Load())
	case fail == nil && !served && len(goodConns) > 0:
		fail = ev.Failf("%d well-behaved connections stopped being served (%d messages delivered, none in 8 s) after %d other connections sent an undecodable message (%s) each", len(goodConns), delivered.Load(), faulty.Load(), c.Kind)
	}
	if fail != nil && (stalled.Load() || !served) {
		return fail // the collector is stuck: Stop would not return either
	}
	wg.Wait()
	stopped := make(chan struct{})
	go func() { cp.Stop(); close(stopped) }()
	select {
	case <-stopped:
	case <-time.After(20 * time.Second):
		if fail == nil {
			fail = ev.Failf("Stop did not return within 20 s after %d faulty connections (%s)", faulty.Load(), c.Kind)
		}
	}
	close(stopDrain)
	<-drained
	return fail
}
