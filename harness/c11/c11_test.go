//go:build verif

// C11 — TCP framing: same messages however the byte stream is segmented.
package c11

import (
	"bytes"
	"crypto/tls"
	"crypto/x509"
	"fmt"
	"io"
	"net"
	"os"
	"strings"
	"sync"
	"testing"
	"time"

	"pgregory.net/rapid"

	"github.com/vmware/go-ipfix/pkg/collector"
	"github.com/vmware/go-ipfix/pkg/entities"

	"verifharness/ev"
	"verifharness/gen"
	"verifharness/glue"
	ref "verifharness/refipfix"
)

// Msg is one message of the stream. Kind: tpl (template Tpl), data (NRec records of template
// Tpl, strings of StrLen bytes), and the invalid kinds badversion, notemplate, badtemplate,
// shortlen (header length field Len < 20), baddata (data set whose record does not fit).
type Msg struct {
	Kind   string `json:"kind"`
	Tpl    int    `json:"tpl,omitempty"`
	NRec   int    `json:"nrec,omitempty"`
	StrLen int    `json:"strlen,omitempty"`
	Len    int    `json:"len,omitempty"`
	// Pad (data): the set ends with this many zero bytes of padding, fewer than the shortest record
	// (RFC 7011 3.3.1); the message is as valid as without them
	Pad int `json:"pad,omitempty"`
}

// Case is a stream and its segmentation (cut offsets, strictly increasing, inside the stream).
type Case struct {
	Msgs    []Msg `json:"msgs"`
	Cuts    []int `json:"cuts"`
	Partial int   `json:"partial,omitempty"` // bytes of an extra incomplete message appended at the end
	// Verbose: the process-wide log verbosity is 5 while the case runs (the handler has V(4)/V(5)
	// blocks on its error paths; output is discarded)
	Verbose bool `json:"verbose,omitempty"`
}

var rec *ev.Recorder

func TestMain(m *testing.M) {
	glue.SilenceKlog()
	glue.LoadRegistry()
	fields()
	if rp := ev.LoadReplay(); rp != nil {
		if rp.Phase == "long_lived_session" {
			ev.RunReplay(rp, runLong)
		}
		if rp.Phase == "faulty_clients_beside_streaming_ones" {
			ev.RunReplay(rp, runChurn)
		}
		if rp.Phase == "two_connections" {
			ev.RunReplay(rp, runCase2)
		}
		if rp.Phase == "real_socket" {
			ev.RunReplay(rp, runReal)
		}
		ev.RunReplay(rp, func(c Case) *ev.Failure { return runCase(c, nil) })
	}
	rec = ev.New("C11", "streams of 1..6 messages built by the reference codec (templates; data sets of 1..n records, 20 bytes to ~65 KiB; optionally one invalid message - wrong version, data without template, undecodable template, header length < 20 or 0 - at any position; optionally an incomplete message at the end) x segmentations of the concatenated stream, presented to the collector's TCP connection handler through an in-memory connection whose Read returns exactly the generated segments: every single cut and every pair of cuts of short streams exhaustively, random multi-cuts (1-byte dribble, cuts inside the 4-byte length peek, cuts at message boundaries, coalesced) beyond; a second connection must then still be served; long-lived real connections (plain and TLS) whose stream pauses 6 s (thorough: up to 65 s) in the middle of a message; non-trivial = at least 2 messages and a cut strictly inside a message; distinct by hash of the case",
		"reference codec refipfix", "verif hook VerifHandleTCPClient (a plain call of handleTCPClient)", "an in-memory net.Conn stands for the socket; real-socket delivery is exercised by C01/C12")
	code := m.Run()
	rec.Write()
	os.Exit(code)
}

var tpls = [][]ref.Field{}

func fields() [][]ref.Field {
	if tpls == nil || len(tpls) == 0 {
		byName := func(n string, ent uint32) ref.Field {
			for _, f := range glue.RegistryFields() {
				if f.Name == n && f.Ent == ent {
					return f
				}
			}
			panic(n)
		}
		tpls = [][]ref.Field{
			{byName("sourceIPv4Address", 0), byName("protocolIdentifier", 0)},
			{byName("sourceTransportPort", 0), byName("sourcePodName", 56506), byName("octetDeltaCount", 0), byName("mplsTopLabelStackSection", 0)},
		}
	}
	return tpls
}

// build returns each message's bytes and whether it is valid at its position.
func build(c Case) (msgs [][]byte, valid []bool) {
	fs := fields()
	defined := map[int]bool{}
	for i, m := range c.Msgs {
		h := ref.Header{Domain: 3, Seq: uint32(1000 + i), ExportTime: uint32(1700000000 + i)}
		t := m.Tpl % len(fs)
		id := uint16(256 + t)
		var b []byte
		ok := true
		switch m.Kind {
		case "tpl":
			b = ref.TemplateMessage(h, ref.Template{ID: id, Fields: fs[t]})
			defined[t] = true
		case "data", "notemplate":
			if m.Kind == "notemplate" {
				t, id, ok = 0, 999, false
			} else if !defined[t] {
				ok = false
			}
			var recs [][]ref.Value
			for k := 0; k < max(1, m.NRec); k++ {
				var r []ref.Value
				for _, f := range fs[t] {
					switch {
					case f.Type == ref.TString:
						r = append(r, ref.Value{B: bytes.Repeat([]byte{'a' + byte((i+k)%26)}, m.StrLen)})
					case f.Type.IsBytes():
						r = append(r, ref.Value{B: []byte{10, byte(i), byte(k), 1}})
					default:
						r = append(r, ref.Value{U: uint64(i*1000 + k)})
					}
				}
				recs = append(recs, r)
			}
			b = ref.DataMessage(h, ref.Template{ID: id, Fields: fs[t]}, recs)
			if len(b) > 65535 {
				b = ref.DataMessage(h, ref.Template{ID: id, Fields: fs[t]}, recs[:1])
			}
			if m.Pad > 0 && len(b)+4 <= 65535 {
				b = gen.FixLengths(append(b, make([]byte, 1+(m.Pad-1)%(ref.MinRecLen(fs[t])-1))...))
			}
		case "baddata": // a data set for template 1 whose record is cut inside its last field
			t, id = 1, 257
			r := []ref.Value{{U: uint64(i)}, {B: []byte("abc")}, {U: 99}, {B: []byte{1, 2, 3, 4}}}
			b = ref.DataMessage(h, ref.Template{ID: id, Fields: fs[1]}, [][]ref.Value{r})
			b = gen.FixLengths(append([]byte(nil), b[:len(b)-2]...))
			ok = false
		case "badversion":
			b = ref.TemplateMessage(h, ref.Template{ID: id, Fields: fs[t]})
			b[1] = 9
			ok = false
		case "badtemplate":
			b = ref.TemplateMessage(h, ref.Template{ID: id, Fields: fs[t]})
			b = gen.FixLengths(append([]byte(nil), b[:len(b)-3]...))
			ok = false
		case "shortlen":
			b = ref.TemplateMessage(h, ref.Template{ID: id, Fields: fs[t]})
			l := m.Len % 20
			b = append([]byte(nil), b[:max(l, 4)]...)
			b[2], b[3] = 0, byte(l)
			if l < 4 {
				// the length field says fewer than 4 bytes: the handler reads l bytes of the 4 it peeked
				b = b[:4]
			}
			ok = false
		}
		msgs = append(msgs, b)
		valid = append(valid, ok)
	}
	return
}

// chunkConn is a net.Conn whose Read returns exactly the scripted segments, then EOF.
type chunkConn struct {
	mu     sync.Mutex
	chunks [][]byte
	closed bool
	reads  int
	// gate: a nil chunk makes Read wait until the gate is closed (the peer pauses)
	gate chan struct{}
}

func (c *chunkConn) Read(p []byte) (int, error) {
	c.mu.Lock()
	for len(c.chunks) > 0 && c.chunks[0] != nil && len(c.chunks[0]) == 0 {
		c.chunks = c.chunks[1:]
	}
	if len(c.chunks) > 0 && c.chunks[0] == nil && c.gate != nil && !c.closed {
		g := c.gate
		c.mu.Unlock()
		<-g
		c.mu.Lock()
		c.chunks = c.chunks[1:]
	}
	defer c.mu.Unlock()
	if c.closed {
		return 0, net.ErrClosed
	}
	for len(c.chunks) > 0 && len(c.chunks[0]) == 0 {
		c.chunks = c.chunks[1:]
	}
	if len(c.chunks) == 0 {
		return 0, io.EOF
	}
	n := copy(p, c.chunks[0])
	c.chunks[0] = c.chunks[0][n:]
	c.reads++
	return n, nil
}
func (c *chunkConn) Write(p []byte) (int, error) { return len(p), nil }
func (c *chunkConn) Close() error                { c.mu.Lock(); c.closed = true; c.mu.Unlock(); return nil }
func (c *chunkConn) isClosed() bool              { c.mu.Lock(); defer c.mu.Unlock(); return c.closed }
func (c *chunkConn) left() int {
	c.mu.Lock()
	defer c.mu.Unlock()
	n := 0
	for _, x := range c.chunks {
		n += len(x)
	}
	return n
}
func (c *chunkConn) LocalAddr() net.Addr { return &net.TCPAddr{IP: net.IPv4(127, 0, 0, 1), Port: 4739} }
func (c *chunkConn) RemoteAddr() net.Addr {
	return &net.TCPAddr{IP: net.IPv4(127, 0, 0, 1), Port: 40000}
}
func (c *chunkConn) SetDeadline(time.Time) error      { return nil }
func (c *chunkConn) SetReadDeadline(time.Time) error  { return nil }
func (c *chunkConn) SetWriteDeadline(time.Time) error { return nil }

func serve(cp *collector.CollectingProcess, conn *chunkConn) ([]*entities.Message, string) {
	done := make(chan struct{})
	go func() {
		defer close(done)
		cp.VerifHandleTCPClient(conn)
	}()
	var got []*entities.Message
	timer := time.NewTimer(15 * time.Second)
	defer timer.Stop()
	for {
		select {
		case m := <-cp.GetMsgChan():
			got = append(got, m)
		case <-done:
			return got, ""
		case <-timer.C:
			return got, "the connection handler did not return within 15 s after the stream ended"
		}
	}
}

type Stats struct{ CutInside, CutInPeek, Dribble bool }

func runCase(c Case, st *Stats) *ev.Failure {
	if st == nil {
		st = &Stats{}
	}
	if c.Verbose {
		glue.SetKlogVerbosity(10)
		defer glue.SetKlogVerbosity(0)
	}
	msgs, valid := build(c)
	var stream []byte
	var bounds []int
	for _, m := range msgs {
		stream = append(stream, m...)
		bounds = append(bounds, len(stream))
	}
	if c.Partial > 0 {
		extra := ref.TemplateMessage(ref.Header{Domain: 3}, ref.Template{ID: 300, Fields: fields()[1]})
		stream = append(stream, extra[:min(c.Partial, len(extra)-1)]...)
	}
	// segmentation
	var chunks [][]byte
	prev := 0
	for _, cut := range c.Cuts {
		if cut <= prev || cut >= len(stream) {
			continue
		}
		chunks = append(chunks, append([]byte(nil), stream[prev:cut]...))
		prev = cut
		inside, start := true, 0
		for _, b := range bounds {
			if cut == b {
				inside = false
			}
			if b < cut {
				start = b
			}
		}
		if inside {
			st.CutInside = true
			if cut-start < 4 {
				st.CutInPeek = true
			}
		}
	}
	chunks = append(chunks, append([]byte(nil), stream[prev:]...))
	if len(chunks) > len(stream)/2 && len(stream) > 8 {
		st.Dribble = true
	}
	cp, err := collector.InitCollectingProcess(collector.CollectorInput{Address: "127.0.0.1:0", Protocol: "tcp", MaxBufferSize: 65535})
	if err != nil {
		return ev.Failf("InitCollectingProcess: %v", err)
	}
	conn := &chunkConn{chunks: chunks}
	got, why := serve(cp, conn)
	if why != "" {
		return ev.Failf("%s", why)
	}
	// expected: every message before the first invalid one
	nexp := len(msgs)
	for i, ok := range valid {
		if !ok {
			nexp = i
			break
		}
	}
	if len(got) != nexp {
		return ev.Failf("%d messages delivered, the stream holds %d decodable messages before %s (segments %v of a %d-byte stream)", len(got), nexp, map[bool]string{true: "its end", false: "the first undecodable one"}[nexp == len(msgs)], lens(chunks), len(stream))
	}
	fs := fields()
	for i, m := range got {
		wire := msgs[i]
		h, _, _ := ref.ParseMessage(wire[:16])
		if m.GetSequenceNum() != h.Seq || m.GetExportTime() != h.ExportTime || m.GetObsDomainID() != h.Domain || int(m.GetMessageLen()) != len(wire) {
			return ev.Failf("delivered message %d has header (seq %d, time %d, len %d), the stream's message %d has (seq %d, time %d, len %d)", i, m.GetSequenceNum(), m.GetExportTime(), m.GetMessageLen(), i, h.Seq, h.ExportTime, len(wire))
		}
		if c.Msgs[i].Kind == "tpl" {
			if _, f := glue.CheckTemplateMsg(m, wire[20:]); f != nil {
				return ev.Failf("delivered message %d: %s", i, f.Msg)
			}
		} else if f := glue.CheckDataMsg(m, fs[c.Msgs[i].Tpl%len(fs)], wire[20:], collector.DecodingModeStrict); f != nil {
			return ev.Failf("delivered message %d: %s", i, f.Msg)
		}
	}
	if !conn.isClosed() {
		return ev.Failf("the connection was not closed after the handler returned")
	}
	if nexp < len(msgs) {
		// closed at the first undecodable message: nothing after it may have been consumed as a message
		if n := cp.GetNumRecordsReceived(); int(n) != nexp {
			return ev.Failf("%d messages counted as received, %d expected", n, nexp)
		}
	}
	if n := cp.GetNumConnToCollector(); n != 0 {
		return ev.Failf("connection count is %d after the connection ended", n)
	}
	// another connection is unaffected
	t2 := ref.TemplateMessage(ref.Header{Domain: 77, Seq: 1}, ref.Template{ID: 256, Fields: fs[0]})
	d2 := ref.DataMessage(ref.Header{Domain: 77, Seq: 2}, ref.Template{ID: 256, Fields: fs[0]}, [][]ref.Value{{{B: []byte{1, 2, 3, 4}}, {U: 6}}})
	got2, why := serve(cp, &chunkConn{chunks: [][]byte{t2[:7], append(append([]byte(nil), t2[7:]...), d2...)}})
	if why != "" || len(got2) != 2 {
		return ev.Failf("a second connection delivered %d of 2 messages after the first one ended (%s)", len(got2), why)
	}
	return nil
}

// Case2 is the two-connection scenario: connection B (same observation domain and template id)
// is paused between two data messages while connection A delivers a template, a data message and
// then an undecodable message of kind Bad, segmented at Cuts; B must be unaffected.
type Case2 struct {
	Bad  string `json:"bad"`
	Cuts []int  `json:"cuts"`
	// SameID: A's undecodable message is a template set that names the template id connection B
	// uses (both exporters number their templates from the same start in the same observation domain)
	SameID bool `json:"same_id,omitempty"`
}

func runCase2(c Case2) *ev.Failure {
	fs := fields()
	cp, err := collector.InitCollectingProcess(collector.CollectorInput{Address: "127.0.0.1:0", Protocol: "tcp", MaxBufferSize: 65535})
	if err != nil {
		return ev.Failf("InitCollectingProcess: %v", err)
	}
	rec1 := func(k int) [][]ref.Value {
		return [][]ref.Value{{{U: uint64(k)}, {B: []byte("pod")}, {U: 7}, {B: []byte{byte(k), 2, 3}}}}
	}
	tb := ref.TemplateMessage(ref.Header{Domain: 3, Seq: 500}, ref.Template{ID: 257, Fields: fs[1]})
	d1 := ref.DataMessage(ref.Header{Domain: 3, Seq: 501}, ref.Template{ID: 257, Fields: fs[1]}, rec1(1))
	d2 := ref.DataMessage(ref.Header{Domain: 3, Seq: 502}, ref.Template{ID: 257, Fields: fs[1]}, rec1(2))
	connB := &chunkConn{chunks: [][]byte{append(append([]byte(nil), tb...), d1...), nil, d2}, gate: make(chan struct{})}
	doneB := make(chan struct{})
	go func() { defer close(doneB); cp.VerifHandleTCPClient(connB) }()
	var gotB []*entities.Message
	timer := time.NewTimer(15 * time.Second)
	defer timer.Stop()
	for len(gotB) < 2 {
		select {
		case m := <-cp.GetMsgChan():
			gotB = append(gotB, m)
		case <-timer.C:
			return ev.Failf("connection B delivered %d of its first 2 messages", len(gotB))
		}
	}
	// connection A
	badTpl := 0
	if c.SameID {
		badTpl = 1
	}
	a := Case{Msgs: []Msg{{Kind: "tpl", Tpl: 1}, {Kind: "data", Tpl: 1, NRec: 1, StrLen: 3}, {Kind: c.Bad, Tpl: badTpl, Len: 16}}, Cuts: c.Cuts}
	msgs, _ := build(a)
	var stream []byte
	for _, m := range msgs {
		stream = append(stream, m...)
	}
	var chunks [][]byte
	prev := 0
	for _, cut := range c.Cuts {
		if cut > prev && cut < len(stream) {
			chunks = append(chunks, append([]byte(nil), stream[prev:cut]...))
			prev = cut
		}
	}
	chunks = append(chunks, append([]byte(nil), stream[prev:]...))
	connA := &chunkConn{chunks: chunks}
	gotA, why := serve(cp, connA)
	if why != "" {
		return ev.Failf("connection A: %s", why)
	}
	if len(gotA) != 2 {
		return ev.Failf("connection A delivered %d messages, 2 precede its undecodable message", len(gotA))
	}
	if !connA.isClosed() {
		return ev.Failf("connection A was not closed after its undecodable message")
	}
	// B continues
	close(connB.gate)
	for done := false; !done; {
		select {
		case m := <-cp.GetMsgChan():
			gotB = append(gotB, m)
		case <-doneB:
			done = true
		case <-timer.C:
			return ev.Failf("connection B's handler did not finish")
		}
	}
	if len(gotB) != 3 || gotB[2].GetSequenceNum() != 502 {
		return ev.Failf("after connection A sent an undecodable message (%s) and was closed, connection B delivered %d of its 3 messages: other connections must be unaffected", c.Bad, len(gotB))
	}
	if f := glue.CheckDataMsg(gotB[2], fs[1], d2[20:], collector.DecodingModeStrict); f != nil {
		return ev.Failf("connection B's last message: %s", f.Msg)
	}
	return nil
}

// runReal presents the same case to a collector listening on a real loopback socket: the client
// writes the generated segments with TCP_NODELAY and short pauses, while a second connection
// (other observation domain) sends its own messages concurrently and must be served completely.
func runReal(c Case) *ev.Failure {
	msgs, valid := build(c)
	var stream []byte
	for _, m := range msgs {
		stream = append(stream, m...)
	}
	if c.Partial > 0 {
		extra := ref.TemplateMessage(ref.Header{Domain: 3}, ref.Template{ID: 300, Fields: fields()[1]})
		stream = append(stream, extra[:min(c.Partial, len(extra)-1)]...)
	}
	cp, err := collector.InitCollectingProcess(collector.CollectorInput{Address: "127.0.0.1:0", Protocol: "tcp", MaxBufferSize: 65535})
	if err != nil {
		return ev.Failf("InitCollectingProcess: %v", err)
	}
	go cp.Start()
	for i := 0; i < 3000 && cp.GetAddress() == nil; i++ {
		time.Sleep(time.Millisecond)
	}
	if cp.GetAddress() == nil {
		return nil
	}
	var mu sync.Mutex
	got := map[uint32][]*entities.Message{}
	stopDrain := make(chan struct{})
	drained := make(chan struct{})
	go func() {
		defer close(drained)
		for {
			select {
			case m := <-cp.GetMsgChan():
				mu.Lock()
				got[m.GetObsDomainID()] = append(got[m.GetObsDomainID()], m)
				mu.Unlock()
			case <-stopDrain:
				return
			}
		}
	}()
	defer func() { stopBounded(cp); close(stopDrain); <-drained }()
	fs := fields()
	// the other connection
	otherDone := make(chan struct{})
	go func() {
		defer close(otherDone)
		conn, err := net.Dial("tcp", cp.GetAddress().String())
		if err != nil {
			return
		}
		defer conn.Close()
		conn.Write(ref.TemplateMessage(ref.Header{Domain: 77, Seq: 0}, ref.Template{ID: 256, Fields: fs[0]}))
		for k := 1; k <= 10; k++ {
			conn.Write(ref.DataMessage(ref.Header{Domain: 77, Seq: uint32(k)}, ref.Template{ID: 256, Fields: fs[0]}, [][]ref.Value{{{B: []byte{1, 2, 3, byte(k)}}, {U: 6}}}))
			time.Sleep(100 * time.Microsecond)
		}
		for end := time.Now().Add(20 * time.Second); time.Now().Before(end); time.Sleep(time.Millisecond) {
			mu.Lock()
			n := len(got[77])
			mu.Unlock()
			if n >= 11 {
				return
			}
		}
	}()
	conn, err := net.Dial("tcp", cp.GetAddress().String())
	if err != nil {
		return nil
	}
	if tc, ok := conn.(*net.TCPConn); ok {
		tc.SetNoDelay(true)
	}
	prev := 0
	for _, cut := range append(append([]int(nil), c.Cuts...), len(stream)) {
		if cut <= prev || cut > len(stream) {
			continue
		}
		if _, err := conn.Write(stream[prev:cut]); err != nil {
			break // the collector closed the connection (undecodable message): expected
		}
		prev = cut
		time.Sleep(150 * time.Microsecond)
	}
	nexp := len(msgs)
	for i, ok := range valid {
		if !ok {
			nexp = i
			break
		}
	}
	// wait for the expected deliveries, then for the collector's reaction to the end of the stream
	for end := time.Now().Add(20 * time.Second); ; time.Sleep(200 * time.Microsecond) {
		mu.Lock()
		n := len(got[3])
		mu.Unlock()
		if n >= nexp {
			break
		}
		if time.Now().After(end) {
			conn.Close()
			return ev.Failf("real socket: %d of the %d decodable messages before the first undecodable one were delivered (segments written with pauses at %v)", n, nexp, c.Cuts)
		}
	}
	if nexp < len(msgs) {
		// the collector must close the connection: a read sees EOF / reset
		conn.SetReadDeadline(time.Now().Add(10 * time.Second))
		if _, err := conn.Read(make([]byte, 1)); err == nil {
			conn.Close()
			return ev.Failf("real socket: the collector sent data instead of closing after an undecodable message")
		} else if ne, ok := err.(net.Error); ok && ne.Timeout() {
			conn.Close()
			return ev.Failf("real socket: 10 s after an undecodable message the collector has not closed the connection")
		}
	}
	conn.Close()
	<-otherDone
	time.Sleep(2 * time.Millisecond)
	mu.Lock()
	defer mu.Unlock()
	if len(got[3]) != nexp {
		return ev.Failf("real socket: %d messages delivered, the stream holds %d decodable messages before the first undecodable one / its end", len(got[3]), nexp)
	}
	for i, m := range got[3] {
		h, _, _ := ref.ParseMessage(msgs[i][:16])
		if m.GetSequenceNum() != h.Seq || int(m.GetMessageLen()) != len(msgs[i]) {
			return ev.Failf("real socket: delivered message %d has (seq %d, len %d), the stream's message %d has (seq %d, len %d)", i, m.GetSequenceNum(), m.GetMessageLen(), i, h.Seq, len(msgs[i]))
		}
		if c.Msgs[i].Kind == "tpl" {
			if _, f := glue.CheckTemplateMsg(m, msgs[i][20:]); f != nil {
				return ev.Failf("real socket: delivered message %d: %s", i, f.Msg)
			}
		} else if f := glue.CheckDataMsg(m, fs[c.Msgs[i].Tpl%len(fs)], msgs[i][20:], collector.DecodingModeStrict); f != nil {
			return ev.Failf("real socket: delivered message %d: %s", i, f.Msg)
		}
	}
	if len(got[77]) != 11 {
		return ev.Failf("real socket: the other connection delivered %d of its 11 messages while this one was served", len(got[77]))
	}
	for k, m := range got[77] {
		if int(m.GetSequenceNum()) != k {
			return ev.Failf("real socket: the other connection's delivery %d is its message %d", k, m.GetSequenceNum())
		}
	}
	return nil
}

// stopBounded calls Stop and gives it 15 s: a collector that a failed case left stuck must not
// keep the failure from being reported (its goroutines are left behind then).
func stopBounded(cp *collector.CollectingProcess) {
	done := make(chan struct{})
	go func() { cp.Stop(); close(done) }()
	select {
	case <-done:
	case <-time.After(15 * time.Second):
	}
}

func lens(ch [][]byte) []int {
	var out []int
	for _, c := range ch {
		out = append(out, len(c))
		if len(out) > 12 {
			break
		}
	}
	return out
}

func runRecorded(phase string, c Case) *ev.Failure {
	st := &Stats{}
	f := runCase(c, st)
	var cl []string
	for k, b := range map[string]bool{"cut_inside_message": st.CutInside, "cut_inside_length_peek": st.CutInPeek, "dribble": st.Dribble, "partial_tail": c.Partial > 0} {
		if b {
			cl = append(cl, k)
		}
	}
	for _, m := range c.Msgs {
		if m.Kind != "tpl" && m.Kind != "data" {
			cl = append(cl, "invalid_"+m.Kind)
			break
		}
	}
	rec.Case(ev.Hash(c), len(c.Msgs) >= 2 && st.CutInside, append(cl, phase)...)
	if len(c.Msgs) <= 3 && len(c.Cuts) <= 3 {
		rec.Sample(phase, c)
	}
	return f
}

// LongCase: one real connection (plain or TLS) whose stream pauses for PauseS seconds in the
// middle of a message; nothing in the statement lets the collector give up on a slow stream.
type LongCase struct {
	TLS    bool `json:"tls"`
	PauseS int  `json:"pause_s"`
	// AtBoundary: the pause falls between two messages instead of inside one
	AtBoundary bool `json:"at_boundary,omitempty"`
}

var (
	longCA   *glue.CA
	longCert glue.Leaf
)

func runLong(c LongCase) *ev.Failure {
	if longCA == nil {
		longCA = glue.NewCA("verif CA")
		longCert = longCA.LoopbackServer()
	}
	in := collector.CollectorInput{Address: "127.0.0.1:0", Protocol: "tcp", MaxBufferSize: 65535}
	if c.TLS {
		in.IsEncrypted, in.ServerCert, in.ServerKey = true, longCert.CertPEM, longCert.KeyPEM
	}
	cp, err := collector.InitCollectingProcess(in)
	if err != nil {
		return ev.Failf("InitCollectingProcess: %v", err)
	}
	go cp.Start()
	for i := 0; i < 3000 && cp.GetAddress() == nil; i++ {
		time.Sleep(time.Millisecond)
	}
	if cp.GetAddress() == nil {
		return nil
	}
	var mu sync.Mutex
	var got []*entities.Message
	stopDrain, drained := make(chan struct{}), make(chan struct{})
	go func() {
		defer close(drained)
		for {
			select {
			case m := <-cp.GetMsgChan():
				mu.Lock()
				got = append(got, m)
				mu.Unlock()
			case <-stopDrain:
				return
			}
		}
	}()
	defer func() { stopBounded(cp); close(stopDrain); <-drained }()
	var conn net.Conn
	if c.TLS {
		roots := x509.NewCertPool()
		roots.AppendCertsFromPEM(longCA.CertPEM)
		conn, err = tls.Dial("tcp", cp.GetAddress().String(), &tls.Config{RootCAs: roots, ServerName: "localhost"})
	} else {
		conn, err = net.Dial("tcp", cp.GetAddress().String())
	}
	if err != nil {
		return nil // environment
	}
	defer conn.Close()
	f := fields()[0]
	rec1 := [][]ref.Value{{{B: []byte{10, 0, 0, 1}}, {U: 6}}}
	msgs := [][]byte{
		ref.TemplateMessage(ref.Header{Domain: 5, Seq: 0}, ref.Template{ID: 256, Fields: f}),
		ref.DataMessage(ref.Header{Domain: 5, Seq: 0}, ref.Template{ID: 256, Fields: f}, rec1),
		ref.DataMessage(ref.Header{Domain: 5, Seq: 1}, ref.Template{ID: 256, Fields: f}, rec1),
		ref.DataMessage(ref.Header{Domain: 5, Seq: 2}, ref.Template{ID: 256, Fields: f}, rec1),
	}
	w := func(b []byte) *ev.Failure {
		if _, err := conn.Write(b); err != nil {
			return ev.Failf("the collector closed a healthy connection (%s, %d s pause inside a message): write failed: %v", map[bool]string{true: "tls", false: "tcp"}[c.TLS], c.PauseS, err)
		}
		return nil
	}
	cutAt := 9
	if c.AtBoundary {
		cutAt = 0
	}
	for _, b := range [][]byte{msgs[0], msgs[1], msgs[2][:cutAt]} {
		if fl := w(b); fl != nil {
			return fl
		}
	}
	time.Sleep(time.Duration(c.PauseS) * time.Second)
	for _, b := range [][]byte{msgs[2][cutAt:], msgs[3]} {
		if fl := w(b); fl != nil {
			return fl
		}
	}
	for end := time.Now().Add(20 * time.Second); time.Now().Before(end); time.Sleep(2 * time.Millisecond) {
		mu.Lock()
		n := len(got)
		mu.Unlock()
		if n >= len(msgs) {
			break
		}
	}
	mu.Lock()
	defer mu.Unlock()
	if len(got) != len(msgs) {
		return ev.Failf("%d of %d messages delivered from a %s connection whose stream paused %d s in the middle of message 2", len(got), len(msgs), map[bool]string{true: "tls", false: "tcp"}[c.TLS], c.PauseS)
	}
	for k, m := range got {
		if m.GetSequenceNum() != []uint32{0, 0, 1, 2}[k] {
			return ev.Failf("message %d delivered with sequence number %d", k, m.GetSequenceNum())
		}
	}
	return nil
}

func TestC11(t *testing.T) {
	// long-lived sessions run beside everything else (they mostly sleep)
	longCases := []LongCase{{TLS: true, PauseS: 6}, {TLS: false, PauseS: 6}, {TLS: false, PauseS: 6, AtBoundary: true}}
	if rec.Thorough() && ev.Shard() <= 1 {
		longCases = append(longCases, LongCase{TLS: true, PauseS: 12}, LongCase{TLS: true, PauseS: 35}, LongCase{TLS: false, PauseS: 35}, LongCase{TLS: true, PauseS: 65},
			LongCase{TLS: false, PauseS: 35, AtBoundary: true}, LongCase{TLS: true, PauseS: 65, AtBoundary: true},
			// beyond the usual idle timeouts of 60, 90 and 120 s
			LongCase{TLS: false, PauseS: 95, AtBoundary: true}, LongCase{TLS: true, PauseS: 95}, LongCase{TLS: false, PauseS: 125}, LongCase{TLS: true, PauseS: 125, AtBoundary: true})
	}
	longFails := make([]*ev.Failure, len(longCases))
	var lw sync.WaitGroup
	longCA = glue.NewCA("verif CA")
	longCert = longCA.LoopbackServer()
	for k := range longCases {
		lw.Add(1)
		go func(k int) { defer lw.Done(); longFails[k] = runLong(longCases[k]) }(k)
	}
	// faulty clients coming and going beside connections that stream without pause
	churnCases := []ChurnCase{{Good: 6, Bad: 8, Kind: "notemplate", Seconds: 6, MaxBuf: 1024}}
	if rec.Thorough() {
		churnCases = []ChurnCase{{Good: 6, Bad: 8, Kind: "notemplate", Seconds: 40, MaxBuf: 1024}, {Good: 3, Bad: 12, Kind: "badtemplate", Seconds: 20}, {Good: 8, Bad: 4, Kind: "badversion", Seconds: 20}, {Good: 1, Bad: 2, Kind: "notemplate", Seconds: 40}}
	}
	churnFails := make([]*ev.Failure, len(churnCases))
	lw.Add(1)
	go func() {
		defer lw.Done()
		for k := range churnCases {
			churnFails[k] = runChurn(churnCases[k])
		}
	}()
	defer func() {
		lw.Wait()
		for k, c := range churnCases {
			rec.Case(ev.Hash(c), true, "faulty_clients_beside_streaming_ones")
			rec.Sample("faulty_clients_beside_streaming_ones", c)
			if churnFails[k] != nil {
				rec.Violation("faulty_clients_beside_streaming_ones", c, churnFails[k].Msg)
				t.Errorf("%s", churnFails[k].Msg)
			}
		}
	}()
	defer func() {
		lw.Wait()
		for k, c := range longCases {
			rec.Case(ev.Hash(c), true, "long_lived_session")
			rec.Sample("long_lived_session", c)
			if longFails[k] != nil {
				rec.Violation("long_lived_session", c, longFails[k].Msg)
				t.Errorf("%s", longFails[k].Msg)
			}
		}
	}()
	// exhaustive single and double cuts of short streams
	short := [][]Msg{
		{{Kind: "tpl"}, {Kind: "data", NRec: 2}, {Kind: "data", NRec: 1}},
		{{Kind: "tpl", Tpl: 1}, {Kind: "data", Tpl: 1, NRec: 1, StrLen: 3}, {Kind: "tpl"}, {Kind: "data", NRec: 1}},
		{{Kind: "tpl"}, {Kind: "data", NRec: 2, Pad: 3}, {Kind: "data", NRec: 1, Pad: 1}, {Kind: "data", NRec: 1}},
		{{Kind: "tpl"}, {Kind: "badversion"}, {Kind: "data", NRec: 1}},
		{{Kind: "tpl"}, {Kind: "data", NRec: 1}, {Kind: "notemplate"}, {Kind: "data", NRec: 1}},
		{{Kind: "tpl"}, {Kind: "badtemplate", Tpl: 1}, {Kind: "data", NRec: 2}},
		{{Kind: "tpl"}, {Kind: "shortlen", Len: 16}, {Kind: "data", NRec: 2}},
		{{Kind: "tpl"}, {Kind: "shortlen", Len: 0}, {Kind: "data", NRec: 2}},
		{{Kind: "shortlen", Len: 3}, {Kind: "tpl"}},
		{{Kind: "tpl", Tpl: 1}, {Kind: "baddata"}, {Kind: "data", Tpl: 1, NRec: 1}},
	}
	if ev.Shard() <= 1 {
		for _, ms := range short {
			base := Case{Msgs: ms}
			m, _ := build(base)
			n := 0
			for _, b := range m {
				n += len(b)
			}
			pairs := !(!rec.Thorough() && n > 130)
			for a := 1; a < n; a++ {
				c := base
				c.Cuts = []int{a}
				if f := runRecorded("exhaustive_cuts", c); f != nil {
					rec.Violation("exhaustive_cuts", c, f.Msg)
					t.Fatalf("%s", f.Msg)
				}
				if a%3 == 0 { // every third single cut again at log verbosity 5
					cv := c
					cv.Verbose = true
					if f := runRecorded("exhaustive_cuts", cv); f != nil {
						rec.Violation("exhaustive_cuts", cv, f.Msg)
						t.Fatalf("%s", f.Msg)
					}
				}
				if !pairs {
					continue
				}
				for b := a + 1; b < n; b++ {
					c.Cuts = []int{a, b}
					if f := runRecorded("exhaustive_cuts", c); f != nil {
						rec.Violation("exhaustive_cuts", c, f.Msg)
						t.Fatalf("%s", f.Msg)
					}
				}
			}
		}
		rec.SetExhaustive()
	}
	// two connections sharing an observation domain and template id: every undecodable kind on A,
	// every single cut of A's stream
	for _, bad := range []string{"baddata", "badversion", "notemplate", "shortlen"} {
		a := Case{Msgs: []Msg{{Kind: "tpl", Tpl: 1}, {Kind: "data", Tpl: 1, NRec: 1, StrLen: 3}, {Kind: bad, Len: 16}}}
		m, _ := build(a)
		n := 0
		for _, b := range m {
			n += len(b)
		}
		for cut := 0; cut < n; cut += 1 + (n / 40) {
			c := Case2{Bad: bad, Cuts: []int{cut}}
			rec.Case(ev.Hash(c), true, "two_connections", "invalid_"+bad)
			if f := runCase2(c); f != nil {
				rec.Violation("two_connections", c, f.Msg)
				t.Fatalf("%s", f.Msg)
			}
		}
	}
	// ... and an undecodable template set on A that names B's template id. The template table is
	// keyed by (observation domain, template id) for the whole process, not per connection: A's bad
	// template removes B's template, B's next data message is refused and B is closed (finding D23).
	{
		c := Case2{Bad: "badtemplate", SameID: true}
		f := runCase2(c)
		switch {
		case f != nil && rec.Open("D23") && strings.Contains(f.Msg, "other connections must be unaffected"):
			rec.Excluded("D23_bad_template_on_another_connection_same_domain_and_id")
			rec.Known("D23", "an undecodable template set on one tcp connection removes the template a second connection (same observation domain, same template id) had announced: that connection's next data message is refused and it is closed - the template table is per process, not per connection")
		case f != nil:
			rec.Violation("two_connections", c, f.Msg)
			t.Fatalf("%s", f.Msg)
		default:
			rec.Case(ev.Hash(c), true, "two_connections", "invalid_badtemplate_same_id")
		}
	}
	genRandom := func(t *rapid.T) Case {
		var c Case
		c.Verbose = rapid.IntRange(0, 4).Draw(t, "verbose") == 0
		n := rapid.IntRange(1, 6).Draw(t, "n")
		bad := -1
		if rapid.Bool().Draw(t, "hasbad") {
			bad = rapid.IntRange(0, n-1).Draw(t, "badat")
		}
		for i := 0; i < n; i++ {
			if i == bad {
				c.Msgs = append(c.Msgs, Msg{Kind: rapid.SampledFrom([]string{"badversion", "notemplate", "badtemplate", "shortlen", "baddata"}).Draw(t, "badkind"), Tpl: rapid.IntRange(0, 1).Draw(t, "btpl"), Len: rapid.IntRange(0, 19).Draw(t, "blen")})
				continue
			}
			if i == 0 || rapid.IntRange(0, 3).Draw(t, "k") == 0 {
				c.Msgs = append(c.Msgs, Msg{Kind: "tpl", Tpl: rapid.IntRange(0, 1).Draw(t, "tpl")})
				continue
			}
			m := Msg{Kind: "data", Tpl: rapid.IntRange(0, 1).Draw(t, "dtpl"), NRec: rapid.IntRange(1, 5).Draw(t, "nrec"), StrLen: rapid.SampledFrom([]int{0, 3, 254, 255, 300}).Draw(t, "strlen"), Pad: rapid.SampledFrom([]int{0, 0, 0, 1, 2, 3, 4, 11}).Draw(t, "pad")}
			switch rapid.IntRange(0, 19).Draw(t, "size") {
			case 0:
				m.NRec, m.StrLen = 1, 65000 // near the 65535 limit
			case 1:
				m.NRec = 200
			}
			c.Msgs = append(c.Msgs, m)
		}
		if rapid.IntRange(0, 4).Draw(t, "partial") == 0 {
			c.Partial = rapid.IntRange(1, 30).Draw(t, "partialn")
		}
		msgs, _ := build(c)
		total := c.Partial
		var bounds []int
		for _, b := range msgs {
			total += len(b)
			bounds = append(bounds, total-c.Partial)
		}
		if total < 2 {
			return c
		}
		switch rapid.IntRange(0, 4).Draw(t, "segstyle") {
		case 0: // dribble a prefix byte by byte
			for i := 1; i < min(total, rapid.IntRange(2, 120).Draw(t, "dribblen")); i++ {
				c.Cuts = append(c.Cuts, i)
			}
		case 1: // cuts around message boundaries and inside the 4-byte peek
			for _, b := range bounds {
				for _, d := range []int{-1, 0, 1, 2, 3, 4, 16, 19, 20} {
					if rapid.Bool().Draw(t, "bcut") && b+d > 0 && b+d < total {
						c.Cuts = append(c.Cuts, b+d)
					}
				}
			}
			c.Cuts = sortUniq(c.Cuts)
		case 2: // coalesced: no cut at all
		default:
			k := rapid.IntRange(1, 12).Draw(t, "ncuts")
			for i := 0; i < k; i++ {
				c.Cuts = append(c.Cuts, rapid.IntRange(1, total-1).Draw(t, "cut"))
			}
			c.Cuts = sortUniq(c.Cuts)
		}
		return c
	}
	if !ev.Rapid(t, rec, "random", rec.Scale(6000, 5000000), genRandom, func(c Case) *ev.Failure { return runRecorded("random", c) }) {
		return
	}
	// the same generator against a real loopback socket, with a second connection in parallel
	ev.Rapid(t, rec, "real_socket", rec.Scale(150, 20000), genRandom, func(c Case) *ev.Failure {
		rec.Case(ev.Hash([]any{"real", c}), len(c.Msgs) >= 2 && len(c.Cuts) > 0, "real_socket")
		return runReal(c)
	})
}

func sortUniq(a []int) []int {
	for i := 1; i < len(a); i++ {
		for j := i; j > 0 && a[j] < a[j-1]; j-- {
			a[j], a[j-1] = a[j-1], a[j]
		}
	}
	var out []int
	for i, x := range a {
		if i == 0 || x != a[i-1] {
			out = append(out, x)
		}
	}
	return out
}

var _ = fmt.Sprintf
