//go:build verif

// Package aggh is the harness for the flow-aggregation process: record builders (records are
// built with the public entities API exactly as the collector delivers them) and the
// reference models written from the property statements (DESIGN.md A.2, A.3).
package aggh

import (
	"fmt"
	"net"
	"sync"
	"time"

	"github.com/vmware/go-ipfix/pkg/entities"
	"github.com/vmware/go-ipfix/pkg/intermediate"
	"github.com/vmware/go-ipfix/pkg/registry"
)

// Flow kinds.
const (
	KindIntraNode = iota
	KindToExternal
	KindInterNode       // needs correlation: two reporting streams
	KindInterEgressDeny // inter-node, denied at egress: one stream, ready at once
	KindInterIngressReject
)

// FlowDef is one five-tuple of the pool with its (fixed) kind.
type FlowDef struct {
	V6    bool   `json:"v6,omitempty"`
	Src   string `json:"src"`
	Dst   string `json:"dst"`
	SPort uint16 `json:"sport"`
	DPort uint16 `json:"dport"`
	Proto uint8  `json:"proto"`
	Kind  int    `json:"kind"`
	// correlate-field values each side supplies ("" / 0 = empty)
	CorrS Corr `json:"corr_s"`
	CorrD Corr `json:"corr_d"`
	// OmitEgress: the exporter's template has no egressNetworkPolicyRuleAction element (only used
	// for flows that are ready at once and have no egress action to report)
	OmitEgress bool `json:"omit_egress,omitempty"`
	// OmitPeerPod: the source node's exporter has no destinationPodName element in its template. Only
	// for inter-node flows whose destination node never reports (merging a destination-node record
	// into a record that lacks the element is not something the library supports).
	OmitPeerPod bool `json:"omit_peer_pod,omitempty"`
	// OmitS / OmitD: correlate elements the source node's / the destination node's exporter does not
	// have in its template at all (exporters of different versions during an upgrade): only elements
	// that describe the other end (see OmittableS / OmittableD). The merged record must still carry
	// what the other node supplied.
	OmitS []string `json:"omit_s,omitempty"`
	OmitD []string `json:"omit_d,omitempty"`
}

// OmittableS / OmittableD: what a source-node / destination-node exporter may lack.
var (
	OmittableS = []string{"destinationPodName", "destinationPodNamespace", "destinationNodeName", "destinationServicePort", "ingressNetworkPolicyRuleAction", "ingressNetworkPolicyRulePriority", "destinationClusterIP"}
	OmittableD = []string{"sourcePodName", "sourcePodNamespace", "sourceNodeName", "egressNetworkPolicyRuleAction", "destinationClusterIP", "destinationServicePort"}
)

func has(l []string, n string) bool {
	for _, x := range l {
		if x == n {
			return true
		}
	}
	return false
}

// Supplied returns what each node's records actually carry: the configured values without the
// elements its exporter lacks.
func (f FlowDef) Supplied() (s, d Corr) {
	z := func(c Corr, omit []string) Corr {
		if has(omit, "sourcePodNamespace") {
			c.SrcNS = ""
		}
		if has(omit, "sourceNodeName") {
			c.SrcNode = ""
		}
		if has(omit, "destinationPodNamespace") {
			c.DstNS = ""
		}
		if has(omit, "destinationNodeName") {
			c.DstNode = ""
		}
		if has(omit, "destinationServicePort") {
			c.SvcPort = 0
		}
		if has(omit, "ingressNetworkPolicyRuleAction") {
			c.IngAct = 0
		}
		if has(omit, "egressNetworkPolicyRuleAction") {
			c.EgrAct = 0
		}
		if has(omit, "ingressNetworkPolicyRulePriority") {
			c.Priority = 0
		}
		if has(omit, "destinationClusterIP") {
			c.Cluster = ""
		}
		return c
	}
	return z(f.CorrS, f.OmitS), z(f.CorrD, f.OmitD)
}

// Corr holds the correlate fields one node can supply about a flow.
type Corr struct {
	SrcNS    string `json:"src_ns,omitempty"`
	SrcNode  string `json:"src_node,omitempty"`
	DstNS    string `json:"dst_ns,omitempty"`
	DstNode  string `json:"dst_node,omitempty"`
	SvcPort  uint16 `json:"svc_port,omitempty"`
	Priority int32  `json:"prio,omitempty"`
	Cluster  string `json:"cluster,omitempty"` // destinationClusterIP (v4 or v6 text), "" = zero address
	IngAct   uint8  `json:"ing_act,omitempty"`
	EgrAct   uint8  `json:"egr_act,omitempty"`
}

// Key returns the library's flow key.
func (f FlowDef) Key() intermediate.FlowKey {
	return intermediate.FlowKey{SourceAddress: net.ParseIP(f.Src).String(), DestinationAddress: net.ParseIP(f.Dst).String(), Protocol: f.Proto, SourcePort: f.SPort, DestinationPort: f.DPort}
}

// Rec is one flow record as an exporter would send it.
type Rec struct {
	Flow     int       `json:"flow"`
	Side     string    `json:"side"` // "S" source-node form, "D" destination-node form (only kind InterNode has both); for that kind also "N" (neither Pod name set) and "B" (both set): records the library cannot attribute to a node
	Start    uint32    `json:"start"`
	End      uint32    `json:"end"`
	Tot      [4]uint64 `json:"tot"` // packetTotal, octetTotal, reversePacketTotal, reverseOctetTotal
	Dlt      [4]uint64 `json:"dlt"` // the four delta counters, same order
	TCPState string    `json:"tcp,omitempty"`
	// Layout: the order in which the reporting node's template lists the elements (0 = default,
	// 1 = reversed, 2 = rotated by 7, 3 = counters first): two exporters (or two versions of one)
	// need not agree on it.
	Layout int `json:"layout,omitempty"`
	// Incomplete: the record lacks the tcpState element although the process is configured to
	// aggregate it (a malformed record; the process reports an error for it on a held flow).
	Incomplete bool `json:"incomplete,omitempty"`
	// HTTP: the record's httpVals element (nil = the exporter's template has none). Present in every
	// record when the process is configured to aggregate it (ElementsVariant bit 4).
	HTTP *string `json:"http,omitempty"`
	// PodGen > 0: the node names the Pod at its end "pod-src-<PodGen>" / "pod-dst-<PodGen>"
	PodGen int `json:"pod_gen,omitempty"`
}

// Element name tables (order: packet, octet, reversePacket, reverseOctet).
var (
	TotNames = [4]string{"packetTotalCount", "octetTotalCount", "reversePacketTotalCount", "reverseOctetTotalCount"}
	DltNames = [4]string{"packetDeltaCount", "octetDeltaCount", "reversePacketDeltaCount", "reverseOctetDeltaCount"}
	ThrNames = [2]string{"throughput", "reverseThroughput"}
)

func up(s string) string { return string(s[0]-32) + s[1:] }

// SideName is the per-node variant of a counter name.
func SideName(n string, src bool) string {
	if src {
		return n + "FromSourceNode"
	}
	return n + "FromDestinationNode"
}

// Elements is the aggregation configuration used by all checks.
func Elements() *intermediate.AggregationElements {
	var stats, s, d []string
	for i := 0; i < 4; i++ {
		stats = append(stats, TotNames[i], DltNames[i])
		s = append(s, SideName(TotNames[i], true), SideName(DltNames[i], true))
		d = append(d, SideName(TotNames[i], false), SideName(DltNames[i], false))
	}
	return &intermediate.AggregationElements{
		NonStatsElements:                   []string{"flowEndSeconds", "flowEndReason", "tcpState"},
		StatsElements:                      stats,
		AggregatedSourceStatsElements:      s,
		AggregatedDestinationStatsElements: d,
		AntreaFlowEndSecondsElements:       []string{"flowEndSecondsFromSourceNode", "flowEndSecondsFromDestinationNode"},
		ThroughputElements:                 ThrNames[:],
		SourceThroughputElements:           []string{"throughputFromSourceNode", "reverseThroughputFromSourceNode"},
		DestinationThroughputElements:      []string{"throughputFromDestinationNode", "reverseThroughputFromDestinationNode"},
	}
}

// CorrelateFields is the correlate-field list (the repository's own).
var CorrelateFields = []string{"sourcePodName", "sourcePodNamespace", "sourceNodeName", "destinationPodName", "destinationPodNamespace",
	"destinationNodeName", "destinationClusterIPv4", "destinationClusterIPv6", "destinationServicePort",
	"ingressNetworkPolicyRuleAction", "egressNetworkPolicyRuleAction", "ingressNetworkPolicyRulePriority"}

var (
	ieMu    sync.RWMutex
	ieCache = map[string]*entities.InfoElement{}
)

// IE finds an element by name in the IANA, reverse and Antrea registries (safe for concurrent use).
func IE(name string) *entities.InfoElement {
	ieMu.RLock()
	ie, ok := ieCache[name]
	ieMu.RUnlock()
	if ok {
		return ie
	}
	for _, ent := range []uint32{registry.IANAEnterpriseID, registry.IANAReversedEnterpriseID, registry.AntreaEnterpriseID} {
		if ie, err := registry.GetInfoElement(name, ent); err == nil {
			ieMu.Lock()
			ieCache[name] = ie
			ieMu.Unlock()
			return ie
		}
	}
	panic("aggh: no element " + name)
}

func ip(s string, v6 bool) net.IP {
	if s == "" {
		if v6 {
			return net.IPv6zero
		}
		return net.IPv4zero.To4()
	}
	p := net.ParseIP(s)
	if !v6 {
		return p.To4()
	}
	return p.To16()
}

// New creates an aggregation process (never started) with the shared configuration.
var loadOnce sync.Once

func New(active, inactive time.Duration, ch chan *entities.Message, workers int) *intermediate.AggregationProcess {
	return NewWith(active, inactive, ch, workers, Elements())
}

// ElementsVariant is Elements with the same content in another list order (the library finds the
// elements by name; corresponding entries of the parallel lists stay at corresponding positions).
// Variant 0 is Elements(); 1 names the destination node's end-time element before the source
// node's; 2 reverses the statistics lists (the throughput lists are positional - forward first,
// reverse second - and stay as they are); 3 does both. Bit 4 adds httpVals to the non-statistics
// elements (every record must then carry it). Bit 8 makes every list a part of one long list (spare
// capacity behind each).
func ElementsVariant(v int) *intermediate.AggregationElements {
	e := Elements()
	rev := func(a []string) []string {
		out := make([]string, len(a))
		for i := range a {
			out[len(a)-1-i] = a[i]
		}
		return out
	}
	if v&1 != 0 {
		e.AntreaFlowEndSecondsElements = rev(e.AntreaFlowEndSecondsElements)
	}
	if v&2 != 0 {
		e.StatsElements, e.AggregatedSourceStatsElements, e.AggregatedDestinationStatsElements = rev(e.StatsElements), rev(e.AggregatedSourceStatsElements), rev(e.AggregatedDestinationStatsElements)
		e.NonStatsElements = rev(e.NonStatsElements)
	}
	if v&4 != 0 {
		// as Antrea's flow aggregator configures it: the HTTP values of a flow are merged as well
		e.NonStatsElements = append([]string{"httpVals"}, e.NonStatsElements...)
	}
	if v&8 != 0 {
		// an application that keeps all its element names in one list and hands out parts of it:
		// every list has spare capacity, and what lies behind it is the next list
		lists := []*[]string{&e.NonStatsElements, &e.StatsElements, &e.AggregatedSourceStatsElements, &e.AggregatedDestinationStatsElements,
			&e.AntreaFlowEndSecondsElements, &e.ThroughputElements, &e.SourceThroughputElements, &e.DestinationThroughputElements}
		var all []string
		for _, l := range lists {
			all = append(all, *l...)
		}
		all = append(all, "spare", "spare", "spare", "spare")[:len(all)]
		off := 0
		for _, l := range lists {
			n := len(*l)
			*l = all[off : off+n]
			off += n
		}
	}
	return e
}

// NewWith is New with the AggregateElements setting given (nil: the process only correlates).
func NewWith(active, inactive time.Duration, ch chan *entities.Message, workers int, els *intermediate.AggregationElements) *intermediate.AggregationProcess {
	loadOnce.Do(registry.LoadRegistry) // LoadRegistry is start-up code, not safe to run concurrently
	if ch == nil {
		ch = make(chan *entities.Message)
	}
	ap, err := intermediate.InitAggregationProcess(intermediate.AggregationInput{
		MessageChan: ch, WorkerNum: workers, CorrelateFields: CorrelateFields, AggregateElements: els,
		ActiveExpiryTimeout: active, InactiveExpiryTimeout: inactive,
	})
	if err != nil {
		panic(err)
	}
	return ap
}

// Message builds the message a collector would deliver for the records (one data set).
func Message(flows []FlowDef, recs ...Rec) *entities.Message {
	set := entities.NewSet(true)
	set.PrepareSet(entities.Data, 256)
	for _, r := range recs {
		set.AddRecordV2(RecordElements(flows[r.Flow], r), 256)
	}
	m := entities.NewMessage(true)
	m.SetVersion(10)
	m.SetObsDomainID(1)
	m.SetExportAddress("10.0.0.9")
	m.AddSet(set)
	return m
}

// MessageWithRefusedRecord is Message with one more record at the end that the aggregation process
// cannot take: a copy of the first record's elements without sourceTransportPort (no flow key).
func MessageWithRefusedRecord(flows []FlowDef, recs ...Rec) *entities.Message {
	m := Message(flows, recs...)
	var bad []entities.InfoElementWithValue
	for _, el := range RecordElements(flows[recs[0].Flow], recs[0]) {
		if el.GetName() != "sourceTransportPort" {
			bad = append(bad, el)
		}
	}
	m.GetSet().AddRecordV2(bad, 256)
	return m
}

// RecordElements builds the decoded elements of one record.
func RecordElements(f FlowDef, r Rec) []entities.InfoElementWithValue {
	var els []entities.InfoElementWithValue
	u8 := func(n string, v uint8) { els = append(els, entities.NewUnsigned8InfoElement(IE(n), v)) }
	u16 := func(n string, v uint16) { els = append(els, entities.NewUnsigned16InfoElement(IE(n), v)) }
	u64 := func(n string, v uint64) { els = append(els, entities.NewUnsigned64InfoElement(IE(n), v)) }
	str := func(n, v string) { els = append(els, entities.NewStringInfoElement(IE(n), v)) }
	dts := func(n string, v uint32) { els = append(els, entities.NewDateTimeSecondsInfoElement(IE(n), v)) }
	if f.V6 {
		els = append(els, entities.NewIPAddressInfoElement(IE("sourceIPv6Address"), ip(f.Src, true)), entities.NewIPAddressInfoElement(IE("destinationIPv6Address"), ip(f.Dst, true)))
	} else {
		els = append(els, entities.NewIPAddressInfoElement(IE("sourceIPv4Address"), ip(f.Src, false)), entities.NewIPAddressInfoElement(IE("destinationIPv4Address"), ip(f.Dst, false)))
	}
	u16("sourceTransportPort", f.SPort)
	u16("destinationTransportPort", f.DPort)
	u8("protocolIdentifier", f.Proto)
	dts("flowStartSeconds", r.Start)
	dts("flowEndSeconds", r.End)
	u8("flowEndReason", registry.ActiveTimeoutReason)
	str("tcpState", r.TCPState)
	for i := 0; i < 4; i++ {
		u64(TotNames[i], r.Tot[i])
		u64(DltNames[i], r.Dlt[i])
	}
	// who reports: pod names
	srcPod, dstPod := "", ""
	c := f.CorrS
	var flowType uint8
	switch f.Kind {
	case KindIntraNode:
		flowType, srcPod, dstPod = registry.FlowTypeIntraNode, "pod-src", "pod-dst"
	case KindToExternal:
		flowType, srcPod = registry.FlowTypeToExternal, "pod-src"
	case KindInterEgressDeny:
		flowType, srcPod = registry.FlowTypeInterNode, "pod-src"
	case KindInterIngressReject:
		flowType, dstPod = registry.FlowTypeInterNode, "pod-dst"
		c = f.CorrD
	default:
		flowType = registry.FlowTypeInterNode
		switch r.Side {
		case "D":
			dstPod = "pod-dst"
			c = f.CorrD
		case "N":
		case "B":
			srcPod, dstPod = "pod-src", "pod-dst"
		default:
			srcPod = "pod-src"
		}
	}
	if r.PodGen > 0 {
		if srcPod != "" {
			srcPod = fmt.Sprintf("%s-%d", srcPod, r.PodGen)
		}
		if dstPod != "" {
			dstPod = fmt.Sprintf("%s-%d", dstPod, r.PodGen)
		}
	}
	u8("flowType", flowType)
	var omit []string
	if f.NeedsCorrelation() {
		omit = f.OmitS
		if r.Side == "D" {
			omit = f.OmitD
		}
	}
	if !has(omit, "sourcePodName") {
		str("sourcePodName", srcPod)
	}
	if !(f.OmitPeerPod && f.Kind != KindIntraNode && dstPod == "") && !has(omit, "destinationPodName") {
		str("destinationPodName", dstPod)
	}
	if !has(omit, "sourcePodNamespace") {
		str("sourcePodNamespace", c.SrcNS)
	}
	if !has(omit, "sourceNodeName") {
		str("sourceNodeName", c.SrcNode)
	}
	if !has(omit, "destinationPodNamespace") {
		str("destinationPodNamespace", c.DstNS)
	}
	if !has(omit, "destinationNodeName") {
		str("destinationNodeName", c.DstNode)
	}
	if !has(omit, "destinationClusterIP") {
		if f.V6 {
			els = append(els, entities.NewIPAddressInfoElement(IE("destinationClusterIPv6"), ip(c.Cluster, true)))
		} else {
			els = append(els, entities.NewIPAddressInfoElement(IE("destinationClusterIPv4"), ip(c.Cluster, false)))
		}
	}
	if !has(omit, "destinationServicePort") {
		u16("destinationServicePort", c.SvcPort)
	}
	if !has(omit, "ingressNetworkPolicyRuleAction") {
		u8("ingressNetworkPolicyRuleAction", c.IngAct)
	}
	if !(f.OmitEgress && c.EgrAct == 0 && !f.NeedsCorrelation()) && !has(omit, "egressNetworkPolicyRuleAction") {
		u8("egressNetworkPolicyRuleAction", c.EgrAct)
	}
	if !has(omit, "ingressNetworkPolicyRulePriority") {
		els = append(els, entities.NewSigned32InfoElement(IE("ingressNetworkPolicyRulePriority"), c.Priority))
	}
	if r.HTTP != nil {
		str("httpVals", *r.HTTP)
	}
	if r.Incomplete {
		for i, el := range els {
			if el.GetName() == "tcpState" {
				els = append(els[:i:i], els[i+1:]...)
				break
			}
		}
	}
	switch r.Layout % 4 {
	case 1:
		for i, j := 0, len(els)-1; i < j; i, j = i+1, j-1 {
			els[i], els[j] = els[j], els[i]
		}
	case 2:
		k := 7 % len(els)
		els = append(append([]entities.InfoElementWithValue(nil), els[k:]...), els[:k]...)
	case 3:
		var counters, rest []entities.InfoElementWithValue
		for _, el := range els {
			if el.GetDataType() == entities.Unsigned64 {
				counters = append(counters, el)
			} else {
				rest = append(rest, el)
			}
		}
		// octet counters before packet counters
		for i, j := 0, len(counters)-1; i < j; i, j = i+1, j-1 {
			counters[i], counters[j] = counters[j], counters[i]
		}
		els = append(counters, rest...)
	}
	return els
}

// NeedsCorrelation reports whether flows of this kind wait for both nodes.
func (f FlowDef) NeedsCorrelation() bool { return f.Kind == KindInterNode }

// RecordNeedsCorrelation reports whether a record of the given side, taken by itself, belongs to a
// flow that waits for the other node: an inter-node flow that this node neither saw denied at
// egress nor rejected at ingress (the rule actions its exporter supplies).
func (f FlowDef) RecordNeedsCorrelation(side string) bool {
	if !f.NeedsCorrelation() {
		return false
	}
	cs, cd := f.Supplied()
	c := cs
	if side == "D" {
		c = cd
	}
	return c.EgrAct != 2 && c.EgrAct != 3 && c.IngAct != 3
}

// Denied reports whether one of the nodes of an inter-node flow reports it denied at egress or
// rejected at ingress.
func (f FlowDef) Denied() bool {
	return f.NeedsCorrelation() && (!f.RecordNeedsCorrelation("S") || !f.RecordNeedsCorrelation("D"))
}

// Sides returns which per-node field groups a record of this flow fills.
func (f FlowDef) Sides(r Rec) (src, dst bool) {
	if !f.NeedsCorrelation() {
		return true, true
	}
	return r.Side != "D", r.Side == "D"
}

// ------------------------------------------------------------------ arithmetic model (A.2)

// SideState is one node's view.
type SideState struct {
	Seen bool
	End  uint32
	Tot  [4]uint64
	Dlt  [4]uint64
	Thr  [2]uint64
}

// FlowState is the model of one aggregated flow record.
type FlowState struct {
	End          uint32
	Tot          [4]uint64
	Dlt          [4]uint64
	Thr          [2]uint64
	TCPState     string
	S, D         SideState
	Records      int
	BothSeen     bool
	ResetBetween bool
	resetSeen    bool
}

func thr(oct uint64, dt uint32) uint64 {
	if dt == 0 {
		return 0
	}
	return oct * 8 / uint64(dt)
}

// Apply folds one record into the model (nil state = new flow).
func Apply(st *FlowState, f FlowDef, r Rec) *FlowState {
	src, dst := f.Sides(r)
	if st == nil {
		st = &FlowState{End: r.End, Tot: r.Tot, Dlt: r.Dlt, TCPState: r.TCPState}
		var dt uint32
		if r.End > r.Start {
			dt = r.End - r.Start
		}
		st.Thr = [2]uint64{thr(r.Tot[1], dt), thr(r.Tot[3], dt)}
		mk := SideState{Seen: true, End: r.End, Tot: r.Tot, Dlt: r.Dlt, Thr: st.Thr}
		if src {
			st.S = mk
		}
		if dst {
			st.D = mk
		}
		st.Records = 1
		return st
	}
	st.Records++
	if st.resetSeen {
		st.ResetBetween = true
	}
	latest := r.End > st.End
	if latest {
		st.End = r.End
		st.TCPState = r.TCPState
	}
	var last *SideState
	for _, sd := range []struct {
		on bool
		s  *SideState
	}{{src, &st.S}, {dst, &st.D}} {
		if !sd.on {
			continue
		}
		s := sd.s
		prevEnd := s.End
		if !s.Seen {
			prevEnd = r.Start
		}
		dt := r.End - prevEnd
		s.Thr = [2]uint64{thr(r.Tot[1]-s.Tot[1], dt), thr(r.Tot[3]-s.Tot[3], dt)}
		s.Tot = r.Tot
		for i := range s.Dlt {
			s.Dlt[i] += r.Dlt[i]
		}
		s.End = r.End
		s.Seen = true
		last = s
	}
	if st.S.Seen && st.D.Seen && f.NeedsCorrelation() {
		st.BothSeen = true
	}
	if latest && last != nil {
		for i := range st.Tot {
			if r.Tot[i] > st.Tot[i] {
				st.Tot[i] = r.Tot[i]
			}
		}
		st.Dlt = last.Dlt
		st.Thr = last.Thr
	}
	return st
}

// Reset clears the delta and throughput fields and nothing else.
func (st *FlowState) Reset() {
	st.Dlt, st.Thr = [4]uint64{}, [2]uint64{}
	st.S.Dlt, st.S.Thr = [4]uint64{}, [2]uint64{}
	st.D.Dlt, st.D.Thr = [4]uint64{}, [2]uint64{}
	st.resetSeen = true
}

func getU64(m map[string]interface{}, n string) (uint64, error) {
	v, ok := m[n]
	if !ok {
		return 0, fmt.Errorf("field %s missing from the aggregated record", n)
	}
	u, ok := v.(uint64)
	if !ok {
		return 0, fmt.Errorf("field %s has type %T", n, v)
	}
	return u, nil
}

func getU32(m map[string]interface{}, n string) (uint32, error) {
	v, ok := m[n]
	if !ok {
		return 0, fmt.Errorf("field %s missing from the aggregated record", n)
	}
	u, ok := v.(uint32)
	if !ok {
		return 0, fmt.Errorf("field %s has type %T", n, v)
	}
	return u, nil
}

// Compare checks an aggregated record (element map) against the model; "" = equal.
func (st *FlowState) Compare(m map[string]interface{}) string {
	chk64 := func(n string, want uint64) string {
		got, err := getU64(m, n)
		if err != nil {
			return err.Error()
		}
		if got != want {
			return fmt.Sprintf("%s = %d, want %d", n, got, want)
		}
		return ""
	}
	if got, err := getU32(m, "flowEndSeconds"); err != nil {
		return err.Error()
	} else if got != st.End {
		return fmt.Sprintf("flowEndSeconds = %d, want the latest end time %d", got, st.End)
	}
	for i := 0; i < 4; i++ {
		if d := chk64(TotNames[i], st.Tot[i]); d != "" {
			return d
		}
		if d := chk64(DltNames[i], st.Dlt[i]); d != "" {
			return d
		}
	}
	for i := 0; i < 2; i++ {
		if d := chk64(ThrNames[i], st.Thr[i]); d != "" {
			return d
		}
	}
	for _, sd := range []struct {
		src bool
		s   *SideState
	}{{true, &st.S}, {false, &st.D}} {
		en := "flowEndSecondsFromDestinationNode"
		if sd.src {
			en = "flowEndSecondsFromSourceNode"
		}
		got, err := getU32(m, en)
		if err != nil {
			return err.Error()
		}
		if got != sd.s.End {
			return fmt.Sprintf("%s = %d, want %d", en, got, sd.s.End)
		}
		for i := 0; i < 4; i++ {
			if d := chk64(SideName(TotNames[i], sd.src), sd.s.Tot[i]); d != "" {
				return d
			}
			if d := chk64(SideName(DltNames[i], sd.src), sd.s.Dlt[i]); d != "" {
				return d
			}
		}
		for i := 0; i < 2; i++ {
			if d := chk64(SideName(ThrNames[i], sd.src), sd.s.Thr[i]); d != "" {
				return d
			}
		}
	}
	if v, ok := m["tcpState"].(string); !ok || v != st.TCPState {
		return fmt.Sprintf("tcpState = %v, want %q (the node that reported the latest end time)", m["tcpState"], st.TCPState)
	}
	return ""
}

// CheckTuple verifies that the aggregated record still carries its own five-tuple.
func CheckTuple(m map[string]interface{}, f FlowDef) string {
	sa, da := "sourceIPv4Address", "destinationIPv4Address"
	if f.V6 {
		sa, da = "sourceIPv6Address", "destinationIPv6Address"
	}
	if v, ok := m[sa].(net.IP); !ok || !v.Equal(net.ParseIP(f.Src)) {
		return fmt.Sprintf("%s = %v, want %s", sa, m[sa], f.Src)
	}
	if v, ok := m[da].(net.IP); !ok || !v.Equal(net.ParseIP(f.Dst)) {
		return fmt.Sprintf("%s = %v, want %s", da, m[da], f.Dst)
	}
	if v, _ := m["sourceTransportPort"].(uint16); v != f.SPort {
		return fmt.Sprintf("sourceTransportPort = %v, want %d", m["sourceTransportPort"], f.SPort)
	}
	if v, _ := m["destinationTransportPort"].(uint16); v != f.DPort {
		return fmt.Sprintf("destinationTransportPort = %v, want %d", m["destinationTransportPort"], f.DPort)
	}
	if v, _ := m["protocolIdentifier"].(uint8); v != f.Proto {
		return fmt.Sprintf("protocolIdentifier = %v, want %d", m["protocolIdentifier"], f.Proto)
	}
	return ""
}
