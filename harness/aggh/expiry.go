//go:build verif

package aggh

import (
	"fmt"
	"sort"
	"time"

	"github.com/vmware/go-ipfix/pkg/intermediate"
)

// XFlow is the expiry/correlation model of one held flow (DESIGN.md A.3). Times are virtual,
// in seconds since the start of the case.
type XFlow struct {
	Active, Inactive int64
	Ready            bool
	Retries          int
	FirstSide        string
	Sides            map[string]bool
	Callbacks        int
	ActiveExports    int
}

// XModel is the model of the whole process.
type XModel struct {
	Now        int64
	A, I       int64
	MaxRetries int
	Flows      map[int]*XFlow
}

// NewXModel creates the model for timeouts a, i.
func NewXModel(a, i time.Duration, maxRetries int) *XModel {
	return &XModel{A: int64(a / time.Second), I: int64(i / time.Second), MaxRetries: maxRetries, Flows: map[int]*XFlow{}}
}

// Ingest applies one record.
func (m *XModel) Ingest(fi int, f FlowDef, r Rec) {
	x := m.Flows[fi]
	side := "S"
	if f.NeedsCorrelation() && (r.Side == "D" || r.Side == "N" || r.Side == "B") {
		side = r.Side
	}
	// a record whose node saw the flow denied at egress or rejected at ingress makes the flow ready at
	// once, whether it is the first record of the flow or finds the other node's record waiting
	needs := f.RecordNeedsCorrelation(side)
	if x == nil {
		m.Flows[fi] = &XFlow{Active: m.Now + m.A, Inactive: m.Now + m.I, Ready: !needs, FirstSide: side, Sides: map[string]bool{side: true}}
		return
	}
	x.Inactive = m.Now + m.I
	if !needs {
		x.Ready = true
	}
	// two records are from the same node when both are source-node records or both are
	// destination-node records; a record that names neither Pod, or both, is from the same node as
	// nothing, itself included
	if !x.Ready && (side != x.FirstSide || side == "N" || side == "B") {
		x.Ready = true
	}
	x.Sides[side] = true
}

func (x *XFlow) min() int64 {
	if x.Active < x.Inactive {
		return x.Active
	}
	return x.Inactive
}

// Earliest returns the earliest deadline of any held flow.
func (m *XModel) Earliest() (int64, bool) {
	var best int64
	ok := false
	for _, x := range m.Flows {
		if !ok || x.min() < best {
			best, ok = x.min(), true
		}
	}
	return best, ok
}

// ScanResult is what the model expects of one scan, given what the library did.
type ScanResult struct {
	Fired   int
	Dropped []int
}

// Scan checks the library's callback sequence cbs (flow indices, in order) and its error
// result against the model and advances the model. failing = flows whose callback fails.
func (m *XModel) Scan(cbs []int, gotErr bool, failing map[int]bool, libRetries func(fi int) (int, bool)) (ScanResult, string) {
	var res ScanResult
	// flows expired at the start of the scan, grouped by deadline
	var exp []int
	for fi, x := range m.Flows {
		if x.min() <= m.Now {
			exp = append(exp, fi)
		}
	}
	sort.Slice(exp, func(i, j int) bool {
		a, b := m.Flows[exp[i]], m.Flows[exp[j]]
		if a.min() != b.min() {
			return a.min() < b.min()
		}
		return exp[i] < exp[j]
	})
	pos := 0
	stopped := false
	for g := 0; g < len(exp) && !stopped; {
		h := g
		for h < len(exp) && m.Flows[exp[h]].min() == m.Flows[exp[g]].min() {
			h++
		}
		group := exp[g:h]
		g = h
		ready := map[int]bool{}
		var unready []int
		for _, fi := range group {
			if m.Flows[fi].Ready {
				ready[fi] = true
			} else {
				unready = append(unready, fi)
			}
		}
		// the ready flows of the group must be called back next, in any order, up to the first failure
		for len(ready) > 0 {
			if pos >= len(cbs) {
				return res, fmt.Sprintf("flows %v passed their deadline (at %ds, now %ds) but the scan did not hand them to the callback", keysOf(ready), m.Flows[group[0]].min(), m.Now)
			}
			fi := cbs[pos]
			if !ready[fi] {
				x := m.Flows[fi]
				switch {
				case x == nil:
					return res, fmt.Sprintf("callback for flow %d which is not held", fi)
				case !x.Ready:
					return res, fmt.Sprintf("callback for flow %d before records from both nodes were received", fi)
				case x.min() > m.Now:
					return res, fmt.Sprintf("callback for flow %d whose deadlines (active %ds, inactive %ds) have not passed (now %ds)", fi, x.Active, x.Inactive, m.Now)
				default:
					return res, fmt.Sprintf("callback for flow %d (deadline %ds) before flows %v whose deadline %ds is earlier", fi, x.min(), keysOf(ready), m.Flows[group[0]].min())
				}
			}
			pos++
			delete(ready, fi)
			x := m.Flows[fi]
			x.Callbacks++
			res.Fired++
			if failing[fi] {
				stopped = true
				break
			}
			if x.Inactive < m.Now {
				delete(m.Flows, fi)
				res.Dropped = append(res.Dropped, fi)
			} else {
				x.Active = m.Now + m.A
				x.ActiveExports++
			}
		}
		for _, fi := range unready {
			x := m.Flows[fi]
			if stopped {
				// the scan stopped inside this deadline group: whether this flow was visited before
				// the failing one is not determined; accept either legal state
				if lr, held := libRetries(fi); (!held && x.Retries+1 > m.MaxRetries) || (held && lr == x.Retries+1) {
					if !held {
						delete(m.Flows, fi)
					} else {
						x.Retries++
						x.Active, x.Inactive = m.Now+m.A, m.Now+m.I
					}
				}
				continue
			}
			x.Retries++
			if x.Retries > m.MaxRetries {
				delete(m.Flows, fi)
				res.Dropped = append(res.Dropped, fi)
			} else {
				x.Active, x.Inactive = m.Now+m.A, m.Now+m.I
			}
		}
	}
	if pos < len(cbs) {
		fi := cbs[pos]
		x := m.Flows[fi]
		switch {
		case stopped:
			return res, fmt.Sprintf("callback for flow %d after a callback had failed (the scan must stop)", fi)
		case x == nil:
			return res, fmt.Sprintf("callback for flow %d which is not held (or was just removed)", fi)
		case !x.Ready:
			return res, fmt.Sprintf("callback for flow %d before records from both nodes were received", fi)
		default:
			return res, fmt.Sprintf("callback for flow %d whose deadlines (active %ds, inactive %ds) have not passed (now %ds)", fi, x.Active, x.Inactive, m.Now)
		}
	}
	if stopped != gotErr {
		if stopped {
			return res, "a callback failed but the scan reported success"
		}
		return res, "the scan reported an error although no callback failed"
	}
	return res, ""
}

func keysOf(m map[int]bool) []int {
	var out []int
	for k := range m {
		out = append(out, k)
	}
	sort.Ints(out)
	return out
}

// CheckState compares the library's heap/map snapshot with the model and checks the
// structural invariants. flows maps flow index -> definition.
func (m *XModel) CheckState(ap *intermediate.AggregationProcess, flows []FlowDef) string {
	queue, held := ap.VerifSnapshot()
	realNow := time.Now()
	if len(queue) != len(held) {
		return fmt.Sprintf("expiry queue has %d entries but %d flows are held", len(queue), len(held))
	}
	if len(held) != len(m.Flows) {
		return fmt.Sprintf("%d flows are held, the model holds %d", len(held), len(m.Flows))
	}
	idx := map[intermediate.FlowKey]int{}
	for i, f := range flows {
		idx[f.Key()] = i
	}
	minOf := func(e intermediate.VerifQueueEntry) time.Time {
		if e.Active.Before(e.Inactive) {
			return e.Active
		}
		return e.Inactive
	}
	for i, e := range queue {
		if e.Index != i {
			return fmt.Sprintf("queue entry %d carries index %d", i, e.Index)
		}
		if !e.InMap || !e.MapPointsHere {
			return fmt.Sprintf("queue entry %d (%+v) does not refer to a held flow (in map %v, map points back %v)", i, e.Key, e.InMap, e.MapPointsHere)
		}
		if i > 0 {
			p := (i - 1) / 2
			if minOf(e).Before(minOf(queue[p])) {
				return fmt.Sprintf("heap order violated: entry %d expires before its parent %d", i, p)
			}
		}
		fi, ok := idx[e.Key]
		if !ok {
			return fmt.Sprintf("queue entry for an unknown key %+v", e.Key)
		}
		x := m.Flows[fi]
		if x == nil {
			return fmt.Sprintf("flow %d is scheduled but the model does not hold it", fi)
		}
		for _, d := range []struct {
			name string
			lib  time.Time
			mod  int64
		}{{"active", e.Active, x.Active}, {"inactive", e.Inactive, x.Inactive}} {
			got := d.lib.Sub(realNow)
			want := time.Duration(d.mod-m.Now) * time.Second
			if diff := got - want; diff > 10*time.Second || diff < -10*time.Second {
				return fmt.Sprintf("flow %d: %s deadline is %v from now, the model says %v", fi, d.name, got.Round(time.Second), want)
			}
		}
	}
	for _, h := range held {
		fi, ok := idx[h.Key]
		if !ok {
			return fmt.Sprintf("held flow with an unknown key %+v", h.Key)
		}
		if !h.ItemInQueue {
			return fmt.Sprintf("flow %d is held but not scheduled for any expiry (queue index %d): it can never expire", fi, h.ItemIndex)
		}
		x := m.Flows[fi]
		if x == nil {
			return fmt.Sprintf("flow %d is held but the model does not hold it", fi)
		}
		if h.Ready != x.Ready {
			return fmt.Sprintf("flow %d: ready-to-send is %v, the model says %v (sides seen %v)", fi, h.Ready, x.Ready, x.Sides)
		}
		if !x.Ready && h.Retries != x.Retries {
			return fmt.Sprintf("flow %d: %d retries counted, the model says %d", fi, h.Retries, x.Retries)
		}
	}
	// advertised time to the next expiry
	adv := ap.GetExpiryFromExpirePriorityQueue()
	var want time.Duration
	if e, ok := m.Earliest(); ok {
		want = intermediate.MinExpiryTime + time.Duration(e-m.Now)*time.Second
		if want < 0 {
			want = intermediate.MinExpiryTime
		}
	} else {
		want = time.Duration(m.A) * time.Second
		if m.I < m.A {
			want = time.Duration(m.I) * time.Second
		}
	}
	if diff := adv - want; diff > 10*time.Second || diff < -10*time.Second {
		return fmt.Sprintf("advertised time to the next expiry is %v, the earliest deadline is %v away", adv.Round(time.Second), want)
	}
	return ""
}
