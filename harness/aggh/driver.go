//go:build verif

package aggh

import (
	"fmt"
	"net"
	"strings"
	"time"

	"github.com/vmware/go-ipfix/pkg/intermediate"

	"verifharness/ev"
	"verifharness/glue"
)

// XOp is one action of an expiry/correlation history.
//
//	rec      a record for Flow from Side
//	advance  virtual time moves on by Hours
//	scan     expiry scan; the callback fails for the flows in Fail (bit mask over flow indices)
type XOp struct {
	Kind  string `json:"kind"`
	Flow  int    `json:"flow,omitempty"`
	Side  string `json:"side,omitempty"`
	Hours int    `json:"hours,omitempty"`
	Fail  int    `json:"fail,omitempty"`
	// Incomplete (rec): if this record is the one that completes the correlation of a withheld flow,
	// it lacks an element the process is configured to aggregate (the process reports an error for
	// it, but both nodes have then been received).
	Incomplete bool `json:"incomplete,omitempty"`
	// EndMode (rec): "" = the record ends later than the last one from its node; "equal" = at the same
	// second; "older" = a second earlier (a record overtaken on its way). The deadlines do not depend
	// on it.
	EndMode string `json:"end_mode,omitempty"`
	// PodGen (rec) > 0: the reporting node names another Pod than before at its end of the connection
	// (the Pod was replaced and got the same address; the port is in use again): "pod-src-<PodGen>".
	// The record is still this node's record.
	PodGen int `json:"pod_gen,omitempty"`
}

// XCase is a history against one aggregation process.
type XCase struct {
	ActiveSec   int       `json:"active_s"`
	InactiveSec int       `json:"inactive_s"`
	Flows       []FlowDef `json:"flows"`
	Ops         []XOp     `json:"ops"`
	// LayoutS / LayoutD: element order used by the source-node / destination-node exporter
	LayoutS int `json:"layout_s,omitempty"`
	LayoutD int `json:"layout_d,omitempty"`
	// MaxRetries, when set, is assigned to the package's exported MaxRetries setting for this
	// history (unset: the default of 2)
	MaxRetries *int `json:"max_retries,omitempty"`
	// Verbosity: the process-wide log verbosity while the history runs (output discarded)
	Verbosity int `json:"verbosity,omitempty"`
	// NoAggregation: the process is configured without AggregateElements (it correlates and
	// expires flows but keeps no statistics)
	NoAggregation bool `json:"no_aggregation,omitempty"`
}

// XStats is what a run observed.
type XStats struct {
	FiredAfterUpdate, FailingCallback, TwoActiveExports, Correlated, RetryThenPeer, DroppedUncorrelated, BothOrders, IncompleteCorrelating bool
	firstSides                                                                                                                             map[string]bool
}

// RunX interprets a history, checking after every action the expiry model, the structural
// invariants and (at every callback) the correlation oracle.
func RunX(c XCase, st *XStats) *ev.Failure {
	if st == nil {
		st = &XStats{}
	}
	st.firstSides = map[string]bool{}
	if c.Verbosity > 0 {
		glue.SetKlogVerbosity(c.Verbosity)
		defer glue.SetKlogVerbosity(0)
	}
	a, in := time.Duration(c.ActiveSec)*time.Second, time.Duration(c.InactiveSec)*time.Second
	intermediate.MaxRetries = 2
	if c.MaxRetries != nil {
		intermediate.MaxRetries = *c.MaxRetries
	}
	defer func() { intermediate.MaxRetries = 2 }()
	ap := New(a, in, nil, 1)
	if c.NoAggregation {
		ap = NewWith(a, in, nil, 1, nil)
	}
	m := NewXModel(a, in, intermediate.MaxRetries)
	keyToFlow := map[intermediate.FlowKey]int{}
	for i, f := range c.Flows {
		keyToFlow[f.Key()] = i
	}
	ends := map[string]uint32{}
	updated := map[int]bool{}
	retried := map[int]bool{}
	for i, o := range c.Ops {
		switch o.Kind {
		case "rec":
			fi := o.Flow % len(c.Flows)
			f := c.Flows[fi]
			side := o.Side
			if !f.NeedsCorrelation() || side == "" {
				side = "S"
			}
			if f.OmitPeerPod && f.NeedsCorrelation() {
				side = "S"
			}
			k := fmt.Sprintf("%d%s", fi, side)
			if ends[k] == 0 {
				ends[k] = 2000
				if side == "D" {
					ends[k] = 2001
				}
			}
			end := ends[k] + 2
			switch {
			case o.EndMode == "older" && ends[k] > 2002:
				end = ends[k] - 1
			case o.EndMode == "equal" && ends[k] > 2002:
				end = ends[k]
			default:
				ends[k] = end
			}
			r := Rec{Flow: fi, Side: side, Start: 1000, End: end, Tot: [4]uint64{uint64(ends[k]), uint64(ends[k]) * 100, 1, 2}, Dlt: [4]uint64{1, 100, 1, 2}, Layout: c.LayoutS, PodGen: o.PodGen}
			if side == "D" {
				r.Layout = c.LayoutD
			}
			held := m.Flows[fi] != nil
			correlating := false
			if x := m.Flows[fi]; x != nil && !x.Ready && (side != x.FirstSide || side == "N" || side == "B") {
				correlating = true
				if retried[fi] {
					st.RetryThenPeer = true
				}
			}
			r.Incomplete = o.Incomplete && correlating && f.RecordNeedsCorrelation(side)
			err := ap.AggregateMsgByFlowKey(Message(c.Flows, r))
			if err != nil && !r.Incomplete {
				return ev.Failf("op %d: AggregateMsgByFlowKey: %v", i, err)
			}
			if r.Incomplete && err != nil {
				// the record was received (both nodes have now been seen) but its update was refused:
				// the deadlines stay as they were
				x := m.Flows[fi]
				x.Ready = true
				x.Sides[side] = true
				st.IncompleteCorrelating = true
				break
			}
			m.Ingest(fi, f, r)
			if held {
				updated[fi] = true
			} else {
				delete(retried, fi)
				if f.NeedsCorrelation() {
					st.firstSides[side] = true
					st.BothOrders = st.firstSides["S"] && st.firstSides["D"]
				}
			}
		case "advance":
			d := time.Duration(o.Hours) * time.Hour
			ap.VerifShiftDeadlines(d)
			m.Now += int64(d / time.Second)
		case "scan":
			var cbs []int
			var cbFail *ev.Failure
			failing := map[int]bool{}
			for fi := range c.Flows {
				if o.Fail&(1<<uint(fi)) != 0 {
					failing[fi] = true
				}
			}
			scan := ap.ForAllExpiredFlowRecordsDo
			if c.Verbosity > 0 {
				// with the library's log statements switched on a scan must still come back: it is run
				// under a watchdog (a scan that never returns keeps the process lock for good)
				scan = func(cb intermediate.FlowKeyRecordMapCallBack) error {
					done := make(chan error, 1)
					go func() { done <- ap.ForAllExpiredFlowRecordsDo(cb) }()
					select {
					case err := <-done:
						return err
					case <-time.After(15 * time.Second):
						cbFail = ev.Failf("op %d: HUNG: the expiry scan did not return within 15 s (log verbosity %d, callbacks so far %v): it still holds the process lock", i, c.Verbosity, cbs)
						return nil
					}
				}
			}
			err := scan(func(k intermediate.FlowKey, r *intermediate.AggregationFlowRecord) error {
				fi, ok := keyToFlow[k]
				if !ok {
					cbFail = ev.Failf("op %d: callback with an unknown key %+v", i, k)
					return nil
				}
				cbs = append(cbs, fi)
				if cbFail == nil {
					if d := checkCorrelation(ap, c.Flows[fi], m.Flows[fi], r); d != "" {
						cbFail = ev.Failf("op %d: flow %d handed to the callback: %s", i, fi, d)
					}
				}
				if failing[fi] {
					return fmt.Errorf("export of flow %d failed", fi)
				}
				return nil
			})
			if cbFail != nil {
				return cbFail
			}
			before := map[int]bool{}
			for fi, x := range m.Flows {
				if !x.Ready {
					before[fi] = true
				}
			}
			res, why := m.Scan(cbs, err != nil, failing, func(fi int) (int, bool) {
				_, held := ap.VerifSnapshot()
				for _, h := range held {
					if h.Key == c.Flows[fi].Key() {
						return h.Retries, true
					}
				}
				return 0, false
			})
			if why != "" {
				return ev.Failf("op %d (scan at %ds, callbacks %v, error %v): %s", i, m.Now, cbs, err != nil, why)
			}
			for _, fi := range cbs {
				if updated[fi] {
					st.FiredAfterUpdate = true
				}
				if failing[fi] {
					st.FailingCallback = true
				}
				if x := m.Flows[fi]; x != nil && x.ActiveExports >= 2 {
					st.TwoActiveExports = true
				}
				if c.Flows[fi].NeedsCorrelation() {
					st.Correlated = true
				}
			}
			for fi := range before {
				if x := m.Flows[fi]; x == nil {
					st.DroppedUncorrelated = true
				} else if x.Retries > 0 {
					retried[fi] = true
				}
			}
			for _, fi := range res.Dropped {
				delete(updated, fi)
			}
		}
		// the full snapshot comparison is linear in the number of flows: with hundreds of flows it
		// runs after every scan and advance, and after every 256th record
		if len(c.Flows) > 64 && o.Kind == "rec" && i%256 != 0 && i != len(c.Ops)-1 {
			continue
		}
		if d := m.CheckState(ap, c.Flows); d != "" {
			return ev.Failf("after op %d (%s, virtual time %ds): %s", i, o.Kind, m.Now, d)
		}
		if n := ap.GetNumFlows(); int(n) != len(m.Flows) {
			return ev.Failf("after op %d: GetNumFlows()=%d, model holds %d", i, n, len(m.Flows))
		}
	}
	return nil
}

// checkCorrelation is the C07 oracle at the moment a flow is handed to the callback.
func checkCorrelation(ap *intermediate.AggregationProcess, f FlowDef, x *XFlow, r *intermediate.AggregationFlowRecord) string {
	if !f.NeedsCorrelation() {
		if f.Kind == KindIntraNode || f.Kind == KindToExternal {
			if !ap.AreCorrelatedFieldsFilled(*r) {
				return "intra-node / to-external flow is not marked filled"
			}
		}
		return ""
	}
	if f.Denied() {
		// ready at once: no correlation took place, nothing to compare
		return ""
	}
	if x == nil || !x.Ready {
		return "inter-node flow exported before records from both the source and the destination node were received"
	}
	if !r.ReadyToSend {
		return "callback for a flow that is not marked ready"
	}
	if !ap.AreCorrelatedFieldsFilled(*r) {
		return "correlated flow is not marked filled"
	}
	if x.Sides["N"] || x.Sides["B"] {
		// a record that names neither Pod or both took part (C06's histories only): what the
		// correlated fields then hold is not something the statements speak about
		return ""
	}
	cs, cd := f.Supplied()
	em := r.Record.GetElementMap()
	str := func(name, s, d string) string {
		got, _ := em[name].(string)
		switch {
		case s == "" && d == "":
			if got != "" {
				return fmt.Sprintf("%s = %q although neither node supplied it", name, got)
			}
		case got == "":
			return fmt.Sprintf("%s is empty although a node supplied %q", name, s+d)
		case got != s && got != d && !(strings.HasSuffix(name, "PodName") && strings.HasPrefix(got, s+d+"-")):
			return fmt.Sprintf("%s = %q, the nodes supplied %q / %q", name, got, s, d)
		}
		return ""
	}
	checks := []string{
		str("sourcePodName", "pod-src", ""), str("destinationPodName", "", "pod-dst"),
		str("sourcePodNamespace", cs.SrcNS, cd.SrcNS), str("sourceNodeName", cs.SrcNode, cd.SrcNode),
		str("destinationPodNamespace", cs.DstNS, cd.DstNS), str("destinationNodeName", cs.DstNode, cd.DstNode),
	}
	for _, d := range checks {
		if d != "" {
			return d
		}
	}
	num := func(name string, got, s, d int64) string {
		switch {
		case s == 0 && d == 0:
			if got != 0 {
				return fmt.Sprintf("%s = %d although neither node supplied it", name, got)
			}
		case got == 0:
			return fmt.Sprintf("%s is empty although a node supplied it (%d / %d)", name, s, d)
		case got != s && got != d:
			return fmt.Sprintf("%s = %d, the nodes supplied %d / %d", name, got, s, d)
		}
		return ""
	}
	u16, _ := em["destinationServicePort"].(uint16)
	if d := num("destinationServicePort", int64(u16), int64(cs.SvcPort), int64(cd.SvcPort)); d != "" {
		return d
	}
	i32, _ := em["ingressNetworkPolicyRulePriority"].(int32)
	if d := num("ingressNetworkPolicyRulePriority", int64(i32), int64(cs.Priority), int64(cd.Priority)); d != "" {
		return d
	}
	// one-byte correlate fields (rule actions)
	u8a, _ := em["ingressNetworkPolicyRuleAction"].(uint8)
	if d := num("ingressNetworkPolicyRuleAction", int64(u8a), int64(cs.IngAct), int64(cd.IngAct)); d != "" {
		return d
	}
	u8b, _ := em["egressNetworkPolicyRuleAction"].(uint8)
	if d := num("egressNetworkPolicyRuleAction", int64(u8b), int64(cs.EgrAct), int64(cd.EgrAct)); d != "" {
		return d
	}
	cn := "destinationClusterIPv4"
	if f.V6 {
		cn = "destinationClusterIPv6"
	}
	gip, _ := em[cn].(net.IP)
	zero := gip == nil || gip.IsUnspecified()
	s, d := cs.Cluster, cd.Cluster
	switch {
	case s == "" && d == "":
		if !zero {
			return fmt.Sprintf("%s = %v although neither node supplied it", cn, gip)
		}
	case zero:
		return fmt.Sprintf("%s is empty although a node supplied %s%s", cn, s, d)
	case !(s != "" && gip.Equal(net.ParseIP(s))) && !(d != "" && gip.Equal(net.ParseIP(d))):
		return fmt.Sprintf("%s = %v, the nodes supplied %q / %q", cn, gip, s, d)
	}
	return ""
}
