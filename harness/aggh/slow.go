//go:build verif

package aggh

import (
	"fmt"
	"sync"
	"time"

	"github.com/vmware/go-ipfix/pkg/intermediate"

	"verifharness/ev"
)

// SlowScen is a real-time scenario in which an expiry scan takes real time because its export
// callback blocks (as a network export does). Only statements that do not depend on how the
// machine schedules things are asserted; the timing decides the sensitivity, not the verdict.
//
//	(default)        flow 0 at t0, flow 1 at t0+200 ms, scan at t0+450 ms whose callback for flow 0
//	                 blocks SleepMs (300): flow 1's deadline (t0+600 ms) falls into the scan.
//	RecordDuring     ... and while flow 0's callback blocks, another goroutine sends a record for flow 0.
//	RecordOther      ... another goroutine sends the first record of flow 2 (it has to wait for the
//	                 scan); a scan immediately afterwards must not deliver flow 2: its deadlines run
//	                 from the moment the record was taken in, not from the moment the call began.
//	ManyDue          three flows are due for active expiry and every callback blocks SleepMs (100)
//	                 with an active timeout of ActiveMs (150): one scan hands each flow over once.
type SlowScen struct {
	Name         string `json:"name"`
	ActiveMs     int    `json:"active_ms"`
	InactMs      int    `json:"inactive_ms"`
	SleepMs      int    `json:"sleep_ms,omitempty"`
	RecordDuring bool   `json:"record_during,omitempty"`
	RecordOther  bool   `json:"record_other,omitempty"`
	ManyDue      bool   `json:"many_due,omitempty"`
	// ScanWaits: the scan itself has to wait: another public call (ForAllRecordsDo with a visitor that
	// takes SleepMs) holds the process when the scan is requested, and flow 0's active deadline
	// passes during that wait. The scan runs after the deadline, so it hands flow 0 over, and
	// re-arms it from the time it ran.
	ScanWaits bool `json:"scan_waits,omitempty"`
	// AllDue (with ManyDue): every flow's deadline had passed when the scan began, so the scan hands
	// over every one of them, however long the callbacks take
	AllDue bool `json:"all_due,omitempty"`
}

// SlowScens is the standard list.
func SlowScens() []SlowScen {
	return []SlowScen{
		{Name: "active_deadline_falls_into_the_scan", ActiveMs: 400, InactMs: 60000},
		{Name: "inactive_deadline_falls_into_the_scan", ActiveMs: 60000, InactMs: 400},
		{Name: "record_for_the_flow_during_its_inactive_export", ActiveMs: 60000, InactMs: 400, RecordDuring: true},
		{Name: "record_for_the_flow_during_its_active_export", ActiveMs: 400, InactMs: 60000, RecordDuring: true},
		{Name: "first_record_of_another_flow_waits_for_a_slow_scan", ActiveMs: 60000, InactMs: 400, SleepMs: 700, RecordOther: true},
		{Name: "callbacks_take_longer_than_the_active_timeout", ActiveMs: 150, InactMs: 60000, SleepMs: 100, ManyDue: true},
		{Name: "scan_requested_while_a_slow_visitor_holds_the_process", ActiveMs: 400, InactMs: 60000, SleepMs: 600, ScanWaits: true},
		{Name: "one_scan_whose_callbacks_take_seconds", ActiveMs: 60000, InactMs: 150, SleepMs: 1100, ManyDue: true, AllDue: true},
	}
}

func slowFlows() []FlowDef {
	return []FlowDef{
		{Src: "10.0.0.1", Dst: "10.0.1.2", SPort: 1000, DPort: 80, Proto: 6, Kind: KindIntraNode},
		{Src: "10.0.0.3", Dst: "10.0.1.4", SPort: 1001, DPort: 443, Proto: 6, Kind: KindToExternal},
		{V6: true, Src: "2001:db8::1", Dst: "2001:db8::2", SPort: 1002, DPort: 53, Proto: 17, Kind: KindIntraNode},
	}
}

// Structural: the map/queue agreement, without a deadline model.
func Structural(ap *intermediate.AggregationProcess) string {
	queue, held := ap.VerifSnapshot()
	if len(queue) != len(held) {
		return fmt.Sprintf("expiry queue has %d entries but %d flows are held", len(queue), len(held))
	}
	for i, e := range queue {
		if e.Index != i || !e.InMap || !e.MapPointsHere {
			return fmt.Sprintf("queue entry %d (%+v) does not refer to a held flow", i, e.Key)
		}
	}
	for _, h := range held {
		if !h.ItemInQueue {
			return fmt.Sprintf("flow %s is held but not scheduled for any expiry: it can never expire", h.Key.SourceAddress)
		}
	}
	return ""
}

// RunSlow runs one scenario.
func RunSlow(sc SlowScen) *ev.Failure {
	fl := slowFlows()
	ap := New(time.Duration(sc.ActiveMs)*time.Millisecond, time.Duration(sc.InactMs)*time.Millisecond, nil, 1)
	sleep := time.Duration(sc.SleepMs) * time.Millisecond
	if sleep == 0 {
		sleep = 300 * time.Millisecond
	}
	t0 := time.Now()
	rc := func(fi int) error {
		return ap.AggregateMsgByFlowKey(Message(fl, Rec{Flow: fi, Side: "S", Start: 1000, End: 2000, Tot: [4]uint64{1, 2, 1, 2}, Dlt: [4]uint64{1, 1, 1, 1}}))
	}
	if sc.ScanWaits {
		if err := rc(0); err != nil {
			return ev.Failf("%s: %v", sc.Name, err)
		}
		created := time.Now()
		visiting, visited := make(chan struct{}), make(chan time.Time, 1)
		go func() {
			first := true
			ap.ForAllRecordsDo(func(intermediate.FlowKey, *intermediate.AggregationFlowRecord) error {
				if first {
					first = false
					close(visiting)
					time.Sleep(sleep)
				}
				return nil
			})
			visited <- time.Now()
		}()
		<-visiting
		time.Sleep(50 * time.Millisecond)
		requested := time.Now()
		var got []string
		if err := ap.ForAllExpiredFlowRecordsDo(func(k intermediate.FlowKey, _ *intermediate.AggregationFlowRecord) error {
			got = append(got, k.SourceAddress)
			return nil
		}); err != nil {
			return ev.Failf("%s: scan: %v", sc.Name, err)
		}
		ran := <-visited // the scan cannot have run before the visitor returned
		deadline := created.Add(time.Duration(sc.ActiveMs) * time.Millisecond)
		if requested.Before(deadline.Add(-20*time.Millisecond)) && ran.After(deadline.Add(20*time.Millisecond)) && len(got) == 0 {
			return ev.Failf("%s: the scan was requested %v before flow 0's active deadline, had to wait for a visitor that held the process until %v after the deadline, and did not hand the flow over: it judged the deadlines as of the time it was requested, not the time it ran", sc.Name, deadline.Sub(requested).Round(time.Millisecond), ran.Sub(deadline).Round(time.Millisecond))
		}
		if len(got) == 1 {
			// re-armed from the time the scan ran: an immediate second scan has nothing to do
			n := 0
			ap.ForAllExpiredFlowRecordsDo(func(intermediate.FlowKey, *intermediate.AggregationFlowRecord) error { n++; return nil })
			if n != 0 && time.Since(ran) < time.Duration(sc.ActiveMs)*time.Millisecond*8/10 {
				return ev.Failf("%s: flow 0 was exported by a scan that had waited %v for the process, and again by a scan %v later (active timeout %d ms): it was re-armed from the time the first scan was requested", sc.Name, ran.Sub(requested).Round(time.Millisecond), time.Since(ran).Round(time.Millisecond), sc.ActiveMs)
			}
		}
		if d := Structural(ap); d != "" {
			return ev.Failf("%s: %s", sc.Name, d)
		}
		return nil
	}
	if sc.ManyDue {
		for fi := range fl {
			if err := rc(fi); err != nil {
				return ev.Failf("%s: %v", sc.Name, err)
			}
		}
		due := sc.ActiveMs
		if sc.InactMs < due {
			due = sc.InactMs
		}
		time.Sleep(time.Until(t0.Add(time.Duration(due)*time.Millisecond + 50*time.Millisecond)))
		var mu sync.Mutex
		seen := map[string]int{}
		var order []string
		done := make(chan error, 1)
		go func() {
			done <- ap.ForAllExpiredFlowRecordsDo(func(k intermediate.FlowKey, _ *intermediate.AggregationFlowRecord) error {
				mu.Lock()
				seen[k.SourceAddress]++
				order = append(order, k.SourceAddress)
				n := len(order)
				mu.Unlock()
				if n > 20 {
					return fmt.Errorf("enough")
				}
				time.Sleep(sleep)
				return nil
			})
		}()
		select {
		case <-done:
		case <-time.After(30 * time.Second):
			return ev.Failf("%s: one expiry scan over 3 due flows, callbacks of %v each, did not return within 30 s", sc.Name, sleep)
		}
		mu.Lock()
		defer mu.Unlock()
		for a, n := range seen {
			if n > 1 {
				return ev.Failf("%s: one expiry scan handed flow %s to the callback %d times (active timeout %d ms, callbacks of %v each; order %v): a flow is exported once per deadline", sc.Name, a, n, sc.ActiveMs, sleep, order)
			}
		}
		if sc.AllDue && len(seen) != len(fl) {
			return ev.Failf("%s: the deadlines of all %d flows had passed when the scan began; it handed over %d of them (%v, callbacks of %v each) and reported success", sc.Name, len(fl), len(seen), order, sleep)
		}
		if d := Structural(ap); d != "" {
			return ev.Failf("%s: %s", sc.Name, d)
		}
		return nil
	}
	if err := rc(0); err != nil {
		return ev.Failf("%s: %v", sc.Name, err)
	}
	time.Sleep(time.Until(t0.Add(200 * time.Millisecond)))
	if !sc.RecordOther {
		if err := rc(1); err != nil {
			return ev.Failf("%s: %v", sc.Name, err)
		}
	}
	time.Sleep(time.Until(t0.Add(450 * time.Millisecond)))
	var delivered []string
	senderDone := make(chan error, 1)
	sender := false
	var sentAt, appliedAt time.Time
	err := ap.ForAllExpiredFlowRecordsDo(func(k intermediate.FlowKey, r *intermediate.AggregationFlowRecord) error {
		delivered = append(delivered, k.SourceAddress)
		if k == fl[0].Key() {
			if (sc.RecordDuring || sc.RecordOther) && !sender {
				// another goroutine (a worker) takes in a record while this export is in progress; it may
				// have to wait for the scan, and must then be applied normally
				sender = true
				which := 0
				if sc.RecordOther {
					which = 2
				}
				sentAt = time.Now()
				go func() {
					err := rc(which)
					appliedAt = time.Now()
					senderDone <- err
				}()
			}
			time.Sleep(sleep) // flow 1's deadline (t0+600ms) passes here
		}
		return nil
	})
	if err != nil {
		return ev.Failf("%s: scan: %v", sc.Name, err)
	}
	if sender {
		select {
		case err := <-senderDone:
			if err != nil {
				return ev.Failf("%s: record sent during the export callback: %v", sc.Name, err)
			}
		case <-time.After(10 * time.Second):
			return ev.Failf("%s: a record sent during an export callback was not taken in within 10 s of the scan's end", sc.Name)
		}
	}
	if sc.RecordOther && sender {
		// flow 2's first record has just been taken in: nothing about it can be due yet
		var early []string
		if err := ap.ForAllExpiredFlowRecordsDo(func(k intermediate.FlowKey, _ *intermediate.AggregationFlowRecord) error {
			early = append(early, k.SourceAddress)
			return nil
		}); err != nil {
			return ev.Failf("%s: scan right after the record was taken in: %v", sc.Name, err)
		}
		if since := time.Since(appliedAt); since < time.Duration(sc.InactMs)*time.Millisecond*8/10 {
			for _, a := range early {
				if a == fl[2].Src {
					return ev.Failf("%s: flow %s was handed to the expiry callback %v after its first record was taken in (the call had started %v earlier, behind a scan whose callback blocked; inactive timeout %d ms): its deadlines were not taken from the moment the record was applied", sc.Name, a, since.Round(time.Millisecond), appliedAt.Sub(sentAt).Round(time.Millisecond), sc.InactMs)
				}
			}
		}
	}
	if d := Structural(ap); d != "" {
		return ev.Failf("%s: after a scan whose callback for flow 0 took %v (callbacks for %v): %s", sc.Name, sleep, delivered, d)
	}
	// all remaining deadlines pass; everything still held is delivered
	ap.VerifShiftDeadlines(100 * time.Hour)
	_, held := ap.VerifSnapshot()
	n := 0
	if err := ap.ForAllExpiredFlowRecordsDo(func(intermediate.FlowKey, *intermediate.AggregationFlowRecord) error { n++; return nil }); err != nil {
		return ev.Failf("%s: second scan: %v", sc.Name, err)
	}
	if n != len(held) {
		return ev.Failf("%s: %d flows were held after the slow scan, a scan after every deadline delivered %d", sc.Name, len(held), n)
	}
	if d := Structural(ap); d != "" {
		return ev.Failf("%s: after the second scan: %s", sc.Name, d)
	}
	return nil
}

// RunSlowAll runs the scenarios side by side and returns one failure slot per scenario.
func RunSlowAll(scens []SlowScen) []*ev.Failure {
	fails := make([]*ev.Failure, len(scens))
	var wg sync.WaitGroup
	for si, sc := range scens {
		wg.Add(1)
		go func(si int, sc SlowScen) {
			defer wg.Done()
			fails[si] = RunSlow(sc)
		}(si, sc)
	}
	wg.Wait()
	return fails
}
