//go:build verif

// C09 — exporter never emits an invalid, oversized or silently altered message.
package c09

import (
	"bytes"
	"encoding/json"
	"fmt"
	"net"
	"os"
	"testing"
	"time"

	"pgregory.net/rapid"

	"github.com/vmware/go-ipfix/pkg/entities"
	"github.com/vmware/go-ipfix/pkg/exporter"

	"verifharness/ev"
	"verifharness/exph"
	"verifharness/gen"
	"verifharness/glue"
	ref "verifharness/refipfix"
)

// Step kinds:
//
//	tpl              valid template set (fresh id)
//	data             valid data set for template Of
//	data_unknown_id  data set for an id never sent (ID)
//	data_wrong_count data records with Delta more/fewer fields than template Of (Delta=-100: zero fields)
//	data_empty_unknown  a data set prepared with an id never sent (ID) and holding no record at all
//	data_foreign_id  a data set prepared with id ID - never sent, or (Delta=1) the id of another template
//	                 sent before whose field count differs - whose records were added under template Of
//	                 and fit that one: the id on the wire names no template these records match
//	undefined        a set whose type is Undefined
//	sized_data       data set for the size template whose message is exactly Size bytes
//	sized_tpl        template set with NFields one-byte fields (message 24+4*NFields bytes), then a
//	                 data record for it (which may only go out if the template did)
//	wide_record      one data record for the wide template (an unsigned32 and three strings) whose fields are
//	                 each encodable but add up to Size bytes, beyond what a message holds
//	reduced_size     a template holding a user-defined element of a fixed-width type declared with a shorter
//	                 length (reduced-size encoding, RFC 7011 6.2: Ill names it, Delta=1 puts it last), then a
//	                 record with a small value: an error, or the value in exactly the declared number of bytes
//	no_encoder       a template holding a registry element whose data type the library has no encoder for
//	                 (Ill: micro = flowStartMicroseconds, nano = flowStartNanoseconds in an unsigned64 value
//	                 object, basiclist = basicList in an octet-array value object - the only way an application
//	                 can give such an element a value), then a record: an error, or the value's bytes
//	illtyped         data record for the ill-typed template holding a value that cannot be encoded: Ill names it
type Step struct {
	Kind    string        `json:"kind"`
	Of      int           `json:"of,omitempty"`
	ID      uint16        `json:"id,omitempty"`
	Fields  []ref.Field   `json:"fields,omitempty"`
	Recs    [][]ref.Value `json:"recs,omitempty"`
	Delta   int           `json:"delta,omitempty"`
	Size    int           `json:"size,omitempty"`
	NFields int           `json:"nfields,omitempty"`
	Ill     string        `json:"ill,omitempty"`
	Path    int           `json:"path,omitempty"`
}

type Case struct {
	Proto string `json:"proto"`
	Steps []Step `json:"steps"`
	// JSON: the exporting process is configured with SendJSONRecord (phase json_mode, tcp): templates
	// are registered but not written, every record of a valid data set goes out as one JSON document
	JSON bool `json:"json,omitempty"`
	// JSONBufLen: the JSONBufferLen setting (initial size of the per-record buffer; 0 = default)
	JSONBufLen int `json:"json_buf_len,omitempty"`
	// Verbosity: the process-wide log verbosity while the case runs (output discarded): logging must
	// not change what is sent
	Verbosity int `json:"verbosity,omitempty"`
}

var (
	rec  *ev.Recorder
	pool []ref.Field
)

func TestMain(m *testing.M) {
	glue.SilenceKlog()
	pool, _ = glue.NewPoolArgs()
	if rp := ev.LoadReplay(); rp != nil {
		if rp.Phase == "transient_write_failure" {
			ev.RunReplay(rp, runTransient)
		}
		if rp.Phase == "json_mode" {
			ev.RunReplay(rp, func(c Case) *ev.Failure { return runJSON(c, nil) })
		}
		ev.RunReplay(rp, func(c Case) *ev.Failure { return runCase(c, nil) })
	}
	rec = ev.New("C09", "sessions mixing valid template/data sends with: data for an id never sent, records with a wrong field count (-1, +1, 0), an Undefined set, data and template sets whose message length is each value around the 65535-byte limit (enumerated every run), and values that cannot be encoded for their element (IPv4 element holding an IPv6 address or nil, IPv6 element holding 5 bytes, MAC of length != 6, fixed-length octet array of the wrong length) through every way of building a set (AddRecord, AddRecordWithExtraElements, AddRecordV2, MakeTemplateSet / MakeDataSet); a second phase runs unknown-id / wrong-count / undefined sets against an exporting process in JSON output mode (refused sets write nothing, every accepted record is one JSON document, byte counts add up); a harness-owned socket captures every byte and every invalid step is followed by a valid marker message; non-trivial = an invalid step followed by a valid one whose bytes were verified; distinct by hash of the case",
		"reference codec refipfix", "loopback sockets deliver what was written, in order")
	code := m.Run()
	rec.Write()
	os.Exit(code)
}

// fixed helper templates
func sizeTpl() []ref.Field { return []ref.Field{glue.UserField(ref.TString)} }
func illTpl() []ref.Field {
	return []ref.Field{glue.UserField(ref.TU8), glue.UserField(ref.TIPv4), glue.UserField(ref.TIPv6), glue.UserField(ref.TMac), glue.UserFixedOctets(5), glue.UserField(ref.TU8)}
}

func wideTpl() []ref.Field {
	return []ref.Field{glue.UserField(ref.TU32), glue.UserField(ref.TString), glue.UserField(ref.TString), glue.UserField(ref.TString)}
}

var noEncoderKinds = []string{"micro", "nano", "basiclist"}

var reducedKinds = []string{"u64_in_4", "u32_in_2", "i32_in_2", "u16_in_1", "f64_in_4"}

const (
	idReduced = 900 // .. 909
	idNoEnc   = 920 // .. 925
	idWide    = 999
	idSize    = 1000
	idIll     = 1001
	idMarker  = 1002
	idBigTpl  = 2000 // + step index
)

func oneByteFields(n int) []ref.Field {
	f := glue.UserField(ref.TU8)
	out := make([]ref.Field, n)
	for i := range out {
		out[i] = f
	}
	return out
}

type Stats struct{ InvalidThenValid bool }

// lost: a udp run ended without a verdict because a datagram did not arrive; the session is run
// again, and three losses in a row are a message reported sent and never written.
var lost string

func runRetry(c Case, st *Stats) *ev.Failure {
	for attempt := 1; ; attempt++ {
		lost = ""
		f := runCase(c, st)
		if f != nil || lost == "" {
			return f
		}
		if attempt == 3 {
			return ev.Failf("over udp, three times in a row: %s", lost)
		}
	}
}

func runCase(c Case, st *Stats) *ev.Failure {
	if st == nil {
		st = &Stats{}
	}
	if c.Verbosity > 0 {
		glue.SetKlogVerbosity(c.Verbosity)
		defer glue.SetKlogVerbosity(0)
	}
	peer, err := exph.NewPeer(c.Proto, false)
	if err != nil {
		return nil
	}
	defer peer.Close()
	ep, err := exph.StartExporter(peer, 77, false)
	if err != nil {
		return ev.Failf("InitExportingProcess: %v", err)
	}
	defer ep.CloseConnToCollector()
	limit := 65535
	if c.Proto == "udp" {
		limit = 65507
	}
	h := ref.Header{Domain: 77}
	var expect [][]byte // what must be on the wire, in order
	onWire := map[uint16]bool{}
	var tpls []Step
	sawInvalid := false

	// send performs one SendSet. want == nil: the step is invalid and must fail.
	send := func(i int, what string, set entities.Set, buildErr error, want []byte, mayFail bool) *ev.Failure {
		var n int
		err := buildErr
		if err == nil {
			n, err = ep.SendSet(set)
		}
		if want == nil {
			sawInvalid = true
			if err == nil {
				// an invalid step reported success: what went out?
				expect = append(expect, nil)
				peer.WaitMessages(len(expect), 1<<30, 300*time.Millisecond)
				msgs, rest := peer.Messages()
				return ev.Failf("step %d (%s): invalid send reported success (%d bytes); the wire now holds %d messages + %d stray bytes, %d were expected", i, what, n, len(msgs), len(rest), len(expect)-1)
			}
			return nil
		}
		if err != nil {
			if mayFail {
				return nil
			}
			return ev.Failf("step %d (%s): valid send of %d bytes failed: %v", i, what, len(want), err)
		}
		if n != len(want) {
			return ev.Failf("step %d (%s): SendSet reported %d bytes, the message has %d", i, what, n, len(want))
		}
		expect = append(expect, want)
		if sawInvalid {
			st.InvalidThenValid = true
		}
		return nil
	}
	marker := func(i int) *ev.Failure {
		if !onWire[idMarker] {
			f := []ref.Field{glue.UserField(ref.TU32)}
			set, err := exph.TemplateSet(idMarker, f, 0)
			if fl := send(i, "marker template", set, err, ref.TemplateMessage(h, ref.Template{ID: idMarker, Fields: f}), false); fl != nil {
				return fl
			}
			onWire[idMarker] = true
		}
		f := []ref.Field{glue.UserField(ref.TU32)}
		r := [][]ref.Value{{{U: uint64(0xABCD0000 + i)}}}
		set, err := exph.DataSet(idMarker, f, r, 0)
		return send(i, "marker data", set, err, ref.DataMessage(h, ref.Template{ID: idMarker, Fields: f}, r), false)
	}
	ensure := func(i int, id uint16, fields []ref.Field) *ev.Failure {
		if onWire[id] {
			return nil
		}
		set, err := exph.TemplateSet(id, fields, 0)
		if fl := send(i, fmt.Sprintf("template %d", id), set, err, ref.TemplateMessage(h, ref.Template{ID: id, Fields: fields}), false); fl != nil {
			return fl
		}
		onWire[id] = true
		return nil
	}

	for i, s := range c.Steps {
		var fl *ev.Failure
		switch s.Kind {
		case "tpl":
			set, err := exph.TemplateSet(s.ID, s.Fields, s.Path)
			fl = send(i, "template", set, err, ref.TemplateMessage(h, ref.Template{ID: s.ID, Fields: s.Fields}), false)
			onWire[s.ID] = true
			tpls = append(tpls, s)
		case "data":
			if len(tpls) == 0 {
				continue
			}
			tp := tpls[s.Of%len(tpls)]
			set, err := exph.DataSet(tp.ID, tp.Fields, s.Recs, s.Path)
			fl = send(i, "data", set, err, ref.DataMessage(h, ref.Template{ID: tp.ID, Fields: tp.Fields}, s.Recs), false)
		case "data_unknown_id":
			if onWire[s.ID] {
				continue
			}
			f, r := []ref.Field{glue.UserField(ref.TU16)}, []ref.Value{{U: 1}}
			if s.Delta == -100 { // a record without any field
				f, r = nil, nil
			}
			set, err := exph.DataSet(s.ID, f, [][]ref.Value{r}, s.Path)
			fl = send(i, fmt.Sprintf("data (a record of %d fields) for template id %d that was never sent", len(f), s.ID), set, err, nil, false)
			if fl == nil {
				fl = marker(i)
			}
		case "data_empty_unknown":
			if onWire[s.ID] {
				continue
			}
			set := entities.NewSet(false)
			err := set.PrepareSet(entities.Data, s.ID)
			fl = send(i, fmt.Sprintf("data set without records for template id %d that was never sent", s.ID), set, err, nil, false)
			if fl == nil {
				fl = marker(i)
			}
		case "data_foreign_id":
			if len(tpls) == 0 || len(s.Recs) == 0 {
				continue
			}
			tp := tpls[s.Of%len(tpls)]
			id, what := s.ID, fmt.Sprintf("never sent")
			if s.Delta == 1 {
				id = 0
				for _, o := range tpls {
					if len(o.Fields) != len(tp.Fields) {
						id, what = o.ID, fmt.Sprintf("the id of a template of %d fields", len(o.Fields))
						break
					}
				}
				if id == 0 {
					continue
				}
			} else if onWire[id] {
				continue
			}
			set := entities.NewSet(false)
			err := set.PrepareSet(entities.Data, id)
			for _, r := range s.Recs {
				if err != nil {
					break
				}
				els := exph.Elements(tp.Fields, r)
				if s.Path%3 == 2 {
					err = set.AddRecordV2(els, tp.ID)
				} else {
					err = set.AddRecord(els, tp.ID)
				}
			}
			fl = send(i, fmt.Sprintf("data set with id %d (%s) whose %d-field records were added under template %d", id, what, len(tp.Fields), tp.ID), set, err, nil, false)
			if fl == nil {
				fl = marker(i)
			}
		case "data_wrong_count":
			if len(tpls) == 0 {
				continue
			}
			tp := tpls[s.Of%len(tpls)]
			fields := append([]ref.Field(nil), tp.Fields...)
			var r []ref.Value
			merged := false
			if s.Delta == -2 && len(s.Recs) > 0 {
				// re-typed record: two adjacent fixed-length fields become one octet array of the same
				// total width, so the record has one field fewer but exactly the bytes of a valid one
				for k := 0; k+1 < len(fields); k++ {
					a, b := fields[k], fields[k+1]
					if a.Len != ref.VarLen && b.Len != ref.VarLen && int(a.Len)+int(b.Len) <= 100 && int(a.Len)+int(b.Len) > 0 {
						w := int(a.Len) + int(b.Len)
						fields = append(append(append([]ref.Field(nil), fields[:k]...), glue.UserFixedOctets(w)), fields[k+2:]...)
						r = append(append(append([]ref.Value(nil), s.Recs[0][:k]...), ref.Value{B: make([]byte, w)}), s.Recs[0][k+2:]...)
						merged = true
						break
					}
				}
			}
			switch {
			case merged:
			case s.Delta == -100:
				fields = nil
			case s.Delta < 0:
				fields = fields[:len(fields)-1]
			default:
				fields = append(fields, glue.UserField(ref.TU8))
			}
			if !merged {
				r = make([]ref.Value, len(fields))
				for k, f := range fields {
					if f.Type.IsBytes() {
						n := f.Type.Width()
						if f.Type == ref.TOctets && f.Len != ref.VarLen {
							n = int(f.Len)
						}
						r[k] = ref.Value{B: make([]byte, n)}
					}
				}
			}
			valid := [][]ref.Value{}
			if len(s.Recs) > 0 {
				valid = s.Recs[:1] // a good record first: the bad one is the second of the set
			}
			set, err := exph.DataSet(tp.ID, tp.Fields, valid, s.Path)
			if err == nil {
				err = func() error {
					els := exph.Elements(fields, r)
					if s.Path == exph.PathV2 {
						return set.AddRecordV2(els, tp.ID)
					}
					return set.AddRecord(els, tp.ID)
				}()
			}
			fl = send(i, fmt.Sprintf("record with %d fields for a template of %d", len(fields), len(tp.Fields)), set, err, nil, false)
			if fl == nil {
				fl = marker(i)
			}
		case "undefined":
			set := entities.NewSet(false)
			set.ResetSet()
			fl = send(i, "set of Undefined type", set, nil, nil, false)
			if fl == nil {
				fl = marker(i)
			}
		case "sized_data":
			if fl = ensure(i, idSize, sizeTpl()); fl != nil {
				break
			}
			n := s.Size - 20 - 3
			r := [][]ref.Value{{{B: bytes.Repeat([]byte("p"), n)}}}
			set, err := exph.DataSet(idSize, sizeTpl(), r, s.Path)
			var want []byte
			if s.Size <= limit {
				want = ref.DataMessage(h, ref.Template{ID: idSize, Fields: sizeTpl()}, r)
			}
			what := fmt.Sprintf("data message of %d bytes", s.Size)
			if s.Size > 65535 || want != nil {
				fl = send(i, what, set, err, want, false)
			} else {
				// 65508..65535 over UDP/IPv4: the library allows it, the kernel refuses the datagram; an
				// error is fine, success needs the bytes on the wire
				fl = send(i, what, set, err, ref.DataMessage(h, ref.Template{ID: idSize, Fields: sizeTpl()}, r), true)
			}
			if fl == nil {
				fl = marker(i)
			}
		case "wide_record":
			if fl = ensure(i, idWide, wideTpl()); fl != nil {
				break
			}
			// three strings of about a third of Size each (every one below the 65534 bytes a string
			// may have); only their sum is too much
			rest := s.Size - 4
			r := []ref.Value{{U: 7}}
			for k := 3; k > 0; k-- {
				l := rest/k - 3
				r = append(r, ref.Value{B: bytes.Repeat([]byte{byte('a' + k)}, l)})
				rest -= l + 3
			}
			set, err := exph.DataSet(idWide, wideTpl(), [][]ref.Value{r}, s.Path)
			fl = send(i, fmt.Sprintf("one record of %d bytes (no field longer than %d)", s.Size, len(r[1].B)), set, err, nil, false)
			if fl == nil {
				fl = marker(i)
			}
		case "sized_tpl":
			id := uint16(idBigTpl + i)
			fields := oneByteFields(s.NFields)
			size := 24 + 8*s.NFields // user-registered elements carry an enterprise number
			set, err := exph.TemplateSet(id, fields, s.Path)
			var want []byte
			if size <= limit {
				want = ref.TemplateMessage(h, ref.Template{ID: id, Fields: fields})
			}
			what := fmt.Sprintf("template message of %d bytes (%d fields)", size, s.NFields)
			before := len(expect)
			if size > 65535 || want != nil {
				fl = send(i, what, set, err, want, false)
			} else {
				fl = send(i, what, set, err, ref.TemplateMessage(h, ref.Template{ID: id, Fields: fields}), true)
			}
			if fl != nil {
				break
			}
			tplSent := len(expect) > before
			// a data record for that template may go out only if the template did
			r := [][]ref.Value{make([]ref.Value, s.NFields)}
			dset, derr := exph.DataSet(id, fields, r, exph.PathV2)
			var dwant []byte
			if tplSent {
				dwant = ref.DataMessage(h, ref.Template{ID: id, Fields: fields}, r)
			}
			fl = send(i, fmt.Sprintf("data for template %d whose template message was %ssent", id, map[bool]string{true: "", false: "never "}[tplSent]), dset, derr, dwant, false)
			if fl == nil {
				fl = marker(i)
			}
		case "reduced_size":
			k := 0
			for j, n := range reducedKinds {
				if n == s.Ill {
					k = j
				}
			}
			rt := []ref.Type{ref.TU64, ref.TU32, ref.TI32, ref.TU16, ref.TF64}[k]
			rl := []uint16{4, 2, 2, 1, 4}[k]
			rv := []ref.Value{{U: 443}, {U: 443}, {U: uint64(0xFFFFFFFE)}, {U: 7}, {U: 0x3FF8000000000000}}[k] // 443, 443, -2, 7, 1.5
			rb := [][]byte{{0, 0, 1, 0xBB}, {1, 0xBB}, {0xFF, 0xFE}, {7}, {0x3F, 0xC0, 0, 0}}[k]               // the same values at the declared width
			re := ref.Field{ID: uint16(950 + k), Ent: glue.UserEnt, Len: rl, Type: rt, Name: "userReduced_" + s.Ill}
			asOctets := ref.Field{ID: re.ID, Ent: re.Ent, Len: rl, Type: ref.TOctets, Name: re.Name}
			u8 := glue.UserField(ref.TU8)
			fields, wire, vals, wvals := []ref.Field{u8, re, u8}, []ref.Field{u8, asOctets, u8}, []ref.Value{{U: 1}, rv, {U: 2}}, []ref.Value{{U: 1}, {B: rb}, {U: 2}}
			if s.Delta == 1 {
				fields, wire, vals, wvals = fields[:2], wire[:2], vals[:2], wvals[:2]
			}
			id := uint16(idReduced + 2*k + s.Delta)
			if !onWire[id] {
				set, err := exph.TemplateSet(id, fields, s.Path)
				if err != nil {
					break // the element is refused when the template is built: fine
				}
				if _, err := ep.SendSet(set); err != nil {
					break // or when it is sent
				}
				expect = append(expect, ref.TemplateMessage(h, ref.Template{ID: id, Fields: wire}))
				onWire[id] = true
			}
			set, err := exph.DataSet(id, fields, [][]ref.Value{vals}, s.Path)
			fl = send(i, fmt.Sprintf("record holding a %s value in an element declared with length %d", rt, rl), set, err, ref.DataMessage(h, ref.Template{ID: id, Fields: wire}, [][]ref.Value{wvals}), true)
			if fl == nil {
				fl = marker(i)
			}
		case "no_encoder":
			k := 0
			for j, n := range noEncoderKinds {
				if n == s.Ill {
					k = j
				}
			}
			ne := []ref.Field{{ID: 154, Len: 8, Type: ref.TU64, Name: "flowStartMicroseconds"}, {ID: 156, Len: 8, Type: ref.TU64, Name: "flowStartNanoseconds"}, {ID: 291, Len: ref.VarLen, Type: ref.TOctets, Name: "basicList"}}[k]
			nv := []ref.Value{{U: 0x1122334455667788}, {U: 0x1122334455667788}, {B: []byte{0xde, 0xad, 0xbe}}}[k]
			if ie := glue.IE(ne); ie.Name != ne.Name || ie.Len != ne.Len {
				break // this registry does not have the element as described: nothing to check
			}
			u16 := glue.UserField(ref.TU16)
			fields, vals := []ref.Field{ne, u16}, []ref.Value{nv, {U: 0xabcd}}
			if s.Delta == 1 {
				fields, vals = []ref.Field{u16, ne}, []ref.Value{{U: 0xabcd}, nv}
			}
			id := uint16(idNoEnc + 2*k + s.Delta)
			if !onWire[id] {
				set, err := exph.TemplateSet(id, fields, s.Path)
				if err != nil {
					break // the element is refused when the template is built: fine
				}
				if _, err := ep.SendSet(set); err != nil {
					break // or when it is sent
				}
				expect = append(expect, ref.TemplateMessage(h, ref.Template{ID: id, Fields: fields}))
				onWire[id] = true
			}
			set, err := exph.DataSet(id, fields, [][]ref.Value{vals}, s.Path)
			fl = send(i, fmt.Sprintf("record holding a value for %s, an element of a data type the library has no encoder for", ne.Name), set, err, ref.DataMessage(h, ref.Template{ID: id, Fields: fields}, [][]ref.Value{vals}), true)
			if fl == nil {
				fl = marker(i)
			}
		case "illtyped":
			if fl = ensure(i, idIll, illTpl()); fl != nil {
				break
			}
			good := []ref.Value{{U: 1}, {B: []byte{10, 1, 2, 3}}, {B: net.ParseIP("2001:db8::1")}, {B: []byte{1, 2, 3, 4, 5, 6}}, {B: []byte{9, 8, 7, 6, 5}}, {U: 2}}
			r := append([]ref.Value(nil), good...)
			var want []byte
			var faithful []ref.Value
			switch s.Ill {
			case "v6_in_ipv4":
				r[1] = ref.Value{B: net.ParseIP("2001:db8::2")}
			case "almost_mapped_in_ipv4": // not ::ffff:a.b.c.d: bytes 8..9 are not zero
				r[1] = ref.Value{B: net.ParseIP("::1:ffff:c0a8:101")}
			case "almost_mapped2_in_ipv4": // bytes 0..7 are not zero
				r[1] = ref.Value{B: net.ParseIP("1::ffff:c0a8:101")}
			case "ff_prefix_in_ipv4": // ::fffe:a.b.c.d
				r[1] = ref.Value{B: net.ParseIP("::fffe:c0a8:101")}
			case "nil_in_ipv4":
				r[1] = ref.Value{B: nil}
			case "5bytes_in_ipv6":
				r[2] = ref.Value{B: []byte{1, 2, 3, 4, 5}}
			case "nil_in_ipv6":
				r[2] = ref.Value{B: nil}
			case "mac_len_5":
				r[3] = ref.Value{B: []byte{1, 2, 3, 4, 5}}
			case "mac_len_8":
				r[3] = ref.Value{B: []byte{1, 2, 3, 4, 5, 6, 7, 8}}
			case "mac_nil":
				r[3] = ref.Value{B: nil}
			case "fixed_octets_short":
				r[4] = ref.Value{B: []byte{1, 2}}
			case "fixed_octets_long":
				r[4] = ref.Value{B: []byte{1, 2, 3, 4, 5, 6, 7}}
			case "v4_in_ipv6": // faithful: ::ffff:a.b.c.d is the same address
				r[2] = ref.Value{B: []byte{192, 0, 2, 1}}
				w := append([]ref.Value(nil), good...)
				w[2] = ref.Value{B: net.ParseIP("192.0.2.1").To16()}
				faithful = w
				want = ref.DataMessage(h, ref.Template{ID: idIll, Fields: illTpl()}, [][]ref.Value{good, w})
			case "v4mapped_in_ipv4": // faithful: 16-byte form of an IPv4 address
				r[1] = ref.Value{B: net.ParseIP("198.51.100.7").To16()}
				w := append([]ref.Value(nil), good...)
				w[1] = ref.Value{B: []byte{198, 51, 100, 7}}
				faithful = w
				want = ref.DataMessage(h, ref.Template{ID: idIll, Fields: illTpl()}, [][]ref.Value{good, w})
			}
			recs := [][]ref.Value{good, r}
			if s.Path == exph.PathMake { // MakeDataSet builds sets of one record: the ill-typed one alone
				recs = recs[1:]
				if want != nil {
					want = ref.DataMessage(h, ref.Template{ID: idIll, Fields: illTpl()}, [][]ref.Value{faithful})
				}
			}
			set, err := exph.DataSet(idIll, illTpl(), recs, s.Path)
			if want != nil {
				// either outcome is allowed for a value that has a faithful encoding: an error, or the faithful bytes
				fl = send(i, "record with "+s.Ill, set, err, want, true)
			} else {
				fl = send(i, "record with "+s.Ill+" (no faithful encoding exists)", set, err, nil, false)
			}
			if fl == nil {
				fl = marker(i)
			}
		}
		if fl != nil {
			return fl
		}
	}
	// the wire must hold exactly the valid messages, in order
	total := 0
	for _, m := range expect {
		total += len(m)
	}
	if !peer.WaitMessages(len(expect), total, 20*time.Second) && c.Proto == "udp" {
		msgs, _ := peer.Messages()
		lost = fmt.Sprintf("%d valid sends reported success, %d datagrams arrived", len(expect), len(msgs))
		return nil // datagram loss on loopback: no verdict for this run (see runRetry)
	}
	if c.Proto == "tcp" {
		time.Sleep(0) // everything the exporter wrote is in the socket; WaitMessages saw >= total bytes
	}
	msgs, rest := peer.Messages()
	if len(rest) != 0 {
		return ev.Failf("the stream ends with %d bytes that do not frame as a message", len(rest))
	}
	if len(msgs) != len(expect) {
		return ev.Failf("the wire holds %d messages, exactly %d valid sends were made", len(msgs), len(expect))
	}
	sentTpl := map[uint16]bool{}
	for k, m := range msgs {
		if len(m) > 65535 {
			return ev.Failf("message %d on the wire has %d bytes", k, len(m))
		}
		hd, sets, err := ref.ParseMessage(m)
		if err != nil || len(sets) != 1 {
			return ev.Failf("message %d on the wire is not well-formed: %v", k, err)
		}
		_ = hd
		if sets[0].ID == 2 {
			t, _, err := ref.ParseTemplateRecord(sets[0].Body)
			if err != nil {
				return ev.Failf("message %d: bad template record: %v", k, err)
			}
			sentTpl[t.ID] = true
		} else if !sentTpl[sets[0].ID] {
			return ev.Failf("message %d is a data set for template %d, but no template with that id is on the wire before it", k, sets[0].ID)
		}
		if !exph.SameExceptTimeSeq(m, expect[k]) {
			d := 0
			for d < len(m) && d < len(expect[k]) && (m[d] == expect[k][d] || (d >= 4 && d < 12)) {
				d++
			}
			lo, hi := max(0, d-8), min(len(m), d+24)
			hi2 := min(len(expect[k]), d+24)
			return ev.Failf("message %d on the wire differs from the faithful encoding of what the application handed over, at offset %d: got % x want % x", k, d, m[lo:hi], expect[k][lo:hi2])
		}
	}
	return nil
}

// jsonOK: element types the JSON output mode supports.
// jsonOK: element types the JSON output mode supports for every value (no octet arrays; floats are
// left out because JSON has no NaN / infinities, for which an error is the right answer).
func jsonOK(f ref.Field) bool {
	return f.Type != ref.TOctets && f.Type != ref.TF32 && f.Type != ref.TF64
}

// runJSON: the same acceptance rule with the exporting process in JSON mode. A data set goes out
// only for a template id registered by an earlier template send on this process and only with
// that template's field count; a refused set writes nothing; every accepted record is one JSON
// document ({"@timestamp":…,"ipfix":{…}}) and SendSet reports exactly the bytes written.
func runJSON(c Case, st *Stats) *ev.Failure {
	if st == nil {
		st = &Stats{}
	}
	if c.Verbosity > 0 {
		glue.SetKlogVerbosity(c.Verbosity)
		defer glue.SetKlogVerbosity(0)
	}
	peer, err := exph.NewPeer("tcp", false)
	if err != nil {
		return nil
	}
	defer peer.Close()
	ep, err := exporter.InitExportingProcess(exporter.ExporterInput{CollectorAddress: peer.Addr, CollectorProtocol: "tcp", ObservationDomainID: 77,
		TempRefTimeout: 3600, CheckConnInterval: time.Hour, SendJSONRecord: true, JSONBufferLen: c.JSONBufLen})
	if err != nil {
		return ev.Failf("InitExportingProcess (JSON mode): %v", err)
	}
	defer ep.CloseConnToCollector()
	total, docs := 0, 0
	var names []int // per expected document: number of distinct element names
	sawInvalid := false
	var tpls []Step
	registered := map[uint16]bool{}
	distinct := func(fs []ref.Field) int {
		m := map[string]bool{}
		for _, f := range fs {
			m[glue.IE(f).Name] = true
		}
		return len(m)
	}
	valid := func(i int, what string, set entities.Set, berr error, nrec, nnames int) *ev.Failure {
		if berr != nil {
			return ev.Failf("step %d (%s): building the set failed: %v", i, what, berr)
		}
		n, err := ep.SendSet(set)
		if err != nil {
			return ev.Failf("step %d (%s): valid send failed in JSON mode: %v", i, what, err)
		}
		total += n
		docs += nrec
		for k := 0; k < nrec; k++ {
			names = append(names, nnames)
		}
		if sawInvalid && nrec > 0 {
			st.InvalidThenValid = true
		}
		return nil
	}
	invalid := func(i int, what string, set entities.Set, berr error) *ev.Failure {
		sawInvalid = true
		if berr != nil {
			return nil
		}
		if n, err := ep.SendSet(set); err == nil {
			stream, _ := peer.WaitStream(total+n, 300*time.Millisecond)
			return ev.Failf("step %d (%s): invalid send reported success in JSON mode (%d bytes); the connection now holds %d bytes, %d were written by valid sends", i, what, n, len(stream), total)
		}
		return nil
	}
	var mixedNames []int
	mf := []ref.Field{glue.UserField(ref.TU32)}
	marker := func(i int) *ev.Failure {
		if !registered[idMarker] {
			set, err := exph.TemplateSet(idMarker, mf, 0)
			if fl := valid(i, "marker template", set, err, 0, 0); fl != nil {
				return fl
			}
			registered[idMarker] = true
		}
		set, err := exph.DataSet(idMarker, mf, [][]ref.Value{{{U: uint64(0xABCD0000 + i)}}}, 0)
		return valid(i, "marker data", set, err, 1, 1)
	}
	for i, s := range c.Steps {
		var fl *ev.Failure
		switch s.Kind {
		case "tpl":
			set, err := exph.TemplateSet(s.ID, s.Fields, s.Path)
			fl = valid(i, "template", set, err, 0, 0)
			registered[s.ID] = true
			tpls = append(tpls, s)
		case "data":
			if len(tpls) == 0 {
				continue
			}
			tp := tpls[s.Of%len(tpls)]
			set, err := exph.DataSet(tp.ID, tp.Fields, s.Recs, s.Path)
			fl = valid(i, "data", set, err, len(s.Recs), distinct(tp.Fields))
		case "data_mixed":
			// one set, records of two registered templates (the JSON mode renders each record by its
			// own template): every document carries its own record's elements and nothing else
			if len(tpls) < 2 {
				continue
			}
			ta, tb := tpls[s.Of%len(tpls)], tpls[(s.Of+1)%len(tpls)]
			set := entities.NewSet(false)
			err := set.PrepareSet(entities.Data, ta.ID)
			order := []Step{ta, tb, ta}
			for k, tp := range order {
				if err == nil && k < len(s.Recs) {
					r := s.Recs[k]
					if len(r) != len(tp.Fields) {
						continue
					}
					err = set.AddRecord(exph.Elements(tp.Fields, r), tp.ID)
					if err == nil {
						mixedNames = append(mixedNames, distinct(tp.Fields))
					}
				}
			}
			if err != nil || len(mixedNames) == 0 {
				mixedNames = nil
				continue
			}
			n, serr := ep.SendSet(set)
			if serr != nil {
				return ev.Failf("step %d: a set with records of two registered templates was refused in JSON mode: %v", i, serr)
			}
			total += n
			docs += len(mixedNames)
			names = append(names, mixedNames...)
			mixedNames = nil
		case "data_unknown_id":
			if registered[s.ID] {
				continue
			}
			f, r := []ref.Field{glue.UserField(ref.TU16)}, []ref.Value{{U: 1}}
			if s.Delta == -100 { // a record without any field
				f, r = nil, nil
			}
			set, err := exph.DataSet(s.ID, f, [][]ref.Value{r}, s.Path)
			if fl = invalid(i, fmt.Sprintf("data (a record of %d fields) for template id %d that was never sent", len(f), s.ID), set, err); fl == nil {
				fl = marker(i)
			}
		case "data_wrong_count":
			if len(tpls) == 0 {
				continue
			}
			tp := tpls[s.Of%len(tpls)]
			fields := append([]ref.Field(nil), tp.Fields...)
			if s.Delta < 0 {
				fields = fields[:len(fields)-1]
			} else {
				fields = append(fields, glue.UserField(ref.TU8))
			}
			r := make([]ref.Value, len(fields))
			for k, f := range fields {
				if f.Type.IsBytes() {
					r[k] = ref.Value{B: make([]byte, f.Type.Width())}
				}
			}
			set, err := exph.DataSet(tp.ID, fields, [][]ref.Value{r}, s.Path)
			if fl = invalid(i, fmt.Sprintf("record with %d fields for a template of %d", len(fields), len(tp.Fields)), set, err); fl == nil {
				fl = marker(i)
			}
		case "undefined":
			set := entities.NewSet(false)
			set.ResetSet()
			if fl = invalid(i, "set of Undefined type", set, nil); fl == nil {
				fl = marker(i)
			}
		}
		if fl != nil {
			return fl
		}
	}
	stream, _ := peer.WaitStream(total, 20*time.Second)
	time.Sleep(time.Millisecond)
	stream, _ = peer.WaitStream(total, time.Second)
	if len(stream) != total {
		return ev.Failf("JSON mode: the connection holds %d bytes, SendSet reported %d for the valid sends", len(stream), total)
	}
	dec := json.NewDecoder(bytes.NewReader(stream))
	for k := 0; k < docs; k++ {
		var doc struct {
			TS    string                 `json:"@timestamp"`
			IPFIX map[string]interface{} `json:"ipfix"`
		}
		if err := dec.Decode(&doc); err != nil {
			return ev.Failf("JSON mode: document %d of %d on the connection does not parse: %v", k, docs, err)
		}
		if len(doc.IPFIX) != names[k] || doc.TS == "" {
			return ev.Failf("JSON mode: document %d carries %d elements (timestamp %q), the record has %d distinct element names", k, len(doc.IPFIX), doc.TS, names[k])
		}
	}
	if dec.More() {
		return ev.Failf("JSON mode: more than the %d documents of the valid sends are on the connection", docs)
	}
	return nil
}

func genJSONCase(t *rapid.T) Case {
	c := Case{Proto: "tcp", JSON: true, JSONBufLen: rapid.SampledFrom([]int{0, 0, 1, 64, 100000, -5}).Draw(t, "json_buf_len")}
	c.Verbosity = rapid.SampledFrom([]int{0, 0, 2, 10}).Draw(t, "verbosity")
	var jp []ref.Field
	for _, f := range pool {
		if jsonOK(f) {
			jp = append(jp, f)
		}
	}
	nextID := uint16(256)
	var tpls []Step
	for n := rapid.IntRange(1, 10).Draw(t, "n"); n > 0; n-- {
		k := rapid.IntRange(0, 7).Draw(t, "kind")
		if len(tpls) == 0 && (k == 1 || k == 2 || k == 4) {
			k = 0
		}
		s := Step{Path: rapid.IntRange(0, 3).Draw(t, "path")}
		switch k {
		case 0:
			s.Kind, s.ID = "tpl", nextID
			nextID++
			for j := rapid.IntRange(1, 6).Draw(t, "nf"); j > 0; j-- {
				s.Fields = append(s.Fields, jp[rapid.IntRange(0, len(jp)-1).Draw(t, "f")])
			}
			tpls = append(tpls, s)
		case 1, 2:
			s.Kind, s.Of = "data", rapid.IntRange(0, len(tpls)-1).Draw(t, "of")
			for j := rapid.IntRange(1, 3).Draw(t, "nrec"); j > 0; j-- {
				s.Recs = append(s.Recs, gen.Record(t, tpls[s.Of].Fields, 100))
			}
		case 3, 5:
			s.Kind, s.ID = "data_unknown_id", rapid.SampledFrom([]uint16{255, 999, 4000, 40000, 65535}).Draw(t, "uid")
			s.Delta = rapid.SampledFrom([]int{0, 0, -100}).Draw(t, "unknown_fields")
		case 4, 6:
			if len(tpls) == 0 {
				s.Kind = "undefined"
				break
			}
			s.Kind, s.Of, s.Delta = "data_wrong_count", rapid.IntRange(0, len(tpls)-1).Draw(t, "of"), rapid.SampledFrom([]int{-1, 1}).Draw(t, "delta")
		default:
			if len(tpls) >= 2 && rapid.Bool().Draw(t, "mixed") {
				s.Kind, s.Of = "data_mixed", rapid.IntRange(0, len(tpls)-1).Draw(t, "of")
				for k, tp := range []Step{tpls[s.Of%len(tpls)], tpls[(s.Of+1)%len(tpls)], tpls[s.Of%len(tpls)]} {
					if k < 2 || rapid.Bool().Draw(t, "third") {
						s.Recs = append(s.Recs, gen.Record(t, tp.Fields, 100))
					}
				}
				break
			}
			s.Kind = "undefined"
		}
		c.Steps = append(c.Steps, s)
	}
	return c
}

// runTransient: a template whose write fails for a transient reason (connected UDP socket, nobody
// listening yet: the kernel reports the ICMP error on the next send) must not make data for that
// template sendable once the collector is up. Returns nil when the transient failure could not be
// provoked (inconclusive).
func runTransient(_ int) *ev.Failure {
	probe, err := net.ListenUDP("udp", &net.UDPAddr{IP: net.IPv4(127, 0, 0, 1)})
	if err != nil {
		return nil
	}
	addr := probe.LocalAddr().(*net.UDPAddr)
	probe.Close()
	ep, err := exporter.InitExportingProcess(exporter.ExporterInput{CollectorAddress: addr.String(), CollectorProtocol: "udp", ObservationDomainID: 77, TempRefTimeout: 3600})
	if err != nil {
		return nil
	}
	defer ep.CloseConnToCollector()
	f1, f2 := []ref.Field{glue.UserField(ref.TU16)}, []ref.Field{glue.UserField(ref.TU32)}
	t1, _ := exph.TemplateSet(300, f1, 0)
	if _, err := ep.SendSet(t1); err != nil {
		return nil
	}
	failed := false
	for k := 0; k < 50 && !failed; k++ {
		time.Sleep(2 * time.Millisecond)
		t2, _ := exph.TemplateSet(301, f2, 0)
		if _, err := ep.SendSet(t2); err != nil {
			failed = true
		} else {
			return nil // the write went through: template 301 is legitimately "sent"
		}
	}
	if !failed {
		return nil
	}
	pc, err := net.ListenUDP("udp", addr)
	if err != nil {
		return nil
	}
	defer pc.Close()
	var got [][]byte
	for k := 0; k < 3; k++ { // the pending socket error may fail one more send
		ds, _ := exph.DataSet(301, f2, [][]ref.Value{{{U: 5}}}, 0)
		if _, err := ep.SendSet(ds); err == nil {
			pc.SetReadDeadline(time.Now().Add(300 * time.Millisecond))
			buf := make([]byte, 2048)
			if n, _, err := pc.ReadFromUDP(buf); err == nil {
				got = append(got, buf[:n])
			}
			return ev.Failf("the write of template 301 failed (connection refused), yet a data set for template 301 was accepted by SendSet afterwards (%d datagrams reached the collector): data transmitted for a template that was never sent", len(got))
		}
	}
	return nil
}

var ills = []string{"v6_in_ipv4", "nil_in_ipv4", "5bytes_in_ipv6", "nil_in_ipv6", "mac_len_5", "mac_len_8", "mac_nil", "fixed_octets_short", "fixed_octets_long", "v4_in_ipv6", "v4mapped_in_ipv4", "almost_mapped_in_ipv4", "almost_mapped2_in_ipv4", "ff_prefix_in_ipv4"}

func genCase(t *rapid.T) Case {
	c := Case{Proto: rapid.SampledFrom([]string{"tcp", "udp"}).Draw(t, "proto")}
	c.Verbosity = rapid.SampledFrom([]int{0, 0, 0, 2, 10}).Draw(t, "verbosity")
	n := rapid.IntRange(1, 10).Draw(t, "n")
	ntpl := 0
	nextID := uint16(256)
	var tpls []Step
	for i := 0; i < n; i++ {
		k := rapid.IntRange(0, 13).Draw(t, "kind")
		if ntpl == 0 && (k == 1 || k == 2 || k == 4) {
			k = 0
		}
		s := Step{Path: rapid.IntRange(0, 3).Draw(t, "path")}
		switch k {
		case 0:
			s.Kind, s.ID = "tpl", nextID
			nextID++
			for j := rapid.IntRange(1, 6).Draw(t, "nf"); j > 0; j-- {
				s.Fields = append(s.Fields, pool[rapid.IntRange(0, len(pool)-1).Draw(t, "f")])
			}
			tpls = append(tpls, s)
			ntpl++
		case 1, 2:
			s.Kind, s.Of = "data", rapid.IntRange(0, ntpl-1).Draw(t, "of")
			for j := rapid.IntRange(1, 3).Draw(t, "nrec"); j > 0; j-- {
				s.Recs = append(s.Recs, gen.Record(t, tpls[s.Of].Fields, 300))
			}
		case 3:
			s.Kind, s.ID = "data_unknown_id", rapid.SampledFrom([]uint16{255, 256, 300, 999, 4000, 65535}).Draw(t, "uid")
			s.Delta = rapid.SampledFrom([]int{0, 0, -100}).Draw(t, "unknown_fields")
			if s.ID >= 256 && int(s.ID) < int(nextID)+12 && s.ID != 999 {
				s.ID = 40000
			}
		case 4, 5:
			if ntpl == 0 {
				s.Kind = "undefined"
				break
			}
			s.Kind, s.Of = "data_wrong_count", rapid.IntRange(0, ntpl-1).Draw(t, "of")
			s.Delta = rapid.SampledFrom([]int{-1, 1, -100, -2, -2}).Draw(t, "delta")
			if s.Delta == -2 || rapid.Bool().Draw(t, "goodfirst") {
				s.Recs = [][]ref.Value{gen.Record(t, tpls[s.Of].Fields, 100)}
			}
		case 6:
			s.Kind = "undefined"
			if ntpl > 0 && rapid.Bool().Draw(t, "foreign") {
				s.Kind, s.Of, s.ID = "data_foreign_id", rapid.IntRange(0, ntpl-1).Draw(t, "of"), rapid.SampledFrom([]uint16{999, 40000, 65535}).Draw(t, "fid")
				s.Delta = rapid.IntRange(0, 1).Draw(t, "foreign_known")
				s.Recs = [][]ref.Value{gen.Record(t, tpls[s.Of].Fields, 100)}
			} else if rapid.Bool().Draw(t, "empty_unknown") {
				s.Kind, s.ID = "data_empty_unknown", rapid.SampledFrom([]uint16{255, 999, 40000, 65535}).Draw(t, "eid")
			}
		case 7, 8:
			s.Kind, s.Size = "sized_data", rapid.IntRange(65490, 65550).Draw(t, "size")
		case 9:
			s.Kind, s.NFields = "sized_tpl", rapid.IntRange(8180, 8195).Draw(t, "nfields")
		default:
			s.Kind, s.Ill = "illtyped", rapid.SampledFrom(ills).Draw(t, "ill")
		}
		c.Steps = append(c.Steps, s)
	}
	return c
}

func runRecorded(phase string, c Case) *ev.Failure {
	st := &Stats{}
	f := runRetry(c, st)
	cl := []string{"proto_" + c.Proto}
	seen := map[string]bool{}
	for _, s := range c.Steps {
		if !seen[s.Kind] {
			seen[s.Kind] = true
			cl = append(cl, "has_"+s.Kind)
		}
	}
	rec.Case(ev.Hash(c), st.InvalidThenValid, cl...)
	if len(c.Steps) <= 3 {
		small := true
		for _, s := range c.Steps {
			small = small && len(s.Fields) < 5 && len(s.Recs) < 3
		}
		if small {
			rec.Sample(phase, c)
		}
	}
	return f
}

func TestC09(t *testing.T) {
	// enumerated every run: every message size around the limit, data and template, both transports;
	// every ill-typed value kind through every add path
	for _, proto := range []string{"tcp", "udp"} {
		for size := 65500; size <= 65545; size++ {
			c := Case{Proto: proto, Steps: []Step{{Kind: "sized_data", Size: size, Path: size % 3}}}
			if f := runRecorded("enum_size", c); f != nil {
				rec.Violation("enum_size", c, f.Msg)
				t.Fatalf("%s", f.Msg)
			}
		}
		for nf := 8180; nf <= 8195; nf++ {
			c := Case{Proto: proto, Steps: []Step{{Kind: "sized_tpl", NFields: nf, Path: nf % 4}}}
			if f := runRecorded("enum_size", c); f != nil {
				rec.Violation("enum_size", c, f.Msg)
				t.Fatalf("%s", f.Msg)
			}
		}
		for _, size := range []int{65536, 65540, 66010, 98304, 131072 + 20, 131072 + 474, 180000, 196000} {
			for path := 0; path < 4; path++ {
				c := Case{Proto: proto, Steps: []Step{{Kind: "wide_record", Size: size, Path: path}}}
				if f := runRecorded("enum_size", c); f != nil {
					rec.Violation("enum_size", c, f.Msg)
					t.Fatalf("%s", f.Msg)
				}
			}
		}
		for _, nk := range noEncoderKinds {
			for path := 0; path < 4; path++ {
				for last := 0; last < 2; last++ {
					c := Case{Proto: proto, Steps: []Step{{Kind: "no_encoder", Ill: nk, Path: path, Delta: last}}}
					if f := runRecorded("enum_illtyped", c); f != nil {
						rec.Violation("enum_illtyped", c, f.Msg)
						t.Fatalf("%s", f.Msg)
					}
				}
			}
		}
		for _, rk := range reducedKinds {
			for path := 0; path < 4; path++ {
				for last := 0; last < 2; last++ {
					c := Case{Proto: proto, Steps: []Step{{Kind: "reduced_size", Ill: rk, Path: path, Delta: last}}}
					if f := runRecorded("enum_illtyped", c); f != nil {
						rec.Violation("enum_illtyped", c, f.Msg)
						t.Fatalf("%s", f.Msg)
					}
				}
			}
		}
		for _, ill := range ills {
			for path := 0; path < 4; path++ {
				c := Case{Proto: proto, Steps: []Step{{Kind: "illtyped", Ill: ill, Path: path}}}
				if f := runRecorded("enum_illtyped", c); f != nil {
					rec.Violation("enum_illtyped", c, f.Msg)
					t.Fatalf("%s", f.Msg)
				}
			}
		}
	}
	for k := 0; k < 5; k++ {
		rec.Case(ev.Hash([]any{"transient", k}), true, "transient_write_failure")
		if f := runTransient(k); f != nil {
			rec.Violation("transient_write_failure", k, f.Msg)
			t.Fatalf("%s", f.Msg)
		}
	}
	if !ev.Rapid(t, rec, "sessions", rec.Scale(2500, 1500000), genCase, func(c Case) *ev.Failure { return runRecorded("sessions", c) }) {
		return
	}
	ev.Rapid(t, rec, "json_mode", rec.Scale(600, 200000), genJSONCase, func(c Case) *ev.Failure {
		st := &Stats{}
		f := runJSON(c, st)
		rec.Case(ev.Hash(c), st.InvalidThenValid, "json_mode")
		if len(c.Steps) <= 3 {
			rec.Sample("json_mode", c)
		}
		return f
	})
}
