//go:build verif

// C16 — set and record builders: length bookkeeping, equivalence of add paths, reuse.
package c16

import (
	"bytes"
	"fmt"
	"os"
	"testing"
	"time"

	"pgregory.net/rapid"

	"github.com/vmware/go-ipfix/pkg/entities"
	"github.com/vmware/go-ipfix/pkg/exporter"
	"github.com/vmware/go-ipfix/pkg/registry"

	"verifharness/ev"
	"verifharness/exph"
	"verifharness/gen"
	"verifharness/glue"
	ref "verifharness/refipfix"
)

// Op kinds: prepare (Tpl, ID), add (Fields, Vals for data sets; Path, Extra), update, reset.
type Op struct {
	Kind   string      `json:"kind"`
	Tpl    bool        `json:"tpl,omitempty"`
	ID     uint16      `json:"id,omitempty"`
	Fields []ref.Field `json:"fields,omitempty"`
	Vals   []ref.Value `json:"vals,omitempty"`
	Path   int         `json:"path,omitempty"`
	Extra  int         `json:"extra,omitempty"`
	// Bad (data sets only): the element list additionally holds, at position BadPos, a value that
	// cannot be encoded for its element; the add must be refused and leave the set as it was.
	Bad    string `json:"bad,omitempty"`
	BadPos int    `json:"bad_pos,omitempty"`
	// Spare: extra capacity of the element slice handed to the add call
	Spare int `json:"spare,omitempty"`
	// FixedStr > 0: the element list additionally holds, at that position, a string element declared
	// with a fixed length; the record's bytes are then not compared with the reference encoding
	FixedStr int `json:"fixed_str,omitempty"`
	// Foreign > 0: the element list additionally holds, at that position, an element whose declared
	// data type has no constructor of its own (dateTimeMicroseconds), carried by an unsigned64 value
	// object - the only way an application can put such an element into a record. The add is refused
	// (since D32) and leaves the set as it was; were it accepted, it is not compared with the
	// reference encoding, but lengths, buffers and the agreement of the add paths are.
	Foreign int `json:"foreign,omitempty"`
	// Wrap > 0: the element at that position is handed over inside an application-defined type that
	// embeds the library's element (a legitimate implementation of the public interface)
	Wrap int `json:"wrap,omitempty"`
	// AddID != 0 (data sets): the template id handed to the add call differs from the id the set was
	// prepared with. A data record does not carry its template id; the set's header names the set.
	AddID uint16 `json:"add_id,omitempty"`
}

// wrapped is an application-side implementation of entities.InfoElementWithValue: it embeds the
// library's element and adds nothing.
type wrapped struct {
	entities.InfoElementWithValue
}

type Case struct {
	Ops []Op `json:"ops"`
}

var (
	rec  *ev.Recorder
	pool []ref.Field
)

func TestMain(m *testing.M) {
	glue.SilenceKlog()
	pool, _ = glue.NewPoolArgs()
	if rp := ev.LoadReplay(); rp != nil {
		if rp.Phase == "caller_slice_reuse" {
			ev.RunReplay(rp, runReuse)
		}
		ev.RunReplay(rp, func(c Case) *ev.Failure { return runCase(c, nil) })
	}
	rec = ev.New("C16", "operation sequences on one entities.Set: PrepareSet(template|data, id), AddRecord / AddRecordWithExtraElements(k) / AddRecordV2 with element lists of 0..12 registry and user-registered elements (all 18 types, boundary-biased values), UpdateLenInHeader, ResetSet, in well-formed order; after every operation the set is compared with the reference encoding, with a fresh set replaying the operations since the last reset, and the whole history is replayed with each of the three add paths substituted; non-trivial = a ResetSet followed by a different set type or id, and >= 2 records; distinct by hash of the case",
		"reference codec refipfix")
	code := m.Run()
	rec.Write()
	os.Exit(code)
}

func elements(o Op, tpl bool) []entities.InfoElementWithValue {
	els := make([]entities.InfoElementWithValue, len(o.Fields))
	for i, f := range o.Fields {
		if tpl {
			els[i] = glue.Element(glue.IE(f), f.Type, ref.Value{})
			els[i].ResetValue()
		} else {
			els[i] = glue.Element(glue.IE(f), f.Type, o.Vals[i])
		}
	}
	if o.FixedStr > 0 && !tpl {
		p := (o.FixedStr - 1) % (len(els) + 1)
		fs := glue.Element(glue.IE(glue.FixedString), ref.TString, ref.Value{B: fixedStrValue(o.FixedStr)})
		els = append(els[:p:p], append([]entities.InfoElementWithValue{fs}, els[p:]...)...)
	}
	if o.Wrap > 0 && len(els) > 0 {
		p := (o.Wrap - 1) % len(els)
		els[p] = wrapped{els[p]}
	}
	if o.Foreign > 0 && !tpl {
		p := (o.Foreign - 1) % (len(els) + 1)
		ie, err := registry.GetInfoElement("flowStartMicroseconds", registry.IANAEnterpriseID)
		if err != nil {
			panic(err)
		}
		fe := entities.NewUnsigned64InfoElement(ie, 0x0102030405060708)
		els = append(els[:p:p], append([]entities.InfoElementWithValue{fe}, els[p:]...)...)
	}
	return els
}

// fixedStrValue: the value of the fixed-length (16 bytes) string element of an add: exactly 16 bytes.
func fixedStrValue(k int) []byte {
	return []byte(fmt.Sprintf("fixed-string-%03d", k%1000))
}

func badElement(kind string) entities.InfoElementWithValue {
	switch kind {
	case "fixedstr_short":
		return glue.Element(glue.IE(glue.FixedString), ref.TString, ref.Value{B: []byte("too short")})
	case "fixedstr_long":
		return glue.Element(glue.IE(glue.FixedString), ref.TString, ref.Value{B: []byte("seventeen bytes!!")})
	case "v6_in_ipv4":
		f := glue.UserField(ref.TIPv4)
		return glue.Element(glue.IE(f), f.Type, ref.Value{B: []byte{0x20, 1, 0xd, 0xb8, 0, 0, 0, 0, 0, 0, 0, 0, 0, 0, 0, 1}})
	case "mac5":
		f := glue.UserField(ref.TMac)
		return glue.Element(glue.IE(f), f.Type, ref.Value{B: []byte{1, 2, 3, 4, 5}})
	}
	f := glue.UserFixedOctets(8)
	return glue.Element(glue.IE(f), f.Type, ref.Value{B: []byte{1, 2, 3}})
}

func add(set entities.Set, o Op, tpl bool, id uint16, path int) error {
	els := elements(o, tpl)
	if o.AddID != 0 && !tpl {
		id = o.AddID
	}
	if o.Bad != "" && !tpl {
		p := o.BadPos % (len(els) + 1)
		els = append(els[:p:p], append([]entities.InfoElementWithValue{badElement(o.Bad)}, els[p:]...)...)
	}
	if o.Spare > 0 { // the caller's slice has spare capacity (built with append / make(0, n))
		els = append(make([]entities.InfoElementWithValue, 0, len(els)+o.Spare), els...)
	}
	var err error
	switch path {
	case exph.PathExtra:
		err = set.AddRecordWithExtraElements(els, o.Extra, id)
	case exph.PathV2:
		return set.AddRecordV2(els, id)
	default:
		err = set.AddRecord(els, id)
	}
	// the copying paths leave the caller free to refill its slice: do so
	poison := glue.Element(glue.IE(glue.UserField(ref.TU64)), ref.TU64, ref.Value{U: 0xDEADBEEFDEADBEEF})
	for i := range els {
		els[i] = poison
	}
	return err
}

// state of the model since the last reset
type model struct {
	prepared bool
	tpl      bool
	id       uint16
	recs     [][]byte
	ops      []Op // operations since the last reset (for the fresh-set differential)
}

func (m *model) size() int {
	n := 4
	for _, r := range m.recs {
		n += len(r)
	}
	return n
}

func setBytes(set entities.Set) []byte {
	out := append([]byte(nil), set.GetHeaderBuffer()...)
	for _, r := range set.GetRecords() {
		out = append(out, r.GetBuffer()...)
	}
	return out
}

// forcePath < 0: use each op's own path; otherwise substitute it everywhere.
func play(c Case, forcePath int, st *Stats) ([]byte, *ev.Failure) {
	set := entities.NewSet(false)
	var m model
	var trace []byte // concatenation of the serialized set after every operation
	for i, o := range c.Ops {
		path := o.Path
		if forcePath >= 0 {
			path = forcePath
		}
		switch o.Kind {
		case "prepare":
			ct := entities.Data
			if o.Tpl {
				ct = entities.Template
			}
			if err := set.PrepareSet(ct, o.ID); err != nil {
				return nil, ev.Failf("op %d PrepareSet: %v", i, err)
			}
			m.prepared, m.tpl, m.id = true, o.Tpl, o.ID
			m.ops = append(m.ops, o)
		case "add":
			if !m.prepared {
				continue
			}
			err := add(set, o, m.tpl, m.id, path)
			if o.Bad != "" && !m.tpl {
				if err == nil {
					return trace, nil // the value was not refused: C09 judges that; this history cannot be followed further
				}
				if st != nil {
					st.refusedAdd = true
				}
				oo := o
				oo.Path = path
				m.ops = append(m.ops, oo)
				break
			}
			if err != nil && o.Foreign > 0 && !m.tpl {
				// an element of a data type the library has no encoder for is refused (C09 judges that
				// it is not sent as zeros): the set stays as it was, through every add path
				if st != nil {
					st.refusedAdd = true
				}
				oo := o
				oo.Path = path
				m.ops = append(m.ops, oo)
				break
			}
			if err != nil {
				return nil, ev.Failf("op %d add (path %d, %d elements): %v", i, path, len(o.Fields), err)
			}
			if m.tpl {
				m.recs = append(m.recs, ref.EncodeTemplateRecord(nil, ref.Template{ID: m.id, Fields: o.Fields}))
			} else if o.FixedStr > 0 || o.Foreign > 0 {
				// not comparable with the reference encoding: take the record as serialized now; it must
				// stay that way, and be the same through every add path and in a fresh set
				recs := set.GetRecords()
				got := append([]byte(nil), recs[len(recs)-1].GetBuffer()...)
				if o.Foreign == 0 {
					// a string element declared with a fixed length goes out as exactly that many bytes,
					// without a length prefix, like a fixed-length octet array
					p := (o.FixedStr - 1) % (len(o.Fields) + 1)
					fields := append(append(append([]ref.Field(nil), o.Fields[:p]...), glue.FixedString), o.Fields[p:]...)
					vals := append(append(append([]ref.Value(nil), o.Vals[:p]...), ref.Value{B: fixedStrValue(o.FixedStr)}), o.Vals[p:]...)
					if want := ref.EncodeDataRecord(nil, fields, vals); !bytes.Equal(got, want) {
						return nil, ev.Failf("op %d add (path %d): a record with a string element of fixed length 16 at position %d is not encoded at the template's widths (%d bytes, reference %d, first difference at %d)", i, path, p, len(got), len(want), firstDiff(got, want))
					}
				}
				if o.Foreign > 0 && o.FixedStr == 0 {
					// the element without encoder reports 8 bytes; whatever they hold, every other field
					// sits where the reported lengths put it
					p := (o.Foreign - 1) % (len(o.Fields) + 1)
					want := ref.EncodeDataRecord(nil, o.Fields, o.Vals)
					off := len(ref.EncodeDataRecord(nil, o.Fields[:p], o.Vals[:p]))
					if len(got) != len(want)+8 || !bytes.Equal(got[:off], want[:off]) || !bytes.Equal(got[off+8:], want[off:]) {
						return nil, ev.Failf("op %d add (path %d): a record with an 8-byte element of a type the library cannot encode at position %d: the other %d fields are not where the reported lengths put them (record of %d bytes, %d expected; fields before it intact: %v)", i, path, p, len(o.Fields), len(got), len(want)+8, len(got) >= off && bytes.Equal(got[:off], want[:off]))
					}
				}
				m.recs = append(m.recs, got)
			} else {
				m.recs = append(m.recs, ref.EncodeDataRecord(nil, o.Fields, o.Vals))
			}
			oo := o
			oo.Path = path
			m.ops = append(m.ops, oo)
		case "update":
			set.UpdateLenInHeader()
			m.ops = append(m.ops, o)
			if m.prepared {
				// the serialized message must be the reference encoding
				msg, err := exporter.CreateIPFIXMsg(set, 9, 77, time.Unix(1700000000, 0))
				sid := m.id
				if m.tpl {
					sid = 2
				}
				var body []byte
				for _, r := range m.recs {
					body = append(body, r...)
				}
				want := ref.EncodeMessage(ref.Header{ExportTime: 1700000000, Seq: 77, Domain: 9}, sid, body)
				if len(want) > 65535 {
					if err == nil {
						return nil, ev.Failf("op %d: CreateIPFIXMsg built a %d-byte message", i, len(msg))
					}
				} else if err != nil {
					return nil, ev.Failf("op %d: CreateIPFIXMsg: %v", i, err)
				} else if !bytes.Equal(msg, want) {
					return nil, ev.Failf("op %d: serialized message differs from the reference encoding (%d vs %d bytes, first difference at %d)", i, len(msg), len(want), firstDiff(msg, want))
				}
			}
		case "reset":
			set.ResetSet()
			if st != nil && m.prepared && len(m.recs) > 0 {
				st.resetAfterRecords = true
				st.prevTpl, st.prevID, st.havePrev = m.tpl, m.id, true
			}
			m = model{}
		}
		if st != nil && o.Kind == "prepare" && st.havePrev && (st.prevTpl != o.Tpl || st.prevID != o.ID) {
			st.reuseDifferent = true
		}
		if st != nil && len(m.recs) >= 2 && st.reuseDifferent {
			st.nontrivial = true
		}
		// invariants after every operation
		if got := set.GetSetLength(); got != m.size() {
			return nil, ev.Failf("after op %d (%s): GetSetLength()=%d, 4 + sum of the reference record encodings = %d", i, o.Kind, got, m.size())
		}
		recs := set.GetRecords()
		if len(recs) != len(m.recs) || int(set.GetNumberOfRecords()) != len(m.recs) {
			return nil, ev.Failf("after op %d (%s): set holds %d records (GetNumberOfRecords %d), %d were added since the last reset", i, o.Kind, len(recs), set.GetNumberOfRecords(), len(m.recs))
		}
		sum := 4
		for k, r := range recs {
			b := r.GetBuffer()
			if len(b) != r.GetRecordLength() {
				return nil, ev.Failf("after op %d: record %d: len(GetBuffer())=%d GetRecordLength()=%d", i, k, len(b), r.GetRecordLength())
			}
			if !bytes.Equal(b, m.recs[k]) {
				return nil, ev.Failf("after op %d: record %d bytes differ from the reference encoding at %d: got % x want % x", i, k, firstDiff(b, m.recs[k]), clip(b), clip(m.recs[k]))
			}
			sum += r.GetRecordLength()
		}
		if sum != set.GetSetLength() {
			return nil, ev.Failf("after op %d: GetSetLength()=%d but 4 + sum of GetRecordLength() = %d", i, set.GetSetLength(), sum)
		}
		if m.prepared {
			wt := entities.Data
			if m.tpl {
				wt = entities.Template
			}
			if set.GetSetType() != wt {
				return nil, ev.Failf("after op %d: set type %d, prepared as %d", i, set.GetSetType(), wt)
			}
		}
		// differential: a fresh set replaying the operations since the last reset
		// (run right after a reset, for the first operations on the reused set, and at the end of each
		// segment: the cost of replaying is quadratic otherwise)
		segEnd := i == len(c.Ops)-1 || c.Ops[i+1].Kind == "reset"
		if o.Kind == "reset" || len(m.ops) <= 4 || segEnd {
			fresh := entities.NewSet(false)
			var ft bool
			var fid uint16
			for _, fo := range m.ops {
				switch fo.Kind {
				case "prepare":
					ct := entities.Data
					if fo.Tpl {
						ct = entities.Template
					}
					fresh.PrepareSet(ct, fo.ID)
					ft, fid = fo.Tpl, fo.ID
				case "add":
					if err := add(fresh, fo, ft, fid, fo.Path); err != nil && fo.Bad == "" && fo.Foreign == 0 {
						return nil, ev.Failf("fresh-set replay: %v", err)
					}
				case "update":
					fresh.UpdateLenInHeader()
				}
			}
			if fresh.GetSetLength() != set.GetSetLength() || !bytes.Equal(setBytes(fresh), setBytes(set)) || fresh.GetSetType() != set.GetSetType() && m.prepared {
				return nil, ev.Failf("after op %d (%s): the reused set differs from a fresh set given the same operations since the last reset: length %d vs %d, header % x vs % x", i, o.Kind, set.GetSetLength(), fresh.GetSetLength(), set.GetHeaderBuffer(), fresh.GetHeaderBuffer())
			}
		}
		// the trace is a hash chain over the serialized set after every operation
		h := ev.HashBytes(trace, setBytes(set), []byte{byte(set.GetSetLength() >> 8), byte(set.GetSetLength())})
		trace = []byte{byte(h >> 56), byte(h >> 48), byte(h >> 40), byte(h >> 32), byte(h >> 24), byte(h >> 16), byte(h >> 8), byte(h)}
	}
	return trace, nil
}

type Stats struct {
	resetAfterRecords, reuseDifferent, nontrivial, havePrev, prevTpl, refusedAdd bool
	prevID                                                                       uint16
}

func runCase(c Case, st *Stats) *ev.Failure {
	base, f := play(c, -1, st)
	if f != nil {
		return f
	}
	for p := 0; p < 3; p++ {
		tr, f := play(c, p, nil)
		if f != nil {
			return ev.Failf("with every add going through path %d: %s", p, f.Msg)
		}
		if !bytes.Equal(tr, base) {
			return ev.Failf("the history gives different serialized sets when every add goes through path %d", p)
		}
	}
	return nil
}

func firstDiff(a, b []byte) int {
	for i := 0; i < len(a) && i < len(b); i++ {
		if a[i] != b[i] {
			return i
		}
	}
	return min(len(a), len(b))
}

func clip(b []byte) []byte {
	if len(b) > 32 {
		return b[:32]
	}
	return b
}

func genCase(t *rapid.T) Case {
	var c Case
	n := rapid.IntRange(2, 30).Draw(t, "n")
	prepared := false
	tpl := false
	for i := 0; i < n; i++ {
		k := rapid.IntRange(0, 9).Draw(t, "kind")
		switch {
		case !prepared:
			tpl = rapid.Bool().Draw(t, "tpl")
			c.Ops = append(c.Ops, Op{Kind: "prepare", Tpl: tpl, ID: rapid.SampledFrom([]uint16{256, 257, 300, 65535}).Draw(t, "id")})
			prepared = true
		case k <= 5:
			o := Op{Kind: "add", Path: rapid.IntRange(0, 2).Draw(t, "path"), Extra: rapid.IntRange(0, 5).Draw(t, "extra")}
			for j := rapid.IntRange(0, 12).Draw(t, "nf"); j > 0; j-- {
				o.Fields = append(o.Fields, pool[rapid.IntRange(0, len(pool)-1).Draw(t, "f")])
			}
			if !tpl && rapid.IntRange(0, 15).Draw(t, "zero_width") == 0 {
				// a record that has fields and no bytes: every field an octet array of fixed length 0
				o.Fields = nil
				for j := rapid.IntRange(1, 3).Draw(t, "nzero"); j > 0; j-- {
					o.Fields = append(o.Fields, ref.Field{ID: 999, Ent: glue.UserEnt, Len: 0, Type: ref.TOctets, Name: "userFixedOctets0"})
				}
			}
			if !tpl {
				o.Vals = gen.Record(t, o.Fields, rapid.SampledFrom([]int{20, 300, 300, 66000}).Draw(t, "maxvar"))
				o.Spare = rapid.SampledFrom([]int{0, 0, 1, 5, 8}).Draw(t, "spare")
				if rapid.IntRange(0, 9).Draw(t, "fixedstr") == 0 {
					o.FixedStr = rapid.IntRange(1, 13).Draw(t, "fixedstrpos")
				}
				if rapid.IntRange(0, 7).Draw(t, "wrap") == 0 {
					o.Wrap = rapid.IntRange(1, 13).Draw(t, "wrappos")
				}
				if rapid.IntRange(0, 11).Draw(t, "foreign") == 0 {
					o.Foreign = rapid.IntRange(1, 13).Draw(t, "foreignpos")
				}
				if rapid.IntRange(0, 5).Draw(t, "add_id") == 0 {
					o.AddID = rapid.SampledFrom([]uint16{256, 300, 999, 65535, 2, 3}).Draw(t, "add_id_v")
				}
				if rapid.IntRange(0, 7).Draw(t, "bad") == 0 {
					o.Bad = rapid.SampledFrom([]string{"v6_in_ipv4", "mac5", "fixed_short", "fixedstr_short", "fixedstr_long"}).Draw(t, "badkind")
					o.BadPos = rapid.IntRange(0, 12).Draw(t, "badpos")
				}
			}
			c.Ops = append(c.Ops, o)
		case k <= 7:
			c.Ops = append(c.Ops, Op{Kind: "update"})
		default:
			c.Ops = append(c.Ops, Op{Kind: "reset"})
			prepared = false
		}
	}
	return c
}

// longSets: histories that grow a set beyond what one message carries (65535 bytes): the set
// builders have no size limit of their own (sending refuses such a set), and the three add paths
// agree there as everywhere else.
func longSets() []Case {
	str := func(n int) ref.Value { return ref.Value{B: bytes.Repeat([]byte("x"), n)} }
	sf := glue.UserField(ref.TString)
	u := glue.UserField(ref.TU32)
	var out []Case
	for _, tc := range []struct{ n, strLen int }{{70, 1000}, {2, 65000}, {3, 65530}, {700, 100}} {
		c := Case{Ops: []Op{{Kind: "prepare", ID: 256}}}
		for k := 0; k < tc.n; k++ {
			c.Ops = append(c.Ops, Op{Kind: "add", Path: k % 3, Fields: []ref.Field{u, sf}, Vals: []ref.Value{{U: uint64(k)}, str(tc.strLen)}})
			if k%16 == 15 {
				c.Ops = append(c.Ops, Op{Kind: "update"})
			}
		}
		c.Ops = append(c.Ops, Op{Kind: "update"}, Op{Kind: "reset"}, Op{Kind: "prepare", Tpl: true, ID: 257}, Op{Kind: "add", Fields: []ref.Field{u, sf}}, Op{Kind: "update"})
		out = append(out, c)
	}
	// a template set with 9000 template records of two fields (12 bytes each)
	c := Case{Ops: []Op{{Kind: "prepare", Tpl: true, ID: 300}}}
	for k := 0; k < 6000; k++ {
		c.Ops = append(c.Ops, Op{Kind: "add", Path: k % 3, Fields: []ref.Field{u, sf}})
	}
	c.Ops = append(c.Ops, Op{Kind: "update"})
	return append(out, c)
}

func TestC16(t *testing.T) {
	if ev.Shard() <= 1 {
		for _, c := range longSets() {
			st := &Stats{}
			f := runCase(c, st)
			rec.Case(ev.Hash(c), true, "set_longer_than_a_message")
			if f != nil {
				rec.Violation("long_sets", c, f.Msg)
				t.Fatalf("%s", f.Msg)
			}
		}
	}
	ev.Rapid(t, rec, "histories", rec.Scale(15000, 6000000), genCase, func(c Case) *ev.Failure {
		st := &Stats{}
		f := runCase(c, st)
		cl := []string{}
		if st.resetAfterRecords {
			cl = append(cl, "reset_after_records")
		}
		if st.reuseDifferent {
			cl = append(cl, "reuse_with_different_type_or_id")
		}
		if st.refusedAdd {
			cl = append(cl, "refused_add_then_continued")
		}
		for _, o := range c.Ops {
			if o.Kind == "prepare" {
				cl = append(cl, fmt.Sprintf("prepare_tpl_%v", o.Tpl))
				break
			}
		}
		rec.Case(ev.Hash(c), st.nontrivial, cl...)
		if len(c.Ops) <= 6 && st.nontrivial {
			rec.Sample("history", c)
		}
		return f
	})
}
