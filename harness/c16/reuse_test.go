//go:build verif

package c16

import (
	"bytes"
	"testing"

	"pgregory.net/rapid"

	"github.com/vmware/go-ipfix/pkg/entities"

	"verifharness/ev"
	"verifharness/gen"
	"verifharness/glue"
	ref "verifharness/refipfix"
)

// ReuseCase: an application that keeps one element slice (with room to spare) for its
// slice-adopting adds. Record A goes into a set through AddRecordV2 from that slice; the set is
// serialized and reset - the slice is the application's again. Record B is then added through a
// copying path (to the same set or to a new one), and before that set is serialized the application
// fills its slice with the elements of its next record, C. The set must serialize B: the copying
// paths take nothing of the caller's slice with them, whatever was in the set before the reset.
type ReuseCase struct {
	A      Op   `json:"a"`
	B      Op   `json:"b"`
	C      Op   `json:"c"`
	NewSet bool `json:"new_set,omitempty"`
	Extra  int  `json:"extra,omitempty"` // B through AddRecordWithExtraElements(Extra) when > 0
	Rounds int  `json:"rounds"`
}

func runReuse(c ReuseCase) *ev.Failure {
	own := make([]entities.InfoElementWithValue, 0, 32)
	set := entities.NewSet(false)
	for round := 0; round < max(1, c.Rounds); round++ {
		if err := set.PrepareSet(entities.Data, 256); err != nil {
			return ev.Failf("PrepareSet: %v", err)
		}
		own = append(own[:0], elements(c.A, false)...)
		if err := set.AddRecordV2(own, 256); err != nil {
			return ev.Failf("AddRecordV2: %v", err)
		}
		if got, want := setBytes(set)[4:], ref.EncodeDataRecord(nil, c.A.Fields, c.A.Vals); !bytes.Equal(got, want) {
			return ev.Failf("round %d: record A added through AddRecordV2 is not the reference encoding", round)
		}
		set.ResetSet()
		target := set
		if c.NewSet {
			target = entities.NewSet(false)
		}
		if err := target.PrepareSet(entities.Data, 257); err != nil {
			return ev.Failf("PrepareSet: %v", err)
		}
		var err error
		if c.Extra > 0 {
			err = target.AddRecordWithExtraElements(elements(c.B, false), c.Extra, 257)
		} else {
			err = target.AddRecord(elements(c.B, false), 257)
		}
		if err != nil {
			return ev.Failf("add of record B: %v", err)
		}
		// the application prepares its next slice-adopting add
		own = append(own[:0], elements(c.C, false)...)
		want := ref.EncodeDataRecord(nil, c.B.Fields, c.B.Vals)
		if got := setBytes(target)[4:]; !bytes.Equal(got, want) || target.GetSetLength() != 4+len(want) {
			return ev.Failf("round %d: a set holds record B (%d fields, added through a copying path%s); after the application refilled the slice it had used for an earlier AddRecordV2 (that set was serialized and reset since), the set serializes %d bytes (set length %d) where B's encoding has %d: the record took the caller's slice with it", round, len(c.B.Fields), map[bool]string{true: " to a new set", false: ""}[c.NewSet], len(got), target.GetSetLength(), len(want))
		}
		target.ResetSet()
	}
	return nil
}

func genReuse(t *rapid.T) ReuseCase {
	op := func(label string) Op {
		var o Op
		for j := rapid.IntRange(1, 10).Draw(t, "nf"+label); j > 0; j-- {
			o.Fields = append(o.Fields, pool[rapid.IntRange(0, len(pool)-1).Draw(t, "f"+label)])
		}
		o.Vals = gen.Record(t, o.Fields, 40)
		return o
	}
	return ReuseCase{A: op("a"), B: op("b"), C: op("c"), NewSet: rapid.Bool().Draw(t, "new_set"), Extra: rapid.SampledFrom([]int{0, 0, 1, 4}).Draw(t, "extra"), Rounds: rapid.IntRange(1, 3).Draw(t, "rounds")}
}

func TestC16Reuse(t *testing.T) {
	ev.Rapid(t, rec, "caller_slice_reuse", rec.Scale(3000, 300000), genReuse, func(c ReuseCase) *ev.Failure {
		f := runReuse(c)
		rec.Case(ev.Hash(c), true, "caller_slice_reused_after_reset")
		return f
	})
}

var _ = glue.UserEnt
