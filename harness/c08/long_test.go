//go:build verif

package c08

import (
	"fmt"
	"io"
	"net"
	"time"

	"github.com/vmware/go-ipfix/pkg/entities"
	"github.com/vmware/go-ipfix/pkg/exporter"

	"verifharness/ev"
	"verifharness/exph"
	ref "verifharness/refipfix"
)

// Long is one very long session in lock step with the peer: a template, then N data sets of one
// record each from one reused Set. After every call that succeeds the peer must hold exactly that
// call's message - nothing before it, nothing behind it - with the byte count the call reported
// and the sequence number (start + records so far) mod 2^32. N is beyond 2^16 (2^17 in the
// thorough tier): anything the exporter counts in sixteen bits wraps on the way.
type Long struct {
	Proto string `json:"proto"`
	N     int    `json:"n"`
	Start uint32 `json:"start"`
}

var longLost string

func runLong(c Long) *ev.Failure {
	longLost = ""
	var read func(n int, limit time.Duration) ([]byte, error)
	var addr string
	var closeAll func()
	if c.Proto == "udp" {
		pc, err := net.ListenUDP("udp", &net.UDPAddr{IP: net.IPv4(127, 0, 0, 1)})
		if err != nil {
			return nil
		}
		pc.SetReadBuffer(4 << 20)
		addr, closeAll = pc.LocalAddr().String(), func() { pc.Close() }
		buf := make([]byte, 1<<16)
		read = func(_ int, limit time.Duration) ([]byte, error) {
			pc.SetReadDeadline(time.Now().Add(limit))
			n, _, err := pc.ReadFromUDP(buf)
			return buf[:n], err
		}
	} else {
		ln, err := net.Listen("tcp", "127.0.0.1:0")
		if err != nil {
			return nil
		}
		var conn net.Conn
		addr = ln.Addr().String()
		closeAll = func() {
			ln.Close()
			if conn != nil {
				conn.Close()
			}
		}
		buf := make([]byte, 1<<16)
		read = func(n int, limit time.Duration) ([]byte, error) {
			if conn == nil {
				ln.(*net.TCPListener).SetDeadline(time.Now().Add(5 * time.Second))
				if conn, err = ln.Accept(); err != nil {
					return nil, err
				}
			}
			conn.SetReadDeadline(time.Now().Add(limit))
			if n == 0 { // anything at all
				k, err := conn.Read(buf)
				return buf[:k], err
			}
			_, err := io.ReadFull(conn, buf[:n])
			return buf[:n], err
		}
	}
	defer closeAll()
	ep, err := exporter.InitExportingProcess(exporter.ExporterInput{CollectorAddress: addr, CollectorProtocol: c.Proto, ObservationDomainID: 77, TempRefTimeout: 3600, CheckConnInterval: time.Hour})
	if err != nil {
		return ev.Failf("InitExportingProcess: %v", err)
	}
	defer ep.CloseConnToCollector()
	if c.Start != 0 {
		ep.VerifSetSeqNumber(c.Start)
	}
	fields := templates[0]
	ts, err := exph.TemplateSet(256, fields, 0)
	if err != nil {
		return ev.Failf("template set: %v", err)
	}
	n, err := ep.SendSet(ts)
	if err != nil {
		return ev.Failf("template SendSet: %v", err)
	}
	if got, err := read(n, 5*time.Second); err != nil || len(got) != n {
		longLost = fmt.Sprintf("the template message did not arrive: %v", err)
		return nil
	}
	set := entities.NewSet(false)
	seq := c.Start
	for i := 0; i < c.N; i++ {
		set.ResetSet()
		vals := make([]ref.Value, len(fields))
		for k, f := range fields {
			vals[k] = ref.Value{U: uint64(i + k)}
			if f.Type.IsBytes() {
				vals[k] = ref.Value{B: make([]byte, f.Type.Width())}
				if f.Type == ref.TString {
					vals[k].B = []byte("rec")
				}
			}
		}
		ds, err := exph.DataSetInto(set, 256, fields, [][]ref.Value{vals}, i%3)
		if err != nil {
			return ev.Failf("call %d: building the set: %v", i+1, err)
		}
		n, err := ep.SendSet(ds)
		if err != nil {
			return ev.Failf("data call %d of one session failed: %v", i+1, err)
		}
		seq++
		got, err := read(n, 5*time.Second)
		if err != nil {
			if c.Proto == "udp" {
				longLost = fmt.Sprintf("data call %d reported %d bytes, nothing arrived: %v", i+1, n, err)
				return nil
			}
			return ev.Failf("data call %d reported %d bytes, they did not arrive: %v", i+1, n, err)
		}
		h, sets, perr := ref.ParseMessage(got)
		if perr != nil || len(sets) != 1 {
			return ev.Failf("data call %d: what arrived next is not one well-formed message with one set: %v", i+1, perr)
		}
		if sets[0].ID != 256 {
			return ev.Failf("data call %d of the session: the next message on the wire carries set id %d (%d bytes), not the call's data set - the call produced more than its one message", i+1, sets[0].ID, len(got))
		}
		if len(got) != n {
			return ev.Failf("data call %d reported %d bytes, its message has %d", i+1, n, len(got))
		}
		if h.Seq != seq {
			return ev.Failf("data call %d: sequence number %d, want %d = start %d + records so far (mod 2^32)", i+1, h.Seq, seq, c.Start)
		}
		want := ref.DataMessage(ref.Header{Domain: 77}, ref.Template{ID: 256, Fields: fields}, [][]ref.Value{vals})
		if !exph.SameExceptTimeSeq(got, want) {
			return ev.Failf("data call %d: the message on the wire is not the call's record", i+1)
		}
	}
	if got, err := read(0, 100*time.Millisecond); err == nil {
		return ev.Failf("after %d calls, each matched by its message, %d more bytes arrived", c.N+1, len(got))
	}
	return nil
}

func runLongRepeated(c Long) *ev.Failure {
	for attempt := 1; ; attempt++ {
		if f := runLong(c); f != nil || longLost == "" {
			return f
		}
		if attempt == 3 {
			return ev.Failf("three times in a row: %s", longLost)
		}
	}
}
