//go:build verif

// C08 — exporter sequence numbers and header bookkeeping across a session.
package c08

import (
	"fmt"
	"net"
	"os"

	"github.com/vmware/go-ipfix/pkg/entities"
	"github.com/vmware/go-ipfix/pkg/exporter"

	"testing"
	"time"

	"pgregory.net/rapid"

	"verifharness/ev"
	"verifharness/exph"
	"verifharness/glue"
	ref "verifharness/refipfix"
)

// Step is a successful SendSet: a template set (NRecs == 0 and Tpl) or a data set.
type Step struct {
	Tpl   bool `json:"tpl"`
	Which int  `json:"which"` // template index
	NRecs int  `json:"nrecs,omitempty"`
	// Refused: while the data set is built, one more record whose value cannot be encoded is offered
	// (after RefusedAt good records); the add is refused and the application goes on with the set
	Refused   bool `json:"refused,omitempty"`
	RefusedAt int  `json:"refused_at,omitempty"`
}

// Case is one session; Start is the initial value of the sequence counter.
type Case struct {
	Proto  string `json:"proto"`
	Domain uint32 `json:"domain"`
	Start  uint32 `json:"start"`
	// Reuse: one Set object is reset and refilled for every send (as applications do to avoid
	// allocations), instead of a fresh set per message.
	Reuse bool `json:"reuse,omitempty"`
	// IDBase: the three templates use ids IDBase..IDBase+2 (0: 256). A base below 256 lies in the
	// range RFC 7011 reserves; the library does not refuse such ids, and as long as it transmits
	// the sets they count like any other (a refusal ends the case without a verdict).
	IDBase uint16 `json:"id_base,omitempty"`
	// ZoneMin: the process's local time zone (time.Local) is a fixed zone this many minutes east of
	// UTC while the session runs (0: left as it is). The export time is an absolute second count.
	ZoneMin int    `json:"zone_min,omitempty"`
	Steps   []Step `json:"steps"`
}

var rec *ev.Recorder

var templates [][]ref.Field

func TestMain(m *testing.M) {
	glue.SilenceKlog()
	glue.UserFields()
	templates = [][]ref.Field{
		{glue.UserField(ref.TU8), glue.UserField(ref.TU32)},
		{glue.UserField(ref.TU16), glue.UserField(ref.TString), glue.UserField(ref.TIPv4)},
		{glue.UserField(ref.TI64)},
	}
	if rp := ev.LoadReplay(); rp != nil {
		if rp.Phase == "udp_collector_restart" {
			ev.RunReplay(rp, runRestartRepeated)
		}
		if rp.Phase == "long_session" {
			ev.RunReplay(rp, runLongRepeated)
		}
		if rp.Phase == "stamps" {
			ev.RunReplay(rp, runStamp)
		}
		ev.RunReplay(rp, runCase)
	}
	rec = ev.New("C08", "sessions of 1..40 successful SendSet calls (template sets; data sets of 1..200 records of three templates with ids from 256, 1000, 65533 or the reserved range below 256) over tcp and udp, the sequence counter started at 0 or at 2^32-k (k in 0..300, through the verif setter) so that the wrap is crossed; each captured header is parsed by the reference codec; non-trivial = at least two data sets of different sizes with a template set between them; distinct by hash of the case",
		"reference codec refipfix", "verif hook VerifSetSeqNumber only assigns the counter before the first send", "the wall clock does not step backwards during a case")
	code := m.Run()
	rec.Write()
	os.Exit(code)
}

// lost: a udp run ended without a verdict because a datagram did not arrive; the session is run
// again, and three losses in a row are a message reported sent and never written.
var lost string

func runRetry(c Case) *ev.Failure {
	for attempt := 1; ; attempt++ {
		lost = ""
		f := runCase(c)
		if f != nil || lost == "" {
			return f
		}
		if attempt == 3 {
			return ev.Failf("over udp, three times in a row: %s", lost)
		}
	}
}

func runCase(c Case) *ev.Failure {
	if c.ZoneMin != 0 {
		old := time.Local
		time.Local = time.FixedZone("verif", c.ZoneMin*60)
		defer func() { time.Local = old }()
	}
	peer, err := exph.NewPeer(c.Proto, false)
	if err != nil {
		return nil
	}
	defer peer.Close()
	ep, err := exph.StartExporter(peer, c.Domain, false)
	if err != nil {
		return ev.Failf("InitExportingProcess: %v", err)
	}
	defer ep.CloseConnToCollector()
	if c.Start != 0 {
		ep.VerifSetSeqNumber(c.Start)
	}
	expSeq := c.Start
	sent, total := 0, 0
	shared := entities.NewSet(false)
	newSet := func() entities.Set {
		if c.Reuse {
			shared.ResetSet()
			return shared
		}
		return entities.NewSet(false)
	}
	defined := map[int]bool{}
	idBase := c.IDBase
	if idBase == 0 {
		idBase = 256
	}
	reserved := idBase < 256
	for i, s := range c.Steps {
		w := s.Which % len(templates)
		fields := templates[w]
		id := idBase + uint16(w)
		var n int
		var wantLen int
		isTpl := s.Tpl || !defined[w]
		before := time.Now()
		if isTpl {
			set, err := exph.TemplateSetInto(newSet(), id, fields, i%3)
			if err != nil {
				if reserved {
					return nil
				}
				return ev.Failf("step %d: %v", i, err)
			}
			wantLen = len(ref.TemplateMessage(ref.Header{}, ref.Template{ID: id, Fields: fields}))
			if n, err = ep.SendSet(set); err != nil {
				if reserved {
					return nil
				}
				return ev.Failf("step %d: template SendSet failed: %v", i, err)
			}
			defined[w] = true
		} else {
			recs := make([][]ref.Value, s.NRecs)
			for k := range recs {
				for _, f := range fields {
					v := ref.Value{U: uint64(k + i)}
					if f.Type.IsBytes() {
						v = ref.Value{B: make([]byte, f.Type.Width())}
						if f.Type == ref.TString {
							v.B = []byte("rec")
						}
					}
					recs[k] = append(recs[k], v)
				}
			}
			var set entities.Set
			var err error
			if s.Refused {
				at := s.RefusedAt % (len(recs) + 1)
				set, err = exph.DataSetInto(newSet(), id, fields, recs[:at], i%3)
				if err == nil {
					// an IPv4 element holding an IPv6 address, appended to a copy of the template's elements
					bad := append(exph.Elements(fields, recs[0]), glue.Element(glue.IE(glue.UserField(ref.TIPv4)), ref.TIPv4, ref.Value{B: []byte{0x20, 1, 0xd, 0xb8, 0, 0, 0, 0, 0, 0, 0, 0, 0, 0, 0, 9}}))
					if i%3 == 2 {
						_ = set.AddRecordV2(bad, id)
					} else {
						_ = set.AddRecord(bad, id)
					}
					for _, r := range recs[at:] {
						els := exph.Elements(fields, r)
						if i%3 == 2 {
							err = set.AddRecordV2(els, id)
						} else {
							err = set.AddRecord(els, id)
						}
						if err != nil {
							break
						}
					}
				}
			} else {
				set, err = exph.DataSetInto(newSet(), id, fields, recs, i%3)
			}
			if err != nil {
				if reserved {
					return nil
				}
				return ev.Failf("step %d: %v", i, err)
			}
			wantLen = len(ref.DataMessage(ref.Header{}, ref.Template{ID: id, Fields: fields}, recs))
			if n, err = ep.SendSet(set); err != nil {
				if reserved {
					return nil
				}
				return ev.Failf("step %d: data SendSet (%d records) failed: %v", i, s.NRecs, err)
			}
			expSeq += uint32(s.NRecs)
		}
		after := time.Now()
		sent++
		total += wantLen
		if n != wantLen {
			return ev.Failf("step %d: SendSet reported %d bytes, the message has %d", i, n, wantLen)
		}
		if !peer.WaitMessages(sent, total, 20*time.Second) {
			if c.Proto == "udp" {
				lost = fmt.Sprintf("step %d: SendSet reported %d bytes sent, the datagram did not arrive", i, n)
				return nil
			}
			return ev.Failf("step %d: message did not arrive", i)
		}
		msgs, rest := peer.Messages()
		if len(msgs) != sent || len(rest) != 0 {
			return ev.Failf("step %d: %d messages and %d stray bytes on the wire after %d successful calls", i, len(msgs), len(rest), sent)
		}
		got := msgs[sent-1]
		h, sets, err := ref.ParseMessage(got)
		if err != nil || len(sets) != 1 {
			return ev.Failf("step %d: message not well-formed: %v", i, err)
		}
		if len(got) != n {
			return ev.Failf("step %d: %d bytes observed, SendSet reported %d", i, len(got), n)
		}
		if h.Seq != expSeq {
			what := "data"
			if isTpl {
				what = "template"
			}
			return ev.Failf("step %d (%s message): sequence number %d, want %d = (start %d + data records sent so far) mod 2^32", i, what, h.Seq, expSeq, c.Start)
		}
		if h.Domain != c.Domain {
			return ev.Failf("step %d: observation domain %d, configured %d", i, h.Domain, c.Domain)
		}
		if int64(h.ExportTime) < before.Unix() || int64(h.ExportTime) > after.Unix() {
			return ev.Failf("step %d: export time %d outside the sending second [%d, %d]", i, h.ExportTime, before.Unix(), after.Unix())
		}
	}
	return nil
}

func genCase(t *rapid.T) Case {
	c := Case{
		Proto:  rapid.SampledFrom([]string{"tcp", "udp"}).Draw(t, "proto"),
		Domain: rapid.SampledFrom([]uint32{0, 1, 42, 0xFFFFFFFF, 0x01020304}).Draw(t, "domain"),
	}
	c.Reuse = rapid.Bool().Draw(t, "reuse")
	c.ZoneMin = rapid.SampledFrom([]int{0, 0, 0, 330, -480, 765, -1}).Draw(t, "zone_min")
	c.IDBase = rapid.SampledFrom([]uint16{0, 0, 0, 1000, 65533, 253, 10}).Draw(t, "id_base")
	if rapid.Bool().Draw(t, "nearwrap") {
		c.Start = uint32(0x100000000 - uint64(rapid.IntRange(0, 300).Draw(t, "k")))
	} else if rapid.IntRange(0, 3).Draw(t, "startrnd") == 0 {
		c.Start = rapid.Uint32().Draw(t, "start")
	}
	n := rapid.IntRange(1, 40).Draw(t, "n")
	for i := 0; i < n; i++ {
		s := Step{Which: rapid.IntRange(0, 2).Draw(t, "which")}
		if rapid.IntRange(0, 3).Draw(t, "tpl") == 0 {
			s.Tpl = true
		} else {
			s.NRecs = rapid.IntRange(1, 12).Draw(t, "nrecs")
			if rapid.IntRange(0, 5).Draw(t, "big") == 0 {
				s.NRecs = rapid.IntRange(13, 200).Draw(t, "nrecsbig")
			}
			if rapid.IntRange(0, 5).Draw(t, "refused") == 0 {
				s.Refused, s.RefusedAt = true, rapid.IntRange(0, 12).Draw(t, "refusedat")
			}
		}
		c.Steps = append(c.Steps, s)
	}
	return c
}

func classify(c Case) (bool, []string) {
	defined := map[int]bool{}
	var sizes []int
	tplBetween, nt := false, false
	seq := uint64(c.Start)
	wrap := false
	for _, s := range c.Steps {
		w := s.Which % len(templates)
		if s.Tpl || !defined[w] {
			defined[w] = true
			if len(sizes) > 0 {
				tplBetween = true
			}
			continue
		}
		if tplBetween && len(sizes) > 0 && sizes[len(sizes)-1] != s.NRecs {
			nt = true
		}
		sizes = append(sizes, s.NRecs)
		if seq+uint64(s.NRecs) > 0xFFFFFFFF {
			wrap = true
			seq -= 1 << 32
		}
		seq += uint64(s.NRecs)
	}
	cl := []string{"proto_" + c.Proto}
	if wrap {
		cl = append(cl, "wrap_crossed")
	}
	if c.Start == 0 {
		cl = append(cl, "start_zero")
	}
	if c.Reuse {
		cl = append(cl, "set_reused")
	}
	return nt, cl
}

// Stamp is one direct call of the exported message builder with a given instant.
type Stamp struct {
	Sec     int64  `json:"sec"`      // seconds since the epoch, 0 .. 2^32-1
	Nsec    int64  `json:"nsec"`     // 0 .. 999999999
	ZoneMin int    `json:"zone_min"` // the location the instant is expressed in
	Seq     uint32 `json:"seq"`
	Domain  uint32 `json:"domain"`
	NRecs   int    `json:"nrecs"`
}

// runStamp: CreateIPFIXMsg(set, domain, seq, t) writes exactly (seq, domain, t's second) into the
// header, for every instant the 32-bit field can hold, whatever location t is expressed in.
func runStamp(c Stamp) *ev.Failure {
	fields := templates[0]
	recs := make([][]ref.Value, c.NRecs)
	for k := range recs {
		recs[k] = []ref.Value{{U: uint64(k)}, {U: uint64(k) * 3}}
	}
	set, err := exph.DataSet(256, fields, recs, 0)
	if err != nil {
		return ev.Failf("building the set: %v", err)
	}
	set.UpdateLenInHeader()
	t := time.Unix(c.Sec, c.Nsec).In(time.FixedZone("z", c.ZoneMin*60))
	msg, err := exporter.CreateIPFIXMsg(set, c.Domain, c.Seq, t)
	if err != nil {
		return ev.Failf("CreateIPFIXMsg: %v", err)
	}
	h, sets, err := ref.ParseMessage(msg)
	if err != nil || len(sets) != 1 {
		return ev.Failf("CreateIPFIXMsg output is not a well-formed message: %v", err)
	}
	if int64(h.ExportTime) != c.Sec {
		return ev.Failf("CreateIPFIXMsg at instant %d s (%s): export time %d in the header", c.Sec, t.Format(time.RFC3339), h.ExportTime)
	}
	if h.Seq != c.Seq || h.Domain != c.Domain {
		return ev.Failf("CreateIPFIXMsg(seq %d, domain %d): header carries seq %d, domain %d", c.Seq, c.Domain, h.Seq, h.Domain)
	}
	return nil
}

// runRestart: the udp collector goes away and comes back on the same port while the exporter keeps
// its socket. Sends made while nobody listens may fail or vanish (that is udp); but from the moment
// a collector listens again, a SendSet that reports success has put exactly its message on the
// wire, with the byte count it reports. Outage is how many sends happen while nobody listens.
func runRestart(outage int) *ev.Failure {
	pc, err := net.ListenUDP("udp", &net.UDPAddr{IP: net.IPv4(127, 0, 0, 1)})
	if err != nil {
		return nil
	}
	addr := pc.LocalAddr().(*net.UDPAddr)
	ep, err := exporter.InitExportingProcess(exporter.ExporterInput{CollectorAddress: addr.String(), CollectorProtocol: "udp", ObservationDomainID: 8, TempRefTimeout: 3600})
	if err != nil {
		pc.Close()
		return nil
	}
	defer ep.CloseConnToCollector()
	fields := templates[0]
	recv := func(c *net.UDPConn, limit time.Duration) []byte {
		buf := make([]byte, 65536)
		c.SetReadDeadline(time.Now().Add(limit))
		n, _, err := c.ReadFromUDP(buf)
		if err != nil {
			return nil
		}
		return buf[:n]
	}
	ts, _ := exph.TemplateSet(256, fields, 0)
	if _, err := ep.SendSet(ts); err != nil {
		pc.Close()
		return ev.Failf("template: %v", err)
	}
	if recv(pc, 5*time.Second) == nil {
		pc.Close()
		return nil // loss on the loopback: no verdict
	}
	pc.Close()
	data := func(k int) (entities.Set, error) {
		return exph.DataSet(256, fields, [][]ref.Value{{{U: uint64(k)}, {U: uint64(k) * 3}}}, 0)
	}
	for k := 0; k < outage; k++ {
		ds, _ := data(k)
		ep.SendSet(ds) // nobody listens: whatever happens is not judged
		time.Sleep(5 * time.Millisecond)
	}
	pc2, err := net.ListenUDP("udp", addr)
	if err != nil {
		return nil // the port was taken meanwhile: no verdict
	}
	defer pc2.Close()
	okSends := 0
	for k := 100; k < 104; k++ {
		ds, _ := data(k)
		n, err := ep.SendSet(ds)
		if err != nil {
			continue // a pending error of the outage may surface here: allowed, the application is told
		}
		okSends++
		got := recv(pc2, 3*time.Second)
		if got == nil {
			// a datagram can be lost on the loopback: the caller repeats the scenario, and the same
			// send going missing every time is not loss
			missing = fmt.Sprintf("udp collector back on its port after an outage of %d sends: send %d after the restart reported %d bytes sent and nothing arrived", outage, k-99, n)
			return nil
		}
		if len(got) != n {
			return ev.Failf("udp collector restarted: SendSet reported %d bytes, the datagram has %d", n, len(got))
		}
		h, sets, err := ref.ParseMessage(got)
		if err != nil || len(sets) != 1 {
			return ev.Failf("udp collector restarted: the datagram is not a well-formed message: %v", err)
		}
		// every data call so far carried one record, and a call counts its records at most once,
		// whether it was told of an error or not
		if calls := outage + (k - 99); int(h.Seq) > calls {
			return ev.Failf("udp collector back after an outage of %d sends: the message of send %d after the restart carries sequence number %d; only %d data calls of one record each were made on this exporter so far (a call counted its records twice)", outage, k-99, h.Seq, calls)
		}
	}
	if okSends == 0 {
		return ev.Failf("udp collector restarted on its port: four sends in a row failed after it was back")
	}
	return nil
}

// missing is set by runRestart when a send that reported success did not arrive.
var missing string

func runRestartRepeated(outage int) *ev.Failure {
	for attempt := 1; ; attempt++ {
		missing = ""
		if f := runRestart(outage); f != nil || missing == "" {
			return f
		}
		if attempt == 3 {
			return ev.Failf("three times in a row: %s", missing)
		}
	}
}

func TestC08(t *testing.T) {
	for _, outage := range []int{1, 2, 5} {
		f := runRestartRepeated(outage)
		rec.Case(ev.Hash([]any{"udp_collector_restart", outage}), true, "udp_collector_restart")
		if f != nil {
			rec.Violation("udp_collector_restart", outage, f.Msg)
			t.Fatalf("%s", f.Msg)
		}
	}
	nLong := 70000
	if rec.Thorough() {
		nLong = 140000
	}
	for _, c := range []Long{{Proto: "udp", N: nLong}, {Proto: "tcp", N: nLong, Start: 1<<32 - 66000}} {
		if ev.Shard() > 1 {
			break
		}
		f := runLongRepeated(c)
		rec.Case(ev.Hash(c), true, "long_session_"+c.Proto)
		if f != nil {
			rec.Violation("long_session", c, f.Msg)
			t.Fatalf("%s", f.Msg)
		}
	}
	if !ev.Rapid(t, rec, "stamps", rec.Scale(3000, 300000), func(t *rapid.T) Stamp {
		c := Stamp{Nsec: rapid.SampledFrom([]int64{0, 1, 499999999, 999999999}).Draw(t, "nsec"),
			ZoneMin: rapid.SampledFrom([]int{0, 0, 330, -480, 765, 840, -720}).Draw(t, "zone_min"),
			Seq:     rapid.Uint32().Draw(t, "seq"), Domain: rapid.Uint32().Draw(t, "domain"), NRecs: rapid.IntRange(1, 3).Draw(t, "nrecs")}
		if rapid.Bool().Draw(t, "edge") {
			// around the signed and unsigned 32-bit second counts, year ends, the epoch
			base := rapid.SampledFrom([]int64{0, 1 << 31, 1<<32 - 1, 1<<31 - 1, 946684800, 1735689600, 4102444800, 2147483648 + 86400*365}).Draw(t, "base")
			c.Sec = base + int64(rapid.IntRange(-3, 3).Draw(t, "delta"))
		} else {
			c.Sec = rapid.Int64Range(0, 1<<32-1).Draw(t, "sec")
		}
		if c.Sec < 0 {
			c.Sec = 0
		}
		if c.Sec > 1<<32-1 {
			c.Sec = 1<<32 - 1
		}
		return c
	}, func(c Stamp) *ev.Failure {
		rec.Case(ev.Hash(c), c.Sec >= 1<<31 || c.ZoneMin != 0, "direct_stamp")
		return runStamp(c)
	}) {
		return
	}
	ev.Rapid(t, rec, "sessions", rec.Scale(2500, 1500000), genCase, func(c Case) *ev.Failure {
		nt, cl := classify(c)
		rec.Case(ev.Hash(c), nt, cl...)
		if len(c.Steps) <= 5 {
			rec.Sample("session", c)
		}
		return runRetry(c)
	})
}
