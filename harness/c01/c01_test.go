//go:build verif

// C01 — end-to-end fidelity: what an exporter is given is what a collector delivers.
package c01

import (
	"bytes"
	"fmt"
	"os"
	"sync"
	"testing"
	"time"

	"pgregory.net/rapid"

	"github.com/vmware/go-ipfix/pkg/collector"
	"github.com/vmware/go-ipfix/pkg/entities"
	"github.com/vmware/go-ipfix/pkg/exporter"

	"verifharness/ev"
	"verifharness/exph"
	"verifharness/gen"
	"verifharness/glue"
	ref "verifharness/refipfix"
)

// Case is one exporter -> collector session: a template and data sets of its records.
type Case struct {
	Transport string          `json:"transport"` // tcp | udp | tls | dtls
	V6        bool            `json:"v6"`
	Domain    uint32          `json:"domain"`
	ID        uint16          `json:"id"`
	Fields    []ref.Field     `json:"fields"`
	Sets      [][][]ref.Value `json:"sets"` // data sets -> records -> values
	Path      int             `json:"path"`
	ClientCA  bool            `json:"client_ca,omitempty"` // tls: the collector demands a client certificate
	// Prior (not dtls): an earlier exporter session to the same collector used the same template id
	// in the same observation domain for these other elements (an exporter numbers its templates
	// from 256 after every restart); its one record is PriorRec.
	Prior    []ref.Field `json:"prior,omitempty"`
	PriorRec []ref.Value `json:"prior_rec,omitempty"`
	// Second (udp, dtls): a second template (id ID^1) with these other elements is sent after the
	// first, then one template-refresh round runs (the body of the refresh tick) before the data:
	// every template message delivered must carry the layout that was sent under its id, and the
	// data is decoded after the refresh.
	Second []ref.Field `json:"second,omitempty"`
	// Reuse: the application writes every record into one long-lived list of element objects
	// (setters; ResetValue for empty values) and one set object; one record per set.
	Reuse bool `json:"reuse,omitempty"`
	// MaxBuf (udp): the collector's MaxBufferSize (0: 65535). No message of the session is longer;
	// one exactly that long is a complete datagram and must be delivered.
	MaxBuf uint16 `json:"max_buf,omitempty"`
}

var (
	rec     *ev.Recorder
	pool    []ref.Field
	ca      *glue.CA
	srvCert glue.Leaf
	cliCert glue.Leaf
)

func TestMain(m *testing.M) {
	glue.SilenceKlog()
	pool = glue.RegistryFields()
	ca = glue.NewCA("verif CA")
	srvCert = ca.LoopbackServer()
	cliCert = ca.Issue(glue.LeafSpec{CN: "exporter", Client: true})
	if rp := ev.LoadReplay(); rp != nil {
		if rp.Phase == "slow_consumer" {
			ev.RunReplay(rp, runSlowConsumerJudged)
		}
		ev.RunReplay(rp, func(c Case) *ev.Failure { f, _ := runCase(c); return f })
	}
	rec = ev.New("C01", "sessions of a fresh library exporter and a fresh library collector over real loopback sockets (tcp, udp, tls, dtls; IPv4 and IPv6 listeners): one template of 1..40 elements drawn (repeats allowed) from the whole loaded IANA / reverse / Antrea registry (supported data types), 1..3 data sets of 1..n well-typed records (boundary-biased integers and float bit patterns, string/octet lengths 0/1/254/255/256/random, one class fills the message to exactly the transport's maximum), then a sentinel template whose delivery proves everything before it was processed; non-trivial = >= 2 fields and >= 1 record and all fields compared; distinct by hash of the case",
		"loopback delivers TCP bytes and UDP datagrams in order (a UDP loss makes the case inconclusive, not failing)", "certificates minted in-process", "DTLS messages above pion's 8192-byte receive buffer are the open-finding class D10 (excluded and counted)")
	code := m.Run()
	rec.Write()
	os.Exit(code)
}

// maxMessage is the largest message the transport can carry.
func maxMessage(transport string, v6 bool) int {
	switch transport {
	case "udp":
		if v6 {
			return 65527
		}
		return 65507
	case "dtls":
		return 8000
	}
	return 65535
}

type sink struct {
	mu   sync.Mutex
	msgs []*entities.Message
}

func (s *sink) snapshot() []*entities.Message {
	s.mu.Lock()
	defer s.mu.Unlock()
	return append([]*entities.Message(nil), s.msgs...)
}

const sentinelID = 65000

// lostUDP is set by runCase when a plain-udp session ended without a verdict because a message
// did not arrive.
var lostUDP string
var gentle bool

// runJudged runs a session; a plain-udp session that loses a message is run again, up to three
// times: a datagram lost on the loopback is a rare, random event, the same session losing a
// message three times in a row is the collector (or exporter) dropping it.
func runJudged(c Case) (*ev.Failure, bool) {
	defer func() { gentle = false }()
	for attempt := 1; ; attempt++ {
		lostUDP = ""
		gentle = attempt > 1 // the repeats pause after every send, so that no socket buffer can overflow
		f, judged := runCase(c)
		if judged || lostUDP == "" {
			return f, judged
		}
		if attempt == 3 {
			return ev.Failf("over udp, three times in a row: %s although every SendSet succeeded (a valid message is dropped)", lostUDP), true
		}
	}
}

// runCase returns (failure, judged): judged is false when the session was inconclusive
// (environment, UDP loss).
func runCase(c Case) (*ev.Failure, bool) {
	host := "127.0.0.1:0"
	if c.V6 {
		host = "[::1]:0"
	}
	in := collector.CollectorInput{Address: host, MaxBufferSize: 65535, IsIPv6: c.V6, TemplateTTL: 3600}
	if c.MaxBuf > 0 && c.Transport == "udp" {
		in.MaxBufferSize = c.MaxBuf
	}
	switch c.Transport {
	case "tcp", "tls":
		in.Protocol = "tcp"
	default:
		in.Protocol = "udp"
	}
	var tlsCfg *exporter.ExporterTLSClientConfig
	if c.Transport == "tls" || c.Transport == "dtls" {
		in.IsEncrypted, in.ServerCert, in.ServerKey = true, srvCert.CertPEM, srvCert.KeyPEM
		tlsCfg = &exporter.ExporterTLSClientConfig{ServerName: "localhost", CAData: ca.CertPEM}
		if c.Transport == "tls" && c.ClientCA {
			in.CACert = ca.CertPEM
			tlsCfg.CertData, tlsCfg.KeyData = cliCert.CertPEM, cliCert.KeyPEM
		}
	}
	cp, err := collector.InitCollectingProcess(in)
	if err != nil {
		return ev.Failf("InitCollectingProcess: %v", err), true
	}
	go cp.Start()
	sk := &sink{}
	go func() {
		for m := range cp.GetMsgChan() {
			sk.mu.Lock()
			sk.msgs = append(sk.msgs, m)
			sk.mu.Unlock()
		}
	}()
	for i := 0; i < 3000 && cp.GetAddress() == nil; i++ {
		time.Sleep(time.Millisecond)
	}
	if cp.GetAddress() == nil {
		return nil, false // no such loopback in this environment
	}
	stopped := false
	stop := func() {
		if !stopped {
			stopped = true
			if c.Transport != "dtls" { // the DTLS collector's Stop is not under test here
				cp.Stop()
			} else {
				go cp.Stop()
			}
		}
	}
	defer stop()
	exIn := exporter.ExporterInput{CollectorAddress: cp.GetAddress().String(), CollectorProtocol: in.Protocol,
		ObservationDomainID: c.Domain, TempRefTimeout: 3600, IsIPv6: c.V6, TLSClientConfig: tlsCfg, CheckConnInterval: time.Hour}
	skip := 0
	if len(c.Prior) > 0 && c.Transport != "dtls" {
		pe, err := exporter.InitExportingProcess(exIn)
		if err != nil {
			return ev.Failf("exporter cannot connect to the collector over %s: %v", c.Transport, err), true
		}
		ts, err := exph.TemplateSet(c.ID, c.Prior, 0)
		if err == nil {
			_, err = pe.SendSet(ts)
		}
		if err == nil {
			var ds entities.Set
			if ds, err = exph.DataSet(c.ID, c.Prior, [][]ref.Value{c.PriorRec}, 0); err == nil {
				_, err = pe.SendSet(ds)
			}
		}
		if err != nil {
			pe.CloseConnToCollector()
			return ev.Failf("earlier session: %v", err), true
		}
		for end := time.Now().Add(30 * time.Second); len(sk.snapshot()) < 2; time.Sleep(200 * time.Microsecond) {
			if time.Now().After(end) {
				pe.CloseConnToCollector()
				if c.Transport == "udp" {
					return nil, false
				}
				return ev.Failf("the earlier session's two messages were not delivered over %s", c.Transport), true
			}
		}
		pe.CloseConnToCollector()
		skip = 2
	}
	ep, err := exporter.InitExportingProcess(exIn)
	if err != nil {
		return ev.Failf("exporter cannot connect to the collector over %s: %v", c.Transport, err), true
	}
	defer ep.CloseConnToCollector()
	send := func(what string, mk func() (entities.Set, error)) *ev.Failure {
		set, err := mk()
		if err != nil {
			return ev.Failf("%s: building the set failed: %v", what, err)
		}
		if _, err := ep.SendSet(set); err != nil {
			return ev.Failf("%s: SendSet over %s failed: %v", what, c.Transport, err)
		}
		exph.ReleaseAdopted()
		if !exph.PlaceholdersIntact() {
			return ev.Failf("%s: setting an address element's value wrote into the all-zero placeholder the element had been created with (memory shared with other elements)", what)
		}
		if gentle {
			time.Sleep(5 * time.Millisecond)
		}
		return nil
	}
	if f := send("template", func() (entities.Set, error) { return exph.TemplateSet(c.ID, c.Fields, c.Path%4) }); f != nil {
		return f, true
	}
	refreshing := len(c.Second) > 0 && (c.Transport == "udp" || c.Transport == "dtls")
	id2 := c.ID ^ 1
	if refreshing {
		if f := send("second template", func() (entities.Set, error) { return exph.TemplateSet(id2, c.Second, (c.Path+1)%4) }); f != nil {
			return f, true
		}
		if err := ep.VerifSendRefreshedTemplates(); err != nil {
			return ev.Failf("template refresh round over %s failed: %v", c.Transport, err), true
		}
	}
	var reusedEls []entities.InfoElementWithValue
	reusedSet := entities.NewSet(false)
	if c.Reuse {
		reusedEls = exph.NewElements(c.Fields)
	}
	for i, recs := range c.Sets {
		if f := send(fmt.Sprintf("data set %d (%d records)", i, len(recs)), func() (entities.Set, error) {
			if c.Reuse && len(recs) == 1 {
				return exph.DataSetReusing(reusedSet, reusedEls, c.ID, c.Fields, recs, c.Path%4)
			}
			return exph.DataSet(c.ID, c.Fields, recs, c.Path%3)
		}); f != nil {
			return f, true
		}
	}
	sf := []ref.Field{pool[0]}
	if f := send("sentinel", func() (entities.Set, error) { return exph.TemplateSet(sentinelID, sf, 0) }); f != nil {
		return f, true
	}
	// wait for the sentinel
	want := 2 + len(c.Sets)
	if refreshing {
		want += 3 // the second template and the two refreshed templates
	}
	deadline := time.Now().Add(30 * time.Second)
	var got []*entities.Message
	for {
		got = sk.snapshot()
		if n := len(got); n > 0 && got[n-1].GetSet().GetSetType() == entities.Template && got[n-1].GetSet().GetRecords()[0].GetTemplateID() == sentinelID {
			break
		}
		if time.Now().After(deadline) {
			if in.Protocol == "udp" && c.Transport == "udp" {
				lostUDP = fmt.Sprintf("the collector delivered %d of %d messages", len(got), want)
				return nil, false // datagram lost on loopback: inconclusive (see runJudged)
			}
			if c.Transport == "dtls" {
				return nil, false
			}
			return ev.Failf("over %s the collector delivered %d of %d messages and never the last one (a valid message was dropped or the connection was closed)", c.Transport, len(got), want), true
		}
		time.Sleep(200 * time.Microsecond)
	}
	if len(got) >= skip {
		got = got[skip:]
	}
	if len(got) != want {
		if c.Transport == "udp" && len(got) < want {
			lostUDP = fmt.Sprintf("the collector delivered %d of %d messages", len(got), want)
			return nil, false
		}
		return ev.Failf("over %s the collector delivered %d messages, the exporter was given %d sets", c.Transport, len(got), want), true
	}
	// templates: the first message is the template; every template message delivered (the
	// refresh round retransmits) carries the layout that was sent under its id
	layouts := map[uint16][]ref.Field{c.ID: c.Fields, sentinelID: sf}
	if refreshing {
		layouts[id2] = c.Second
	}
	if tm := got[0]; tm.GetSet().GetSetType() != entities.Template || len(tm.GetSet().GetRecords()) != 1 || tm.GetSet().GetRecords()[0].GetTemplateID() != c.ID {
		return ev.Failf("first delivered message is not the template %d", c.ID), true
	}
	var dataMsgs []*entities.Message
	for k, m := range got {
		if m.GetObsDomainID() != c.Domain {
			return ev.Failf("message %d: observation domain %d delivered, %d configured", k, m.GetObsDomainID(), c.Domain), true
		}
		if m.GetSet().GetSetType() != entities.Template {
			dataMsgs = append(dataMsgs, m)
			continue
		}
		if len(m.GetSet().GetRecords()) != 1 {
			return ev.Failf("message %d: template set delivered with %d records", k, len(m.GetSet().GetRecords())), true
		}
		tr := m.GetSet().GetRecords()[0]
		fields, ok := layouts[tr.GetTemplateID()]
		if !ok {
			return ev.Failf("message %d: template id %d delivered, no template with that id was sent", k, tr.GetTemplateID()), true
		}
		els := tr.GetOrderedElementList()
		if len(els) != len(fields) {
			return ev.Failf("message %d: template %d delivered with %d fields, %d sent", k, tr.GetTemplateID(), len(els), len(fields)), true
		}
		for i, el := range els {
			ie, f := el.GetInfoElement(), fields[i]
			if ie.ElementId != f.ID || ie.EnterpriseId != f.Ent || ie.DataType != glue.LibType(f.Type) || ie.Len != f.Len || ie.Name != f.Name {
				return ev.Failf("message %d: template %d field %d delivered as (id %d, enterprise %d, type %d, len %d, %q), sent (id %d, enterprise %d, type %d, len %d, %q)", k, tr.GetTemplateID(), i,
					ie.ElementId, ie.EnterpriseId, ie.DataType, ie.Len, ie.Name, f.ID, f.Ent, glue.LibType(f.Type), f.Len, f.Name), true
			}
		}
	}
	if len(dataMsgs) != len(c.Sets) {
		return ev.Failf("%d data sets delivered, %d sent", len(dataMsgs), len(c.Sets)), true
	}
	// data
	for si, recs := range c.Sets {
		dm := dataMsgs[si]
		dr := dm.GetSet().GetRecords()
		if len(dr) != len(recs) {
			return ev.Failf("data set %d: %d records delivered, %d sent", si, len(dr), len(recs)), true
		}
		for ri, r := range dr {
			if r.GetTemplateID() != c.ID {
				return ev.Failf("data set %d record %d: template id %d, sent %d", si, ri, r.GetTemplateID(), c.ID), true
			}
			del := r.GetOrderedElementList()
			if len(del) != len(c.Fields) {
				return ev.Failf("data set %d record %d: %d fields delivered, %d sent", si, ri, len(del), len(c.Fields)), true
			}
			for fi, el := range del {
				f := c.Fields[fi]
				if el.GetInfoElement().ElementId != f.ID || el.GetInfoElement().EnterpriseId != f.Ent {
					return ev.Failf("data set %d record %d field %d: element (%d/%d) delivered, (%d/%d) sent", si, ri, fi, el.GetInfoElement().EnterpriseId, el.GetInfoElement().ElementId, f.Ent, f.ID), true
				}
				v, t, err := glue.ValueOf(el)
				if err != nil {
					return ev.Failf("data set %d record %d field %d: %v", si, ri, fi, err), true
				}
				if t != f.Type || !glue.SameValue(t, v, recs[ri][fi]) {
					return ev.Failf("data set %d record %d field %d (%s %s): delivered %s, sent %s", si, ri, fi, f.Name, f.Type, showV(v), showV(recs[ri][fi])), true
				}
			}
		}
		if f := glue.ExtendAndRecheck(dm); f != nil {
			return ev.Failf("data set %d: %s", si, f.Msg), true
		}
	}
	return nil, true
}

func showV(v ref.Value) string {
	if v.B != nil {
		if len(v.B) > 24 {
			return fmt.Sprintf("bytes[%d] % x…", len(v.B), v.B[:24])
		}
		return fmt.Sprintf("bytes[%d] % x", len(v.B), v.B)
	}
	return fmt.Sprintf("%#x", v.U)
}

func genCase(t *rapid.T) Case {
	c := Case{
		Transport: rapid.SampledFrom([]string{"tcp", "tcp", "tcp", "tcp", "tcp", "tcp", "tcp", "tcp", "tcp", "udp", "udp", "udp", "udp", "udp", "udp", "udp", "udp", "udp", "tls", "dtls"}).Draw(t, "transport"),
		V6:        rapid.IntRange(0, 2).Draw(t, "v6") == 0,
		Domain:    rapid.SampledFrom([]uint32{0, 1, 0xFFFFFFFF, 0x80000000, 77777}).Draw(t, "domain"),
		ID:        rapid.SampledFrom([]uint16{256, 257, 1000, 64999, 65535}).Draw(t, "id"),
		Path:      rapid.IntRange(0, 11).Draw(t, "path"),
	}
	c.ClientCA = c.Transport == "tls" && rapid.Bool().Draw(t, "clientca")
	n := rapid.IntRange(1, 10).Draw(t, "nf")
	if rapid.IntRange(0, 9).Draw(t, "wide") == 0 {
		n = rapid.IntRange(11, 40).Draw(t, "nfw")
	}
	for i := 0; i < n; i++ {
		c.Fields = append(c.Fields, pool[rapid.IntRange(0, len(pool)-1).Draw(t, "f")])
	}
	if c.Transport == "udp" {
		c.MaxBuf = rapid.SampledFrom([]uint16{0, 0, 0, 512, 1500, 9000, 65507}).Draw(t, "max_buf")
	}
	if c.Transport != "dtls" && c.MaxBuf == 0 && rapid.IntRange(0, 3).Draw(t, "prior") == 0 {
		twin := rapid.Bool().Draw(t, "twin")
		for _, f := range c.Fields {
			pf := pool[rapid.IntRange(0, len(pool)-1).Draw(t, "pf")]
			if twin { // where the registry has it: the same element id and length under another enterprise
				for _, x := range pool {
					if x.ID == f.ID && x.Len == f.Len && x.Ent != f.Ent {
						pf = x
						break
					}
				}
			}
			c.Prior = append(c.Prior, pf)
		}
		c.PriorRec = gen.Record(t, c.Prior, 20)
	}
	if (c.Transport == "udp" || c.Transport == "dtls") && rapid.IntRange(0, 2).Draw(t, "second") == 0 {
		for k := rapid.IntRange(1, 6).Draw(t, "nf2"); k > 0; k-- {
			c.Second = append(c.Second, pool[rapid.IntRange(0, len(pool)-1).Draw(t, "f2")])
		}
	}
	c.Reuse = rapid.IntRange(0, 3).Draw(t, "reuse") == 0
	limit := maxMessage(c.Transport, c.V6)
	if c.MaxBuf > 0 && int(c.MaxBuf) < limit {
		limit = int(c.MaxBuf)
	}
	if c.Transport == "dtls" && rapid.IntRange(0, 4).Draw(t, "dtlsbig") == 0 {
		limit = 65535 // the open-finding class D10 (excluded from the oracle while the finding is open)
	}
	min := ref.MinRecLen(c.Fields)
	for s := rapid.IntRange(1, 3).Draw(t, "nsets"); s > 0; s-- {
		var recs [][]ref.Value
		size := 20
		cls := rapid.IntRange(0, 9).Draw(t, "sizecls")
		want := rapid.IntRange(1, 5).Draw(t, "nrec")
		maxVar := rapid.SampledFrom([]int{30, 300, 300, 2000}).Draw(t, "maxvar")
		switch cls {
		case 0: // as many small records as fit
			want, maxVar = 100000, 4
		case 1: // many
			want = rapid.IntRange(6, 300).Draw(t, "nrecmany")
		}
		for k := 0; k < want && size+min <= limit; k++ {
			r := gen.Record(t, c.Fields, maxVar)
			l := len(ref.EncodeDataRecord(nil, c.Fields, r))
			if size+l > limit {
				for fi, f := range c.Fields {
					if f.Len == ref.VarLen {
						r[fi].B = r[fi].B[:0]
					}
				}
				l = len(ref.EncodeDataRecord(nil, c.Fields, r))
				if size+l > limit {
					break
				}
			}
			size += l
			recs = append(recs, r)
			if cls == 0 && len(recs) >= 4000 {
				break
			}
		}
		if cls == 2 && len(recs) > 0 { // fill the message to exactly the transport's maximum with one long value
			last := recs[len(recs)-1]
			for fi, f := range c.Fields {
				if f.Len != ref.VarLen {
					continue
				}
				cur := len(last[fi].B)
				grow := limit - size
				newLen := cur + grow
				if cur < 255 && newLen >= 255 {
					newLen -= 2 // the prefix grows from 1 to 3 bytes
				}
				if newLen > 65535 || newLen < cur {
					break
				}
				if f.Type == ref.TString {
					last[fi].B = append(last[fi].B, bytes.Repeat([]byte("p"), newLen-cur)...)
				} else {
					last[fi].B = append(last[fi].B, make([]byte, newLen-cur)...)
				}
				break
			}
		}
		if c.Reuse && len(recs) > 0 {
			// one record per set; optional fields left empty in some records (the reused element
			// is reset, not set)
			recs = recs[len(recs)-1:]
			for fi, f := range c.Fields {
				if f.Len == ref.VarLen && rapid.IntRange(0, 3).Draw(t, "empty") == 0 {
					recs[0][fi].B = nil
				}
			}
		}
		if len(recs) > 0 {
			c.Sets = append(c.Sets, recs)
		}
	}
	return c
}

func classify(c Case) (bool, []string, int) {
	cl := []string{"transport_" + c.Transport}
	if c.V6 {
		cl = append(cl, "ipv6_listener")
	}
	nrec, maxMsg := 0, 0
	ent, boundary := false, false
	for _, f := range c.Fields {
		ent = ent || f.Ent != 0
	}
	for _, s := range c.Sets {
		nrec += len(s)
		size := 20
		for _, r := range s {
			size += len(ref.EncodeDataRecord(nil, c.Fields, r))
			for _, v := range r {
				if l := len(v.B); l == 254 || l == 255 || l == 256 {
					boundary = true
				}
			}
		}
		if size > maxMsg {
			maxMsg = size
		}
	}
	for k, b := range map[string]bool{"enterprise_element": ent, "length_254_255_256": boundary, "multi_record": nrec >= 2, "message_at_transport_maximum": maxMsg == maxMessage(c.Transport, c.V6), "message_over_60000": maxMsg > 60000, "template_id_reused_by_a_later_session": len(c.Prior) > 0, "refresh_round_with_two_templates": len(c.Second) > 0, "application_reuses_its_element_objects": c.Reuse, "message_exactly_fills_the_collector_buffer": c.MaxBuf > 0 && maxMsg == int(c.MaxBuf)} {
		if b {
			cl = append(cl, k)
		}
	}
	return len(c.Fields) >= 2 && nrec >= 1, cl, maxMsg
}

// SlowConsumer: the application behind the collector stops taking messages for PauseMs while the
// exporter keeps sending N messages of about Size bytes over tcp or tls, with its connection check
// running every IntervalMs: the exporter's writes block for a while. Nothing is lost or reordered
// and no send fails: back-pressure is not an error.
type SlowConsumer struct {
	Transport  string `json:"transport"` // tcp | tls
	PauseMs    int    `json:"pause_ms"`
	N          int    `json:"n"`
	Size       int    `json:"size"`
	IntervalMs int    `json:"interval_ms"`
}

// slowLost: a udp run of runSlowConsumer ended without all messages delivered.
var slowLost string

func runSlowConsumerJudged(c SlowConsumer) *ev.Failure {
	for attempt := 1; ; attempt++ {
		slowLost = ""
		if f := runSlowConsumer(c); f != nil || slowLost == "" {
			return f
		}
		if attempt == 3 {
			return ev.Failf("three times in a row: %s", slowLost)
		}
	}
}

func runSlowConsumer(c SlowConsumer) *ev.Failure {
	in := collector.CollectorInput{Address: "127.0.0.1:0", Protocol: "tcp", MaxBufferSize: 65535}
	proto := "tcp"
	if c.Transport == "udp" {
		in.Protocol, proto = "udp", "udp"
	}
	var tlsCfg *exporter.ExporterTLSClientConfig
	if c.Transport == "tls" {
		in.IsEncrypted, in.ServerCert, in.ServerKey = true, srvCert.CertPEM, srvCert.KeyPEM
		tlsCfg = &exporter.ExporterTLSClientConfig{ServerName: "localhost", CAData: ca.CertPEM}
	}
	cp, err := collector.InitCollectingProcess(in)
	if err != nil {
		return ev.Failf("InitCollectingProcess: %v", err)
	}
	go cp.Start()
	for i := 0; i < 3000 && cp.GetAddress() == nil; i++ {
		time.Sleep(time.Millisecond)
	}
	if cp.GetAddress() == nil {
		return nil
	}
	var mu sync.Mutex
	var seqs []uint32
	resume := make(chan struct{})
	stopDrain, drained := make(chan struct{}), make(chan struct{})
	go func() {
		defer close(drained)
		first := true
		for {
			select {
			case m := <-cp.GetMsgChan():
				if first { // the template went through; now the application is busy for a while
					first = false
					select {
					case <-resume:
					case <-stopDrain:
						return
					}
				}
				mu.Lock()
				seqs = append(seqs, m.GetSequenceNum())
				mu.Unlock()
			case <-stopDrain:
				return
			}
		}
	}()
	defer func() { cp.Stop(); close(stopDrain); <-drained }()
	ep, err := exporter.InitExportingProcess(exporter.ExporterInput{CollectorAddress: cp.GetAddress().String(), CollectorProtocol: proto, ObservationDomainID: 3,
		TLSClientConfig: tlsCfg, CheckConnInterval: time.Duration(c.IntervalMs) * time.Millisecond, TempRefTimeout: 3600})
	if err != nil {
		return nil
	}
	defer ep.CloseConnToCollector()
	var str ref.Field
	for _, x := range pool {
		if x.Name == "sourcePodName" {
			str = x
		}
	}
	fields := []ref.Field{str}
	ts, _ := exph.TemplateSet(256, fields, 0)
	if _, err := ep.SendSet(ts); err != nil {
		return ev.Failf("template: %v", err)
	}
	go func() { time.Sleep(time.Duration(c.PauseMs) * time.Millisecond); close(resume) }()
	for k := 0; k < c.N; k++ {
		ds, err := exph.DataSet(256, fields, [][]ref.Value{{{B: bytes.Repeat([]byte{byte('a' + k%26)}, c.Size)}}}, k%3)
		if err != nil {
			return ev.Failf("data set: %v", err)
		}
		if _, err := ep.SendSet(ds); err != nil {
			return ev.Failf("over %s, send %d of %d (%d bytes each) failed while the collector's application was not taking messages for %d ms (connection check every %d ms): %v - back-pressure is not an error", c.Transport, k, c.N, c.Size, c.PauseMs, c.IntervalMs, err)
		}
	}
	for end := time.Now().Add(60*time.Second + time.Duration(c.PauseMs)*time.Millisecond); ; time.Sleep(2 * time.Millisecond) {
		mu.Lock()
		n := len(seqs)
		mu.Unlock()
		if n >= 1+c.N {
			break
		}
		if c.Transport == "udp" && time.Now().After(end.Add(-55*time.Second).Add(time.Duration(c.PauseMs)*time.Millisecond)) {
			// datagrams can be lost: the caller repeats the scenario, three misses in a row count
			slowLost = fmt.Sprintf("over udp, %d of %d messages were delivered after the collector's application had paused for %d ms (every SendSet succeeded, %d datagrams of %d bytes waited in the socket)", n, 1+c.N, c.PauseMs, c.N, c.Size)
			return nil
		}
		if time.Now().After(end) {
			return ev.Failf("over %s, %d of %d messages were delivered after the collector's application had paused for %d ms (every SendSet succeeded)", c.Transport, n, 1+c.N, c.PauseMs)
		}
	}
	mu.Lock()
	defer mu.Unlock()
	for k, s := range seqs[1:] {
		if s != uint32(k+1) {
			return ev.Failf("over %s, message %d was delivered with sequence number %d after a pause of the collector's application: lost or reordered", c.Transport, k+1, s)
		}
	}
	return nil
}

func TestC01(t *testing.T) {
	// every run: the application behind the collector pauses while the exporter keeps sending
	slow := []SlowConsumer{{Transport: "tcp", PauseMs: 500, N: 250, Size: 60000, IntervalMs: 10}, {Transport: "tls", PauseMs: 400, N: 200, Size: 60000, IntervalMs: 5},
		// a few small datagrams wait in the socket while the application is busy for six seconds
		{Transport: "udp", PauseMs: 6500, N: 4, Size: 300}}
	if rec.Thorough() && ev.Shard() <= 1 {
		// ... and for more than half a minute (hand-off time limits of 10 and 30 s)
		slow = append(slow, SlowConsumer{Transport: "tcp", PauseMs: 33000, N: 6, Size: 1000, IntervalMs: 1000}, SlowConsumer{Transport: "tls", PauseMs: 33000, N: 6, Size: 1000, IntervalMs: 1000},
			SlowConsumer{Transport: "udp", PauseMs: 33000, N: 4, Size: 300}, SlowConsumer{Transport: "tcp", PauseMs: 12500, N: 120, Size: 60000, IntervalMs: 1000})
	}
	slowFails := make([]*ev.Failure, len(slow))
	var sw sync.WaitGroup
	for k := range slow {
		sw.Add(1)
		go func(k int) { defer sw.Done(); slowFails[k] = runSlowConsumerJudged(slow[k]) }(k)
	}
	sw.Wait()
	for k, c := range slow {
		rec.Case(ev.Hash(c), true, "slow_consumer", "transport_"+c.Transport)
		if slowFails[k] != nil {
			rec.Violation("slow_consumer", c, slowFails[k].Msg)
			t.Fatalf("%s", slowFails[k].Msg)
		}
	}
	// known finding D10: DTLS messages above pion's receive buffer are reported sent and never delivered
	if rec.Open("D10") {
		f := []ref.Field{pool[0]}
		for _, x := range pool {
			if x.Name == "sourcePodName" {
				f = []ref.Field{x}
			}
		}
		c := Case{Transport: "dtls", Domain: 5, ID: 256, Fields: f, Sets: [][][]ref.Value{{{{B: bytes.Repeat([]byte("x"), 16000)}}}}}
		if fl, judged := runCase(c); judged && fl != nil {
			rec.Known("D10", "over DTLS a 16 KiB message is reported as sent by SendSet and never delivered by the collector (pion's fixed 8192-byte receive buffers)")
		}
	}
	// boundary preamble: every transport, both families, string/octet lengths around 255 and a
	// message filled to the transport's maximum
	var str, oct ref.Field
	for _, x := range pool {
		if x.Name == "sourcePodName" {
			str = x
		}
		if x.Type == ref.TOctets && x.Len == ref.VarLen && oct.Name == "" {
			oct = x
		}
	}
	fields := []ref.Field{pool[0], str, pool[len(pool)/2]}
	if oct.Name != "" {
		fields = append(fields, oct)
	}
	for _, tr := range []string{"tcp", "udp", "tls", "dtls"} {
		for _, v6 := range []bool{false, true} {
			for _, n := range []int{0, 1, 254, 255, 256, -1} {
				c := Case{Transport: tr, V6: v6, Domain: 42, ID: 300, Fields: fields, Path: n & 3}
				mk := func(l int) []ref.Value {
					r := make([]ref.Value, len(fields))
					for i, f := range fields {
						switch {
						case f.Len == ref.VarLen:
							r[i] = ref.Value{B: bytes.Repeat([]byte{'a' + byte(i)}, l)}
						case f.Type.IsBytes():
							r[i] = ref.Value{B: bytes.Repeat([]byte{7}, int(f.Len))}
						default:
							r[i] = ref.Value{U: 0x8182838485868788}
						}
					}
					return r
				}
				if n >= 0 {
					c.Sets = [][][]ref.Value{{mk(n), mk(3)}}
				} else { // exactly the maximum message
					r := mk(0)
					fixed := len(ref.EncodeDataRecord(nil, fields, r))
					room := maxMessage(tr, v6) - 20 - fixed
					nvar := 1
					if oct.Name != "" {
						nvar = 2
					}
					if nvar == 2 {
						room -= 0 // second variable field stays empty
					}
					l := room
					if l >= 255 {
						l -= 2
					}
					r[1] = ref.Value{B: bytes.Repeat([]byte("m"), l)}
					c.Sets = [][][]ref.Value{{r}}
				}
				nt, cl, _ := classify(c)
				f, judged := runJudged(c)
				if judged {
					rec.Case(ev.Hash(c), nt, append(cl, "preamble")...)
				}
				if f != nil {
					rec.Violation("preamble", c, f.Msg)
					t.Fatalf("preamble: %s", f.Msg)
				}
			}
		}
	}
	ev.Rapid(t, rec, "sessions", rec.Scale(2500, 150000), genCase, func(c Case) *ev.Failure {
		nt, cl, maxMsg := classify(c)
		if c.Transport == "dtls" && maxMsg > 8000 && rec.Open("D10") {
			rec.Excluded("D10_dtls_message_over_8000_bytes")
			return nil
		}
		f, judged := runJudged(c)
		if !judged {
			rec.Class("inconclusive_session", 1)
			return nil
		}
		rec.Case(ev.Hash(c), nt, cl...)
		small := len(c.Fields) <= 3 && len(c.Sets) == 1 && len(c.Sets[0]) <= 2
		if small {
			for _, r := range c.Sets[0] {
				for _, v := range r {
					small = small && len(v.B) < 40
				}
			}
			if small {
				rec.Sample("session_"+c.Transport, c)
			}
		}
		return f
	})
}
