//go:build verif

// C20 — standalone collector keeps a bounded, ordered window of rendered records.
// This file is compiled together with /repo/cmd/collector/collector.go (go's -overlay maps it
// into this directory), so the driver sits in package main next to the unexported store.
package main

import (
	"encoding/base64"
	"encoding/hex"
	"encoding/json"
	"fmt"
	"math"
	"net"
	"net/http"
	"net/http/httptest"
	"net/url"
	"os"
	"strconv"
	"strings"
	"sync"
	"testing"
	"time"

	"pgregory.net/rapid"

	"github.com/vmware/go-ipfix/pkg/entities"

	"verifharness/ev"
	"verifharness/gen"
	"verifharness/glue"
	ref "verifharness/refipfix"
)

// Op kinds: msg (Tpl or data with Fields/Recs), burst (N arrivals), get (Count, Format as raw
// query strings; "-" = absent), reset, badmethod (Path), get_during_arrival (a text-format query
// for everything during which a message arrives: the answer must be the window before or after it).
type Op struct {
	Kind   string        `json:"kind"`
	Tpl    bool          `json:"tpl,omitempty"`
	Fields []ref.Field   `json:"fields,omitempty"`
	Recs   [][]ref.Value `json:"recs,omitempty"`
	N      int           `json:"n,omitempty"`
	Count  string        `json:"count,omitempty"`
	Format string        `json:"format,omitempty"`
	Path   string        `json:"path,omitempty"`
}

type Case struct {
	Ops []Op `json:"ops"`
	// Verbosity is the log verbosity the hosting process runs with (-v; output discarded).
	Verbosity int `json:"verbosity,omitempty"`
}

type Stats struct {
	CapCrossings int
	OctetArray   bool
	Queries      int
	Concurrent   bool
}

// failWriter is a ResponseWriter whose client is gone: every Write fails.
type failWriter struct{ h http.Header }

func (f *failWriter) Header() http.Header       { return f.h }
func (f *failWriter) WriteHeader(int)           {}
func (f *failWriter) Write([]byte) (int, error) { return 0, fmt.Errorf("write: broken pipe") }

// hookWriter runs hook once, when the handler first touches the response (headers or body).
type hookWriter struct {
	*httptest.ResponseRecorder
	hook  func()
	fired bool
}

func (h *hookWriter) fire() {
	if !h.fired {
		h.fired = true
		h.hook()
	}
}
func (h *hookWriter) Header() http.Header         { h.fire(); return h.ResponseRecorder.Header() }
func (h *hookWriter) Write(b []byte) (int, error) { h.fire(); return h.ResponseRecorder.Write(b) }

var (
	rec  *ev.Recorder
	pool []ref.Field
)

func TestMain(m *testing.M) {
	glue.SilenceKlog()
	pool, _ = glue.NewPoolArgs()
	if rp := ev.LoadReplay(); rp != nil {
		if rp.Phase == "arrival_loop" {
			ev.RunReplay(rp, runLoop)
		}
		ev.RunReplay(rp, func(c Case) *ev.Failure { return runCase(c, nil) })
	}
	rec = ev.New("C20", "histories of {arrival of a generated template or data message (1..3 records of 1..6 fields of any of the 18 types, unique sequence number as marker), burst of up to 5000 arrivals, GET /records with count in {absent, 0, 1, n, > stored, negative, non-numeric} x format in {absent, json, text, other}, POST /reset, wrong methods} driven in-package with httptest against a model (slice trimmed to the last 4096); every arrival's rendered entry is checked for every field name and value; non-trivial = the history passed the cap or contains a query after >= 2 arrivals; distinct by hash of the case",
		"go -overlay compiles the unmodified cmd/collector/collector.go together with the driver", "canonical value texts: decimal integers, true/false, Go %v floats, standard MAC/IP forms, raw strings; octet arrays as Go %v, hex or base64")
	code := m.Run()
	rec.Write()
	os.Exit(code)
}

func fieldText(f ref.Field, v ref.Value) []string {
	switch f.Type {
	case ref.TU8, ref.TU16, ref.TU32, ref.TU64, ref.TDTSec, ref.TDTMilli:
		return []string{strconv.FormatUint(v.U, 10)}
	case ref.TI8:
		return []string{strconv.FormatInt(int64(int8(v.U)), 10)}
	case ref.TI16:
		return []string{strconv.FormatInt(int64(int16(v.U)), 10)}
	case ref.TI32:
		return []string{strconv.FormatInt(int64(int32(v.U)), 10)}
	case ref.TI64:
		return []string{strconv.FormatInt(int64(v.U), 10)}
	case ref.TF32:
		return []string{strconv.FormatFloat(float64(math.Float32frombits(uint32(v.U))), 'g', -1, 32)}
	case ref.TF64:
		return []string{strconv.FormatFloat(math.Float64frombits(v.U), 'g', -1, 64)}
	case ref.TBool:
		return []string{strconv.FormatBool(v.U == 1)}
	case ref.TMac:
		return []string{net.HardwareAddr(v.B).String()}
	case ref.TIPv4, ref.TIPv6:
		return []string{net.IP(v.B).String()}
	case ref.TString:
		return []string{string(v.B)}
	case ref.TOctets:
		return []string{fmt.Sprintf("%v", v.B), hex.EncodeToString(v.B), fmt.Sprintf("%x", v.B), fmt.Sprintf("% x", v.B), base64.StdEncoding.EncodeToString(v.B)}
	}
	return nil
}

func message(seq uint32, o Op) *entities.Message {
	set := entities.NewSet(true)
	if o.Tpl {
		set.PrepareSet(entities.Template, 256)
		els := make([]entities.InfoElementWithValue, len(o.Fields))
		for i, f := range o.Fields {
			els[i] = glue.Element(glue.IE(f), f.Type, ref.Value{})
		}
		set.AddRecordV2(els, 256)
	} else {
		set.PrepareSet(entities.Data, 256)
		for _, r := range o.Recs {
			els := make([]entities.InfoElementWithValue, len(o.Fields))
			for i, f := range o.Fields {
				els[i] = glue.Element(glue.IE(f), f.Type, r[i])
			}
			set.AddRecordV2(els, 256)
		}
	}
	m := entities.NewMessage(true)
	m.SetVersion(10)
	m.SetMessageLen(uint16(20 + len(o.Fields)))
	m.SetSequenceNum(seq)
	m.SetObsDomainID(4242)
	m.SetExportTime(1700000000)
	m.AddSet(set)
	return m
}

func marker(seq uint32) string { return fmt.Sprintf("Sequence No.: %d,", seq) }

func runCase(c Case, st *Stats) *ev.Failure {
	if st == nil {
		st = &Stats{}
	}
	if c.Verbosity > 0 {
		glue.SetKlogVerbosity(c.Verbosity)
		defer glue.SetKlogVerbosity(0)
	}
	mutex.Lock()
	flowRecords = nil
	mutex.Unlock()
	var model []uint32 // sequence numbers of the stored entries, oldest first
	var texts []string // the entry captured at each arrival, same indexing
	seq := uint32(0)
	arrivals := 0
	arrive := func(i int, o Op) *ev.Failure {
		seq++
		addIPFIXMessage(message(seq, o))
		arrivals++
		mutex.Lock()
		n := len(flowRecords)
		last := ""
		if n > 0 {
			last = flowRecords[n-1]
		}
		mutex.Unlock()
		if n == 0 || !strings.Contains(last, marker(seq)) {
			return ev.Failf("op %d: after the arrival of message seq %d the newest stored entry is not its rendering", i, seq)
		}
		model, texts = append(model, seq), append(texts, last)
		if len(model) > maxFlowRecords {
			model, texts = model[len(model)-maxFlowRecords:], texts[len(texts)-maxFlowRecords:]
			if (arrivals-1)%maxFlowRecords == 0 {
				st.CapCrossings++
			}
		}
		if n != len(model) {
			return ev.Failf("op %d: the store holds %d entries after %d arrivals since the last reset (cap %d): want %d", i, n, arrivals, maxFlowRecords, len(model))
		}
		// rendering: every field of every record, by element name and value, in order
		pos := 0
		next := func(what, s string) bool {
			k := strings.Index(last[pos:], s)
			if k < 0 {
				return false
			}
			pos += k + len(s)
			return true
		}
		if o.Tpl {
			for _, f := range o.Fields {
				if !next("template field", f.Name+":") {
					return ev.Failf("op %d: rendered template entry lacks field %q (in order)", i, f.Name)
				}
			}
			return nil
		}
		for ri, r := range o.Recs {
			for fi, f := range o.Fields {
				if f.Type == ref.TOctets {
					st.OctetArray = true
				}
				found := false
				for _, txt := range fieldText(f, r[fi]) {
					save := pos
					if next("field", "    "+f.Name+": "+txt+" \n") {
						found = true
						break
					}
					pos = save
				}
				if !found {
					line := ""
					if k := strings.Index(last[pos:], "    "+f.Name+":"); k >= 0 {
						line = strings.SplitN(last[pos+k:], "\n", 2)[0]
					}
					return ev.Failf("op %d: record %d field %d (%s, %s): the rendered entry does not show the value (expected %q); rendered line: %q", i, ri, fi, f.Name, f.Type, clip(fieldText(f, r[fi])[0]), clip(line))
				}
			}
		}
		return nil
	}
	for i, o := range c.Ops {
		switch o.Kind {
		case "msg":
			if f := arrive(i, o); f != nil {
				return f
			}
		case "burst":
			for k := 0; k < o.N; k++ {
				if f := arrive(i, Op{Kind: "msg", Fields: []ref.Field{glue.UserField(ref.TU32)}, Recs: [][]ref.Value{{{U: uint64(k)}}}}); f != nil {
					return f
				}
			}
		case "reset":
			w := httptest.NewRecorder()
			resetRecordHandler(w, httptest.NewRequest("POST", "/reset", nil))
			if w.Code != 200 {
				return ev.Failf("op %d: POST /reset answered %d", i, w.Code)
			}
			model, texts, arrivals = nil, nil, 0
			mutex.Lock()
			n := len(flowRecords)
			mutex.Unlock()
			if n != 0 {
				return ev.Failf("op %d: %d entries stored after a reset", i, n)
			}
		case "badmethod":
			w := httptest.NewRecorder()
			if o.Path == "/reset" {
				resetRecordHandler(w, httptest.NewRequest("GET", "/reset", nil))
			} else {
				flowRecordHandler(w, httptest.NewRequest("POST", "/records", nil))
			}
			if w.Code != http.StatusMethodNotAllowed {
				return ev.Failf("op %d: wrong method on %s answered %d, want 405", i, o.Path, w.Code)
			}
			mutex.Lock()
			n := len(flowRecords)
			mutex.Unlock()
			if n != len(model) {
				return ev.Failf("op %d: a refused request changed the store (%d entries, want %d)", i, n, len(model))
			}
		case "get_during_arrival":
			st.Queries++
			st.Concurrent = true
			before := append([]string(nil), texts...)
			arrived := make(chan *ev.Failure, 1)
			hw := &hookWriter{ResponseRecorder: httptest.NewRecorder()}
			hw.hook = func() {
				go func() {
					arrived <- arrive(i, Op{Kind: "msg", Fields: []ref.Field{glue.UserField(ref.TU32)}, Recs: [][]ref.Value{{{U: 77}}}})
				}()
				// give the arrival the chance to run if nothing holds it back (it must wait for the query)
				select {
				case f := <-arrived:
					arrived <- f
				case <-time.After(20 * time.Millisecond):
				}
			}
			flowRecordHandler(hw, httptest.NewRequest("GET", "/records?format=text", nil))
			if !hw.fired {
				hw.hook()
			}
			select {
			case f := <-arrived:
				if f != nil {
					return f
				}
			case <-time.After(10 * time.Second):
				return ev.Failf("op %d: a message arriving during a query was never stored (deadlock?)", i)
			}
			body := hw.Body.String()
			sep := strings.Repeat("=", 80)
			join := func(es []string) string {
				var b strings.Builder
				for _, e := range es {
					b.WriteString(e)
					b.WriteString(sep)
				}
				return b.String()
			}
			if body != join(before) && body != join(texts) {
				return ev.Failf("op %d: a query during which a message arrived returned neither the window before nor the window after the arrival (%d bytes; before %d entries, after %d)", i, len(body), len(before), len(texts))
			}
		case "get_client_gone":
			// the client disappears while the answer is written: every Write fails. Whatever the handler
			// does with that, the store must stay usable: the next arrival and query must not block
			st.Queries++
			flowRecordHandler(&failWriter{h: http.Header{}}, httptest.NewRequest("GET", "/records?format="+o.Format, nil))
			doneA := make(chan *ev.Failure, 1)
			go func() {
				doneA <- arrive(i, Op{Kind: "msg", Fields: []ref.Field{glue.UserField(ref.TU32)}, Recs: [][]ref.Value{{{U: 78}}}})
			}()
			select {
			case f := <-doneA:
				if f != nil {
					return f
				}
			case <-time.After(10 * time.Second):
				return ev.Failf("op %d: after a %s query whose client went away mid-response, the next arriving message is never stored (the store is blocked)", i, o.Format)
			}
		case "getraw":
			// a query string that cannot be parsed at all (o.Path holds it as the client wrote it): an
			// invalid query, whatever else it says
			st.Queries++
			w := httptest.NewRecorder()
			req := httptest.NewRequest("GET", "/records", nil)
			req.URL.RawQuery = o.Path
			flowRecordHandler(w, req)
			if w.Code != http.StatusBadRequest {
				return ev.Failf("op %d: GET /records?%s (a query string that does not parse) answered %d with %d bytes, want 400", i, o.Path, w.Code, w.Body.Len())
			}
		case "get":
			st.Queries++
			q := []string{}
			if o.Count != "-" {
				q = append(q, "count="+url.QueryEscape(o.Count))
			}
			if o.Format != "-" {
				q = append(q, "format="+url.QueryEscape(o.Format))
			}
			url := "/records"
			if len(q) > 0 {
				url += "?" + strings.Join(q, "&")
			}
			w := httptest.NewRecorder()
			flowRecordHandler(w, httptest.NewRequest("GET", url, nil))
			want := len(model)
			valid := true
			if o.Count != "-" && o.Count != "" {
				n, err := strconv.Atoi(o.Count)
				if err != nil || n < 0 {
					valid = false
				} else if n < want {
					want = n
				}
			}
			format := o.Format
			if format == "-" || format == "" {
				format = "json"
			}
			if format != "json" && format != "text" {
				valid = false
			}
			if !valid {
				if w.Code != http.StatusBadRequest {
					return ev.Failf("op %d: GET %s answered %d, want 400", i, url, w.Code)
				}
				break
			}
			if w.Code != 200 {
				return ev.Failf("op %d: GET %s answered %d", i, url, w.Code)
			}
			exp := texts[len(texts)-want:]
			var got []string
			if format == "json" {
				var resp struct {
					FlowRecords []string `json:"flowRecords"`
				}
				if err := json.Unmarshal(w.Body.Bytes(), &resp); err != nil {
					return ev.Failf("op %d: GET %s: body is not the JSON document: %v", i, url, err)
				}
				got = resp.FlowRecords
			} else {
				body := w.Body.String()
				sep := strings.Repeat("=", 80)
				for _, e := range exp {
					if !strings.HasPrefix(body, e+sep) {
						return ev.Failf("op %d: GET %s: text body does not continue with the expected entry followed by the 80-'=' separator (entry for %s)", i, url, clip(e))
					}
					body = body[len(e)+len(sep):]
					got = append(got, e)
				}
				if body != "" {
					return ev.Failf("op %d: GET %s: %d extra bytes after the last expected entry", i, url, len(body))
				}
			}
			if len(got) != len(exp) {
				return ev.Failf("op %d: GET %s returned %d entries, want min(n, stored) = %d (stored %d)", i, url, len(got), len(exp), len(model))
			}
			for k := range exp {
				if got[k] != exp[k] {
					return ev.Failf("op %d: GET %s: entry %d is not the expected one (want the entry of seq %d, in arrival order)", i, url, k, model[len(model)-want+k])
				}
			}
		}
	}
	return nil
}

func clip(s string) string {
	if len(s) > 80 {
		return s[:80] + "…"
	}
	return s
}

func genCase(t *rapid.T) Case {
	var c Case
	c.Verbosity = rapid.SampledFrom([]int{0, 0, 0, 2, 4, 10}).Draw(t, "verbosity")
	n := rapid.IntRange(2, 25).Draw(t, "n")
	for i := 0; i < n; i++ {
		switch k := rapid.IntRange(0, 19).Draw(t, "op"); {
		case k <= 7:
			o := Op{Kind: "msg", Tpl: rapid.IntRange(0, 4).Draw(t, "tpl") == 0}
			for j := rapid.IntRange(1, 6).Draw(t, "nf"); j > 0; j-- {
				o.Fields = append(o.Fields, pool[rapid.IntRange(0, len(pool)-1).Draw(t, "f")])
			}
			if rapid.IntRange(0, 7).Draw(t, "dup") == 0 { // the same element twice in one record (RFC 7011 allows it)
				o.Fields = append(o.Fields, o.Fields[rapid.IntRange(0, len(o.Fields)-1).Draw(t, "dupof")])
			}
			if !o.Tpl {
				nrec, maxVar := rapid.IntRange(1, 3).Draw(t, "nrec"), 40
				switch rapid.IntRange(0, 24).Draw(t, "big") {
				case 0: // a message whose rendering is far larger than any wire message
					nrec = rapid.IntRange(150, 700).Draw(t, "nrecbig")
				case 1:
					maxVar = 30000
				}
				for j := nrec; j > 0; j-- {
					r := gen.Record(t, o.Fields, maxVar)
					for fi, f := range o.Fields { // keep strings printable and free of line breaks
						if f.Type == ref.TString {
							r[fi].B = []byte(strings.Map(func(x rune) rune {
								if x < 32 || x == 127 {
									return '.'
								}
								return x
							}, string(r[fi].B)))
						}
					}
					o.Recs = append(o.Recs, r)
				}
			}
			c.Ops = append(c.Ops, o)
		case k <= 9:
			c.Ops = append(c.Ops, Op{Kind: "burst", N: rapid.SampledFrom([]int{1, 5, 100, 4090, 4095, 4096, 4097, 5000}).Draw(t, "burst")})
		case k == 16 && rapid.IntRange(0, 3).Draw(t, "raw") == 0:
			c.Ops = append(c.Ops, Op{Kind: "getraw", Path: rapid.SampledFrom([]string{"count=%zz", "count=1;format=text", "count=1&format=%zz", "count=%", "%gh=1", "count=2&%", "format=text;count=1"}).Draw(t, "rawquery")})
		case k <= 16:
			c.Ops = append(c.Ops, Op{Kind: "get",
				Count:  rapid.SampledFrom([]string{"-", "-", "0", "1", "2", "3", "17", "4095", "4096", "4097", "100000", "-1", "abc", "1.5", "", "010", "0010", "08", "009", "0x10", "0b11", "0o7", "1_0", "+5", " 5", "1e3"}).Draw(t, "count"),
				Format: rapid.SampledFrom([]string{"-", "-", "json", "text", "text", "xml", "JSON", ""}).Draw(t, "format")})
		case k == 17 && rapid.IntRange(0, 2).Draw(t, "gone") == 0:
			c.Ops = append(c.Ops, Op{Kind: "get_client_gone", Format: rapid.SampledFrom([]string{"text", "json"}).Draw(t, "goneformat")})
		case k == 17:
			if rapid.Bool().Draw(t, "conc") {
				c.Ops = append(c.Ops, Op{Kind: "get_during_arrival"})
			} else {
				c.Ops = append(c.Ops, Op{Kind: "reset"})
			}
		default:
			c.Ops = append(c.Ops, Op{Kind: "badmethod", Path: rapid.SampledFrom([]string{"/records", "/reset"}).Draw(t, "path")})
		}
	}
	return c
}

func runRecorded(phase string, c Case) *ev.Failure {
	st := &Stats{}
	f := runCase(c, st)
	var cl []string
	if st.CapCrossings > 0 {
		cl = append(cl, "cap_crossed")
	}
	if st.CapCrossings > 1 {
		cl = append(cl, "cap_crossed_several_times")
	}
	if st.OctetArray {
		cl = append(cl, "octet_array_field")
	}
	if st.Concurrent {
		cl = append(cl, "query_during_arrival")
	}
	if c.Verbosity > 0 {
		cl = append(cl, "verbose_logging")
	}
	rec.Case(ev.Hash(c), st.CapCrossings > 0 || st.Queries > 0, cl...)
	if len(c.Ops) <= 4 {
		rec.Sample(phase, c)
	}
	return f
}

// runLoop: messages travel the way they do in the running binary - through the channel that the
// collector's own loop (signalHandler) reads - instead of being handed to addIPFIXMessage by the
// harness: Pairs times an expensive message (Big records) directly followed by a cheap one. The
// store must hold them in the order they were sent.
type LoopCase struct {
	Pairs int `json:"pairs"`
	Big   int `json:"big"`
}

var (
	loopOnce sync.Once
	loopCh   chan *entities.Message
)

func runLoop(c LoopCase) *ev.Failure {
	loopOnce.Do(func() {
		loopCh = make(chan *entities.Message)
		go signalHandler(make(chan struct{}), loopCh) // runs until the process ends, as in the binary
	})
	mutex.Lock()
	flowRecords = nil
	mutex.Unlock()
	fields := []ref.Field{glue.UserField(ref.TU32), glue.UserField(ref.TString), glue.UserField(ref.TU64), glue.UserField(ref.TIPv4)}
	mk := func(n int) Op {
		o := Op{Kind: "msg", Fields: fields}
		for k := 0; k < n; k++ {
			o.Recs = append(o.Recs, []ref.Value{{U: uint64(k)}, {B: []byte("a-string-value-of-some-length")}, {U: uint64(k) << 20}, {B: []byte{10, 0, byte(k >> 8), byte(k)}}})
		}
		return o
	}
	big, small := mk(c.Big), mk(1)
	total := 2 * c.Pairs
	for k := 0; k < c.Pairs; k++ {
		for j, o := range []Op{big, small} {
			select {
			case loopCh <- message(uint32(1+2*k+j), o):
			case <-time.After(30 * time.Second):
				return ev.Failf("arrival loop: the collector's loop did not take message %d within 30 s", 1+2*k+j)
			}
		}
	}
	for end := time.Now().Add(30 * time.Second); ; time.Sleep(time.Millisecond) {
		mutex.Lock()
		n := len(flowRecords)
		mutex.Unlock()
		if n >= total {
			break
		}
		if time.Now().After(end) {
			return ev.Failf("arrival loop: %d messages went through the collector's loop, the store holds %d after 30 s", total, n)
		}
	}
	time.Sleep(20 * time.Millisecond)
	mutex.Lock()
	defer mutex.Unlock()
	if len(flowRecords) != total {
		return ev.Failf("arrival loop: %d messages went through the collector's loop, the store holds %d", total, len(flowRecords))
	}
	for k, e := range flowRecords {
		if !strings.Contains(e, marker(uint32(k+1))) {
			got := "?"
			for q := 1; q <= total; q++ {
				if strings.Contains(e, marker(uint32(q))) {
					got = fmt.Sprint(q)
				}
			}
			return ev.Failf("arrival loop: entry %d of the store is the rendering of message %s, the messages arrived in the order 1..%d (a message of %d records is directly followed by one of 1 record)", k, got, total, c.Big)
		}
	}
	return nil
}

func TestC20(t *testing.T) {
	// every run: messages through the collector's own loop
	for _, lc := range []LoopCase{{Pairs: 12, Big: 600}, {Pairs: 40, Big: 60}} {
		f := runLoop(lc)
		rec.Case(ev.Hash(lc), true, "through_the_collectors_loop")
		if f != nil {
			rec.Violation("arrival_loop", lc, f.Msg)
			t.Fatalf("%s", f.Msg)
		}
	}
	// every run: a history that passes the cap three times, with queries at the boundaries
	pre := Case{}
	for k := 0; k < 3; k++ {
		pre.Ops = append(pre.Ops, Op{Kind: "burst", N: 4095}, Op{Kind: "get", Count: "-", Format: "-"}, Op{Kind: "burst", N: 1}, Op{Kind: "get", Count: "4096", Format: "text"},
			Op{Kind: "burst", N: 1}, Op{Kind: "get", Count: "4097", Format: "json"}, Op{Kind: "get", Count: "1", Format: "json"})
	}
	pre.Ops = append(pre.Ops, Op{Kind: "get_during_arrival"}, Op{Kind: "get_during_arrival"}, Op{Kind: "get_client_gone", Format: "text"}, Op{Kind: "get_client_gone", Format: "json"},
		Op{Kind: "get", Count: "010", Format: "-"}, Op{Kind: "get", Count: "08", Format: "text"}, Op{Kind: "get", Count: "0x10", Format: "-"}, Op{Kind: "get", Count: "1_0", Format: "-"}, Op{Kind: "reset"}, Op{Kind: "get", Count: "-", Format: "-"}, Op{Kind: "burst", N: 2}, Op{Kind: "get", Count: "5", Format: "text"})
	if f := runRecorded("preamble", pre); f != nil {
		rec.Violation("preamble", pre, f.Msg)
		t.Fatalf("%s", f.Msg)
	}
	// every run: one field of every type
	for _, f := range glue.UserFields()[:int(ref.NumTypes)] {
		v := ref.Value{U: 0x81}
		if f.Type.IsBytes() {
			n := f.Type.Width()
			if n == 0 {
				n = 5
			}
			v = ref.Value{B: []byte("ABCDEFGHIJKLMNOP")[:n]}
		}
		c := Case{Ops: []Op{{Kind: "msg", Fields: []ref.Field{f}, Recs: [][]ref.Value{{v}}}}}
		if fl := runRecorded("preamble_types", c); fl != nil {
			rec.Violation("preamble_types", c, fl.Msg)
			t.Fatalf("%s", fl.Msg)
		}
	}
	ev.Rapid(t, rec, "histories", rec.Scale(400, 150000), genCase, func(c Case) *ev.Failure { return runRecorded("histories", c) })
}
