//go:build verif

// C15 — information-element value codec: exact round trip and length accounting.
package c15

import (
	"bytes"
	"fmt"
	"os"
	"strings"
	"testing"

	"pgregory.net/rapid"

	"github.com/vmware/go-ipfix/pkg/collector"
	"github.com/vmware/go-ipfix/pkg/entities"

	"verifharness/ev"
	"verifharness/gen"
	"verifharness/glue"
	ref "verifharness/refipfix"
)

// Case is one (element, value, position) triple. Pos: 0 first, 1 middle, 2 last, between
// / next to unsigned8 sentinel fields.
type Case struct {
	F   ref.Field `json:"field"`
	V   ref.Value `json:"value"`
	Pos int       `json:"pos"`
	// Unknown: F is absent from every registry; the collector side runs in the lenient mode that
	// keeps such elements as octet arrays of the announced length.
	Unknown bool `json:"unknown,omitempty"`
}

var rec *ev.Recorder

func TestMain(m *testing.M) {
	glue.SilenceKlog()
	glue.UserFields()
	if rp := ev.LoadReplay(); rp != nil {
		switch rp.Phase {
		case "incremental_record":
			ev.RunReplay(rp, runIncremental)
		case "address_forms":
			ev.RunReplay(rp, runAddressForm)
		case "bool_decode_bytes":
			ev.RunReplay(rp, func(b int) *ev.Failure {
				el, err := entities.DecodeAndCreateInfoElementWithValue(glue.IE(glue.UserField(ref.TBool)), []byte{byte(b)})
				if err == nil && ((b == 1 && !el.GetBooleanValue()) || (b == 2 && el.GetBooleanValue())) {
					return ev.Failf("boolean byte %d decoded to %v", b, el.GetBooleanValue())
				}
				return nil
			})
		}
		ev.RunReplay(rp, runCase)
	}
	rec = ev.New("C15", "cases are (user-registered element of each of the 18 supported types incl. fixed-length octet arrays 1..100, value, position among sentinel fields); exhaustive for 8/16-bit types and booleans, every string/octet length 0..300 and 65520..65535, boundary+random beyond; non-trivial = the encoding has a non-zero byte or a length prefix; distinct by hash(element, value, position)",
		"reference codec refipfix (independent of go-ipfix)", "verif hook VerifDecodePacket calls the unmodified decodePacket")
	code := m.Run()
	rec.Write()
	os.Exit(code)
}

var (
	cols   = map[string]*glue.Col{}
	nextID = uint16(300)
	tplIDs = map[string]uint16{}
)

func sentinel() ref.Field { return glue.UserField(ref.TU8) }

func layout(c Case) []ref.Field {
	s := sentinel()
	switch c.Pos {
	case 0:
		return []ref.Field{c.F, s, s}
	case 1:
		return []ref.Field{s, c.F, s}
	}
	return []ref.Field{s, s, c.F}
}

func values(c Case, a, b uint64) []ref.Value {
	switch c.Pos {
	case 0:
		return []ref.Value{c.V, {U: a}, {U: b}}
	case 1:
		return []ref.Value{{U: a}, c.V, {U: b}}
	}
	return []ref.Value{{U: a}, {U: b}, c.V}
}

func runCase(c Case) *ev.Failure {
	fields := layout(c)
	vals := values(c, 0xA5, 0x5A)
	want := ref.EncodeDataRecord(nil, fields, vals)

	// (a) reported element length
	ies := make([]*entities.InfoElement, len(fields))
	els := make([]entities.InfoElementWithValue, len(fields))
	for i, f := range fields {
		ies[i] = glue.IE(f)
		els[i] = glue.Element(ies[i], f.Type, vals[i])
	}
	if got, exp := els[c.Pos].GetLength(), ref.EncodedLen(c.F, c.V); got != exp {
		return ev.Failf("GetLength()=%d but the RFC encoding of this value has %d bytes", got, exp)
	}
	// (b) record length and buffer
	set := entities.NewSet(false)
	if err := set.PrepareSet(entities.Data, 256); err != nil {
		return ev.Failf("PrepareSet: %v", err)
	}
	if err := set.AddRecord(els, 256); err != nil {
		return ev.Failf("AddRecord: %v", err)
	}
	r := set.GetRecords()[0]
	buf := r.GetBuffer()
	if r.GetRecordLength() != len(want) || len(buf) != len(want) {
		return ev.Failf("GetRecordLength()=%d len(GetBuffer())=%d, reference encoding has %d bytes", r.GetRecordLength(), len(buf), len(want))
	}
	if !bytes.Equal(buf, want) {
		return ev.Failf("record bytes differ from the reference encoding at offset %d: got % x want % x", firstDiff(buf, want), clip(buf), clip(want))
	}
	// (c) library decoder on the reference slicing
	res := ref.ParseDataSet(fields, want)
	if res.Malformed || len(res.Records) != 1 || len(res.Padding) != 0 {
		return ev.Failf("internal: reference cannot parse its own encoding: %+v", res.Why)
	}
	dec, err := entities.DecodeAndCreateInfoElementWithValue(ies[c.Pos], res.Records[0][c.Pos])
	if err != nil {
		return ev.Failf("DecodeAndCreateInfoElementWithValue: %v", err)
	}
	got, _, err := glue.ValueOf(dec)
	if err != nil {
		return ev.Failf("decoded element: %v", err)
	}
	if !glue.SameValue(c.F.Type, got, c.V) {
		return ev.Failf("decode(encode(v)) != v: got %+v want %+v", clipV(got), clipV(c.V))
	}
	// (d) collector: template + two records; consumption must keep the second aligned
	if 16+4+2*len(want) > 65535 {
		return nil
	}
	key := fmt.Sprintf("%d/%d/%d/%d", c.F.Ent, c.F.ID, c.F.Len, c.Pos)
	which, mode := "tcp", collector.DecodingModeStrict
	if c.Unknown {
		which, mode = "keep", collector.DecodingModeLenientKeepUnknown
	}
	col := cols[which]
	if col == nil {
		col = glue.NewCol("tcp", mode, nil, 0)
		cols[which] = col
	}
	id, ok := tplIDs[key]
	if !ok {
		id = nextID
		nextID++
		tplIDs[key] = id
		tm := ref.TemplateMessage(ref.Header{Domain: 7}, ref.Template{ID: id, Fields: fields})
		dr := col.Decode(tm, "127.0.0.1:1")
		if dr.Panic != "" {
			delete(cols, which)
			tplIDs = map[string]uint16{}
			return ev.Failf("collector panicked decoding the template for %v: %s", c.F, dr.Panic)
		}
		if dr.Hung {
			return ev.Failf("collector hung decoding the template for %v", c.F)
		}
		if dr.Err != nil {
			delete(tplIDs, key)
			return ev.Failf("collector rejected a valid template for registered element %v: %v", c.F, dr.Err)
		}
	}
	vals2 := values(c, 0x11, 0x22)
	dm := ref.DataMessage(ref.Header{Domain: 7}, ref.Template{ID: id, Fields: fields}, [][]ref.Value{vals, vals2})
	dr := col.Decode(dm, "127.0.0.1:1")
	if dr.Panic != "" {
		delete(cols, which)
		tplIDs = map[string]uint16{}
		return ev.Failf("collector panicked decoding the data set: %s", dr.Panic)
	}
	if dr.Hung {
		return ev.Failf("collector hung decoding the data set")
	}
	if dr.Err != nil {
		return ev.Failf("collector rejected a valid data set: %v", dr.Err)
	}
	recs, err := glue.Records(dr.Msg)
	if err != nil {
		return ev.Failf("collector delivered: %v", err)
	}
	if len(recs) != 2 {
		return ev.Failf("collector delivered %d records for a set of 2 (decoder consumption disagrees with the encoded length)", len(recs))
	}
	for ri, exp := range [][]ref.Value{vals, vals2} {
		if len(recs[ri]) != 3 {
			return ev.Failf("collector record %d has %d fields, want 3", ri, len(recs[ri]))
		}
		for fi := range exp {
			if !glue.SameValue(fields[fi].Type, recs[ri][fi].V, exp[fi]) {
				return ev.Failf("collector record %d field %d (%s): got %+v want %+v", ri, fi, fields[fi].Type, clipV(recs[ri][fi].V), clipV(exp[fi]))
			}
		}
	}
	return nil
}

// runAddressForm checks one (address element, in-memory form of an IPv4 address) pair.
func runAddressForm(c Case) *ev.Failure {
	wire := c.V.B
	if c.F.Type == ref.TIPv4 && len(wire) == 16 {
		wire = wire[12:]
	}
	if c.F.Type == ref.TIPv6 && len(wire) == 4 {
		wire = append([]byte{0, 0, 0, 0, 0, 0, 0, 0, 0, 0, 0xFF, 0xFF}, wire...)
	}
	fields := layout(c)
	els := make([]entities.InfoElementWithValue, len(fields))
	for i, f := range fields {
		els[i] = glue.Element(glue.IE(f), f.Type, values(c, 0xA5, 0x5A)[i])
	}
	set := entities.NewSet(false)
	set.PrepareSet(entities.Data, 256)
	if err := set.AddRecord(els, 256); err != nil {
		return nil // refusing the value is allowed (C09 judges that); silently altering it is not
	}
	want := ref.EncodeDataRecord(nil, fields, values(Case{F: c.F, V: ref.Value{B: wire}, Pos: c.Pos}, 0xA5, 0x5A))
	r := set.GetRecords()[0]
	if got := r.GetBuffer(); !bytes.Equal(got, want) || r.GetRecordLength() != len(want) || els[c.Pos].GetLength() != len(wire) {
		return ev.Failf("%s element holding the %d-byte form of an IPv4 address: record % x (reported length %d, element length %d), want % x", c.F.Type, len(c.V.B), got, r.GetRecordLength(), els[c.Pos].GetLength(), want)
	}
	return nil
}

func seq(a, b int) []int {
	var out []int
	for i := a; i <= b; i++ {
		out = append(out, i)
	}
	return out
}

func firstDiff(a, b []byte) int {
	for i := 0; i < len(a) && i < len(b); i++ {
		if a[i] != b[i] {
			return i
		}
	}
	return min(len(a), len(b))
}

func clip(b []byte) []byte {
	if len(b) > 24 {
		return b[:24]
	}
	return b
}

func clipV(v ref.Value) ref.Value {
	if len(v.B) > 24 {
		return ref.Value{U: v.U, B: v.B[:24]}
	}
	return v
}

func nontrivial(c Case) bool {
	if c.F.Len == ref.VarLen {
		return true
	}
	if c.F.Type.IsBytes() {
		for _, x := range c.V.B {
			if x != 0 {
				return true
			}
		}
		return false
	}
	return c.V.U != 0
}

func record(c Case, class string) {
	rec.Case(ev.Hash(c), nontrivial(c), class, "type_"+c.F.Type.String(), fmt.Sprintf("pos%d", c.Pos))
	rec.Sample(class, Case{F: c.F, V: clipV(c.V), Pos: c.Pos})
}

func check(t *testing.T, phase string, c Case, class string) bool {
	record(c, class)
	if f := runCase(c); f != nil {
		rec.Violation(phase, c, f.Msg)
		t.Errorf("%s: %s", phase, f.Msg)
		return false
	}
	return true
}

// runIncremental: a[0] selects the five elements, a[1] after how many additions the buffer is first read.
func runIncremental(a []int) *ev.Failure {
	start, readAt := a[0], a[1]
	pool := glue.UserFields()[:int(ref.NumTypes)]
	r := entities.NewDataRecord(256, 0, 6, false)
	var fields []ref.Field
	var vals []ref.Value
	for k := 0; k < 5; k++ {
		f := pool[(start+k*5)%len(pool)]
		v := ref.Value{U: uint64(0x81 + k)}
		if f.Type.IsBytes() {
			n := f.Type.Width()
			if n == 0 {
				n = 3 + k
			}
			v = ref.Value{B: bytes.Repeat([]byte{byte('a' + k)}, n)}
		}
		if k >= readAt {
			if got := len(r.GetBuffer()); got != r.GetRecordLength() {
				return ev.Failf("record with %d elements: len(GetBuffer())=%d, GetRecordLength()=%d", k, got, r.GetRecordLength())
			}
		}
		if err := r.AddInfoElement(glue.Element(glue.IE(f), f.Type, v)); err != nil {
			return ev.Failf("AddInfoElement: %v", err)
		}
		fields, vals = append(fields, f), append(vals, v)
		if k+1 >= readAt {
			want := ref.EncodeDataRecord(nil, fields, vals)
			if got := r.GetBuffer(); r.GetRecordLength() != len(want) || !bytes.Equal(got, want) {
				return ev.Failf("record built element by element, buffer first read after %d elements, now %d elements: GetRecordLength()=%d, len(GetBuffer())=%d, the elements encode to %d bytes (first difference at %d)", readAt, k+1, r.GetRecordLength(), len(got), len(want), firstDiff(got, want))
			}
		}
	}
	return nil
}

func TestC15(t *testing.T) {
	// Phase 1: exhaustive 8/16-bit types and booleans.
	t.Run("exhaustive_small", func(t *testing.T) {
		for _, ty := range []ref.Type{ref.TU8, ref.TI8, ref.TBool, ref.TU16, ref.TI16} {
			f := glue.UserField(ty)
			n := 1 << (8 * uint(ty.Width()))
			if ty == ref.TBool {
				n = 2
			}
			for v := 0; v < n; v++ {
				pos := 1
				if ty.Width() == 1 {
					for pos = 0; pos < 3; pos++ {
						if !check(t, "exhaustive_small", Case{F: f, V: ref.Value{U: uint64(v)}, Pos: pos}, "exhaustive_small") {
							return
						}
					}
					continue
				}
				if !check(t, "exhaustive_small", Case{F: f, V: ref.Value{U: uint64(v)}, Pos: pos}, "exhaustive_small") {
					return
				}
			}
		}
		rec.SetExhaustive()
	})
	// Phase 2: every boolean byte on the decode side: 1 => true, 2 => false; others must not crash.
	t.Run("bool_decode_bytes", func(t *testing.T) {
		ie := glue.IE(glue.UserField(ref.TBool))
		for b := 0; b < 256; b++ {
			el, err := entities.DecodeAndCreateInfoElementWithValue(ie, []byte{byte(b)})
			rec.Case(ev.Hash([]int{-1, b}), b != 0, "bool_decode_byte")
			if err != nil {
				continue
			}
			if (b == 1 && !el.GetBooleanValue()) || (b == 2 && el.GetBooleanValue()) {
				rec.Violation("bool_decode_bytes", b, fmt.Sprintf("boolean byte %d decoded to %v", b, el.GetBooleanValue()))
				t.Errorf("boolean byte %d decoded to %v", b, el.GetBooleanValue())
			}
		}
	})
	// Phase 3: every variable length in 0..300 and 65520..65535; fixed octet arrays 1..100.
	t.Run("lengths", func(t *testing.T) {
		var lens []int
		for n := 0; n <= 300; n++ {
			lens = append(lens, n)
		}
		for n := 65500; n <= 65535; n++ {
			lens = append(lens, n)
		}
		for _, ty := range []ref.Type{ref.TString, ref.TOctets} {
			f := glue.UserField(ty)
			for _, n := range lens {
				b := bytes.Repeat([]byte{'a' + byte(n%26)}, n)
				if n > 0 {
					b[0], b[n-1] = '<', '>'
				}
				for pos := 0; pos < 3; pos++ {
					if !check(t, "lengths", Case{F: f, V: ref.Value{B: b}, Pos: pos}, "length_enum") {
						return
					}
				}
			}
		}
		for _, n := range append(seq(1, 100), glue.LongFixedOctets...) {
			b := bytes.Repeat([]byte{byte(n)}, n)
			for pos := 0; pos < 3; pos++ {
				if !check(t, "lengths", Case{F: glue.UserFixedOctets(n), V: ref.Value{B: b}, Pos: pos}, "fixed_octets_enum") {
					return
				}
			}
		}
	})
	// Phase 3b: the two in-memory forms of an IPv4 address (4 and 16 bytes) in both address
	// elements: an ipv4Address element encodes the 4 raw bytes, an ipv6Address element the 16 bytes
	// of the IPv4-mapped form (net.IP semantics: the two forms are the same address).
	t.Run("address_forms", func(t *testing.T) {
		v4 := []byte{192, 0, 2, 33}
		mapped := append([]byte{0, 0, 0, 0, 0, 0, 0, 0, 0, 0, 0xFF, 0xFF}, v4...)
		for pos := 0; pos < 3; pos++ {
			for _, c := range []Case{{F: glue.UserField(ref.TIPv4), V: ref.Value{B: v4}, Pos: pos}, {F: glue.UserField(ref.TIPv4), V: ref.Value{B: mapped}, Pos: pos},
				{F: glue.UserField(ref.TIPv6), V: ref.Value{B: mapped}, Pos: pos}, {F: glue.UserField(ref.TIPv6), V: ref.Value{B: v4}, Pos: pos}} {
				record(c, "address_forms")
				if f := runAddressForm(c); f != nil {
					rec.Violation("address_forms", c, f.Msg)
					t.Errorf("%s", f.Msg)
					return
				}
			}
		}
	})
	// Phase 3c: every element of the loaded registries (IANA, reverse, Antrea) that has a supported
	// type, once per position with a plain non-zero value: the codec must not depend on which
	// element of a type carries the value.
	t.Run("registry_elements", func(t *testing.T) {
		for _, f := range glue.RegistryFields() {
			v := ref.Value{U: 1}
			if f.Type.IsBytes() {
				n := f.Type.Width()
				if f.Type == ref.TOctets || f.Type == ref.TString {
					n = 5
					if f.Len != ref.VarLen {
						n = int(f.Len)
					}
				}
				v = ref.Value{B: bytes.Repeat([]byte{0x5A}, n)}
			}
			for pos := 0; pos < 3; pos++ {
				if !check(t, "registry_elements", Case{F: f, V: v, Pos: pos}, "registry_element_sweep") {
					return
				}
			}
		}
	})
	// Phase 3d: octet arrays of elements no registry knows, kept by a lenient collector at the
	// announced length: one (enterprise, id) announced with every fixed length 1..64 and as
	// variable-length, by successive templates of one collecting process.
	t.Run("unknown_octets", func(t *testing.T) {
		for _, n := range append(seq(1, 64), int(ref.VarLen)) {
			f := ref.Field{ID: 77, Ent: 4242, Len: uint16(n), Type: ref.TOctets}
			l := n
			if f.Len == ref.VarLen {
				l = 9
			}
			for pos := 0; pos < 3; pos++ {
				if !check(t, "unknown_octets", Case{F: f, V: ref.Value{B: bytes.Repeat([]byte{byte(n)}, l)}, Pos: pos, Unknown: true}, "unknown_octets_enum") {
					return
				}
			}
		}
	})
	// Phase 3e: a peer announces registry elements that are variable-length with a fixed length
	// (what the collector makes of that template's data is not judged here); afterwards the same
	// elements, announced as the registry has them, must encode and decode as before.
	t.Run("fixed_announcement_then_variable", func(t *testing.T) {
		n := 0
		for _, f := range glue.RegistryFields() {
			if f.Len != ref.VarLen || n >= 12 {
				continue
			}
			n++
			col := cols["tcp"]
			if col == nil {
				col = glue.NewCol("tcp", collector.DecodingModeStrict, nil, 0)
				cols["tcp"] = col
			}
			fixed := f
			fixed.Len = uint16(8 + 8*n)
			col.Decode(ref.TemplateMessage(ref.Header{Domain: 8}, ref.Template{ID: uint16(5000 + n), Fields: []ref.Field{fixed, sentinel()}}), "127.0.0.1:2")
			for pos := 0; pos < 3; pos++ {
				if !check(t, "fixed_announcement_then_variable", Case{F: f, V: ref.Value{B: []byte("eth0")}, Pos: pos}, "after_fixed_length_announcement") {
					return
				}
			}
		}
	})
	// Phase 3f: a record built element by element (NewDataRecord + AddInfoElement, the way a mediator
	// appends fields to a record it already holds), with the buffer and the length read between the
	// additions: after every addition the reported length, the buffer and the reference encoding of
	// the elements added so far agree.
	t.Run("incremental_record", func(t *testing.T) {
		for start := 0; start < int(ref.NumTypes); start++ {
			for _, readAt := range []int{0, 1, 2, 3} { // when GetBuffer is first called: before anything, after 1, 2, 3 elements
				rec.Case(ev.Hash([]int{-7, start, readAt}), true, "incremental_record")
				if f := runIncremental([]int{start, readAt}); f != nil {
					rec.Violation("incremental_record", []int{start, readAt}, f.Msg)
					t.Errorf("%s", f.Msg)
					return
				}
			}
		}
	})
	// Phase 4: boundary + random values of every type.
	all := glue.UserFields()
	reg := glue.RegistryFields()
	ev.Rapid(t, rec, "random", rec.Scale(60000, 60000000), func(t *rapid.T) Case {
		var f ref.Field
		if rapid.IntRange(0, 9).Draw(t, "fixedoct") == 0 {
			f = glue.UserFixedOctets(rapid.SampledFrom(append(seq(1, 100), glue.LongFixedOctets...)).Draw(t, "n"))
		} else {
			f = all[rapid.IntRange(0, int(ref.NumTypes)-1).Draw(t, "type")]
		}
		switch rapid.IntRange(0, 9).Draw(t, "elem") {
		case 0, 1: // any registry element
			f = reg[rapid.IntRange(0, len(reg)-1).Draw(t, "reg")]
		case 2: // an element no registry knows, any announced length
			f = ref.Field{ID: uint16(rapid.IntRange(20000, 20003).Draw(t, "uid")), Ent: rapid.SampledFrom([]uint32{0, 4242, 29305}).Draw(t, "uent"), Type: ref.TOctets,
				Len: rapid.SampledFrom([]uint16{1, 2, 3, 4, 7, 8, 16, 100, ref.VarLen, ref.VarLen}).Draw(t, "ulen")}
			return Case{F: f, V: gen.Value(t, f, 65535), Pos: rapid.IntRange(0, 2).Draw(t, "pos"), Unknown: true}
		}
		return Case{F: f, V: gen.Value(t, f, 65535), Pos: rapid.IntRange(0, 2).Draw(t, "pos")}
	}, func(c Case) *ev.Failure {
		record(c, "random")
		return runCase(c)
	})
}

// FuzzCodec is the native coverage-guided target (thorough tier): byte 0 selects the element (18
// types + fixed-length octet arrays), byte 1 the position, the rest is the value; the oracle is runCase.
func FuzzCodec(f *testing.F) {
	f.Add([]byte{0, 0})
	f.Add([]byte{13, 1, 'a', 'b', 'c'})
	f.Add(append([]byte{13, 2}, bytes.Repeat([]byte("x"), 255)...))
	f.Add(append([]byte{0, 1}, bytes.Repeat([]byte{0xFF}, 254)...))
	f.Add([]byte{8, 1, 0x80, 0, 0, 0, 0, 0, 0, 1})
	f.Add([]byte{10, 0, 0x7F, 0xF8, 0, 0, 0, 0, 0, 1})
	f.Add([]byte{18, 1, 5, 1, 2, 3, 4, 5})
	f.Fuzz(func(t *testing.T, in []byte) {
		if len(in) < 2 {
			return
		}
		sel, pos, val := int(in[0])%19, int(in[1])%3, in[2:]
		var fld ref.Field
		var v ref.Value
		if sel == 18 {
			if len(val) == 0 {
				return
			}
			n := 1 + int(val[0])%100
			fld = glue.UserFixedOctets(n)
			b := make([]byte, n)
			copy(b, val[1:])
			v = ref.Value{B: b}
		} else {
			fld = glue.UserField(ref.Type(sel))
			switch {
			case fld.Type == ref.TString:
				v = ref.Value{B: []byte(strings.ToValidUTF8(string(val), "?"))}
			case fld.Type == ref.TOctets:
				v = ref.Value{B: append([]byte{}, val...)}
			case fld.Type.IsBytes():
				b := make([]byte, fld.Type.Width())
				copy(b, val)
				v = ref.Value{B: b}
			default:
				var u uint64
				for i := 0; i < 8 && i < len(val); i++ {
					u = u<<8 | uint64(val[i])
				}
				if fld.Type == ref.TBool {
					u &= 1
				}
				v = ref.Value{U: u}
			}
		}
		if fl := runCase(Case{F: fld, V: v, Pos: pos}); fl != nil {
			t.Fatalf("%s", fl.Msg)
		}
	})
}
