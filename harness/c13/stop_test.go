//go:build verif

package c13

import (
	"fmt"
	"testing"
	"time"

	"github.com/vmware/go-ipfix/pkg/entities"
	"github.com/vmware/go-ipfix/pkg/intermediate"

	"verifharness/aggh"
	"verifharness/ev"
)

// Stop while messages keep arriving: Workers workers take messages from the channel, an expiry
// loop and a query loop run beside them, and Stop is called AfterUs microseconds into the traffic.
// Stop must return, and the process must still answer queries afterwards (a worker that holds a
// message waits for the process lock; a Stop that waits for that worker while holding the lock
// never ends, and neither does anything else).
type StopCase struct {
	Workers int `json:"workers"`
	AfterUs int `json:"after_us"`
}

func runStopUnderTraffic(c StopCase) *ev.Failure {
	ch := make(chan *entities.Message)
	ap := aggh.New(time.Hour, time.Hour, ch, c.Workers)
	fl := []aggh.FlowDef{{Src: "10.0.0.1", Dst: "10.0.1.2", SPort: 1000, DPort: 80, Proto: 6, Kind: aggh.KindIntraNode},
		{Src: "10.0.0.3", Dst: "10.0.1.4", SPort: 1001, DPort: 80, Proto: 6, Kind: aggh.KindIntraNode}}
	started := make(chan struct{})
	go func() { close(started); ap.Start() }()
	<-started
	time.Sleep(2 * time.Millisecond) // the workers are created
	done := make(chan struct{})
	feederDone, auxDone := make(chan struct{}), make(chan struct{})
	go func() { // the collector side: a steady stream, until told to stop
		defer close(feederDone)
		for k := 0; ; k++ {
			r := aggh.Rec{Flow: k % 2, Side: "S", Start: 1000, End: uint32(2000 + k), Tot: [4]uint64{uint64(k), uint64(k), 1, 1}, Dlt: [4]uint64{1, 1, 1, 1}}
			select {
			case ch <- aggh.Message(fl, r):
			case <-done:
				return
			}
		}
	}()
	go func() { // expiry scans and queries beside the traffic
		defer close(auxDone)
		for {
			select {
			case <-done:
				return
			default:
			}
			ap.ForAllExpiredFlowRecordsDo(func(k intermediate.FlowKey, r *intermediate.AggregationFlowRecord) error { return nil })
			ap.GetNumFlows()
			time.Sleep(200 * time.Microsecond)
		}
	}()
	time.Sleep(time.Duration(c.AfterUs) * time.Microsecond)
	stopped := make(chan struct{})
	go func() { ap.Stop(); close(stopped) }()
	var f *ev.Failure
	select {
	case <-stopped:
	case <-time.After(10 * time.Second):
		f = ev.Failf("Stop did not return within 10 s while %d workers were taking messages (called %d us into the traffic): a worker holding a message waits for the process lock", c.Workers, c.AfterUs)
	}
	if f == nil {
		q := make(chan int64, 1)
		go func() { q <- ap.GetNumFlows() }()
		select {
		case <-q:
		case <-time.After(10 * time.Second):
			f = ev.Failf("after Stop returned, GetNumFlows did not return within 10 s")
		}
	}
	close(done)
	if f == nil {
		for _, w := range []chan struct{}{feederDone, auxDone} {
			select {
			case <-w:
			case <-time.After(10 * time.Second):
				f = ev.Failf("a goroutine of the scenario is stuck in a call into the stopped process")
			}
		}
	}
	return f
}

// StartStopCase: the documented usage is "go ap.Start()" followed, at some point, by "ap.Stop()".
// Here Stop is called right away (HeadUs > 0: Stop even gets a head start of HeadUs microseconds
// before Start is called, as happens when the goroutine that runs Start is scheduled late). Once
// both calls have returned the process is stopped: a message offered to the channel is not taken.
type StartStopCase struct {
	Workers int `json:"workers"`
	HeadUs  int `json:"head_us"`
}

func runStopOvertakesStart(c StartStopCase) *ev.Failure {
	ch := make(chan *entities.Message)
	ap := aggh.New(time.Hour, time.Hour, ch, c.Workers)
	fl := []aggh.FlowDef{{Src: "10.0.0.1", Dst: "10.0.1.2", SPort: 1000, DPort: 80, Proto: 6, Kind: aggh.KindIntraNode}}
	startDone, stopDone := make(chan struct{}), make(chan struct{})
	if c.HeadUs > 0 {
		go func() { ap.Stop(); close(stopDone) }()
		time.Sleep(time.Duration(c.HeadUs) * time.Microsecond)
		go func() { ap.Start(); close(startDone) }()
	} else {
		go func() { ap.Start(); close(startDone) }()
		go func() { ap.Stop(); close(stopDone) }()
	}
	for _, w := range []chan struct{}{stopDone, startDone} {
		select {
		case <-w:
		case <-time.After(10 * time.Second):
			return ev.Failf("Start in one goroutine and Stop right away in another (%d workers, Stop's head start %d us): after 10 s one of the two calls has not returned", c.Workers, c.HeadUs)
		}
	}
	r := aggh.Rec{Flow: 0, Side: "S", Start: 1000, End: 2000, Tot: [4]uint64{1, 1, 1, 1}, Dlt: [4]uint64{1, 1, 1, 1}}
	taken := false
	select {
	case ch <- aggh.Message(fl, r):
		taken = true
	case <-time.After(150 * time.Millisecond):
	}
	if taken {
		time.Sleep(20 * time.Millisecond)
		return ev.Failf("Start in one goroutine and Stop right away in another (%d workers, Stop's head start %d us): both calls have returned, yet a message offered to the channel afterwards was taken by a worker (GetNumFlows = %d): Stop stopped nobody and the pool can no longer be stopped", c.Workers, c.HeadUs, ap.GetNumFlows())
	}
	return nil
}

func TestC13StopOvertakesStart(t *testing.T) {
	if ev.Shard() > 1 {
		return
	}
	n := int(rec.Scale(24, 600))
	for k := 0; k < n; k++ {
		c := StartStopCase{Workers: []int{1, 2, 4, 8}[k%4], HeadUs: []int{0, 0, 50, 1000, 50000, 0}[k%6]}
		f := runStopOvertakesStart(c)
		rec.Case(ev.Hash([]any{"stop_overtakes_start", c, k}), true, "stop_overtakes_start")
		if f != nil {
			rec.Violation("stop_overtakes_start", c, f.Msg)
			t.Fatalf("%s", f.Msg)
		}
	}
}

func TestC13StopUnderTraffic(t *testing.T) {
	if ev.Shard() > 1 {
		return
	}
	n := int(rec.Scale(12, 400))
	for k := 0; k < n; k++ {
		c := StopCase{Workers: []int{1, 2, 4, 8}[k%4], AfterUs: []int{0, 100, 1000, 20000, 5000, 300}[k%6]}
		f := runStopUnderTraffic(c)
		rec.Case(ev.Hash([]any{"stop_under_traffic", c, k}), true, "stop_under_traffic")
		if f != nil {
			rec.Violation("stop_under_traffic", c, f.Msg)
			t.Fatalf("%s", f.Msg)
		}
	}
	_ = fmt.Sprint
}
