//go:build verif

// C13 — aggregation process is thread-safe: no lost updates, no double export, no data race.
// Built with -race; a race reported during a case fails that case's subtest.
package c13

import (
	"fmt"
	"net"
	"os"
	"runtime"
	"sync"
	"sync/atomic"
	"testing"
	"time"

	"pgregory.net/rapid"

	"github.com/vmware/go-ipfix/pkg/entities"
	"github.com/vmware/go-ipfix/pkg/intermediate"

	"verifharness/aggh"
	"verifharness/ev"
	"verifharness/glue"
)

// Op of an auxiliary goroutine: scan (expiry scan whose callback snapshots and resets), numflows,
// getrecords (Flow), expiry (GetExpiryFromExpirePriorityQueue), shift (virtual time +3 h).
type Op struct {
	Kind    string `json:"kind"`
	Flow    int    `json:"flow,omitempty"`
	PauseUs int    `json:"pause_us,omitempty"`
}

// Case is one concurrent program. Streams[i] lists the delta values (packetDeltaCount; the other
// three deltas are derived) of the records of reporting stream i, ingested in order by one goroutine
// (mode direct) or fed batch-wise through the worker pool (mode pool). Streams 0..3 are the
// source-node and destination-node streams of two inter-node flows (two goroutines touch each of
// those flows), streams 4 and 5 an intra-node and a to-external flow.
type Case struct {
	Mode     string  `json:"mode"`
	Workers  int     `json:"workers"`
	Procs    int     `json:"gomaxprocs"`
	Streams  [][]int `json:"streams"`
	PausesUs []int   `json:"pauses_us"`
	Aux      [][]Op  `json:"aux"`
	// Verbose: the process-wide log verbosity is 5 while the program runs (the library has
	// V(4)/V(5) blocks on its worker and aggregation paths; output is discarded)
	Verbose bool `json:"verbose,omitempty"`
	// Pairs (mode pool): a message holds two consecutive records of its stream and ends with a record
	// the process refuses; what was taken before the refusal is taken exactly once
	Pairs bool `json:"pairs,omitempty"`
	// Older (bits): exporters of different versions. 1: the source node of flow 0 has no
	// destinationPodName / destinationPodNamespace elements in its template; 2: the destination node
	// of flow 1 has no sourcePodName element; the other node's record brings them
	Older int `json:"older,omitempty"`
}

var rec *ev.Recorder

func TestMain(m *testing.M) {
	glue.SilenceKlog()
	glue.LoadRegistry()
	intermediate.MaxRetries = 1 << 30
	if rp := ev.LoadReplay(); rp != nil {
		if rp.Phase == "stop_overtakes_start" {
			ev.RunReplay(rp, runStopOvertakesStart)
		}
		if rp.Phase == "stop_under_traffic" {
			ev.RunReplay(rp, runStopUnderTraffic)
		}
		if rp.Phase == "slow_scan" {
			ev.RunReplay(rp, aggh.RunSlow)
		}
		if rp.Phase == "burst" {
			ev.RunReplay(rp, runBurst)
		}
		if rp.Phase == "linearizability" || rp.Phase == "race_lin" {
			ev.RunReplay(rp, runLin)
		}
		ev.RunReplay(rp, func(c Case) *ev.Failure { f, _ := runCase(c); return f })
	}
	rec = ev.New("C13", "generated concurrent programs under the race detector: up to 6 ingesting goroutines (one per reporting stream; the two nodes of an inter-node flow are different goroutines touching the same flow record) feeding records directly (AggregateMsgByFlowKey) or through Start()'s worker pool (1..8 workers, batch-wise so that each stream stays in order), concurrently with 1..6 auxiliary goroutines running expiry scans (callback snapshots and resets), GetNumFlows, GetRecords, GetExpiryFromExpirePriorityQueue and virtual-time shifts; GOMAXPROCS from {2,4,16}; oracle: per stream and delta counter, sum ingested = sum exported in callbacks + what GetRecords shows at the end (no lost or doubled update), per-node end time/totals = the stream's last record, no flow handed to the callback more often than time was advanced, every observed GetNumFlows between the flows certainly and possibly created, Stop returns; non-trivial = two goroutines ingested into a common flow while a scan ran; distinct by hash of the case",
		"Go race detector (dynamic)", "schedules are sampled, not enumerated", "per-stream record order is kept by the workload (the library skips records older than the stream's latest)", "verif hook VerifShiftDeadlines")
	code := m.Run()
	rec.Write()
	os.Exit(code)
}

func flows() []aggh.FlowDef {
	return []aggh.FlowDef{
		// only the destination node knows the cluster IP: it is filled in when the two nodes are correlated
		{Src: "10.0.0.1", Dst: "10.0.1.2", SPort: 1000, DPort: 80, Proto: 6, Kind: aggh.KindInterNode, CorrD: aggh.Corr{Cluster: "10.96.0.10"}},
		{V6: true, Src: "2001:db8::1", Dst: "2001:db8::2", SPort: 1001, DPort: 443, Proto: 6, Kind: aggh.KindInterNode, CorrD: aggh.Corr{Cluster: "fd00::10"}},
		{Src: "10.0.0.5", Dst: "10.0.1.6", SPort: 1002, DPort: 53, Proto: 17, Kind: aggh.KindIntraNode},
		{Src: "10.0.0.7", Dst: "192.0.2.8", SPort: 1003, DPort: 8080, Proto: 6, Kind: aggh.KindToExternal},
	}
}

// stream i -> (flow, side)
var streamFlow = []int{0, 0, 1, 1, 2, 3}
var streamSide = []string{"S", "D", "S", "D", "S", "S"}

var clock atomic.Int64

func tick() int64 { return clock.Add(1) }

func sleepUs(us int) {
	if us <= 0 {
		return
	}
	if us < 50 {
		runtime.Gosched()
		return
	}
	time.Sleep(time.Duration(us) * time.Microsecond)
}

func record(stream, k, d int) aggh.Rec {
	end := uint32(2000 + 2*k)
	if streamSide[stream] == "D" {
		end++
	}
	return aggh.Rec{Flow: streamFlow[stream], Side: streamSide[stream], Start: 1000, End: end,
		Tot: [4]uint64{uint64(10 * (k + 1)), uint64(1000 * (k + 1)), uint64(k + 1), uint64(100 * (k + 1))},
		Dlt: [4]uint64{uint64(d), uint64(d) * 100, uint64(d) + 1, uint64(d)*7 + 3}, TCPState: "ESTABLISHED"}
}

func sideFields(m map[string]interface{}, src bool) (dlt [4]uint64, tot [4]uint64, end uint32, ok bool) {
	ok = true
	for i := 0; i < 4; i++ {
		d, ok1 := m[aggh.SideName(aggh.DltNames[i], src)].(uint64)
		t, ok2 := m[aggh.SideName(aggh.TotNames[i], src)].(uint64)
		dlt[i], tot[i] = d, t
		ok = ok && ok1 && ok2
	}
	en := "flowEndSecondsFromDestinationNode"
	if src {
		en = "flowEndSecondsFromSourceNode"
	}
	e, ok3 := m[en].(uint32)
	return dlt, tot, e, ok && ok3
}

func runCase(c Case) (*ev.Failure, bool) {
	if c.Procs > 0 {
		defer runtime.GOMAXPROCS(runtime.GOMAXPROCS(c.Procs))
	}
	if c.Verbose {
		glue.SetKlogVerbosity(10)
		defer glue.SetKlogVerbosity(0)
	}
	fl := flows()
	if c.Older&1 != 0 {
		fl[0].OmitS = []string{"destinationPodName", "destinationPodNamespace"}
	}
	if c.Older&2 != 0 {
		fl[1].OmitD = []string{"sourcePodName"}
	}
	ch := make(chan *entities.Message)
	ap := aggh.New(2*time.Hour+30*time.Minute+20*time.Second, 1000000*time.Hour, ch, max(1, c.Workers))
	startReturned := make(chan struct{})
	if c.Mode == "pool" {
		go func() { ap.Start(); close(startReturned) }()
	}
	keyToFlow := map[intermediate.FlowKey]int{}
	for i, f := range fl {
		keyToFlow[f.Key()] = i
	}
	var mu sync.Mutex // harness state written from callbacks and goroutines
	var fail *ev.Failure
	setFail := func(f *ev.Failure) {
		mu.Lock()
		if fail == nil {
			fail = f
		}
		mu.Unlock()
	}
	exported := map[[2]int][4]uint64{} // (flow, node 0=S 1=D) -> exported delta sums
	callbacks := map[int]int{}
	var shiftsStarted atomic.Int64
	ingested := make([][4]uint64, len(c.Streams))
	lastRec := make([]*aggh.Rec, len(c.Streams))
	firstStart := make([]int64, len(fl)) // logical time the first ingest of the flow started / certainly finished
	firstDone := make([]int64, len(fl))
	var flowMu sync.Mutex
	var scanActive atomic.Int32
	var overlap atomic.Bool
	ingestActive := make([]atomic.Int32, len(fl))

	ingest := func(stream, k, d int) {
		r := record(stream, k, d)
		f := r.Flow
		flowMu.Lock()
		if firstStart[f] == 0 {
			firstStart[f] = tick()
		}
		flowMu.Unlock()
		if ingestActive[f].Add(1) >= 2 && scanActive.Load() > 0 {
			overlap.Store(true)
		}
		err := ap.AggregateMsgByFlowKey(aggh.Message(fl, r))
		ingestActive[f].Add(-1)
		if err != nil {
			setFail(ev.Failf("AggregateMsgByFlowKey(stream %d record %d): %v", stream, k, err))
			return
		}
		flowMu.Lock()
		if firstDone[f] == 0 {
			firstDone[f] = tick()
		}
		flowMu.Unlock()
		for i := range ingested[stream] {
			ingested[stream][i] += r.Dlt[i]
		}
		lastRec[stream] = &r
	}

	callback := func(k intermediate.FlowKey, r *intermediate.AggregationFlowRecord) error {
		fi, ok := keyToFlow[k]
		if !ok {
			setFail(ev.Failf("callback with an unknown key %+v", k))
			return nil
		}
		em := r.Record.GetElementMap()
		mu.Lock()
		callbacks[fi]++
		n := callbacks[fi]
		for node, src := range []bool{true, false} {
			d, _, _, ok := sideFields(em, src)
			if !ok {
				continue
			}
			e := exported[[2]int{fi, node}]
			for i := range e {
				e[i] += d[i]
			}
			exported[[2]int{fi, node}] = e
		}
		mu.Unlock()
		if int64(n) > shiftsStarted.Load() {
			setFail(ev.Failf("flow %d was handed to the expiry callback %d times although time was advanced only %d times (exported twice for one deadline)", fi, n, shiftsStarted.Load()))
		}
		return ap.ResetStatAndThroughputElementsInRecord(r.Record)
	}

	var wg sync.WaitGroup
	if c.Mode == "direct" {
		for s := range c.Streams {
			wg.Add(1)
			go func(s int) {
				defer wg.Done()
				for k, d := range c.Streams[s] {
					sleepUs(c.PausesUs[(s+k)%len(c.PausesUs)])
					ingest(s, k, d)
				}
			}(s)
		}
	} else {
		wg.Add(1)
		go func() { // the feeder: batch k holds record k of every stream; a batch is fed concurrently
			defer wg.Done()
			maxLen := 0
			for _, s := range c.Streams {
				maxLen = max(maxLen, len(s))
			}
			step := 1
			if c.Pairs {
				step = 2
			}
			for k := 0; k < maxLen; k += step {
				var bw sync.WaitGroup
				for s := range c.Streams {
					if k >= len(c.Streams[s]) {
						continue
					}
					bw.Add(1)
					go func(s int) {
						defer bw.Done()
						r := record(s, k, c.Streams[s][k])
						batch := []aggh.Rec{r}
						if c.Pairs && k+1 < len(c.Streams[s]) {
							// two consecutive records of the stream in one message, which ends with a record
							// the process has to refuse (it lacks a port): the message fails after both
							// were taken
							r = record(s, k+1, c.Streams[s][k+1])
							batch = append(batch, r)
						}
						f := r.Flow
						flowMu.Lock()
						if firstStart[f] == 0 {
							firstStart[f] = tick()
						}
						flowMu.Unlock()
						if ingestActive[f].Add(1) >= 2 && scanActive.Load() > 0 {
							overlap.Store(true)
						}
						if c.Pairs {
							ch <- aggh.MessageWithRefusedRecord(fl, batch...)
						} else {
							ch <- aggh.Message(fl, r)
						}
						// processed once the stream's per-node end time shows the record's
						key := fl[f].Key()
						for end := time.Now().Add(20 * time.Second); ; {
							rs := ap.GetRecords(&key)
							if len(rs) == 1 {
								if _, _, e, ok := sideFields(rs[0], r.Side != "D" || !fl[f].NeedsCorrelation()); ok && e == r.End {
									break
								}
							}
							if time.Now().After(end) {
								setFail(ev.Failf("record %d of stream %d fed to the worker pool was not aggregated within 20 s", k, s))
								break
							}
							runtime.Gosched()
						}
						ingestActive[f].Add(-1)
						flowMu.Lock()
						if firstDone[f] == 0 {
							firstDone[f] = tick()
						}
						flowMu.Unlock()
						mu.Lock()
						for _, b := range batch {
							for i := range ingested[s] {
								ingested[s][i] += b.Dlt[i]
							}
						}
						lastRec[s] = &r
						mu.Unlock()
					}(s)
				}
				bw.Wait()
			}
		}()
	}
	for _, ops := range c.Aux {
		wg.Add(1)
		go func(ops []Op) {
			defer wg.Done()
			// a query result is a value: what GetRecords returned is kept and read again at the goroutine's
			// next query and at its end; it must not have changed (nor be written to behind our back)
			type kept struct {
				flow int
				ip   net.IP
				copy []byte
			}
			var keep []kept
			recheck := func() {
				for _, k := range keep {
					if string(k.ip) != string(k.copy) {
						setFail(ev.Failf("a GetRecords result for flow %d changed after the call returned: destinationClusterIP was %v, now reads %v (a completed query must not observe later updates)", k.flow, net.IP(k.copy), k.ip))
					}
				}
			}
			defer recheck()
			for _, o := range ops {
				sleepUs(o.PauseUs)
				switch o.Kind {
				case "scan":
					scanActive.Add(1)
					if err := ap.ForAllExpiredFlowRecordsDo(callback); err != nil {
						setFail(ev.Failf("ForAllExpiredFlowRecordsDo: %v", err))
					}
					scanActive.Add(-1)
				case "shift":
					shiftsStarted.Add(1)
					ap.VerifShiftDeadlines(3 * time.Hour)
				case "numflows":
					t0 := tick()
					n := int(ap.GetNumFlows())
					t1 := tick()
					lo, hi := 0, 0
					flowMu.Lock()
					for f := range fl {
						if firstDone[f] != 0 && firstDone[f] < t0 {
							lo++
						}
						if firstStart[f] != 0 && firstStart[f] < t1 {
							hi++
						}
					}
					flowMu.Unlock()
					if n < lo || n > hi {
						setFail(ev.Failf("GetNumFlows()=%d while %d flows were certainly created before the call and at most %d could have been", n, lo, hi))
					}
				case "getrecords":
					key := fl[o.Flow%len(fl)].Key()
					recheck()
					rs := ap.GetRecords(&key)
					if len(rs) > 1 {
						setFail(ev.Failf("GetRecords returned %d records for one five-tuple", len(rs)))
					}
					if len(rs) == 1 {
						for _, n := range []string{"destinationClusterIPv4", "destinationClusterIPv6"} {
							if ip, ok := rs[0][n].(net.IP); ok && len(keep) < 64 {
								keep = append(keep, kept{flow: o.Flow % len(fl), ip: ip, copy: append([]byte(nil), ip...)})
							}
						}
					}
				case "expiry":
					if d := ap.GetExpiryFromExpirePriorityQueue(); d < 0 {
						setFail(ev.Failf("negative time to next expiry %v", d))
					}
				}
			}
		}(ops)
	}
	done := make(chan struct{})
	go func() { wg.Wait(); close(done) }()
	select {
	case <-done:
	case <-time.After(60 * time.Second):
		return ev.Failf("the concurrent program did not finish within 60 s (deadlock?)"), overlap.Load()
	}
	if c.Mode == "pool" {
		stopped := make(chan struct{})
		go func() { ap.Stop(); close(stopped) }()
		select {
		case <-stopped:
		case <-time.After(20 * time.Second):
			return ev.Failf("AggregationProcess.Stop did not return within 20 s"), overlap.Load()
		}
		<-startReturned
	}
	if fail != nil {
		return fail, overlap.Load()
	}
	// conservation and final per-node state
	nflows := 0
	for f := range fl {
		if firstDone[f] != 0 {
			nflows++
		}
	}
	if n := int(ap.GetNumFlows()); n != nflows {
		return ev.Failf("GetNumFlows()=%d at the end, %d distinct five-tuples were ingested", n, nflows), overlap.Load()
	}
	for s := range c.Streams {
		if lastRec[s] == nil {
			continue
		}
		f := streamFlow[s]
		key := fl[f].Key()
		rs := ap.GetRecords(&key)
		if len(rs) != 1 {
			return ev.Failf("GetRecords(flow %d) returned %d records at the end", f, len(rs)), overlap.Load()
		}
		nodes := []bool{streamSide[s] != "D"}
		if !fl[f].NeedsCorrelation() {
			nodes = []bool{true, false}
		}
		for _, src := range nodes {
			node := 1
			if src {
				node = 0
			}
			d, tot, end, ok := sideFields(rs[0], src)
			if !ok {
				return ev.Failf("flow %d: per-node fields missing from the aggregated record", f), overlap.Load()
			}
			exp := exported[[2]int{f, node}]
			for i := 0; i < 4; i++ {
				if exp[i]+d[i] != ingested[s][i] {
					return ev.Failf("flow %d node %s %s: %d ingested over %d records, %d exported in callbacks + %d still in the record = %d: an update was lost or counted twice", f, map[bool]string{true: "source", false: "destination"}[src], aggh.DltNames[i], ingested[s][i], len(c.Streams[s]), exp[i], d[i], exp[i]+d[i]), overlap.Load()
				}
				if tot[i] != lastRec[s].Tot[i] {
					return ev.Failf("flow %d node %s %s = %d, the stream's last record carried %d", f, map[bool]string{true: "source", false: "destination"}[src], aggh.TotNames[i], tot[i], lastRec[s].Tot[i]), overlap.Load()
				}
			}
			if end != lastRec[s].End {
				return ev.Failf("flow %d node %s end time %d, the stream's last record carried %d", f, map[bool]string{true: "source", false: "destination"}[src], end, lastRec[s].End), overlap.Load()
			}
		}
		// common end time = latest over both nodes
		want := lastRec[s].End
		for s2 := range c.Streams {
			if streamFlow[s2] == f && lastRec[s2] != nil && lastRec[s2].End > want {
				want = lastRec[s2].End
			}
		}
		if e, _ := rs[0]["flowEndSeconds"].(uint32); e != want {
			return ev.Failf("flow %d flowEndSeconds = %d, the latest end time ingested is %d", f, e, want), overlap.Load()
		}
	}
	return nil, overlap.Load()
}

func genCase(t *rapid.T) Case {
	c := Case{Mode: rapid.SampledFrom([]string{"direct", "direct", "pool"}).Draw(t, "mode"), Workers: rapid.IntRange(1, 8).Draw(t, "workers"),
		Procs: rapid.SampledFrom([]int{2, 4, 16}).Draw(t, "procs")}
	c.Verbose = rapid.IntRange(0, 3).Draw(t, "verbose") == 0
	c.Pairs = c.Mode == "pool" && rapid.IntRange(0, 2).Draw(t, "pairs") == 0
	c.Older = rapid.SampledFrom([]int{0, 0, 1, 2, 3}).Draw(t, "older")
	for s := 0; s < 6; s++ {
		var recs []int
		n := rapid.IntRange(0, 25).Draw(t, "nrec")
		if c.Mode == "pool" {
			n = rapid.IntRange(0, 8).Draw(t, "nrecpool")
		}
		for ; n > 0; n-- {
			recs = append(recs, rapid.IntRange(0, 1000).Draw(t, "delta"))
		}
		c.Streams = append(c.Streams, recs)
	}
	for n := rapid.IntRange(1, 6).Draw(t, "npause"); n > 0; n-- {
		c.PausesUs = append(c.PausesUs, rapid.SampledFrom([]int{0, 0, 0, 10, 60, 200}).Draw(t, "pause"))
	}
	for g := rapid.IntRange(1, 6).Draw(t, "naux"); g > 0; g-- {
		var ops []Op
		for n := rapid.IntRange(1, 30).Draw(t, "nops"); n > 0; n-- {
			ops = append(ops, Op{Kind: rapid.SampledFrom([]string{"scan", "scan", "scan", "shift", "numflows", "getrecords", "expiry"}).Draw(t, "kind"),
				Flow: rapid.IntRange(0, 3).Draw(t, "flow"), PauseUs: rapid.SampledFrom([]int{0, 0, 0, 10, 60, 200}).Draw(t, "opause")})
		}
		c.Aux = append(c.Aux, ops)
	}
	return c
}

// runBurst: n flows ingested by 8 goroutines while two others query; then every flow's inactive
// deadline passes and three goroutines scan concurrently: every flow is handed to the callback
// exactly once, no scan fails, nothing stays behind.
func runBurst(n int) *ev.Failure {
	var fl []aggh.FlowDef
	for i := 0; i < n; i++ {
		fl = append(fl, aggh.FlowDef{Src: fmt.Sprintf("10.%d.%d.%d", 1+i/65536, (i/256)%256, i%256), Dst: "10.0.1.2", SPort: 1000, DPort: 80, Proto: 6, Kind: aggh.KindIntraNode})
	}
	keyToFlow := map[intermediate.FlowKey]int{}
	for i, f := range fl {
		keyToFlow[f.Key()] = i
	}
	ap := aggh.New(10*time.Hour, 3*time.Hour, nil, 1)
	var fail atomic.Pointer[ev.Failure]
	var wg sync.WaitGroup
	stopQ := make(chan struct{})
	for g := 0; g < 8; g++ {
		wg.Add(1)
		go func(g int) {
			defer wg.Done()
			for i := g; i < n; i += 8 {
				r := aggh.Rec{Flow: i, Side: "S", Start: 1000, End: 2000, Tot: [4]uint64{1, 2, 1, 2}, Dlt: [4]uint64{1, 1, 1, 1}}
				if err := ap.AggregateMsgByFlowKey(aggh.Message(fl, r)); err != nil {
					fail.CompareAndSwap(nil, ev.Failf("AggregateMsgByFlowKey(flow %d): %v", i, err))
					return
				}
			}
		}(g)
	}
	var qg sync.WaitGroup
	for g := 0; g < 2; g++ {
		qg.Add(1)
		go func() {
			defer qg.Done()
			for {
				select {
				case <-stopQ:
					return
				default:
				}
				ap.GetNumFlows()
				ap.GetExpiryFromExpirePriorityQueue()
				if err := ap.ForAllExpiredFlowRecordsDo(func(k intermediate.FlowKey, _ *intermediate.AggregationFlowRecord) error {
					fail.CompareAndSwap(nil, ev.Failf("flow %+v handed to the expiry callback although no deadline has passed", k))
					return nil
				}); err != nil {
					fail.CompareAndSwap(nil, ev.Failf("scan while flows arrive: %v", err))
				}
			}
		}()
	}
	wg.Wait()
	close(stopQ)
	qg.Wait()
	if f := fail.Load(); f != nil {
		return f
	}
	if got := ap.GetNumFlows(); int(got) != n {
		return ev.Failf("%d distinct flows were ingested, GetNumFlows() = %d", n, got)
	}
	ap.VerifShiftDeadlines(4 * time.Hour)
	var mu sync.Mutex
	seen := make([]int, n)
	for g := 0; g < 3; g++ {
		wg.Add(1)
		go func() {
			defer wg.Done()
			for round := 0; round < 3; round++ {
				if err := ap.ForAllExpiredFlowRecordsDo(func(k intermediate.FlowKey, _ *intermediate.AggregationFlowRecord) error {
					mu.Lock()
					seen[keyToFlow[k]]++
					mu.Unlock()
					return nil
				}); err != nil {
					fail.CompareAndSwap(nil, ev.Failf("expiry scan after the inactive deadline of all %d flows: %v", n, err))
				}
			}
		}()
	}
	wg.Wait()
	if f := fail.Load(); f != nil {
		return f
	}
	for i, k := range seen {
		if k != 1 {
			return ev.Failf("flow %d of %d was handed to the expiry callback %d times for its one inactive deadline", i, n, k)
		}
	}
	if got := ap.GetNumFlows(); got != 0 {
		return ev.Failf("every flow expired by inactivity, GetNumFlows() = %d", got)
	}
	if q, h := ap.VerifSnapshot(); len(q) != 0 || len(h) != 0 {
		return ev.Failf("every flow expired by inactivity, %d queue entries and %d held flows remain", len(q), len(h))
	}
	return nil
}

func TestC13(t *testing.T) {
	if ev.Shard() <= 1 {
		// real time passing inside an expiry scan while other goroutines use the process (shared with C06)
		scens := aggh.SlowScens()
		var fails []*ev.Failure
		okSlow := t.Run("slow_scan", func(t *testing.T) {
			fails = aggh.RunSlowAll(scens)
			for si, sc := range scens {
				rec.Case(ev.Hash(sc), true, "slow_scan", sc.Name)
				if fails[si] != nil {
					rec.Violation("slow_scan", sc, fails[si].Msg)
					t.Errorf("%s", fails[si].Msg)
				}
			}
		})
		if !okSlow {
			if rec.Violations() == 0 {
				rec.Violation("race", "slow_scan", "the race detector reported a data race in the slow-scan scenarios (the report is in the check's output)")
			}
			return
		}
	}
	if ev.Shard() <= 1 {
		nb := 3000
		if rec.Thorough() {
			nb = 10000
		}
		ok := t.Run("burst", func(t *testing.T) {
			f := runBurst(nb)
			rec.Case(ev.Hash([]any{"burst", nb}), true, "burst_of_flows")
			if f != nil {
				rec.Violation("burst", nb, f.Msg)
				t.Errorf("%s", f.Msg)
			}
		})
		if !ok {
			if rec.Violations() == 0 {
				rec.Violation("race", nb, "the race detector reported a data race in the burst scenario (the report is in the check's output)")
			}
			return
		}
	}
	n := rec.Scale(350, 60000)
	g := rapid.Custom(genCase)
	for i := 0; i < n; i++ {
		c := g.Example(int(ev.Seed())*1000003 + i)
		var fail *ev.Failure
		var overlapped bool
		ok := t.Run(fmt.Sprintf("case%d", i), func(t *testing.T) {
			fail, overlapped = runCase(c)
			if fail != nil {
				t.Errorf("%s", fail.Msg)
			}
		})
		cl := []string{"mode_" + c.Mode, fmt.Sprintf("gomaxprocs_%d", c.Procs)}
		if c.Verbose {
			cl = append(cl, "log_verbosity_5")
		}
		rec.Case(ev.Hash(c), overlapped, cl...)
		if i < 40 && len(c.Aux) <= 2 {
			rec.Sample(c.Mode, c)
		}
		if fail != nil {
			rec.Violation("programs", c, fail.Msg)
			return
		}
		if !ok {
			rec.Violation("race", c, "the race detector reported a data race while this program ran (the report is in the check's output)")
			return
		}
	}
}
