//go:build verif

package c13

import (
	"fmt"
	"runtime"
	"sync"
	"testing"
	"time"

	"github.com/anishathalye/porcupine"
	"pgregory.net/rapid"

	"github.com/vmware/go-ipfix/pkg/entities"
	"github.com/vmware/go-ipfix/pkg/intermediate"

	"verifharness/aggh"
	"verifharness/ev"
)

// LinOp is one operation of a small concurrent history checked for linearizability with
// porcupine: ingest (the next record of Stream, delta D), resetall (ForAllRecordsDo: snapshot
// and reset every flow), get (Flow), numflows.
type LinOp struct {
	Kind   string `json:"kind"`
	Stream int    `json:"stream,omitempty"`
	D      int    `json:"d,omitempty"`
	Flow   int    `json:"flow,omitempty"`
}

// LinCase: each inner list is executed sequentially by one goroutine. An ingest of stream s is
// only ever issued by goroutine s % len(Threads), so every reporting stream stays in order.
type LinCase struct {
	Procs   int       `json:"gomaxprocs"`
	Threads [][]LinOp `json:"threads"`
}

// nodeState / linState: the sequential specification's state (comparable).
type nodeState struct {
	Seen bool
	Dlt  [4]uint64
	End  uint32
}
type flowSt struct {
	Exists bool
	N      [2]nodeState // 0 source node, 1 destination node
}
type linState struct{ F [4]flowSt }

type linOut struct {
	N     int
	Flow  flowSt
	Reset [4]flowSt
}

func linModel() porcupine.Model {
	fl := flows()
	return porcupine.Model{
		Init: func() interface{} { return linState{} },
		Step: func(state, input, output interface{}) (bool, interface{}) {
			st := state.(linState)
			in := input.(linIn)
			out := output.(linOut)
			switch in.Op.Kind {
			case "ingest":
				r := record(in.Op.Stream, in.K, in.Op.D)
				f := &st.F[r.Flow]
				f.Exists = true
				src, dst := fl[r.Flow].Sides(r)
				for node, on := range []bool{src, dst} {
					if !on {
						continue
					}
					n := &f.N[node]
					if n.Seen && r.End <= n.End {
						continue // older than the stream's latest: skipped by design
					}
					for i := range n.Dlt {
						n.Dlt[i] += r.Dlt[i]
					}
					n.End, n.Seen = r.End, true
				}
				return true, st
			case "resetall":
				for i := range st.F {
					want := st.F[i]
					if out.Reset[i] != want {
						return false, st
					}
					for n := range st.F[i].N {
						st.F[i].N[n].Dlt = [4]uint64{}
					}
				}
				return true, st
			case "get":
				return out.Flow == st.F[in.Op.Flow], st
			case "numflows":
				n := 0
				for _, f := range st.F {
					if f.Exists {
						n++
					}
				}
				return out.N == n, st
			}
			return false, st
		},
	}
}

type linIn struct {
	Op LinOp
	K  int // index of the record within its stream (ingest)
}

func readFlow(m map[string]interface{}, f aggh.FlowDef) flowSt {
	out := flowSt{Exists: true}
	for node, src := range []bool{true, false} {
		d, _, e, ok := sideFields(m, src)
		if ok && e != 0 {
			out.N[node] = nodeState{Seen: true, Dlt: d, End: e}
		}
	}
	return out
}

func runLin(c LinCase) *ev.Failure {
	if c.Procs > 0 {
		defer runtime.GOMAXPROCS(runtime.GOMAXPROCS(c.Procs))
	}
	fl := flows()
	ap := aggh.New(1000000*time.Hour, 1000000*time.Hour, make(chan *entities.Message), 1)
	keyToFlow := map[intermediate.FlowKey]int{}
	for i, f := range fl {
		keyToFlow[f.Key()] = i
	}
	var mu sync.Mutex
	var ops []porcupine.Operation
	streamK := make([]int, 6)
	var wg sync.WaitGroup
	var start sync.WaitGroup
	start.Add(1)
	var fail *ev.Failure
	for ti, th := range c.Threads {
		wg.Add(1)
		go func(ti int, th []LinOp) {
			defer wg.Done()
			start.Wait()
			for _, o := range th {
				in := linIn{Op: o}
				var out linOut
				if o.Kind == "ingest" {
					in.K = streamK[o.Stream] // only this goroutine touches streamK[o.Stream]
					streamK[o.Stream]++
				}
				call := time.Now().UnixNano()
				switch o.Kind {
				case "ingest":
					if err := ap.AggregateMsgByFlowKey(aggh.Message(fl, record(o.Stream, in.K, o.D))); err != nil {
						mu.Lock()
						fail = ev.Failf("AggregateMsgByFlowKey: %v", err)
						mu.Unlock()
					}
				case "resetall":
					ap.ForAllRecordsDo(func(k intermediate.FlowKey, r *intermediate.AggregationFlowRecord) error {
						fi := keyToFlow[k]
						out.Reset[fi] = readFlow(r.Record.GetElementMap(), fl[fi])
						return ap.ResetStatAndThroughputElementsInRecord(r.Record)
					})
				case "get":
					key := fl[o.Flow].Key()
					if rs := ap.GetRecords(&key); len(rs) == 1 {
						out.Flow = readFlow(rs[0], fl[o.Flow])
					}
				case "numflows":
					out.N = int(ap.GetNumFlows())
				}
				ret := time.Now().UnixNano()
				mu.Lock()
				ops = append(ops, porcupine.Operation{ClientId: ti, Input: in, Output: out, Call: call, Return: ret})
				mu.Unlock()
			}
		}(ti, th)
	}
	start.Done()
	wg.Wait()
	if fail != nil {
		return fail
	}
	res := porcupine.CheckOperationsTimeout(linModel(), ops, 20*time.Second)
	if res == porcupine.Illegal {
		return ev.Failf("the history of %d operations by %d goroutines is not linearizable: no order consistent with real time explains the observed results (a lost update, a torn read or a stale count)", len(ops), len(c.Threads))
	}
	return nil
}

func genLin(t *rapid.T) LinCase {
	c := LinCase{Procs: rapid.SampledFrom([]int{2, 4, 16}).Draw(t, "procs")}
	n := rapid.IntRange(2, 4).Draw(t, "threads")
	for ti := 0; ti < n; ti++ {
		var th []LinOp
		for k := rapid.IntRange(1, 6).Draw(t, "nops"); k > 0; k-- {
			switch rapid.IntRange(0, 6).Draw(t, "op") {
			case 0, 1, 2:
				// streams are owned by goroutines: stream s may only be used by goroutine s % n
				var mine []int
				for s := 0; s < 6; s++ {
					if s%n == ti {
						mine = append(mine, s)
					}
				}
				th = append(th, LinOp{Kind: "ingest", Stream: rapid.SampledFrom(mine).Draw(t, "stream"), D: rapid.IntRange(1, 9).Draw(t, "d")})
			case 3:
				th = append(th, LinOp{Kind: "resetall"})
			case 4, 5:
				th = append(th, LinOp{Kind: "get", Flow: rapid.IntRange(0, 3).Draw(t, "flow")})
			default:
				th = append(th, LinOp{Kind: "numflows"})
			}
		}
		c.Threads = append(c.Threads, th)
	}
	return c
}

func TestC13Linearizable(t *testing.T) {
	n := rec.Scale(1500, 300000)
	g := rapid.Custom(genLin)
	for i := 0; i < n; i++ {
		c := g.Example(int(ev.Seed())*7000003 + i)
		var fail *ev.Failure
		ok := t.Run(fmt.Sprintf("lin%d", i), func(t *testing.T) {
			fail = runLin(c)
			if fail != nil {
				t.Errorf("%s", fail.Msg)
			}
		})
		ing := map[int]int{}
		for _, th := range c.Threads {
			for _, o := range th {
				if o.Kind == "ingest" {
					ing[streamFlow[o.Stream]]++
				}
			}
		}
		shared := false
		for _, k := range ing {
			shared = shared || k >= 2
		}
		rec.Case(ev.Hash(c), shared, "linearizability_history")
		if i < 3 {
			rec.Sample("linearizability", c)
		}
		if fail != nil {
			rec.Violation("linearizability", c, fail.Msg)
			return
		}
		if !ok {
			rec.Violation("race_lin", c, "the race detector reported a data race while this history ran (the report is in the check's output)")
			return
		}
	}
}
