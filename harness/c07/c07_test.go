//go:build verif

// C07 — inter-node correlation: withheld until both sides seen, merged field-complete.
package c07

import (
	"os"
	"strings"
	"testing"

	"pgregory.net/rapid"

	"verifharness/aggh"
	"verifharness/ev"
	"verifharness/glue"
)

var rec *ev.Recorder

func TestMain(m *testing.M) {
	glue.SilenceKlog()
	glue.LoadRegistry()
	if rp := ev.LoadReplay(); rp != nil {
		ev.RunReplay(rp, func(c aggh.XCase) *ev.Failure { return aggh.RunX(c, nil) })
	}
	rec = ev.New("C07", "histories over two inter-node flows that need correlation (IPv4 and IPv6) plus one control flow of each ready-at-once kind (intra-node, to-external, inter-node denied at egress, inter-node rejected at ingress): arbitrary orders and multiplicities of source-node and destination-node records, correlate-field values drawn per side from {empty, value} (strings, u16, s32, IPv4/IPv6), interleaved with virtual-time advances and expiry scans (some with failing callbacks); at every callback the correlation oracle runs, after every action the expiry/retry model of DESIGN.md A.3 and the heap/map invariants; non-trivial = a correlated flow was exported, or a retry round passed before the peer arrived, or an uncorrelated flow was dropped; distinct by hash of the case",
		"reference expiry/correlation model (harness/aggh)", "verif hooks VerifShiftDeadlines / VerifSnapshot", "rule actions and correlate-field values are per-flow, per-node constants")
	code := m.Run()
	rec.Write()
	os.Exit(code)
}

func genCorr(t *rapid.T, v6 bool, label string) aggh.Corr {
	pick := func(l, v string) string {
		if rapid.Bool().Draw(t, label+l) {
			return v
		}
		return ""
	}
	c := aggh.Corr{SrcNS: pick("sns", "ns-"+label), SrcNode: pick("snode", "node-"+label), DstNS: pick("dns", "dns-"+label), DstNode: pick("dnode", "dnode-"+label)}
	if rapid.Bool().Draw(t, label+"svc") {
		c.SvcPort = uint16(rapid.IntRange(1, 65535).Draw(t, label+"svcport"))
	}
	if rapid.Bool().Draw(t, label+"prio") {
		c.Priority = int32(rapid.SampledFrom([]int{-1, 1, 100, -2147483648, 2147483647}).Draw(t, label+"priov"))
	}
	if rapid.Bool().Draw(t, label+"cl") {
		if v6 {
			c.Cluster = rapid.SampledFrom([]string{"fd00::10", "2001:db8:1::1"}).Draw(t, label+"cl6")
		} else {
			c.Cluster = rapid.SampledFrom([]string{"10.96.0.10", "172.16.0.1"}).Draw(t, label+"cl4")
		}
	}
	return c
}

func genCase(t *rapid.T) aggh.XCase {
	to := [][2]int{{10*3600 + 30*60 + 20, 3*3600 + 30*60 + 40}, {2*3600 + 30*60 + 20, 5*3600 + 30*60 + 40}}[rapid.IntRange(0, 1).Draw(t, "to")]
	c := aggh.XCase{ActiveSec: to[0], InactiveSec: to[1], LayoutS: rapid.IntRange(0, 3).Draw(t, "layout_s"), LayoutD: rapid.IntRange(0, 3).Draw(t, "layout_d")}
	c.NoAggregation = rapid.IntRange(0, 5).Draw(t, "no_aggregation") == 0
	c.Verbosity = rapid.SampledFrom([]int{0, 0, 0, 2, 10}).Draw(t, "verbosity")
	if mr := rapid.SampledFrom([]int{-1, -1, 0, 1, 2, 3}).Draw(t, "max_retries"); mr >= 0 {
		c.MaxRetries = &mr
	}
	c.Flows = []aggh.FlowDef{
		{Src: "10.0.0.1", Dst: "10.0.1.2", SPort: 1000, DPort: 80, Proto: 6, Kind: aggh.KindInterNode},
		{V6: true, Src: "2001:db8::1", Dst: "2001:db8::2", SPort: 1001, DPort: 443, Proto: 6, Kind: aggh.KindInterNode},
		{Src: "10.0.0.5", Dst: "10.0.1.6", SPort: 1002, DPort: 53, Proto: 17, Kind: rapid.SampledFrom([]int{aggh.KindIntraNode, aggh.KindToExternal, aggh.KindInterEgressDeny, aggh.KindInterIngressReject}).Draw(t, "ctlkind")},
	}
	for i := 0; i < 2; i++ {
		c.Flows[i].CorrS = genCorr(t, c.Flows[i].V6, "s")
		c.Flows[i].CorrD = genCorr(t, c.Flows[i].V6, "d")
		// rule actions that keep the flow in need of correlation: egress no-action/allow, ingress
		// no-action/allow/drop; each node reports its own view (0 = nothing to report)
		c.Flows[i].CorrS.EgrAct = uint8(rapid.IntRange(0, 1).Draw(t, "egr_s"))
		c.Flows[i].CorrD.EgrAct = uint8(rapid.IntRange(0, 1).Draw(t, "egr_d"))
		c.Flows[i].CorrS.IngAct = uint8(rapid.IntRange(0, 2).Draw(t, "ing_s"))
		c.Flows[i].CorrD.IngAct = uint8(rapid.IntRange(0, 2).Draw(t, "ing_d"))
		// one node in eight sees the flow denied while the other node, which cannot know, reports an
		// ordinary flow: whichever record comes first, the flow is ready once the denying node reported
		switch rapid.IntRange(0, 15).Draw(t, "denied_by") {
		case 0:
			c.Flows[i].CorrD.IngAct = 3 // rejected at ingress, reported by the destination node
		case 1:
			c.Flows[i].CorrS.EgrAct = uint8(rapid.IntRange(2, 3).Draw(t, "egr_deny")) // denied at egress, reported by the source node
		}
	}
	// exporters of different versions: one node's template lacks some of the elements that describe
	// the other end
	for i := 0; i < 2; i++ {
		if rapid.IntRange(0, 2).Draw(t, "omit_s") == 0 {
			for _, n := range aggh.OmittableS {
				if rapid.IntRange(0, 2).Draw(t, "omit_s_el") == 0 {
					c.Flows[i].OmitS = append(c.Flows[i].OmitS, n)
				}
			}
		}
		if rapid.IntRange(0, 2).Draw(t, "omit_d") == 0 {
			for _, n := range aggh.OmittableD {
				if rapid.IntRange(0, 2).Draw(t, "omit_d_el") == 0 {
					c.Flows[i].OmitD = append(c.Flows[i].OmitD, n)
				}
			}
		}
	}
	// a fourth flow whose source node's exporter has no destinationPodName element and whose
	// destination node never reports: however often the source node repeats itself, the flow stays
	// withheld until its retries are used up
	c.Flows = append(c.Flows, aggh.FlowDef{Src: "10.0.0.7", Dst: "10.0.1.8", SPort: 1003, DPort: 8080, Proto: 6, Kind: aggh.KindInterNode, OmitPeerPod: true})
	c.Flows[3].CorrS = genCorr(t, false, "s3")
	if c.Flows[2].Kind != aggh.KindInterEgressDeny {
		c.Flows[2].OmitEgress = rapid.Bool().Draw(t, "omit_egress")
	}
	switch c.Flows[2].Kind {
	case aggh.KindInterEgressDeny:
		c.Flows[2].CorrS.EgrAct = rapid.SampledFrom([]uint8{2, 3}).Draw(t, "deny")
	case aggh.KindInterIngressReject:
		c.Flows[2].CorrD.IngAct = 3
	}
	for n := rapid.IntRange(2, 40).Draw(t, "n"); n > 0; n-- {
		switch k := rapid.IntRange(0, 9).Draw(t, "op"); {
		case k <= 4:
			c.Ops = append(c.Ops, aggh.XOp{Kind: "rec", Flow: rapid.SampledFrom([]int{0, 0, 0, 1, 1, 2, 3}).Draw(t, "flow"), Side: rapid.SampledFrom([]string{"S", "D"}).Draw(t, "side"),
				Incomplete: rapid.IntRange(0, 5).Draw(t, "incomplete") == 0, EndMode: rapid.SampledFrom([]string{"", "", "", "older", "equal"}).Draw(t, "end_mode"),
				PodGen: rapid.SampledFrom([]int{0, 0, 0, 0, 0, 1, 2}).Draw(t, "pod_gen")})
		case k <= 6:
			c.Ops = append(c.Ops, aggh.XOp{Kind: "advance", Hours: rapid.SampledFrom([]int{1, 3, 4, 6, 11}).Draw(t, "h")})
		default:
			c.Ops = append(c.Ops, aggh.XOp{Kind: "scan", Fail: rapid.SampledFrom([]int{0, 0, 0, 0, 1, 4, 7}).Draw(t, "fail")})
		}
	}
	return c
}

func TestC07(t *testing.T) {
	ev.Rapid(t, rec, "histories", rec.Scale(6000, 3000000), genCase, func(c aggh.XCase) *ev.Failure {
		st := &aggh.XStats{}
		f := aggh.RunX(c, st)
		if f != nil && strings.Contains(f.Msg, "HUNG") {
			// the stuck scan cannot be killed and holds its process's lock: report and leave at once
			rec.Violation("histories", c, f.Msg)
			rec.Write()
			os.Exit(1)
		}
		var cl []string
		for k, b := range map[string]bool{"correlated_flow_exported": st.Correlated, "retry_round_then_peer": st.RetryThenPeer, "uncorrelated_dropped": st.DroppedUncorrelated, "both_arrival_orders": st.BothOrders, "failing_callback": st.FailingCallback, "nodes_use_different_element_order": c.LayoutS != c.LayoutD, "correlating_record_refused": st.IncompleteCorrelating, "max_retries_setting_changed": c.MaxRetries != nil && *c.MaxRetries != 2, "process_without_aggregate_elements": c.NoAggregation, "one_node_reports_the_flow_denied": c.Flows[0].Denied() || c.Flows[1].Denied(), "exporters_with_different_templates": len(c.Flows[0].OmitS)+len(c.Flows[0].OmitD)+len(c.Flows[1].OmitS)+len(c.Flows[1].OmitD) > 0} {
			if b {
				cl = append(cl, k)
			}
		}
		nt := st.Correlated || st.RetryThenPeer || st.DroppedUncorrelated
		rec.Case(ev.Hash(c), nt, cl...)
		if nt && len(c.Ops) <= 6 {
			rec.Sample("history", c)
		}
		return f
	})
}
