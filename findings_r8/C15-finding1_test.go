// Finding 1 for property C15 (clean tree).
//
// Place this file at WT/pkg/exporter/finding1_test.go and run
//
//	cd WT && go test -count=1 -timeout 120s -run 'TestFinding1ExtraElementAfterAddRecord' ./pkg/exporter
//
// Clause: "encoding a record writes for each element exactly the number of bytes the element
// reports as its length ... the reported length, the bytes written and the decoder's consumption
// always agree."
//
// Set.AddRecordWithExtraElements(elements, numExtraElements, id) reserves room in the record for
// elements that are added later with Record.AddInfoElement - that is what the parameter is for
// (pkg/intermediate adds its correlation and statistics elements to the records of delivered sets
// with Record.AddInfoElement in the same way). On a set that is being ENCODED every step is
// accepted as well: the record accounts for the added element (GetRecordLength, GetBuffer
// and GetFieldCount are right), but the set does not: GetSetLength() keeps the value computed
// when the record was added. SendSet passes all its sanity checks (the template has both fields)
// and then exporter.CreateIPFIXMsg sizes the message from the stale set length and panics with
// "slice bounds out of range" while copying the record - the exporting application crashes.
// Expected: either the message carries all bytes of the record (set length 4+4+1+len(name)) or
// the late AddInfoElement / SendSet returns an error.
package exporter

import (
	"io"
	"net"
	"testing"

	"github.com/vmware/go-ipfix/pkg/entities"
	"github.com/vmware/go-ipfix/pkg/registry"
)

func TestFinding1ExtraElementAfterAddRecord(t *testing.T) {
	registry.LoadRegistry()
	ln, err := net.Listen("tcp", "127.0.0.1:0")
	if err != nil {
		t.Fatal(err)
	}
	defer ln.Close()
	go func() {
		for {
			c, err := ln.Accept()
			if err != nil {
				return
			}
			go io.Copy(io.Discard, c)
		}
	}()
	ep, err := InitExportingProcess(ExporterInput{
		CollectorAddress:    ln.Addr().String(),
		CollectorProtocol:   "tcp",
		ObservationDomainID: 1,
	})
	if err != nil {
		t.Fatal(err)
	}
	defer ep.CloseConnToCollector()

	addrIE, err := registry.GetInfoElement("sourceIPv4Address", registry.IANAEnterpriseID)
	if err != nil {
		t.Fatal(err)
	}
	nameIE, err := registry.GetInfoElement("interfaceName", registry.IANAEnterpriseID)
	if err != nil {
		t.Fatal(err)
	}
	templateID := ep.NewTemplateID()
	tmpl, err := entities.MakeTemplateSet(templateID, []*entities.InfoElement{addrIE, nameIE})
	if err != nil {
		t.Fatal(err)
	}
	if _, err := ep.SendSet(tmpl); err != nil {
		t.Fatal(err)
	}

	set := entities.NewSet(false)
	if err := set.PrepareSet(entities.Data, templateID); err != nil {
		t.Fatal(err)
	}
	// The flow key first, room for one element that is filled in later (e.g. after a lookup).
	first := []entities.InfoElementWithValue{entities.NewIPAddressInfoElement(addrIE, net.ParseIP("10.0.0.1"))}
	if err := set.AddRecordWithExtraElements(first, 1, templateID); err != nil {
		t.Fatal(err)
	}
	rec := set.GetRecords()[0]
	name := entities.NewStringInfoElement(nameIE, "eth0")
	if err := rec.AddInfoElement(name); err != nil {
		t.Fatal(err)
	}
	wantRecLen := 4 + name.GetLength()
	if rec.GetRecordLength() != wantRecLen || len(rec.GetBuffer()) != wantRecLen {
		t.Fatalf("record length %d / buffer %d, want %d", rec.GetRecordLength(), len(rec.GetBuffer()), wantRecLen)
	}
	if got, want := set.GetSetLength(), entities.SetHeaderLen+wantRecLen; got != want {
		t.Errorf("set reports length %d but its header and record take %d bytes", got, want)
	}
	func() {
		defer func() {
			if r := recover(); r != nil {
				t.Fatalf("SendSet panicked: %v", r)
			}
		}()
		n, err := ep.SendSet(set)
		if err == nil && n != entities.MsgHeaderLength+entities.SetHeaderLen+wantRecLen {
			t.Fatalf("SendSet wrote %d bytes, the message needs %d", n, entities.MsgHeaderLength+entities.SetHeaderLen+wantRecLen)
		}
	}()
}
