// Finding 2 for property C07 (UNCHANGED library).
//
// Place:   copy to WT/pkg/intermediate/finding2_test.go (package intermediate; only the public
//
//	API of the package is used)
//
// Run:     cd WT && go test -count=1 -timeout 110s -run 'TestFinding2RepeatFromSameNodeBeforePeer' ./pkg/intermediate
//
// Clause:  "the merged record then carries every non-empty correlated field from either side and
//
//	is marked filled", quantified "for all arrival orders and multiplicities of
//	source-node and destination-node records of a flow".
//
// What happens: while an inter-node flow waits for its peer, a further record from the SAME node
// only goes through aggregateRecords (statistics); its correlate fields are not looked at. The
// record kept in the map is the node's FIRST record. If that first record had a correlate field
// still empty and a later record of the same node has it filled (the exporter resolved the
// namespace / Service port name / policy name only after its first export of the connection),
// the value is dropped; when the peer then arrives the flow is merged, marked ReadyToSend and
// areCorrelatedFieldsFilled and exported - without a non-empty correlated field which its own
// side did report before the merge. With a single record per node carrying the same values the
// merged record has them, so the result depends on the multiplicity.
//
// Why the input is legitimate: every record is a well-formed record of the same flow from the
// same exporter and template, each is accepted without error, and repeats from one node before
// the other node reports are the normal case (each node exports a long-lived connection every
// active timeout). An exporter fills sourcePodNamespace / destinationServicePortName from caches
// which may lag behind the connection; empty-then-filled is therefore an ordinary history.
//
// Result on the clean tree: FAIL in "source, source (now with namespace and service), destination"
// and in the mirrored order; the one-record-per-node control passes.
package intermediate

import (
	"net"
	"testing"
	"time"

	"github.com/vmware/go-ipfix/pkg/entities"
	"github.com/vmware/go-ipfix/pkg/registry"
)

type finding2Rec struct {
	srcPod, srcNS, dstPod, dstNS, svcPortName string
	end                                       uint32
}

func finding2Message(t *testing.T, r finding2Rec) *entities.Message {
	iana, antrea := registry.IANAEnterpriseID, registry.AntreaEnterpriseID
	fields := []struct {
		name string
		ent  uint32
		val  interface{}
	}{
		{"sourceIPv4Address", iana, net.ParseIP("10.0.1.1").To4()},
		{"destinationIPv4Address", iana, net.ParseIP("10.0.2.2").To4()},
		{"sourceTransportPort", iana, uint16(43210)},
		{"destinationTransportPort", iana, uint16(8080)},
		{"protocolIdentifier", iana, uint8(6)},
		{"flowStartSeconds", iana, uint32(1000)},
		{"flowEndSeconds", iana, r.end},
		{"sourcePodName", antrea, r.srcPod},
		{"sourcePodNamespace", antrea, r.srcNS},
		{"destinationPodName", antrea, r.dstPod},
		{"destinationPodNamespace", antrea, r.dstNS},
		{"destinationServicePortName", antrea, r.svcPortName},
		{"flowType", antrea, registry.FlowTypeInterNode},
		{"ingressNetworkPolicyRuleAction", antrea, registry.NetworkPolicyRuleActionNoAction},
		{"egressNetworkPolicyRuleAction", antrea, registry.NetworkPolicyRuleActionNoAction},
	}
	elements := make([]entities.InfoElementWithValue, 0, len(fields))
	for _, f := range fields {
		ie, err := registry.GetInfoElement(f.name, f.ent)
		if err != nil {
			t.Fatal(err)
		}
		switch v := f.val.(type) {
		case net.IP:
			elements = append(elements, entities.NewIPAddressInfoElement(ie, v))
		case uint8:
			elements = append(elements, entities.NewUnsigned8InfoElement(ie, v))
		case uint16:
			elements = append(elements, entities.NewUnsigned16InfoElement(ie, v))
		case uint32:
			elements = append(elements, entities.NewDateTimeSecondsInfoElement(ie, v))
		case string:
			elements = append(elements, entities.NewStringInfoElement(ie, v))
		}
	}
	set := entities.NewSet(true)
	if err := set.PrepareSet(entities.Data, 256); err != nil {
		t.Fatal(err)
	}
	if err := set.AddRecord(elements, 256); err != nil {
		t.Fatal(err)
	}
	msg := entities.NewMessage(true)
	msg.AddSet(set)
	return msg
}

func TestFinding2RepeatFromSameNodeBeforePeer(t *testing.T) {
	registry.LoadRegistry()
	correlate := []string{"sourcePodName", "sourcePodNamespace", "destinationPodName", "destinationPodNamespace", "destinationServicePortName"}

	src1 := finding2Rec{srcPod: "client", end: 1010}                                                  // namespace and Service not resolved yet
	src2 := finding2Rec{srcPod: "client", srcNS: "shop", svcPortName: "shop/backend:http", end: 1020} // resolved
	dst1 := finding2Rec{dstPod: "server", end: 1010}
	dst2 := finding2Rec{dstPod: "server", dstNS: "shop", end: 1020}

	cases := []struct {
		name    string
		records []finding2Rec
	}{
		{"control: one record per node", []finding2Rec{src2, dst2}},
		{"source, source, destination", []finding2Rec{src1, src2, dst2}},
		{"destination, destination, source", []finding2Rec{dst1, dst2, src2}},
	}
	for _, tc := range cases {
		t.Run(tc.name, func(t *testing.T) {
			ap, err := InitAggregationProcess(AggregationInput{
				MessageChan:           make(chan *entities.Message),
				WorkerNum:             1,
				CorrelateFields:       correlate,
				ActiveExpiryTimeout:   20 * time.Millisecond,
				InactiveExpiryTimeout: time.Minute,
			})
			if err != nil {
				t.Fatal(err)
			}
			for i, r := range tc.records {
				if err := ap.AggregateMsgByFlowKey(finding2Message(t, r)); err != nil {
					t.Fatalf("record %d refused: %v", i, err)
				}
				if i < len(tc.records)-1 {
					// one side only so far: nothing may be exported
					_ = ap.ForAllRecordsDo(func(key FlowKey, rec *AggregationFlowRecord) error {
						if rec.ReadyToSend {
							t.Errorf("flow ready after %d record(s) of one node", i+1)
						}
						return nil
					})
				}
			}
			time.Sleep(40 * time.Millisecond)
			exported := 0
			err = ap.ForAllExpiredFlowRecordsDo(func(key FlowKey, rec *AggregationFlowRecord) error {
				exported++
				if !rec.ReadyToSend || !ap.AreCorrelatedFieldsFilled(*rec) {
					t.Errorf("exported flow: ReadyToSend=%v filled=%v", rec.ReadyToSend, ap.AreCorrelatedFieldsFilled(*rec))
				}
				return nil
			})
			if err != nil || exported != 1 {
				t.Fatalf("expected one exported flow: exported=%d err=%v", exported, err)
			}
			m := ap.GetRecords(nil)[0]
			want := map[string]string{
				"sourcePodName":              "client",
				"sourcePodNamespace":         "shop",
				"destinationPodName":         "server",
				"destinationPodNamespace":    "shop",
				"destinationServicePortName": "shop/backend:http",
			}
			for name, w := range want {
				if m[name] != w {
					t.Errorf("merged record, exported as filled: %s = %q, but a record received before the merge carried %q", name, m[name], w)
				}
			}
		})
	}
}
