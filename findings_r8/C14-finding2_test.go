// FINDING 2 (property C14), on the CLEAN tree.
//
// Place:   cp OUT/finding2_test.go WT/pkg/exporter/finding2_test.go
// Run:     cd WT && go test -race -count=1 -timeout 120s -run 'TestFinding2_' ./pkg/exporter
//
// Clause:  "over UDP every template sent so far is retransmitted each refresh interval as
//           well-formed messages" and the opening sentence "An exporting process's own
//           background work never corrupts what the application sends".
//
// What happens: SendSet accepts, transmits and registers a template that names an element of a
// data type for which entities.DecodeAndCreateInfoElementWithValue has no case
// (dateTimeMicroseconds / dateTimeNanoseconds, e.g. IANA flowStartMicroseconds (154),
// or basicList (291), subTemplateList, subTemplateMultiList). Nothing is wrong with the template
// on the wire. At the first refresh tick sendRefreshedTemplates rebuilds every registered
// template through entities.MakeTemplateSet, which goes through exactly that function, fails
// ("API does not support micro and nano seconds types yet"), and the refresh goroutine reacts by
// CLOSING THE CONNECTION and exiting. From then on
//   - no template at all is retransmitted any more (also not the ordinary ones), and
//   - every SendSet of the application fails with "use of closed network connection",
//     including data sets for ordinary templates that have nothing to do with the element.
// (Fix 89741cb repaired the mutex that this path left locked; the path still shuts the whole
// exporter down. With the mutex repaired the shutdown is what is observable now.)
//
// Why legitimate: every call is accepted by the library. The elements are in the IANA registry
// shipped with the library (registry.GetInfoElement returns them); a template is a list of
// (id, length[, enterprise]) and needs no value, so the value-carrying wrapper only has to say
// "empty" - NewUnsigned64InfoElement(ie, 0) does (application-defined implementations of
// InfoElementWithValue would do as well). An exporter that announces flowStartMicroseconds is
// ordinary IPFIX. The same template over TCP (no refresh goroutine) works indefinitely.
package exporter

import (
	"encoding/binary"
	"net"
	"testing"
	"time"

	"github.com/vmware/go-ipfix/pkg/entities"
	"github.com/vmware/go-ipfix/pkg/registry"
)

func TestFinding2_RefreshShutsTheExporterDownForATemplateItCannotRebuild(t *testing.T) {
	registry.LoadRegistry()
	server, err := net.ListenUDP("udp", &net.UDPAddr{IP: net.IPv4(127, 0, 0, 1)})
	if err != nil {
		t.Fatal(err)
	}
	defer server.Close()

	// What arrives at the collector: template ids of template sets, over time.
	type arrival struct {
		at time.Time
		id uint16
	}
	arrivals := make(chan arrival, 64)
	go func() {
		buf := make([]byte, 65535)
		for {
			n, _, err := server.ReadFromUDP(buf)
			if err != nil {
				close(arrivals)
				return
			}
			if n >= 24 && binary.BigEndian.Uint16(buf[16:18]) == entities.TemplateSetID {
				arrivals <- arrival{time.Now(), binary.BigEndian.Uint16(buf[20:22])}
			}
		}
	}()

	ep, err := InitExportingProcess(ExporterInput{
		CollectorAddress:    server.LocalAddr().String(),
		CollectorProtocol:   "udp",
		ObservationDomainID: 1,
		TempRefTimeout:      1,
	})
	if err != nil {
		t.Fatal(err)
	}
	defer ep.CloseConnToCollector()
	start := time.Now()

	// Template A: perfectly ordinary.
	srcIE, err := registry.GetInfoElement("sourceIPv4Address", registry.IANAEnterpriseID)
	if err != nil {
		t.Fatal(err)
	}
	idA := ep.NewTemplateID()
	setA, err := entities.MakeTemplateSet(idA, []*entities.InfoElement{srcIE})
	if err != nil {
		t.Fatal(err)
	}
	if _, err := ep.SendSet(setA); err != nil {
		t.Fatalf("template A refused: %v", err)
	}

	// Template B: sourceIPv4Address, flowStartMicroseconds (IANA 154, dateTimeMicroseconds).
	usIE, err := registry.GetInfoElement("flowStartMicroseconds", registry.IANAEnterpriseID)
	if err != nil {
		t.Fatal(err)
	}
	idB := ep.NewTemplateID()
	setB := entities.NewSet(false)
	if err := setB.PrepareSet(entities.Template, idB); err != nil {
		t.Fatal(err)
	}
	if err := setB.AddRecord([]entities.InfoElementWithValue{
		entities.NewIPAddressInfoElement(srcIE, nil),
		entities.NewUnsigned64InfoElement(usIE, 0),
	}, idB); err != nil {
		t.Fatalf("template B refused by the set: %v", err)
	}
	if _, err := ep.SendSet(setB); err != nil {
		t.Fatalf("template B refused by the exporter: %v", err)
	}

	sendDataA := func() error {
		ds, err := entities.MakeDataSet(idA, []entities.InfoElementWithValue{
			entities.NewIPAddressInfoElement(srcIE, net.IPv4(10, 0, 0, 1).To4()),
		})
		if err != nil {
			return err
		}
		_, err = ep.SendSet(ds)
		return err
	}
	if err := sendDataA(); err != nil {
		t.Fatalf("data for template A before the first refresh tick: %v", err)
	}

	// Let two refresh intervals pass.
	time.Sleep(2500 * time.Millisecond)

	errAfter := sendDataA()

	server.Close()
	retransmitted := map[uint16]int{}
	for a := range arrivals {
		if a.at.Sub(start) > 500*time.Millisecond { // not the original transmission
			retransmitted[a.id]++
		}
	}
	if errAfter != nil || retransmitted[idA] < 2 || retransmitted[idB] < 2 {
		t.Fatalf("after two refresh intervals: SendSet of a data set for the ordinary template A returned %v; "+
			"retransmissions seen by the collector: template A %d, template B %d (expected 2 of each); exporter closed itself: %v",
			errAfter, retransmitted[idA], retransmitted[idB], ep.isClosed.Load())
	}
}
