// Finding 4 for property C09 (CLEAN tree): NewTemplateID wraps around. After 65280 ids it
// hands out 0, 1, 2, ... 255 (reserved Set IDs; 2 is the Set ID of template sets) and then
// ids that are still in use.
//
// Place:  cp OUT/finding4_test.go WT/pkg/exporter/finding4_test.go
// Run:    cd WT && go test -count=1 -timeout 120s -run 'TestFinding4TemplateIDsWrapAround' ./pkg/exporter
//
// Clauses: (i) title / "later sends still produce well-formed messages": with an id below 256
// from NewTemplateID the exporter transmits a "data set" whose Set ID is 2, i.e. what every
// receiver parses as a template set (or Set ID 0/1/4..255, which RFC 7011 reserves).
// (ii) "never transmits a data set unless a template with that id was previously sent ... and
// every record has that template's field count": when the counter comes round to an id that
// is still registered, the template the application sends under the id the LIBRARY chose is
// transmitted but not recorded (updateTemplate keeps the first one), so records of the
// template just sent are refused and records with the stale template's field count are
// transmitted under an id whose current template has another field count.
// Why the input is legitimate: NewTemplateID is the library's own allocator, every call and
// every send is accepted, and nothing documents a limit on the number of calls. An exporter
// that allocates an id per (re)built template (e.g. once per configuration change, or per
// reconnect) gets there in a long-lived process; the loop below needs a few milliseconds.
// This is not the application re-defining a template id: the application never chooses an id.
package exporter

import (
	"encoding/binary"
	"io"
	"net"
	"testing"
	"time"

	"github.com/vmware/go-ipfix/pkg/entities"
)

func f4ReadMsg(t *testing.T, conn net.Conn) []byte {
	t.Helper()
	_ = conn.SetReadDeadline(time.Now().Add(5 * time.Second))
	hdr := make([]byte, 16)
	if _, err := io.ReadFull(conn, hdr); err != nil {
		t.Fatalf("reading a message at the peer: %v", err)
	}
	body := make([]byte, int(binary.BigEndian.Uint16(hdr[2:4]))-16)
	if _, err := io.ReadFull(conn, body); err != nil {
		t.Fatalf("reading a message at the peer: %v", err)
	}
	return append(hdr, body...)
}

func f4Template(t *testing.T, id uint16, ies ...*entities.InfoElement) entities.Set {
	s := entities.NewSet(false)
	if err := s.PrepareSet(entities.Template, id); err != nil {
		t.Fatal(err)
	}
	elems := make([]entities.InfoElementWithValue, len(ies))
	for i, ie := range ies {
		elems[i] = entities.NewUnsigned64InfoElement(ie, 0)
	}
	if err := s.AddRecord(elems, id); err != nil {
		t.Fatal(err)
	}
	return s
}

func f4Data(t *testing.T, id uint16, ies ...*entities.InfoElement) entities.Set {
	s := entities.NewSet(false)
	if err := s.PrepareSet(entities.Data, id); err != nil {
		t.Fatal(err)
	}
	elems := make([]entities.InfoElementWithValue, len(ies))
	for i, ie := range ies {
		elems[i] = entities.NewUnsigned64InfoElement(ie, uint64(i+1))
	}
	if err := s.AddRecord(elems, id); err != nil {
		t.Fatal(err)
	}
	return s
}

func TestFinding4TemplateIDsWrapAround(t *testing.T) {
	ln, err := net.Listen("tcp", "127.0.0.1:0")
	if err != nil {
		t.Fatal(err)
	}
	defer ln.Close()
	ep, err := InitExportingProcess(ExporterInput{CollectorAddress: ln.Addr().String(), CollectorProtocol: "tcp"})
	if err != nil {
		t.Fatal(err)
	}
	defer ep.CloseConnToCollector()
	peer, err := ln.Accept()
	if err != nil {
		t.Fatal(err)
	}
	defer peer.Close()
	octets := entities.NewInfoElement("octetDeltaCount", 1, entities.Unsigned64, 0, 8)
	packets := entities.NewInfoElement("packetDeltaCount", 2, entities.Unsigned64, 0, 8)

	// The first template of the process: one field, id 256, stays in use.
	first := ep.NewTemplateID()
	if _, err := ep.SendSet(f4Template(t, first, octets)); err != nil {
		t.Fatal(err)
	}
	f4ReadMsg(t, peer)

	seen := map[uint16]bool{first: true}
	var reserved []uint16
	var reused uint16
	for i := 0; i < 65536 && reused == 0; i++ {
		id := ep.NewTemplateID()
		if id < 256 {
			reserved = append(reserved, id)
		}
		if seen[id] {
			reused = id
		}
		seen[id] = true
	}
	if len(reserved) > 0 {
		t.Errorf("(i) NewTemplateID handed out %d ids below 256 (reserved Set IDs), the first ones %v", len(reserved), reserved[:4])
		// What goes out for one of them:
		if _, err := ep.SendSet(f4Template(t, 2, octets)); err != nil {
			t.Logf("template with id 2 refused: %v", err)
		} else {
			f4ReadMsg(t, peer)
			if _, err := ep.SendSet(f4Data(t, 2, octets)); err == nil {
				msg := f4ReadMsg(t, peer)
				t.Errorf("(i) data set for the id 2 that NewTemplateID returned was transmitted with Set ID %d, the Set ID of template sets: %x", binary.BigEndian.Uint16(msg[16:18]), msg[16:])
			}
		}
	}
	if reused != 0 {
		t.Errorf("(ii) NewTemplateID returned %d, which it had returned before and which is still registered", reused)
		// The application defines its next template, two fields, under the id it was given.
		if _, err := ep.SendSet(f4Template(t, reused, octets, packets)); err != nil {
			t.Fatalf("template refused: %v", err)
		}
		f4ReadMsg(t, peer)
		if _, err := ep.SendSet(f4Data(t, reused, octets, packets)); err != nil {
			t.Errorf("(ii) a record of the two-field template %d that was just transmitted is refused: %v", reused, err)
		} else {
			f4ReadMsg(t, peer)
		}
		if _, err := ep.SendSet(f4Data(t, reused, octets)); err == nil {
			msg := f4ReadMsg(t, peer)
			t.Errorf("(ii) a one-field record was transmitted in a data set for id %d, whose template as last transmitted has two fields: %x", reused, msg[16:])
		}
	}
}
