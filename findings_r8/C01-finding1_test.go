// FINDING 1 (property C01) - clean tree.
//
// Place:   cp OUT/finding1_test.go WT/pkg/collector/finding1_test.go
// Run:     cd WT && go test -count=1 -timeout 120s -run 'TestFinding1' ./pkg/collector
//
// Clause:  "the same number of records, and every field value bit-identical - over TCP, UDP,
//          TLS and DTLS alike ... any record count that fits one message".
//
// One template (sourceIPv4Address, destinationIPv4Address, octetDeltaCount: 16-byte records) and
// ONE data set of 600 records (9620-byte message; the library's limit, GetMsgSizeLimit, is 65535
// and a UDP datagram carries 65507) are handed to an exporting process connected over DTLS to a
// collecting process with MaxBufferSize 65535. SendSet returns the full length and no error,
// the collector never delivers the data set: the DTLS layer used on both ends reads datagrams
// into an 8192-byte buffer, so the record arrives truncated, fails authentication and is
// dropped silently. The same set is delivered over plain UDP (control, in the same test).
// A further small data set sent afterwards IS delivered, so the loss is silent for both ends.
//
// Legitimate: every step is accepted by the library, the set fits one message by the
// library's own limit, and sets of some hundred records per message are what an exporter
// batching flow records produces.
package collector

import (
	"crypto/ecdsa"
	"crypto/elliptic"
	"crypto/rand"
	"crypto/x509"
	"crypto/x509/pkix"
	"encoding/pem"
	"math/big"
	"net"
	"testing"
	"time"

	"github.com/vmware/go-ipfix/pkg/entities"
	"github.com/vmware/go-ipfix/pkg/exporter"
	"github.com/vmware/go-ipfix/pkg/registry"
)

func f1Cert(t *testing.T) (certPEM, keyPEM []byte) {
	key, err := ecdsa.GenerateKey(elliptic.P256(), rand.Reader)
	if err != nil {
		t.Fatal(err)
	}
	tmpl := &x509.Certificate{
		SerialNumber:          big.NewInt(1),
		Subject:               pkix.Name{CommonName: "127.0.0.1"},
		NotBefore:             time.Now().Add(-time.Hour),
		NotAfter:              time.Now().Add(time.Hour),
		KeyUsage:              x509.KeyUsageDigitalSignature | x509.KeyUsageCertSign,
		ExtKeyUsage:           []x509.ExtKeyUsage{x509.ExtKeyUsageServerAuth},
		BasicConstraintsValid: true,
		IsCA:                  true,
		IPAddresses:           []net.IP{net.ParseIP("127.0.0.1")},
		DNSNames:              []string{"localhost"},
	}
	der, err := x509.CreateCertificate(rand.Reader, tmpl, tmpl, &key.PublicKey, key)
	if err != nil {
		t.Fatal(err)
	}
	kb, err := x509.MarshalECPrivateKey(key)
	if err != nil {
		t.Fatal(err)
	}
	return pem.EncodeToMemory(&pem.Block{Type: "CERTIFICATE", Bytes: der}),
		pem.EncodeToMemory(&pem.Block{Type: "EC PRIVATE KEY", Bytes: kb})
}

func f1Run(t *testing.T, encrypted bool, numRecords int) (delivered int, followUp bool) {
	registry.LoadRegistry()
	in := CollectorInput{Address: "127.0.0.1:0", Protocol: "udp", MaxBufferSize: 65535, IsEncrypted: encrypted}
	var certPEM []byte
	if encrypted {
		var keyPEM []byte
		certPEM, keyPEM = f1Cert(t)
		in.ServerCert, in.ServerKey = certPEM, keyPEM
	}
	cp, err := InitCollectingProcess(in)
	if err != nil {
		t.Fatal(err)
	}
	go cp.Start()
	for i := 0; cp.GetAddress() == nil; i++ {
		if i > 500 {
			t.Fatal("collector did not start")
		}
		time.Sleep(10 * time.Millisecond)
	}
	defer cp.Stop()

	ein := exporter.ExporterInput{CollectorAddress: cp.GetAddress().String(), CollectorProtocol: "udp", ObservationDomainID: 7}
	if encrypted {
		ein.TLSClientConfig = &exporter.ExporterTLSClientConfig{CAData: certPEM}
	}
	ep, err := exporter.InitExportingProcess(ein)
	if err != nil {
		t.Fatal(err)
	}
	defer ep.CloseConnToCollector()

	names := []string{"sourceIPv4Address", "destinationIPv4Address", "octetDeltaCount"}
	ies := make([]*entities.InfoElement, len(names))
	for i, n := range names {
		if ies[i], err = registry.GetInfoElement(n, registry.IANAEnterpriseID); err != nil {
			t.Fatal(err)
		}
	}
	id := ep.NewTemplateID()
	tset, err := entities.MakeTemplateSet(id, ies)
	if err != nil {
		t.Fatal(err)
	}
	mkSet := func(n int) entities.Set {
		s := entities.NewSet(false)
		if err := s.PrepareSet(entities.Data, id); err != nil {
			t.Fatal(err)
		}
		for r := 0; r < n; r++ {
			els := []entities.InfoElementWithValue{
				entities.NewIPAddressInfoElement(ies[0], net.IPv4(10, 0, byte(r>>8), byte(r)).To4()),
				entities.NewIPAddressInfoElement(ies[1], net.IPv4(10, 1, byte(r>>8), byte(r)).To4()),
				entities.NewUnsigned64InfoElement(ies[2], uint64(r)+1),
			}
			if err := s.AddRecord(els, id); err != nil {
				t.Fatal(err)
			}
		}
		return s
	}
	recv := func(d time.Duration) *entities.Message {
		select {
		case m := <-cp.GetMsgChan():
			return m
		case <-time.After(d):
			return nil
		}
	}

	if _, err := ep.SendSet(tset); err != nil {
		t.Fatal(err)
	}
	if m := recv(5 * time.Second); m == nil || m.GetSet().GetSetType() != entities.Template {
		t.Fatalf("template not delivered: %v", m)
	}
	big := mkSet(numRecords)
	n, err := ep.SendSet(big)
	if err != nil {
		t.Fatalf("SendSet refused the set (that would be fine for the property): %v", err)
	}
	t.Logf("encrypted=%v: SendSet accepted %d records, %d bytes, err=nil", encrypted, numRecords, n)
	if m := recv(3 * time.Second); m != nil {
		delivered = int(m.GetSet().GetNumberOfRecords())
		recs := m.GetSet().GetRecords()
		for r, rec := range recs {
			if v := rec.GetOrderedElementList()[2].GetUnsigned64Value(); v != uint64(r)+1 {
				t.Fatalf("record %d: octetDeltaCount %d", r, v)
			}
		}
	}
	if delivered == 0 {
		// is the session still alive?
		if _, err := ep.SendSet(mkSet(1)); err == nil {
			if m := recv(3 * time.Second); m != nil && m.GetSet().GetNumberOfRecords() == 1 {
				followUp = true
			}
		}
	}
	return delivered, followUp
}

func TestFinding1_DTLSDropsSetsAbove8KiB(t *testing.T) {
	const numRecords = 600 // 16 + 4 + 600*16 = 9620 bytes
	if got, _ := f1Run(t, false, numRecords); got != numRecords {
		t.Fatalf("control over plain udp: %d of %d records delivered", got, numRecords)
	}
	got, followUp := f1Run(t, true, numRecords)
	if got != numRecords {
		t.Fatalf("dtls: SendSet reported success for %d records (9620-byte message) but the collector delivered %d of them (a later 1-record set on the same session delivered: %v)", numRecords, got, followUp)
	}
}
