// Finding 2 for property C12 (round 8) - on the CLEAN tree.
//
// Place:  cp OUT/finding2_test.go WT/cmd/collector/finding2_test.go
// Run:    cd WT && go test -count=1 -timeout 110s -run 'TestFinding2StandaloneCollectorStopsUnderTraffic' ./cmd/collector
//         (needs TCP port 8080 to be free: run() binds it unconditionally; the test is skipped otherwise)
//
// Clause: "Stop returns promptly even with clients connected or mid-message, provided the
// consumer keeps draining" - here the consumer is the library's OWN standalone collector
// (cmd/collector), and it is that component which stops draining, so that its own call of
// CollectingProcess.Stop never returns: the two components of the library disagree about
// the contract between them.
//
// cmd/collector/collector.go: signalHandler() is the only receiver of the messageReceived
// channel; on SIGINT/SIGTERM it closes stopCh and RETURNS. From then on the relay goroutine
// in run() (`for message := range msgChan { messageReceived <- message }`) blocks on the
// first message it takes over, nobody reads cp.GetMsgChan() any more, and the collector's
// reader goroutine of a connection that still has a complete message (in flight or in its
// bufio buffer) blocks in `cp.messageChan <- message` while holding the wait group.
// run() then calls cp.Stop(), which waits on that wait group forever: the process does not
// terminate on SIGTERM whenever an exporter is sending at that moment (it needs SIGKILL; in
// Kubernetes that is the full termination grace period for every restart).
//
// The input is as ordinary as it gets: one exporter sending data records over TCP while the
// collector receives SIGTERM.
package main

import (
	"encoding/binary"
	"net"
	"os"
	"os/signal"
	"sync/atomic"
	"syscall"
	"testing"
	"time"
)

func finding2Message(seq uint32, setID uint16, body []byte) []byte {
	msg := make([]byte, 20+len(body))
	binary.BigEndian.PutUint16(msg[0:], 10)
	binary.BigEndian.PutUint16(msg[2:], uint16(len(msg)))
	binary.BigEndian.PutUint32(msg[4:], 1700000000)
	binary.BigEndian.PutUint32(msg[8:], seq)
	binary.BigEndian.PutUint32(msg[12:], 1)
	binary.BigEndian.PutUint16(msg[16:], setID)
	binary.BigEndian.PutUint16(msg[18:], uint16(4+len(body)))
	copy(msg[20:], body)
	return msg
}

func TestFinding2StandaloneCollectorStopsUnderTraffic(t *testing.T) {
	// run() binds :8080 and calls klog.Fatalf when it cannot.
	if l, err := net.Listen("tcp", ":8080"); err != nil {
		t.Skipf("port 8080 is in use, cannot start the standalone collector: %v", err)
	} else {
		l.Close()
	}
	// Make sure SIGTERM can never terminate the test binary itself.
	guard := make(chan os.Signal, 4)
	signal.Notify(guard, syscall.SIGTERM)
	defer signal.Stop(guard)

	// a free port for the IPFIX side
	l, err := net.Listen("tcp", "127.0.0.1:0")
	if err != nil {
		t.Fatal(err)
	}
	port := l.Addr().(*net.TCPAddr).Port
	l.Close()
	IPFIXAddr, IPFIXPort, IPFIXTransport = "127.0.0.1", uint16(port), "tcp"

	runReturned := make(chan error, 1)
	go func() { runReturned <- run() }()

	// the exporter
	var conn net.Conn
	for i := 0; i < 200; i++ {
		if conn, err = net.Dial("tcp", l.Addr().String()); err == nil {
			break
		}
		time.Sleep(25 * time.Millisecond)
	}
	if err != nil {
		t.Fatalf("cannot connect to the standalone collector: %v", err)
	}
	defer conn.Close()
	// template 256: sourceIPv4Address(8)/4, destinationIPv4Address(12)/4
	if _, err := conn.Write(finding2Message(0, 2, []byte{1, 0, 0, 2, 0, 8, 0, 4, 0, 12, 0, 4})); err != nil {
		t.Fatal(err)
	}
	var sent atomic.Int64
	stopSending := make(chan struct{})
	defer close(stopSending)
	go func() {
		for i := 0; ; i++ {
			select {
			case <-stopSending:
				return
			default:
			}
			// an exporter under load: it writes its messages back to back (20 per write)
			var out []byte
			for k := 0; k < 20; k++ {
				n := i*20 + k
				out = append(out, finding2Message(uint32(n), 256, []byte{10, 0, byte(n >> 8), byte(n), 10, 1, byte(n >> 8), byte(n)})...)
			}
			if _, err := conn.Write(out); err != nil {
				return // the collector closed the connection: it is shutting down
			}
			sent.Add(20)
		}
	}()

	// wait until records arrive in the collector's store (signalHandler is running by then)
	deadline := time.Now().Add(10 * time.Second)
	for {
		mutex.Lock()
		n := len(flowRecords)
		mutex.Unlock()
		if n >= 50 {
			break
		}
		if time.Now().After(deadline) {
			t.Fatalf("the standalone collector stored only %d records", n)
		}
		time.Sleep(10 * time.Millisecond)
	}

	// SIGTERM, as sent by an init system or by the kubelet
	if err := syscall.Kill(os.Getpid(), syscall.SIGTERM); err != nil {
		t.Fatal(err)
	}
	select {
	case err := <-runReturned:
		t.Logf("run() returned %v after SIGTERM (%d messages sent)", err, sent.Load())
	case <-time.After(20 * time.Second):
		t.Errorf("the standalone collector did not terminate within 20 s of SIGTERM while one exporter was sending (%d messages sent): "+
			"signalHandler has returned, nobody drains the message channel, and CollectingProcess.Stop waits for a reader goroutine that is blocked handing over a message", sent.Load())
	}
}
