// FINDING 1 (clean tree) for property C13.
//
// Place at:  WT/pkg/intermediate/finding1_test.go
// Run:       cd WT && go test -race -count=1 -timeout 120s -run 'TestFinding1' ./pkg/intermediate
//
// Clause violated: "Concurrent record ingestion by any number of workers [the built-in worker
// pool] ... behave as if executed one at a time in some order consistent with real time: the
// final state ... equal[s] what a sequential execution of the same operations would produce."
//
// Input / schedule: the documented usage is `go ap.Start()` followed, at some later moment, by
// `ap.Stop()`. When Stop is the first of the two to take the process mutex (which is what
// happens when the goroutine started by `go ap.Start()` has not been scheduled yet - a process
// that is shut down right after it was started, or any test which does `go ap.Start();
// defer ap.Stop()` and returns at once), Stop takes a snapshot of an EMPTY worker list, stops
// nobody and blocks on stopChan. Start then creates and starts the WorkerNum workers, takes the
// stop signal from stopChan and returns. Both calls have now returned, the process counts as
// stopped - but all its workers are alive: they keep taking messages from the channel and keep
// changing the flow map for ever (and can never be stopped: a second Stop blocks for ever on
// stopChan because nobody is in Start any more).
//
// Every sequential order of {Start, Stop, send(m)} that is consistent with real time has the
// send after Stop returned, so m must not be ingested and the final state must be empty.
//
// The test has two parts:
//   - TestFinding1_StopBeforeStart: deterministic schedule (Stop is given 50 ms head start).
//   - TestFinding1_NaturalRace: the plain `go ap.Start(); ap.Stop()` without any delay, 50 times;
//     reports how often the pool survived.
package intermediate

import (
	"net"
	"testing"
	"time"

	"github.com/vmware/go-ipfix/pkg/entities"
	"github.com/vmware/go-ipfix/pkg/registry"
)

func finding1Msg(t testing.TB, srcPort uint16) *entities.Message {
	registry.LoadRegistry()
	mk := func(name string, ent uint32) *entities.InfoElement {
		ie, err := registry.GetInfoElement(name, ent)
		if err != nil {
			t.Fatalf("%s: %v", name, err)
		}
		return ie
	}
	elements := []entities.InfoElementWithValue{
		entities.NewIPAddressInfoElement(mk("sourceIPv4Address", registry.IANAEnterpriseID), net.ParseIP("10.0.0.1").To4()),
		entities.NewIPAddressInfoElement(mk("destinationIPv4Address", registry.IANAEnterpriseID), net.ParseIP("10.0.0.2").To4()),
		entities.NewUnsigned16InfoElement(mk("sourceTransportPort", registry.IANAEnterpriseID), srcPort),
		entities.NewUnsigned16InfoElement(mk("destinationTransportPort", registry.IANAEnterpriseID), 5678),
		entities.NewUnsigned8InfoElement(mk("protocolIdentifier", registry.IANAEnterpriseID), 6),
		entities.NewUnsigned8InfoElement(mk("flowType", registry.AntreaEnterpriseID), registry.FlowTypeIntraNode),
	}
	set := entities.NewSet(true)
	if err := set.PrepareSet(entities.Data, 256); err != nil {
		t.Fatal(err)
	}
	if err := set.AddRecord(elements, 256); err != nil {
		t.Fatal(err)
	}
	msg := entities.NewMessage(true)
	msg.AddSet(set)
	return msg
}

// stoppedPoolIngests returns true when a message offered AFTER both Start and Stop returned is
// still taken from the channel and ends up in the flow map.
func stoppedPoolIngests(t *testing.T, stopHeadStart time.Duration) bool {
	ch := make(chan *entities.Message)
	ap, err := InitAggregationProcess(AggregationInput{
		MessageChan:           ch,
		WorkerNum:             2,
		ActiveExpiryTimeout:   time.Minute,
		InactiveExpiryTimeout: time.Minute,
	})
	if err != nil {
		t.Fatal(err)
	}
	startReturned := make(chan struct{})
	stopReturned := make(chan struct{})
	if stopHeadStart > 0 {
		go func() { ap.Stop(); close(stopReturned) }()
		time.Sleep(stopHeadStart)
		go func() { ap.Start(); close(startReturned) }()
	} else {
		// the documented usage, nothing else
		go func() { ap.Start(); close(startReturned) }()
		ap.Stop()
		close(stopReturned)
	}
	for _, c := range []chan struct{}{stopReturned, startReturned} {
		select {
		case <-c:
		case <-time.After(10 * time.Second):
			t.Fatal("Start/Stop did not return")
		}
	}
	// The process is stopped. Nobody may take a message from the channel any more.
	select {
	case ch <- finding1Msg(t, 1234):
	case <-time.After(300 * time.Millisecond):
		return false // correct: nobody listens
	}
	deadline := time.Now().Add(2 * time.Second)
	for time.Now().Before(deadline) && ap.GetNumFlows() == 0 {
		time.Sleep(5 * time.Millisecond)
	}
	return ap.GetNumFlows() != 0
}

func TestFinding1_StopBeforeStart(t *testing.T) {
	if stoppedPoolIngests(t, 50*time.Millisecond) {
		t.Fatalf("Start and Stop have both returned, yet a message sent afterwards was taken by a worker and changed the flow map: the worker pool survived Stop")
	}
}

func TestFinding1_NaturalRace(t *testing.T) {
	const rounds = 50
	leaked := 0
	for i := 0; i < rounds; i++ {
		if stoppedPoolIngests(t, 0) {
			leaked++
		}
	}
	t.Logf("`go ap.Start(); ap.Stop()`: worker pool survived Stop in %d of %d rounds", leaked, rounds)
	if leaked > 0 {
		t.Fatalf("worker pool survived Stop in %d of %d rounds of `go ap.Start(); ap.Stop()`", leaked, rounds)
	}
}
