// Finding 1 (C02, clean tree): ExportingProcess.NewTemplateID wraps round into the reserved
// range 0..255; templates and data sets with such IDs are accepted and put on the wire.
//
// Place:  cp OUT/finding1_test.go WT/pkg/exporter/finding1_test.go
// Run:    cd WT && go test -count=1 -timeout 60s -run 'TestFinding1TemplateIDWrap' ./pkg/exporter
//
// Clause: "a well-formed IPFIX message for a decoder that shares no code with the library ...
// set id 2 for templates and the template id for data". RFC 7011 3.4.1: Template IDs are in
// the range 256..65535; 3.3.2: Set ID 2 is a Template Set, 3 an Options Template Set, 0, 1 and
// 4..255 are not data sets. After 65280 calls NewTemplateID has handed out 65535 and the next
// calls return 0, 1, 2, 3, ... The data set of "template 2" goes out with Set ID 2: every
// other decoder reads it as a Template Set and takes the record's bytes for a template record.
//
// Legitimate: NewTemplateID is the library's own (and only) source of template IDs, each call
// is accepted, nothing in its contract limits the number of calls (an application that makes
// a new template per connection attempt, per tenant or per configuration reload on one
// long-lived exporting process gets there); no step returns an error.
package exporter

import (
	"encoding/binary"
	"io"
	"net"
	"testing"
	"time"

	"github.com/vmware/go-ipfix/pkg/entities"
	"github.com/vmware/go-ipfix/pkg/registry"
)

func TestFinding1TemplateIDWrap(t *testing.T) {
	ln, err := net.Listen("tcp", "127.0.0.1:0")
	if err != nil {
		t.Fatal(err)
	}
	defer ln.Close()
	streamCh := make(chan []byte, 1)
	go func() {
		conn, err := ln.Accept()
		if err != nil {
			streamCh <- nil
			return
		}
		b, _ := io.ReadAll(conn)
		streamCh <- b
	}()
	ep, err := InitExportingProcess(ExporterInput{CollectorAddress: ln.Addr().String(), CollectorProtocol: "tcp", ObservationDomainID: 1})
	if err != nil {
		t.Fatal(err)
	}
	srcIP, err := registry.GetInfoElement("sourceIPv4Address", registry.IANAEnterpriseID)
	if err != nil {
		t.Fatal(err)
	}
	srcPort, err := registry.GetInfoElement("sourceTransportPort", registry.IANAEnterpriseID)
	if err != nil {
		t.Fatal(err)
	}

	// 65283 calls: 256 ... 65535, 0, 1, 2.
	var id uint16
	reserved := 0
	for i := 0; i < 65283; i++ {
		id = ep.NewTemplateID()
		if id < 256 {
			reserved++
			if reserved == 1 {
				t.Errorf("call %d of NewTemplateID returned %d: template IDs below 256 are reserved (RFC 7011 3.4.1)", i+1, id)
			}
		}
	}
	templateSet, err := entities.MakeTemplateSet(id, []*entities.InfoElement{srcIP, srcPort})
	if err != nil {
		t.Fatal(err)
	}
	_, errT := ep.SendSet(templateSet)
	dataSet, err := entities.MakeDataSet(id, []entities.InfoElementWithValue{
		entities.NewIPAddressInfoElement(srcIP, net.ParseIP("1.2.3.4")),
		entities.NewUnsigned16InfoElement(srcPort, 80),
	})
	if err != nil {
		t.Fatal(err)
	}
	_, errD := ep.SendSet(dataSet)
	t.Logf("template ID %d: SendSet(template) error: %v, SendSet(data) error: %v", id, errT, errD)
	time.Sleep(100 * time.Millisecond)
	ep.CloseConnToCollector()
	stream := <-streamCh

	// Independent reading of the stream.
	for off, n := 0, 0; off+20 <= len(stream); n++ {
		msgLen := int(binary.BigEndian.Uint16(stream[off+2:]))
		setID := binary.BigEndian.Uint16(stream[off+16:])
		body := stream[off+20 : off+msgLen]
		t.Logf("message %d: set ID %d, set body % x", n, setID, body)
		if n == 1 {
			// The second message is the data set (one record 01 02 03 04 00 50).
			if setID < 256 {
				t.Errorf("the data set is on the wire with Set ID %d: a decoder reads Set ID 2 as a Template Set (template %d with %d fields, then the set ends), IDs 0,1,3..255 are not data sets either",
					setID, binary.BigEndian.Uint16(body[0:2]), binary.BigEndian.Uint16(body[2:4]))
			}
		}
		off += msgLen
	}
}
