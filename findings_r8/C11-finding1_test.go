// Finding 1 (property C11), CLEAN tree.
//
// Place at:  WT/pkg/collector/finding1_test.go
// Run with:  cd WT && go test -count=1 -timeout 120s -run 'TestFinding1HeaderOnlyMessage' ./pkg/collector
//
// Clause violated: "Over TCP the collector delivers exactly the sequence of messages the byte
// stream contains" (and, as a consequence, the connection of a well-behaved exporter is closed
// although the stream contains no undecodable message).
//
// Input: template set, then an IPFIX message that consists of the 16-byte message header only
// (version 10, length 16, no set), then a data set for the template. RFC 7011 section 3: "An
// IPFIX Message consists of a Message Header, followed by zero or more Sets" - a message with
// zero sets is well-formed (exporters use it e.g. as a keep-alive that carries the current
// sequence number). Framing is not in question: the length field says 16 and 16 bytes follow.
//
// Observed: the collector treats the header-only message as undecodable ("error in decoding
// data: EOF" while reading the set header it assumes to be there), closes the connection, and
// the data message behind it is never delivered.
// Expected: the message is delivered (or at least skipped) and the stream continues: 3 (or 2)
// messages, the last one being the data set, connection left open.
package collector_test

import (
	"encoding/binary"
	"net"
	"testing"
	"time"

	"github.com/vmware/go-ipfix/pkg/collector"
	"github.com/vmware/go-ipfix/pkg/entities"
	"github.com/vmware/go-ipfix/pkg/registry"
)

func finding1Msg(seq, dom uint32, setID uint16, body []byte) []byte {
	total := 16 + 4 + len(body)
	b := make([]byte, total)
	binary.BigEndian.PutUint16(b[0:], 10)
	binary.BigEndian.PutUint16(b[2:], uint16(total))
	binary.BigEndian.PutUint32(b[4:], 1700000000)
	binary.BigEndian.PutUint32(b[8:], seq)
	binary.BigEndian.PutUint32(b[12:], dom)
	binary.BigEndian.PutUint16(b[16:], setID)
	binary.BigEndian.PutUint16(b[18:], uint16(4+len(body)))
	copy(b[20:], body)
	return b
}

func TestFinding1HeaderOnlyMessage(t *testing.T) {
	registry.LoadRegistry()
	cp, err := collector.InitCollectingProcess(collector.CollectorInput{Address: "127.0.0.1:0", Protocol: "tcp", MaxBufferSize: 1024})
	if err != nil {
		t.Fatal(err)
	}
	go cp.Start()
	for cp.GetAddress() == nil {
		time.Sleep(10 * time.Millisecond)
	}
	defer cp.Stop()
	out := make(chan *entities.Message, 16)
	go func() {
		for m := range cp.GetMsgChan() {
			out <- m
		}
	}()

	conn, err := net.Dial("tcp", cp.GetAddress().String())
	if err != nil {
		t.Fatal(err)
	}
	defer conn.Close()

	// template 256: sourceIPv4Address (8, 4 bytes), destinationIPv4Address (12, 4 bytes)
	template := finding1Msg(0, 1, 2, []byte{1, 0, 0, 2, 0, 8, 0, 4, 0, 12, 0, 4})
	// a message with zero sets: the header alone, length 16
	headerOnly := make([]byte, 16)
	binary.BigEndian.PutUint16(headerOnly[0:], 10)
	binary.BigEndian.PutUint16(headerOnly[2:], 16)
	binary.BigEndian.PutUint32(headerOnly[4:], 1700000001)
	binary.BigEndian.PutUint32(headerOnly[8:], 0)
	binary.BigEndian.PutUint32(headerOnly[12:], 1)
	data := finding1Msg(0, 1, 256, []byte{10, 0, 0, 1, 10, 0, 0, 2})

	for _, m := range [][]byte{template, headerOnly, data} {
		if _, err := conn.Write(m); err != nil {
			t.Fatalf("write: %v", err)
		}
		time.Sleep(50 * time.Millisecond)
	}

	var got []*entities.Message
collect:
	for {
		select {
		case m := <-out:
			got = append(got, m)
		case <-time.After(500 * time.Millisecond):
			break collect
		}
	}
	sawData := false
	for _, m := range got {
		if m.GetSet() != nil && m.GetSet().GetSetType() == entities.Data && m.GetSet().GetNumberOfRecords() == 1 {
			sawData = true
		}
	}
	if !sawData {
		t.Errorf("the data message that follows the header-only message was not delivered (%d message(s) delivered in all)", len(got))
	}
	conn.SetReadDeadline(time.Now().Add(500 * time.Millisecond))
	_, err = conn.Read(make([]byte, 1))
	if ne, ok := err.(net.Error); !(ok && ne.Timeout()) {
		t.Errorf("the collector closed the connection although every message of the stream is well-formed: %v", err)
	}
}
