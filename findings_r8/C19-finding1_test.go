// Finding 1 for property C19 (CLEAN tree): one transient broker error reorders the records.
//
// Place:   copy to WT/pkg/kafka/producer/convertor/test/finding1_test.go
// Run:     cd WT && go test -count=1 -timeout 120s -run 'TestFinding1_TransientBrokerErrorKeepsRecordOrder' ./pkg/kafka/producer/convertor/test
//
// Clause violated: "exactly one Kafka message is published per data record, IN RECORD ORDER,
// on the configured topic".
//
// The producer is set up by the library itself: KafkaProducer.InitSaramaProducer() builds the
// sarama configuration (sarama.NewConfig() + version + Return.*), i.e. Net.MaxOpenRequests = 5,
// Producer.Idempotent = false, Producer.Retry.Max = 3. sarama documents for exactly this
// combination that "message ordering is not guaranteed" (config.go, Net.MaxOpenRequests): the
// client pipelines produce requests, and when an earlier request is answered with a retriable
// error while a later one is already on the wire, the later records are committed first and
// the earlier ones are appended behind them by the retry.
//
// Input (every step ordinary): two IPFIX data messages are handed to PublishIPFIXMessages 50 ms
// apart, the first with one record (rec-0000), the second with nine (rec-0001..rec-0009). The
// broker (sarama's MockBroker, the real sarama client talks to it over TCP, single partition)
// needs 300 ms per request and answers the FIRST produce request with NotLeaderForPartition -
// the reply every Kafka broker gives for a moment during a leader election or a rolling
// restart - and all later ones with success.
//
// Expected: the topic's log holds rec-0000 .. rec-0009 in this order (each exactly once).
// Observed on the clean tree: rec-0001 .. rec-0009, rec-0000.
//
// Control: the same scenario with ProducerInput.KafkaLogSuccesses = true (SendFlowMessage then
// waits for each acknowledgement, so nothing is pipelined) leaves rec-0000 .. rec-0009 in order and
// this test passes; the fault is confined to the default, pipelined mode. (With sarama 1.43.3
// Net.MaxOpenRequests = 1 alone does not cure it - two requests are still on the wire; it takes
// the idempotent producer or waiting for the acknowledgement of the previous record.)
package test

import (
	"encoding/binary"
	"fmt"
	"net"
	"reflect"
	"testing"
	"time"
	"unsafe"

	"github.com/IBM/sarama"
	"google.golang.org/protobuf/proto"

	"github.com/vmware/go-ipfix/pkg/entities"
	"github.com/vmware/go-ipfix/pkg/kafka/producer"
	"github.com/vmware/go-ipfix/pkg/kafka/producer/protobuf"
	"github.com/vmware/go-ipfix/pkg/registry"
)

func finding1Message(t *testing.T, seq uint32, first, n int) *entities.Message {
	podName, err := registry.GetInfoElement("sourcePodName", registry.AntreaEnterpriseID)
	if err != nil {
		t.Fatal(err)
	}
	srcPort, err := registry.GetInfoElement("sourceTransportPort", registry.IANAEnterpriseID)
	if err != nil {
		t.Fatal(err)
	}
	srcIP, err := registry.GetInfoElement("sourceIPv4Address", registry.IANAEnterpriseID)
	if err != nil {
		t.Fatal(err)
	}
	set := entities.NewSet(true)
	if err := set.PrepareSet(entities.Data, 256); err != nil {
		t.Fatal(err)
	}
	for i := first; i < first+n; i++ {
		elements := []entities.InfoElementWithValue{
			entities.NewStringInfoElement(podName, fmt.Sprintf("rec-%04d", i)),
			entities.NewUnsigned16InfoElement(srcPort, uint16(1000+i)),
			entities.NewIPAddressInfoElement(srcIP, net.IP{10, 0, 0, byte(i)}),
		}
		if err := set.AddRecord(elements, 256); err != nil {
			t.Fatal(err)
		}
	}
	msg := entities.NewMessage(true)
	msg.SetVersion(10)
	msg.SetObsDomainID(7)
	msg.SetSequenceNum(seq)
	msg.SetExportTime(1700000000)
	msg.SetExportAddress("192.0.2.1")
	msg.AddSet(set)
	return msg
}

// finding1Values returns the values of the Kafka records which a produce request carries for
// topic/partition (ProduceRequest keeps them in an unexported field).
func finding1Values(req *sarama.ProduceRequest, topic string, partition int32) [][]byte {
	f := reflect.ValueOf(req).Elem().FieldByName("records")
	recs := reflect.NewAt(f.Type(), unsafe.Pointer(f.UnsafeAddr())).Elem().Interface().(map[string]map[int32]sarama.Records)
	r, ok := recs[topic][partition]
	if !ok {
		return nil
	}
	var out [][]byte
	if r.RecordBatch != nil {
		for _, rec := range r.RecordBatch.Records {
			out = append(out, rec.Value)
		}
	}
	if r.MsgSet != nil {
		for _, mb := range r.MsgSet.Messages {
			out = append(out, mb.Msg.Value)
		}
	}
	return out
}

func TestFinding1_TransientBrokerErrorKeepsRecordOrder(t *testing.T) {
	registry.LoadRegistry()
	const topic = "finding1-topic"
	const total = 10

	broker := sarama.NewMockBroker(t, 1)
	defer broker.Close()
	broker.SetHandlerByMap(map[string]sarama.MockResponse{
		"ApiVersionsRequest": sarama.NewMockApiVersionsResponse(t),
		"MetadataRequest": sarama.NewMockMetadataResponse(t).
			SetBroker(broker.Addr(), broker.BrokerID()).
			SetLeader(topic, 0, broker.BrokerID()),
		"ProduceRequest": sarama.NewMockSequence(
			// a leader election is in progress when the first request arrives ...
			sarama.NewMockProduceResponse(t).SetError(topic, 0, sarama.ErrNotLeaderForPartition),
			// ... and over when the next one does.
			sarama.NewMockProduceResponse(t),
		),
	})

	kp, err := producer.NewKafkaProducer(producer.ProducerInput{
		KafkaBrokers:         []string{broker.Addr()},
		KafkaVersion:         sarama.DefaultVersion,
		KafkaTopic:           topic,
		KafkaLogErrors:       true,
		ProtoSchemaConvertor: NewFlowType1Convertor(),
	})
	if err != nil {
		t.Fatal(err)
	}
	if err := kp.InitSaramaProducer(); err != nil {
		t.Fatal(err)
	}
	defer kp.Close()
	broker.SetLatency(300 * time.Millisecond)

	msgCh := make(chan *entities.Message)
	go kp.PublishIPFIXMessages(msgCh)
	msgCh <- finding1Message(t, 0, 0, 1)
	time.Sleep(50 * time.Millisecond)
	msgCh <- finding1Message(t, 1, 1, total-1)
	close(msgCh)

	// What the topic's log holds: the records of every produce request that the broker
	// answered with success, in the order in which it handled them.
	committed := func() []string {
		var log []string
		for _, rr := range broker.History() {
			req, ok := rr.Request.(*sarama.ProduceRequest)
			if !ok {
				continue
			}
			res := rr.Response.(*sarama.ProduceResponse)
			if blk := res.GetBlock(topic, 0); blk == nil || blk.Err != sarama.ErrNoError {
				continue
			}
			for _, v := range finding1Values(req, topic, 0) {
				if len(v) < 4 || int(binary.BigEndian.Uint32(v)) != len(v)-4 {
					t.Fatalf("bad length prefix in %x", v)
				}
				flow := &protobuf.FlowType1{}
				if err := proto.Unmarshal(v[4:], flow); err != nil {
					t.Fatalf("payload does not decode: %v", err)
				}
				log = append(log, flow.SrcPodName)
			}
		}
		return log
	}
	var log []string
	for deadline := time.Now().Add(30 * time.Second); time.Now().Before(deadline); time.Sleep(100 * time.Millisecond) {
		if log = committed(); len(log) >= total {
			break
		}
	}
	time.Sleep(time.Second) // anything published twice would show up now
	log = committed()
	t.Logf("log of the topic: %v", log)
	if len(log) != total {
		t.Fatalf("%d Kafka messages in the log for %d data records", len(log), total)
	}
	for i, name := range log {
		if want := fmt.Sprintf("rec-%04d", i); name != want {
			t.Fatalf("position %d of the topic holds %s, want %s: records are not published in record order", i, name, want)
		}
	}
}
