// Finding 5 for property C09 (CLEAN tree): SendSet panics instead of returning an error
//   (a) for a record that was added with AddRecordWithExtraElements and completed afterwards
//       through Record.AddInfoElement (the set's length is not updated, CreateIPFIXMsg slices
//       past the message buffer: "slice bounds out of range");
//   (b) for a value holder whose kind differs from the element's data type (e.g. a 32-bit
//       holder for an unsigned64 element): AddRecord accepts it, SendSet panics with
//       "accessing value of wrong data type" while it encodes the record.
//
// Place:  cp OUT/finding5_test.go WT/pkg/exporter/finding5_test.go
// Run:    cd WT && go test -count=1 -timeout 120s -run 'TestFinding5SendSetPanics' ./pkg/exporter
//
// Clause: "a value that cannot be encoded for its element ... yields an error"; "in those
// cases it returns an error and writes nothing to the connection, and later sends still
// produce well-formed messages" - a panic in the caller's goroutine is not an error return
// (the quantifier names "ill-typed element values" explicitly). In case (a) the sequence
// counter has already been advanced by the panicking send.
// Why the input is legitimate: (a) AddRecordWithExtraElements and Record.AddInfoElement are
// public, the capacity reserved by numExtraElements exists precisely so that elements can be
// added to the record later, both calls return nil, and the completed record has exactly the
// template's field count. (b) The constructors take any *InfoElement; NewUnsigned32InfoElement
// for an unsigned64 counter is an easy slip, AddRecord (which validates values for encoding)
// returns nil for it. Weaker than findings 1-4: both need an application slip, but the library
// accepts every step and then brings the process down instead of refusing the send.
package exporter

import (
	"fmt"
	"net"
	"testing"

	"github.com/vmware/go-ipfix/pkg/entities"
)

func f5Send(ep *ExportingProcess, s entities.Set) (n int, err error, panicked interface{}) {
	defer func() { panicked = recover() }()
	n, err = ep.SendSet(s)
	return
}

func TestFinding5SendSetPanics(t *testing.T) {
	ln, err := net.Listen("tcp", "127.0.0.1:0")
	if err != nil {
		t.Fatal(err)
	}
	defer ln.Close()
	go func() {
		c, err := ln.Accept()
		if err != nil {
			return
		}
		buf := make([]byte, 65536)
		for {
			if _, err := c.Read(buf); err != nil {
				return
			}
		}
	}()
	ep, err := InitExportingProcess(ExporterInput{CollectorAddress: ln.Addr().String(), CollectorProtocol: "tcp"})
	if err != nil {
		t.Fatal(err)
	}
	defer ep.CloseConnToCollector()
	octets := entities.NewInfoElement("octetDeltaCount", 1, entities.Unsigned64, 0, 8)
	port := entities.NewInfoElement("sourceTransportPort", 7, entities.Unsigned16, 0, 2)
	id := ep.NewTemplateID()
	tmpl := entities.NewSet(false)
	_ = tmpl.PrepareSet(entities.Template, id)
	if err := tmpl.AddRecord([]entities.InfoElementWithValue{entities.NewUnsigned64InfoElement(octets, 0), entities.NewUnsigned16InfoElement(port, 0)}, id); err != nil {
		t.Fatal(err)
	}
	if _, err := ep.SendSet(tmpl); err != nil {
		t.Fatal(err)
	}

	t.Run("a-extra-elements", func(t *testing.T) {
		data := entities.NewSet(false)
		_ = data.PrepareSet(entities.Data, id)
		if err := data.AddRecordWithExtraElements([]entities.InfoElementWithValue{entities.NewUnsigned64InfoElement(octets, 5)}, 1, id); err != nil {
			t.Fatal(err)
		}
		if err := data.GetRecords()[0].AddInfoElement(entities.NewUnsigned16InfoElement(port, 0x1234)); err != nil {
			t.Logf("adding the extra element is refused: %v (fine)", err)
			return
		}
		n, err, p := f5Send(ep, data)
		if p != nil {
			t.Errorf("SendSet panicked for a record with the template's field count: %v", p)
		} else {
			t.Logf("SendSet returned (%d, %v)", n, err)
		}
	})
	t.Run("b-holder-of-another-kind", func(t *testing.T) {
		data := entities.NewSet(false)
		_ = data.PrepareSet(entities.Data, id)
		var addErr error
		func() {
			defer func() {
				if p := recover(); p != nil {
					addErr = fmt.Errorf("panic: %v", p)
				}
			}()
			addErr = data.AddRecord([]entities.InfoElementWithValue{entities.NewUnsigned32InfoElement(octets, 77), entities.NewUnsigned16InfoElement(port, 1)}, id)
		}()
		if addErr != nil {
			t.Logf("AddRecord refuses the ill-typed value: %v (fine)", addErr)
			return
		}
		n, err, p := f5Send(ep, data)
		if p != nil {
			t.Errorf("AddRecord accepted a 32-bit value holder for the unsigned64 element; SendSet then panicked instead of returning an error: %v", p)
		} else {
			t.Logf("SendSet returned (%d, %v)", n, err)
		}
	})
	// The process must still be usable.
	good := entities.NewSet(false)
	_ = good.PrepareSet(entities.Data, id)
	_ = good.AddRecord([]entities.InfoElementWithValue{entities.NewUnsigned64InfoElement(octets, 1), entities.NewUnsigned16InfoElement(port, 1)}, id)
	if _, err, p := f5Send(ep, good); err != nil || p != nil {
		t.Errorf("a valid send afterwards: err=%v panic=%v", err, p)
	}
}
