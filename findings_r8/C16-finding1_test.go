// Finding 1 (clean tree), property C16.
//
// Place: copy to WT/pkg/entities/finding1_test.go
// Run:   cd WT && go test -count=1 -run TestFinding1TemplateAddPathsDisagree ./pkg/entities
//
// Clause: "The three ways of adding a record (copying, with spare capacity, and
// slice-adopting) produce byte-identical sets ... on template and data sets".
//
// Input: a TEMPLATE set and an element list whose elements carry (non-zero) values, e.g. the
// very list an application has just filled for its first data record, or elements created
// with New...InfoElement(ie, v) instead of a nil value. AddRecord and
// AddRecordWithExtraElements refuse the list ("template record cannot take element ... with
// non-empty value") and leave the set empty; AddRecordV2 accepts the same list and appends a
// template record. Every call is accepted by the type system and each path is documented as
// differing only in whether the slice is copied. The lists are legitimate for V2 (it returns
// nil), so either V1 is too strict or V2 too lax: the paths are not equivalent.
package entities

import (
	"bytes"
	"testing"
)

func TestFinding1TemplateAddPathsDisagree(t *testing.T) {
	const id = 256
	port := NewInfoElement("sourceTransportPort", 7, Unsigned16, 0, 2)
	name := NewInfoElement("interfaceName", 82, String, 0, VariableLength)
	mk := func() []InfoElementWithValue {
		return []InfoElementWithValue{NewUnsigned16InfoElement(port, 443), NewStringInfoElement(name, "eth0")}
	}
	ser := func(s Set) []byte {
		s.UpdateLenInHeader()
		out := append([]byte{}, s.GetHeaderBuffer()...)
		for _, r := range s.GetRecords() {
			out = append(out, r.GetBuffer()...)
		}
		return out
	}
	v1, vx, v2 := NewSet(false), NewSet(false), NewSet(false)
	for _, s := range []Set{v1, vx, v2} {
		if err := s.PrepareSet(Template, id); err != nil {
			t.Fatal(err)
		}
	}
	e1 := v1.AddRecord(mk(), id)
	ex := vx.AddRecordWithExtraElements(mk(), 1, id)
	e2 := v2.AddRecordV2(mk(), id)
	t.Logf("AddRecord: %v; AddRecordWithExtraElements: %v; AddRecordV2: %v", e1, ex, e2)
	if (e1 == nil) != (e2 == nil) || (ex == nil) != (e2 == nil) {
		t.Errorf("the add paths disagree on the same element list: AddRecord err=%v, AddRecordWithExtraElements err=%v, AddRecordV2 err=%v", e1, ex, e2)
	}
	if b1, b2 := ser(v1), ser(v2); !bytes.Equal(b1, b2) {
		t.Errorf("sets are not byte-identical: AddRecord set % x (length %d, %d records), AddRecordV2 set % x (length %d, %d records)",
			b1, v1.GetSetLength(), v1.GetNumberOfRecords(), b2, v2.GetSetLength(), v2.GetNumberOfRecords())
	}
}
