// FINDING 3 (property C01) - clean tree.
//
// Place:   cp OUT/finding3_test.go WT/pkg/collector/finding3_test.go
// Run:     cd WT && go test -count=1 -timeout 120s -run 'TestFinding3' ./pkg/collector
//          (with -race the detector additionally reports the data race in NewTemplateID)
//
// Clause:  "same template fields ... in the same order, the same number of records, and every
//          field value bit-identical".
//
// An ExportingProcess is built for use from several goroutines (SendSet takes sendMutex and
// templateMutex; the UDP refresh goroutine sends concurrently with the application). The ID
// allocator NewTemplateID is not part of that: `ep.templateID++; return ep.templateID` without
// any synchronisation. Two goroutines which each define their own template at the same time
// can be handed the SAME template ID. Both template sets are then accepted by SendSet; the
// exporter keeps the first layout (updateTemplate ignores an ID it knows), the collector the
// last one it received, and the first goroutine's data records are delivered with the other
// template's elements.
//
// Legitimate: each goroutine uses only the ID the library gave it, never re-defines an ID, and
// every call succeeds. The test lets two goroutines allocate 20000 IDs each at the same time (repeating
// with a fresh exporter if needed) until one ID has been given to both; on a multi-core
// machine the first attempt suffices.
package collector

import (
	"sync"
	"testing"
	"time"

	"github.com/vmware/go-ipfix/pkg/entities"
	"github.com/vmware/go-ipfix/pkg/exporter"
	"github.com/vmware/go-ipfix/pkg/registry"
)

func TestFinding3_NewTemplateIDHandsOutOneIDTwice(t *testing.T) {
	registry.LoadRegistry()
	cp, err := InitCollectingProcess(CollectorInput{Address: "127.0.0.1:0", Protocol: "tcp", MaxBufferSize: 65535})
	if err != nil {
		t.Fatal(err)
	}
	go cp.Start()
	for i := 0; cp.GetAddress() == nil; i++ {
		if i > 500 {
			t.Fatal("collector did not start")
		}
		time.Sleep(10 * time.Millisecond)
	}
	defer cp.Stop()
	newExporter := func() *exporter.ExportingProcess {
		ep, err := exporter.InitExportingProcess(exporter.ExporterInput{CollectorAddress: cp.GetAddress().String(), CollectorProtocol: "tcp", ObservationDomainID: 11})
		if err != nil {
			t.Fatal(err)
		}
		return ep
	}
	ep := newExporter()
	defer func() { ep.CloseConnToCollector() }()

	// Two goroutines allocate IDs at the same time, 20000 each (a new exporter per attempt keeps
	// the counter clear of the wrap-around of finding 2).
	var idA, idB uint16
	found := false
	for attempt := 0; attempt < 200 && !found; attempt++ {
		if attempt > 0 {
			ep.CloseConnToCollector()
			ep = newExporter()
		}
		const n = 20000
		var got [2][]uint16
		var wg sync.WaitGroup
		start := make(chan struct{})
		for g := 0; g < 2; g++ {
			got[g] = make([]uint16, 0, n)
			wg.Add(1)
			go func(g int) {
				defer wg.Done()
				<-start
				for i := 0; i < n; i++ {
					got[g] = append(got[g], ep.NewTemplateID())
				}
			}(g)
		}
		close(start)
		wg.Wait()
		seen := make(map[uint16]bool, n)
		for _, id := range got[0] {
			seen[id] = true
		}
		for _, id := range got[1] {
			if seen[id] && id >= 256 {
				idA, idB, found = id, id, true
				t.Logf("attempt %d: both goroutines were given template ID %d", attempt, id)
				break
			}
		}
	}
	if !found {
		t.Skip("no duplicate ID on this machine (run with -race to see the data race)")
	}

	port, _ := registry.GetInfoElement("sourceTransportPort", registry.IANAEnterpriseID)
	proto, _ := registry.GetInfoElement("protocolIdentifier", registry.IANAEnterpriseID)
	tos, _ := registry.GetInfoElement("ipClassOfService", registry.IANAEnterpriseID)
	recv := func() *entities.Message {
		select {
		case m := <-cp.GetMsgChan():
			return m
		case <-time.After(3 * time.Second):
			return nil
		}
	}
	// goroutine A's template and goroutine B's template (sent one after the other here, to keep
	// the rest of the demonstration deterministic)
	tA, _ := entities.MakeTemplateSet(idA, []*entities.InfoElement{port})
	tB, _ := entities.MakeTemplateSet(idB, []*entities.InfoElement{proto, tos})
	for _, s := range []entities.Set{tA, tB} {
		if _, err := ep.SendSet(s); err != nil {
			t.Fatalf("template refused: %v", err)
		}
		if m := recv(); m == nil {
			t.Fatal("template not delivered")
		}
	}
	// goroutine A's data
	dA, err := entities.MakeDataSet(idA, []entities.InfoElementWithValue{entities.NewUnsigned16InfoElement(port, 0x0611)})
	if err != nil {
		t.Fatal(err)
	}
	if _, err := ep.SendSet(dA); err != nil {
		t.Fatalf("data refused: %v", err)
	}
	m := recv()
	if m == nil {
		t.Fatal("A's record was accepted and not delivered")
	}
	got := m.GetSet().GetRecords()[0].GetOrderedElementList()
	if len(got) != 1 || got[0].GetName() != "sourceTransportPort" || got[0].GetUnsigned16Value() != 0x0611 {
		names := ""
		for _, e := range got {
			names += e.GetName() + " "
		}
		t.Fatalf("A handed over {sourceTransportPort=1553} under the ID the library gave it; delivered: %d field(s): %s", len(got), names)
	}
}
