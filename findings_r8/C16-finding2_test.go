// Finding 2 (clean tree), property C16.
//
// Place: copy to WT/pkg/entities/finding2_test.go
// Run:   cd WT && go test -count=1 -run TestFinding2ResetSetIsNotANewSet ./pkg/entities
//
// Clause: "after a reset a set behaves exactly like a new one".
//
// A set made by NewSet reports GetSetType() == Template (the zero value of ContentType);
// a set after ResetSet reports Undefined (255). The empty history on a fresh set versus
// [PrepareSet, AddRecord, ResetSet] is distinguishable through the public accessor, and the
// exporter acts on it: SendSet refuses the reset set ("set type is not properly defined") but
// takes the never-prepared new set for a template set and would transmit a set with ID 0.
// All operations are in well-formed order (no add without a prepare).
package entities

import "testing"

func TestFinding2ResetSetIsNotANewSet(t *testing.T) {
	ie := NewInfoElement("sourceTransportPort", 7, Unsigned16, 0, 2)
	for _, decoding := range []bool{false, true} {
		fresh := NewSet(decoding)
		used := NewSet(decoding)
		if err := used.PrepareSet(Data, 256); err != nil {
			t.Fatal(err)
		}
		if err := used.AddRecord([]InfoElementWithValue{NewUnsigned16InfoElement(ie, 80)}, 256); err != nil {
			t.Fatal(err)
		}
		used.ResetSet()
		if fresh.GetSetType() != used.GetSetType() {
			t.Errorf("isDecoding=%v: GetSetType() of a new set is %d, of a reset set %d", decoding, fresh.GetSetType(), used.GetSetType())
		}
	}
}
