// FINDING 3 (property C14), on the CLEAN tree.
//
// Place:   cp OUT/finding3_test.go WT/pkg/exporter/finding3_test.go
// Run:     cd WT && go test -race -count=1 -timeout 120s -run 'TestFinding3_' ./pkg/exporter
//
// Clause:  "over TCP a collector-side close is noticed within the check interval and subsequent
//           sends fail instead of vanishing".
//
// What happens: checkConnToCollector takes exactly io.EOF for "closed" and EVERY other read error
// for "still connected". On a TLS connection a collector that closes after a fatal TLS alert is
// seen by crypto/tls as a read error "remote error: tls: ...", not io.EOF, and crypto/tls makes
// that error permanent for all later reads. The connection check therefore answers "connected"
// for ever, the exporter never closes its side, and the next SendSet - however many check
// intervals later - is written into the dead connection and returns (n, nil): the message
// vanishes (and, for a template, is registered as delivered). Only the send after that fails
// (EPIPE from the kernel, not from the check).
//
// The input is the library's own collector, as shipped: a TLS collecting process with a CA
// certificate (CollectorInput.CACert) demands client certificates
// (pkg/collector/tcp.go: ClientAuth: tls.RequireAndVerifyClientCert) and negotiates TLS 1.3 with
// the library's exporter. In TLS 1.3 the client's handshake is complete BEFORE the server has
// looked at the client certificate, so InitExportingProcess succeeds for an exporter that has no
// key pair (or an expired / untrusted one - the static certificates in this repository are
// expired); the collector then rejects the client with a fatal alert and closes the connection.
// Exactly the situation the connection check exists for, with both ends from this library.
//
// Why legitimate: every step is accepted (InitExportingProcess returns no error); an exporter
// whose client certificate is missing, expired or issued by the wrong CA is an everyday
// operational condition, and it is not "client authentication unsupported" (that is DTLS): TLS
// client authentication is implemented on both ends.
package exporter

import (
	"crypto/ecdsa"
	"crypto/elliptic"
	"crypto/rand"
	"crypto/x509"
	"crypto/x509/pkix"
	"encoding/pem"
	"math/big"
	"net"
	"testing"
	"time"

	"github.com/vmware/go-ipfix/pkg/collector"
	"github.com/vmware/go-ipfix/pkg/entities"
	"github.com/vmware/go-ipfix/pkg/registry"
)

func finding3Mint(t *testing.T) (caPEM, certPEM, keyPEM []byte) {
	t.Helper()
	caKey, err := ecdsa.GenerateKey(elliptic.P256(), rand.Reader)
	if err != nil {
		t.Fatal(err)
	}
	caTmpl := &x509.Certificate{
		SerialNumber: big.NewInt(1), Subject: pkix.Name{CommonName: "finding3 CA"},
		NotBefore: time.Now().Add(-time.Hour), NotAfter: time.Now().Add(24 * time.Hour),
		IsCA: true, KeyUsage: x509.KeyUsageCertSign | x509.KeyUsageDigitalSignature, BasicConstraintsValid: true,
	}
	caDER, err := x509.CreateCertificate(rand.Reader, caTmpl, caTmpl, &caKey.PublicKey, caKey)
	if err != nil {
		t.Fatal(err)
	}
	caCert, _ := x509.ParseCertificate(caDER)
	key, err := ecdsa.GenerateKey(elliptic.P256(), rand.Reader)
	if err != nil {
		t.Fatal(err)
	}
	tmpl := &x509.Certificate{
		SerialNumber: big.NewInt(2), Subject: pkix.Name{CommonName: "collector"},
		NotBefore: time.Now().Add(-time.Hour), NotAfter: time.Now().Add(24 * time.Hour),
		KeyUsage: x509.KeyUsageDigitalSignature, ExtKeyUsage: []x509.ExtKeyUsage{x509.ExtKeyUsageServerAuth},
		IPAddresses: []net.IP{net.IPv4(127, 0, 0, 1)}, DNSNames: []string{"localhost"},
	}
	der, err := x509.CreateCertificate(rand.Reader, tmpl, caCert, &key.PublicKey, caKey)
	if err != nil {
		t.Fatal(err)
	}
	keyDER, err := x509.MarshalECPrivateKey(key)
	if err != nil {
		t.Fatal(err)
	}
	return pem.EncodeToMemory(&pem.Block{Type: "CERTIFICATE", Bytes: caDER}),
		pem.EncodeToMemory(&pem.Block{Type: "CERTIFICATE", Bytes: der}),
		pem.EncodeToMemory(&pem.Block{Type: "EC PRIVATE KEY", Bytes: keyDER})
}

func TestFinding3_TLSCollectorCloseAfterAlertIsNeverNoticed(t *testing.T) {
	registry.LoadRegistry()
	caPEM, certPEM, keyPEM := finding3Mint(t)

	// The library's own TLS collector, with a CA for client certificates.
	cp, err := collector.InitCollectingProcess(collector.CollectorInput{
		Address:       "127.0.0.1:0",
		Protocol:      "tcp",
		MaxBufferSize: 1024,
		IsEncrypted:   true,
		ServerCert:    certPEM,
		ServerKey:     keyPEM,
		CACert:        caPEM,
	})
	if err != nil {
		t.Fatal(err)
	}
	go cp.Start()
	defer cp.Stop()
	received := make(chan struct{}, 16)
	go func() {
		for range cp.GetMsgChan() {
			received <- struct{}{}
		}
	}()
	var addr net.Addr
	for i := 0; i < 200; i++ {
		if a := cp.GetAddress(); a != nil {
			if ta, ok := a.(*net.TCPAddr); ok && ta.Port != 0 {
				addr = a
				break
			}
		}
		time.Sleep(10 * time.Millisecond)
	}
	if addr == nil {
		t.Fatal("collector did not start")
	}

	// The library's exporter, over TLS, without a client key pair.
	const checkInterval = 100 * time.Millisecond
	ep, err := InitExportingProcess(ExporterInput{
		CollectorAddress:    addr.String(),
		CollectorProtocol:   "tcp",
		ObservationDomainID: 1,
		CheckConnInterval:   checkInterval,
		TLSClientConfig:     &ExporterTLSClientConfig{CAData: caPEM},
	})
	if err != nil {
		t.Skipf("the handshake itself was refused (not TLS 1.3?): %v", err)
	}
	defer ep.CloseConnToCollector()

	// The collector rejects the client right after the handshake and closes the connection.
	// Wait until it has no connection left, then fifteen more check intervals.
	for i := 0; i < 300 && cp.GetNumConnToCollector() != 0; i++ {
		time.Sleep(10 * time.Millisecond)
	}
	if n := cp.GetNumConnToCollector(); n != 0 {
		t.Fatalf("collector still has %d connection(s)", n)
	}
	time.Sleep(15 * checkInterval)

	noticed := ep.isClosed.Load()

	ie, err := registry.GetInfoElement("sourceIPv4Address", registry.IANAEnterpriseID)
	if err != nil {
		t.Fatal(err)
	}
	id := ep.NewTemplateID()
	tmplSet, err := entities.MakeTemplateSet(id, []*entities.InfoElement{ie})
	if err != nil {
		t.Fatal(err)
	}
	n, sendErr := ep.SendSet(tmplSet)

	delivered := false
	select {
	case <-received:
		delivered = true
	case <-time.After(500 * time.Millisecond):
	}
	ep.templateMutex.Lock()
	_, registered := ep.templatesMap[id]
	ep.templateMutex.Unlock()

	if !noticed || sendErr == nil {
		t.Fatalf("the collector closed the connection more than 15 check intervals ago: exporter noticed=%v; "+
			"SendSet returned (%d, %v); message delivered to the collector=%v; template registered as sent=%v",
			noticed, n, sendErr, delivered, registered)
	}
}
