// Finding 4 (C02, clean tree): an element with an element ID of 32768 or more is accepted by
// the registry, by template records and by SendSet; its field specifier goes out with the
// enterprise bit set although the element is not enterprise-specific (no enterprise number
// follows), or, for an enterprise-specific element, with another element ID than registered.
//
// Place:  cp OUT/finding4_test.go WT/pkg/exporter/finding4_test.go
// Run:    cd WT && go test -count=1 -timeout 60s -run 'TestFinding4ElementIDHighBit' ./pkg/exporter
//
// Clause: "one field specifier per element with the enterprise bit and 4-byte enterprise
// number present exactly for enterprise-specific elements" (quantifier: "any registry elements
// ... and user-registered ones"). Element IDs are 15 bits on the wire (RFC 7011 3.2); the
// library's InfoElement.ElementId is a uint16 and templateRecord.addInfoElement writes all 16
// bits, so bit 15 of the ID lands on the enterprise bit. A decoder reads the specifier of
// element 40000 / enterprise 0 as "enterprise-specific element 7232", takes the next field
// specifier for its enterprise number and runs out of bytes before the announced field count.
//
// Legitimate in the sense that every step is accepted without error: registry.PutInfoElement
// registers the element, MakeTemplateSet builds the template, SendSet transmits it. (An ID
// above 32767 is a mistake of the application or of its registry file; the library is the only
// place that could refuse it.)
package exporter

import (
	"encoding/binary"
	"io"
	"net"
	"testing"
	"time"

	"github.com/vmware/go-ipfix/pkg/entities"
	"github.com/vmware/go-ipfix/pkg/registry"
)

func TestFinding4ElementIDHighBit(t *testing.T) {
	ln, err := net.Listen("tcp", "127.0.0.1:0")
	if err != nil {
		t.Fatal(err)
	}
	defer ln.Close()
	streamCh := make(chan []byte, 1)
	go func() {
		conn, err := ln.Accept()
		if err != nil {
			streamCh <- nil
			return
		}
		b, _ := io.ReadAll(conn)
		streamCh <- b
	}()
	ep, err := InitExportingProcess(ExporterInput{CollectorAddress: ln.Addr().String(), CollectorProtocol: "tcp", ObservationDomainID: 1})
	if err != nil {
		t.Fatal(err)
	}
	errPut := registry.PutInfoElement(*entities.NewInfoElement("finding4Counter", 40000, entities.Unsigned32, registry.IANAEnterpriseID, 4), registry.IANAEnterpriseID)
	if errPut != nil {
		t.Logf("registry refused the element: %v (fine)", errPut)
		return
	}
	counter, err := registry.GetInfoElement("finding4Counter", registry.IANAEnterpriseID)
	if err != nil {
		t.Fatal(err)
	}
	srcPort, err := registry.GetInfoElement("sourceTransportPort", registry.IANAEnterpriseID)
	if err != nil {
		t.Fatal(err)
	}
	id := ep.NewTemplateID()
	templateSet, errMake := entities.MakeTemplateSet(id, []*entities.InfoElement{counter, srcPort})
	if errMake != nil {
		t.Logf("template refused: %v (fine)", errMake)
		return
	}
	_, errSend := ep.SendSet(templateSet)
	time.Sleep(100 * time.Millisecond)
	ep.CloseConnToCollector()
	stream := <-streamCh
	if errSend != nil {
		t.Logf("SendSet refused the template: %v (fine)", errSend)
		return
	}
	if len(stream) < 24 {
		t.Fatal("no template message on the wire")
	}

	// Independent template record decoder.
	body := stream[20:int(binary.BigEndian.Uint16(stream[2:]))]
	t.Logf("template set body: % x", body)
	fieldCount := int(binary.BigEndian.Uint16(body[2:4]))
	type spec struct {
		id, length uint16
		pen        uint32
		enterprise bool
	}
	var specs []spec
	off := 4
	for i := 0; i < fieldCount; i++ {
		if off+4 > len(body) {
			t.Fatalf("template record announces %d fields, the set ends inside field specifier %d (decoded so far: %+v)", fieldCount, i+1, specs)
		}
		s := spec{id: binary.BigEndian.Uint16(body[off:]) & 0x7FFF, length: binary.BigEndian.Uint16(body[off+2:]), enterprise: body[off]&0x80 != 0}
		off += 4
		if s.enterprise {
			if off+4 > len(body) {
				t.Fatalf("field specifier %d has the enterprise bit, the set ends before its enterprise number", i+1)
			}
			s.pen = binary.BigEndian.Uint32(body[off:])
			off += 4
		}
		specs = append(specs, s)
	}
	if specs[0].enterprise {
		t.Fatalf("enterprise bit set for an element registered under enterprise number 0: %+v", specs)
	}
}
