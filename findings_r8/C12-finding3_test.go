// Finding 3 for property C12 (round 8) - on the CLEAN tree. BORDERLINE: whether a second
// call of Stop is covered by the statement is for the judge to decide; it is reported because
// a test author is tempted to leave it out ("nobody calls Stop twice") and the result is a
// crash of the whole process, not an error.
//
// Place:  cp OUT/finding3_test.go WT/pkg/collector/finding3_test.go
// Run:    cd WT && go test -count=1 -timeout 60s -run 'TestFinding3StopTwice' ./pkg/collector
//
// Clause: "Stop returns promptly even with clients connected or mid-message ... and
// afterwards no goroutine or listening socket of the process remains."
//
// Stop is `close(cp.stopChan); cp.wg.Wait()`. A second call - the usual `defer cp.Stop()`
// in main plus a Stop from the signal handler, or two shutdown paths of an application that
// both clean up - does not return at all: it panics with "close of closed channel". When the
// second call comes from another goroutine (the signal-handler case) the panic cannot be
// recovered by the caller of the first one and takes the process down, together with the
// messages the consumer has not processed yet. The other Stop/Close functions of the library
// that a program calls on the same path tolerate it (ExportingProcess.CloseConnToCollector
// is guarded, net.Listener.Close and http.Server.Close return an error).
package collector

import (
	"net"
	"testing"
	"time"
)

func TestFinding3StopTwice(t *testing.T) {
	for _, protocol := range []string{"tcp", "udp"} {
		cp, err := InitCollectingProcess(CollectorInput{Address: "127.0.0.1:0", Protocol: protocol, MaxBufferSize: 1024})
		if err != nil {
			t.Fatal(err)
		}
		go cp.Start()
		for i := 0; cp.GetAddress() == nil; i++ {
			if i > 1000 {
				t.Fatal("collector did not start")
			}
			time.Sleep(5 * time.Millisecond)
		}
		conn, err := net.Dial(protocol, cp.GetAddress().String())
		if err != nil {
			t.Fatal(err)
		}
		cp.Stop()
		second := make(chan interface{}, 1)
		go func() {
			defer func() { second <- recover() }() // the test recovers; an application in another goroutine cannot
			cp.Stop()
		}()
		select {
		case r := <-second:
			if r != nil {
				t.Errorf("%s: the second Stop did not return, it panicked: %v", protocol, r)
			}
		case <-time.After(5 * time.Second):
			t.Errorf("%s: the second Stop did not return within 5 s", protocol)
		}
		conn.Close()
	}
}
