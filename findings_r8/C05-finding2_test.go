// Finding 2 for property C05 (clean tree): an IPv6 flow between IPv4-mapped addresses
// (::ffff:a.b.c.d) and the IPv4 flow between a.b.c.d share one flow record.
//
// Place:  cp OUT/finding2_test.go WT/pkg/intermediate/finding2_test.go
// Run:    cd WT && go test -count=1 -timeout 120s -run 'TestC05Finding2' ./pkg/intermediate
//
// FAILS on the clean (unchanged) tree.
//
// Clause: "Records with different 5-tuples never affect each other, exactly one flow record
// exists per distinct 5-tuple" (quantifier: "a pool of 5-tuples (IPv4 and IPv6)").
//
// Input (public API only, every call returns nil): record 1 is an IPv4 record
// (sourceIPv4Address 10.0.0.1, destinationIPv4Address 10.0.1.2, tcp 40000 -> 80); record 2 is
// an IPv6 record (sourceIPv6Address ::ffff:10.0.0.1, destinationIPv6Address ::ffff:10.0.1.2,
// same ports and protocol). The two records name different information elements with
// different 16-byte / 4-byte values, i.e. two different 5-tuples of two address families; the
// IPv6 one is what a collector decodes from the wire for an exporter that reports through the
// IPv6 elements the addresses it got from a dual-stack socket (Go's net package itself hands
// out ::ffff:a.b.c.d for IPv4 peers there), or for SIIT / 464XLAT traffic.
//
// Observed: getFlowKeyFromRecord keys both with net.IP.String(), which prints an IPv4-mapped
// IPv6 address as dotted quad, so both records get the key {10.0.0.1 10.0.1.2 6 40000 80}:
// GetNumFlows() is 1, the IPv6 record's counters are summed into the IPv4 flow's record
// (packetDeltaCount 5 + 1000, totals and end time overwritten, throughput computed from the
// difference of two unrelated totals), IsAggregatedRecordIPv4 stays true, and the IPv6 flow has
// no record of its own. A FlowKey for the IPv6 flow cannot even be written down for GetRecords.
package intermediate

import (
	"net"
	"testing"
	"time"

	"github.com/vmware/go-ipfix/pkg/entities"
	"github.com/vmware/go-ipfix/pkg/registry"
)

var c05f2Stats = []string{"packetTotalCount", "packetDeltaCount", "octetTotalCount", "reversePacketTotalCount", "reversePacketDeltaCount", "reverseOctetTotalCount"}

type c05f2Rec struct {
	v6             bool
	src, dst       string
	sport, dport   uint16
	proto          uint8
	srcPod, dstPod string
	flowType       uint8
	start, end     uint32
	pktTot, pktDel uint64
	octTot         uint64
}

func c05f2IE(t testing.TB, name string) *entities.InfoElement {
	for _, ent := range []uint32{registry.IANAEnterpriseID, registry.IANAReversedEnterpriseID, registry.AntreaEnterpriseID} {
		if ie, err := registry.GetInfoElement(name, ent); err == nil {
			return ie
		}
	}
	t.Fatalf("element %s is not in the registry", name)
	return nil
}

// c05f2Msg builds a message as the collector delivers it: one data set, one record per c05f2Rec.
func c05f2Msg(t testing.TB, recs ...c05f2Rec) *entities.Message {
	set := entities.NewSet(true)
	if err := set.PrepareSet(entities.Data, 256); err != nil {
		t.Fatal(err)
	}
	for _, r := range recs {
		var els []entities.InfoElementWithValue
		if r.v6 {
			els = append(els,
				entities.NewIPAddressInfoElement(c05f2IE(t, "sourceIPv6Address"), net.ParseIP(r.src).To16()),
				entities.NewIPAddressInfoElement(c05f2IE(t, "destinationIPv6Address"), net.ParseIP(r.dst).To16()))
		} else {
			els = append(els,
				entities.NewIPAddressInfoElement(c05f2IE(t, "sourceIPv4Address"), net.ParseIP(r.src).To4()),
				entities.NewIPAddressInfoElement(c05f2IE(t, "destinationIPv4Address"), net.ParseIP(r.dst).To4()))
		}
		els = append(els,
			entities.NewUnsigned16InfoElement(c05f2IE(t, "sourceTransportPort"), r.sport),
			entities.NewUnsigned16InfoElement(c05f2IE(t, "destinationTransportPort"), r.dport),
			entities.NewUnsigned8InfoElement(c05f2IE(t, "protocolIdentifier"), r.proto),
			entities.NewStringInfoElement(c05f2IE(t, "sourcePodName"), r.srcPod),
			entities.NewStringInfoElement(c05f2IE(t, "destinationPodName"), r.dstPod),
			entities.NewUnsigned8InfoElement(c05f2IE(t, "flowType"), r.flowType),
			entities.NewDateTimeSecondsInfoElement(c05f2IE(t, "flowStartSeconds"), r.start),
			entities.NewDateTimeSecondsInfoElement(c05f2IE(t, "flowEndSeconds"), r.end),
		)
		vals := []uint64{r.pktTot, r.pktDel, r.octTot, r.pktTot, r.pktDel, r.octTot}
		for i, name := range c05f2Stats {
			els = append(els, entities.NewUnsigned64InfoElement(c05f2IE(t, name), vals[i]))
		}
		if err := set.AddRecord(els, 256); err != nil {
			t.Fatal(err)
		}
	}
	msg := entities.NewMessage(true)
	msg.SetVersion(10)
	msg.SetObsDomainID(1)
	msg.SetExportAddress("127.0.0.1")
	msg.AddSet(set)
	return msg
}

func c05f2Process(t testing.TB) *AggregationProcess {
	registry.LoadRegistry()
	with := func(suffix string) []string {
		out := make([]string, 0, len(c05f2Stats))
		for _, e := range c05f2Stats {
			out = append(out, e+suffix)
		}
		return out
	}
	ap, err := InitAggregationProcess(AggregationInput{
		MessageChan:     make(chan *entities.Message),
		WorkerNum:       1,
		CorrelateFields: []string{"sourcePodName", "destinationPodName"},
		AggregateElements: &AggregationElements{
			NonStatsElements:                   []string{"flowEndSeconds"},
			StatsElements:                      c05f2Stats,
			AggregatedSourceStatsElements:      with("FromSourceNode"),
			AggregatedDestinationStatsElements: with("FromDestinationNode"),
			AntreaFlowEndSecondsElements:       []string{"flowEndSecondsFromSourceNode", "flowEndSecondsFromDestinationNode"},
			ThroughputElements:                 []string{"throughput", "reverseThroughput"},
			SourceThroughputElements:           []string{"throughputFromSourceNode", "reverseThroughputFromSourceNode"},
			DestinationThroughputElements:      []string{"throughputFromDestinationNode", "reverseThroughputFromDestinationNode"},
		},
		ActiveExpiryTimeout:   time.Hour,
		InactiveExpiryTimeout: time.Hour,
	})
	if err != nil {
		t.Fatal(err)
	}
	return ap
}

func TestC05Finding2(t *testing.T) {
	ap := c05f2Process(t)
	v4 := c05f2Rec{src: "10.0.0.1", dst: "10.0.1.2", sport: 40000, dport: 80, proto: 6, flowType: registry.FlowTypeIntraNode,
		srcPod: "client", dstPod: "server", start: 100, end: 110, pktTot: 5, pktDel: 5, octTot: 500}
	v6 := v4
	v6.v6, v6.src, v6.dst = true, "::ffff:10.0.0.1", "::ffff:10.0.1.2"
	v6.start, v6.end, v6.pktTot, v6.pktDel, v6.octTot = 105, 120, 1000, 1000, 100000

	if err := ap.AggregateMsgByFlowKey(c05f2Msg(t, v4)); err != nil {
		t.Fatalf("IPv4 record refused: %v", err)
	}
	if err := ap.AggregateMsgByFlowKey(c05f2Msg(t, v6)); err != nil {
		t.Fatalf("IPv6 record refused: %v", err)
	}

	if n := ap.GetNumFlows(); n != 2 {
		t.Errorf("two records with different 5-tuples (one IPv4, one IPv6) were sent, but %d flow record(s) exist, want 2", n)
	}
	key := FlowKey{SourceAddress: "10.0.0.1", DestinationAddress: "10.0.1.2", Protocol: 6, SourcePort: 40000, DestinationPort: 80}
	recs := ap.GetRecords(&key)
	if len(recs) != 1 {
		t.Fatalf("IPv4 flow %v: %d flow records, want exactly one", key, len(recs))
	}
	for name, want := range map[string]interface{}{
		"flowEndSeconds":                 uint32(110),
		"packetTotalCount":               uint64(5),
		"packetDeltaCount":               uint64(5),
		"octetTotalCount":                uint64(500),
		"packetDeltaCountFromSourceNode": uint64(5),
		"throughput":                     uint64(8 * 500 / 10),
	} {
		if recs[0][name] != want {
			t.Errorf("IPv4 flow, which sent one record only: %s = %v, want %v (changed by the record of the IPv6 flow)", name, recs[0][name], want)
		}
	}
	v6Records := 0
	_ = ap.ForAllRecordsDo(func(k FlowKey, r *AggregationFlowRecord) error {
		if _, _, ok := r.Record.GetInfoElementWithValue("sourceIPv6Address"); ok {
			v6Records++
		}
		return nil
	})
	if v6Records != 1 {
		t.Errorf("%d flow records carry IPv6 addresses, want 1 (the flow ::ffff:10.0.0.1 -> ::ffff:10.0.1.2)", v6Records)
	}
}
