// Finding 4 (clean tree), property C16.
//
// Place: copy to WT/pkg/exporter/finding4_test.go
// Run:   cd WT && go test -count=1 -run TestFinding4SpareCapacityUse ./pkg/exporter
//
// Clauses: "A set's reported length always equals 4 plus the sum of its records' reported
// lengths and equals the number of bytes that get serialized for it".
//
// AddRecordWithExtraElements(elements, k, id) exists so that k more elements can later be
// appended to the record in place (Record.AddInfoElement; the collector/aggregation pair uses
// it exactly so). Using that capacity on a builder set updates the record's length but not
// the set's: GetSetLength() stays at the value of the add, 4 + sum of record lengths is
// larger, and exporter.CreateIPFIXMsg, which sizes the message from GetSetLength() and copies
// records by GetRecordLength(), panics with "slice bounds out of range".
// Each step returns nil. (Record.AddInfoElement is not one of the set operations listed in
// the quantifier; the finding is reported because the spare-capacity add path has no other
// purpose and the statement says "always".)
package exporter

import (
	"net"
	"testing"
	"time"

	"github.com/vmware/go-ipfix/pkg/entities"
)

func TestFinding4SpareCapacityUse(t *testing.T) {
	const id = 256
	port := entities.NewInfoElement("sourceTransportPort", 7, entities.Unsigned16, 0, 2)
	addr := entities.NewInfoElement("sourceIPv4Address", 8, entities.Ipv4Address, 0, 4)
	s := entities.NewSet(false)
	if err := s.PrepareSet(entities.Data, id); err != nil {
		t.Fatal(err)
	}
	if err := s.AddRecordWithExtraElements([]entities.InfoElementWithValue{entities.NewUnsigned16InfoElement(port, 443)}, 1, id); err != nil {
		t.Fatal(err)
	}
	rec := s.GetRecords()[0]
	if err := rec.AddInfoElement(entities.NewIPAddressInfoElement(addr, net.ParseIP("10.0.0.1"))); err != nil {
		t.Fatal(err)
	}
	sum := entities.SetHeaderLen
	for _, r := range s.GetRecords() {
		if len(r.GetBuffer()) != r.GetRecordLength() {
			t.Errorf("record buffer %d bytes, reported %d", len(r.GetBuffer()), r.GetRecordLength())
		}
		sum += r.GetRecordLength()
	}
	if s.GetSetLength() != sum {
		t.Errorf("reported set length %d, 4 + sum of record lengths %d", s.GetSetLength(), sum)
	}
	s.UpdateLenInHeader()
	func() {
		defer func() {
			if r := recover(); r != nil {
				t.Errorf("CreateIPFIXMsg panicked: %v", r)
			}
		}()
		msg, err := CreateIPFIXMsg(s, 1, 1, time.Unix(1700000000, 0))
		if err != nil {
			t.Fatalf("CreateIPFIXMsg: %v", err)
		}
		if len(msg) != entities.MsgHeaderLength+sum {
			t.Errorf("serialized %d bytes for the set, records add up to %d", len(msg)-entities.MsgHeaderLength, sum)
		}
	}()
}
