// Finding 1 for property C07 (UNCHANGED library).
//
// Place:   copy to WT/pkg/intermediate/finding1_test.go (package intermediate; only the public
//
//	API of the package is used)
//
// Run:     cd WT && go test -count=1 -timeout 110s -run 'TestFinding1CorrelateFieldOfOtherDataType' ./pkg/intermediate
//
// Clause:  "the merged record then carries every non-empty correlated field from either side and
//
//	is marked filled", "whichever arrives first".
//
// What happens: correlateRecords only knows how to copy correlate fields of the data types
// string, unsigned8, unsigned16, signed32, ipv4Address and ipv6Address. For a field of any
// other data type (unsigned32, unsigned64, macAddress, boolean, signed8/16/64, float32/64,
// dateTime*, octetArray) it writes "Fields with dataType N is not supported in correlation
// fields list" to the log, copies nothing, returns no error - and addOrUpdateRecordInMap then
// marks the flow ReadyToSend and areCorrelatedFieldsFilled all the same. So when the node that
// knows the value reports SECOND, the flow is exported "filled" without the value; when it
// reports FIRST the value is there. The result depends on the arrival order.
//
// Why the input is legitimate: AggregationInput.CorrelateFields is a free list of element
// names; InitAggregationProcess accepts it without complaint, nothing in the documentation
// restricts the data types, and the elements are ordinary elements of the shipped IANA
// registry which only one of the two nodes can know (the interface through which the packets
// entered the source node: ingressInterface, unsigned32; the MAC address of the source Pod:
// sourceMacAddress; an observation point id: unsigned64). Every step is accepted without an
// error. The records are in the form in which the collector delivers them.
//
// Result on the clean tree: FAIL (order destination-then-source loses the three values although
// the flow is marked filled; order source-then-destination keeps them).
package intermediate

import (
	"net"
	"testing"
	"time"

	"github.com/vmware/go-ipfix/pkg/entities"
	"github.com/vmware/go-ipfix/pkg/registry"
)

type finding1Field struct {
	name string
	ent  uint32
	val  interface{}
}

func finding1Message(t *testing.T, fields []finding1Field) *entities.Message {
	elements := make([]entities.InfoElementWithValue, 0, len(fields))
	for _, f := range fields {
		ie, err := registry.GetInfoElement(f.name, f.ent)
		if err != nil {
			t.Fatal(err)
		}
		switch v := f.val.(type) {
		case net.IP:
			elements = append(elements, entities.NewIPAddressInfoElement(ie, v))
		case net.HardwareAddr:
			elements = append(elements, entities.NewMacAddressInfoElement(ie, v))
		case uint8:
			elements = append(elements, entities.NewUnsigned8InfoElement(ie, v))
		case uint16:
			elements = append(elements, entities.NewUnsigned16InfoElement(ie, v))
		case uint32:
			elements = append(elements, entities.NewUnsigned32InfoElement(ie, v))
		case uint64:
			elements = append(elements, entities.NewUnsigned64InfoElement(ie, v))
		case string:
			elements = append(elements, entities.NewStringInfoElement(ie, v))
		default:
			t.Fatalf("unexpected value type %T", v)
		}
	}
	set := entities.NewSet(true)
	if err := set.PrepareSet(entities.Data, 256); err != nil {
		t.Fatal(err)
	}
	if err := set.AddRecord(elements, 256); err != nil {
		t.Fatal(err)
	}
	msg := entities.NewMessage(true)
	msg.AddSet(set)
	return msg
}

func TestFinding1CorrelateFieldOfOtherDataType(t *testing.T) {
	registry.LoadRegistry()
	iana, antrea := registry.IANAEnterpriseID, registry.AntreaEnterpriseID
	srcMAC := net.HardwareAddr{0x0a, 0x58, 0x0a, 0x00, 0x01, 0x01}

	record := func(fromSource bool) []finding1Field {
		srcPod, dstPod := "client", ""
		ingressIf, obsPoint, mac := uint32(7), uint64(0x1122334455), srcMAC
		if !fromSource {
			// the destination node knows neither of these
			srcPod, dstPod = "", "server"
			ingressIf, obsPoint, mac = 0, 0, net.HardwareAddr{0, 0, 0, 0, 0, 0}
		}
		return []finding1Field{
			{"sourceIPv4Address", iana, net.ParseIP("10.0.1.1").To4()},
			{"destinationIPv4Address", iana, net.ParseIP("10.0.2.2").To4()},
			{"sourceTransportPort", iana, uint16(43210)},
			{"destinationTransportPort", iana, uint16(8080)},
			{"protocolIdentifier", iana, uint8(6)},
			{"sourcePodName", antrea, srcPod},
			{"destinationPodName", antrea, dstPod},
			{"flowType", antrea, registry.FlowTypeInterNode},
			{"ingressNetworkPolicyRuleAction", antrea, registry.NetworkPolicyRuleActionNoAction},
			{"egressNetworkPolicyRuleAction", antrea, registry.NetworkPolicyRuleActionNoAction},
			{"ingressInterface", iana, ingressIf},
			{"observationPointId", iana, obsPoint},
			{"sourceMacAddress", iana, mac},
		}
	}

	for _, order := range []struct {
		name  string
		first bool // first record comes from the source node
	}{{"source node first", true}, {"destination node first", false}} {
		t.Run(order.name, func(t *testing.T) {
			ap, err := InitAggregationProcess(AggregationInput{
				MessageChan:           make(chan *entities.Message),
				WorkerNum:             1,
				CorrelateFields:       []string{"sourcePodName", "destinationPodName", "ingressInterface", "observationPointId", "sourceMacAddress"},
				ActiveExpiryTimeout:   20 * time.Millisecond,
				InactiveExpiryTimeout: time.Minute,
			})
			if err != nil {
				t.Fatal(err)
			}
			for _, fromSource := range []bool{order.first, !order.first} {
				if err := ap.AggregateMsgByFlowKey(finding1Message(t, record(fromSource))); err != nil {
					t.Fatalf("record refused: %v", err)
				}
			}
			// The flow is exported by the next scan, marked filled.
			time.Sleep(40 * time.Millisecond)
			exported := 0
			err = ap.ForAllExpiredFlowRecordsDo(func(key FlowKey, rec *AggregationFlowRecord) error {
				exported++
				if !rec.ReadyToSend || !ap.AreCorrelatedFieldsFilled(*rec) {
					t.Errorf("exported flow: ReadyToSend=%v filled=%v", rec.ReadyToSend, ap.AreCorrelatedFieldsFilled(*rec))
				}
				return nil
			})
			if err != nil || exported != 1 {
				t.Fatalf("expected one exported flow: exported=%d err=%v", exported, err)
			}
			records := ap.GetRecords(nil)
			if len(records) != 1 {
				t.Fatalf("GetRecords: %d records", len(records))
			}
			m := records[0]
			if m["sourcePodName"] != "client" || m["destinationPodName"] != "server" {
				t.Errorf("Pod names not merged: %v / %v", m["sourcePodName"], m["destinationPodName"])
			}
			if got := m["ingressInterface"]; got != uint32(7) {
				t.Errorf("merged record marked filled, but ingressInterface = %v, the source node reported 7", got)
			}
			if got := m["observationPointId"]; got != uint64(0x1122334455) {
				t.Errorf("merged record marked filled, but observationPointId = %#x, the source node reported 0x1122334455", got)
			}
			if got, _ := m["sourceMacAddress"].(net.HardwareAddr); got.String() != srcMAC.String() {
				t.Errorf("merged record marked filled, but sourceMacAddress = %v, the source node reported %v", got, srcMAC)
			}
		})
	}
}
