// Finding 1 for property C06, on the CLEAN tree: a callback that panics (or leaves through
// runtime.Goexit, e.g. t.FailNow / require.* inside the callback) strands the flow for ever.
//
// Place: copy to WT/pkg/intermediate/finding1_test.go
// Run:   cd WT && go test -count=1 -timeout 120s -run 'TestFinding1PanickingCallbackStrandsFlow' ./pkg/intermediate
//
// Clause: "After any sequence of arrivals, expiry scans and callback failures, every flow still held
// is scheduled for a future expiry" (and "no flow is ever stranded" of the title).
// ForAllExpiredFlowRecordsDo pops the item, calls the callback and only afterwards deletes the flow
// or pushes the item back. Commit 55ff438 repaired this for a callback that RETURNS an error; a
// callback that fails by panicking unwinds through the deferred mutex.Unlock (so the process stays
// usable) but the popped item (index -1) is neither deleted from the map nor pushed back. From then
// on the flow is held, GetNumFlows counts it, GetRecords shows it, further records for it are merged
// (Update -> heap.Fix(-1) is a silent no-op) - and it is never handed to the callback again.
// Legitimate: the callback is application code (in Antrea it writes to IPFIX/ClickHouse/S3/log
// exporters); a caller that recovers panics around the scan (net/http handlers, errgroup wrappers,
// apimachinery's HandleCrash with ReallyCrash=false, any test using require/t.Fatal in the callback)
// continues with a process whose invariant is broken for good. Every call is accepted by the library.
// FAILS on the clean tree.
package intermediate

import (
	"net"
	"testing"
	"time"

	"github.com/vmware/go-ipfix/pkg/entities"
	"github.com/vmware/go-ipfix/pkg/registry"
)

func finding1Msg(t *testing.T, srcPort uint16) *entities.Message {
	registry.LoadRegistry()
	set := entities.NewSet(false)
	if err := set.PrepareSet(entities.Data, 256); err != nil {
		t.Fatal(err)
	}
	mk := func(name string) *entities.InfoElement {
		ie, err := registry.GetInfoElement(name, registry.IANAEnterpriseID)
		if err != nil {
			t.Fatal(err)
		}
		return ie
	}
	elems := []entities.InfoElementWithValue{
		entities.NewIPAddressInfoElement(mk("sourceIPv4Address"), net.ParseIP("10.0.0.1").To4()),
		entities.NewIPAddressInfoElement(mk("destinationIPv4Address"), net.ParseIP("10.0.0.2").To4()),
		entities.NewUnsigned16InfoElement(mk("sourceTransportPort"), srcPort),
		entities.NewUnsigned16InfoElement(mk("destinationTransportPort"), 443),
		entities.NewUnsigned8InfoElement(mk("protocolIdentifier"), 6),
	}
	if err := set.AddRecord(elems, 256); err != nil {
		t.Fatal(err)
	}
	m := entities.NewMessage(true)
	m.AddSet(set)
	return m
}

func TestFinding1PanickingCallbackStrandsFlow(t *testing.T) {
	ap, err := InitAggregationProcess(AggregationInput{
		MessageChan:           make(chan *entities.Message),
		WorkerNum:             1,
		ActiveExpiryTimeout:   30 * time.Millisecond,
		InactiveExpiryTimeout: time.Hour,
	})
	if err != nil {
		t.Fatal(err)
	}
	if err := ap.AggregateMsgByFlowKey(finding1Msg(t, 1)); err != nil {
		t.Fatal(err)
	}
	time.Sleep(50 * time.Millisecond) // active deadline passed

	// The application's export panics once (say, a nil exporter during a reconnect) and the caller
	// of the scan recovers, as a long-running service does.
	func() {
		defer func() { _ = recover() }()
		_ = ap.ForAllExpiredFlowRecordsDo(func(FlowKey, *AggregationFlowRecord) error { panic("exporter not connected") })
	}()

	if n := ap.GetNumFlows(); n != 1 {
		t.Fatalf("expected the flow to be still held, GetNumFlows = %d", n)
	}
	// The process still works: a further record for the flow is accepted.
	if err := ap.AggregateMsgByFlowKey(finding1Msg(t, 1)); err != nil {
		t.Fatal(err)
	}
	if l := ap.expirePriorityQueue.Len(); l != 1 {
		t.Errorf("flow held but not scheduled: %d flow(s) in the map, %d item(s) in the expiry queue", ap.GetNumFlows(), l)
	}
	// Its active deadline passed long ago; every later scan must hand it over. None ever does.
	time.Sleep(50 * time.Millisecond)
	calls := 0
	for i := 0; i < 5; i++ {
		if err := ap.ForAllExpiredFlowRecordsDo(func(FlowKey, *AggregationFlowRecord) error { calls++; return nil }); err != nil {
			t.Fatal(err)
		}
		time.Sleep(40 * time.Millisecond)
	}
	if calls == 0 {
		t.Errorf("the flow is held (GetNumFlows = %d) but five scans, each later than its active deadline, never handed it to the callback", ap.GetNumFlows())
	}
}
