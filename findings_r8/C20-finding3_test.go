// FINDING 3 (C20, clean tree): the JSON answer for an empty store depends on the history:
// before the first message it is {"flowRecords":null}, after a reset it is {"flowRecords":[]}.
//
// Place:   copy to WT/cmd/collector/finding3_test.go   (package main, in-package test)
// Run:     cd WT && go test -count=1 -timeout 120s -run 'TestFinding3' ./cmd/collector
//
// Clause:  "a records query for n returns the last min(n, stored) entries in that order in
//           either format ... and a reset empties the store".
// With nothing stored min(n, stored) = 0, so the answer has to be the list of no entries. A
// freshly started collector answers GET /records (any count) with "flowRecords": null - not a
// list at all: a JavaScript / jq / Python client that takes the length of, or iterates over,
// data.flowRecords fails on it - while the same collector in the same (empty) state after
// POST /reset answers "flowRecords": []. The text format answers both with an empty body, so the
// two formats (and two histories that lead to the same store) disagree.
// Cause: flowRecords starts as a nil slice, resetRecordHandler assigns []string{}.
//
// Why the input is legitimate: GET /records on a collector that has not received anything yet
// is the first thing a test harness does (poll until the records show up).
package main

import (
	"io"
	"net/http/httptest"
	"strings"
	"testing"
)

func TestFinding3_EmptyStoreJSON(t *testing.T) {
	// State of a freshly started process: the package variable has its zero value.
	mutex.Lock()
	flowRecords = nil
	mutex.Unlock()
	defer func() { mutex.Lock(); flowRecords = nil; mutex.Unlock() }()

	get := func(rawQuery string) string {
		req := httptest.NewRequest("GET", "/records?"+rawQuery, nil)
		rr := httptest.NewRecorder()
		flowRecordHandler(rr, req)
		if rr.Code != 200 {
			t.Fatalf("GET /records?%s: status %d", rawQuery, rr.Code)
		}
		b, _ := io.ReadAll(rr.Result().Body)
		return strings.TrimSpace(string(b))
	}

	fresh := []string{get(""), get("count=0"), get("count=5&format=json")}

	rr := httptest.NewRecorder()
	resetRecordHandler(rr, httptest.NewRequest("POST", "/reset", nil))
	if rr.Code != 200 {
		t.Fatalf("POST /reset: status %d", rr.Code)
	}
	afterReset := get("")

	const want = `{"flowRecords":[]}`
	if afterReset != want {
		t.Errorf("after reset: %s, want %s", afterReset, want)
	}
	for _, got := range fresh {
		if got != want {
			t.Errorf("empty store before the first message: %s, want %s (as after a reset: %s)", got, want, afterReset)
		}
	}
}
