// Finding 2 for property C19 (CLEAN tree): fields that the shipped proto schemas declare are
// never filled, so the payload decodes to values the record does not have.
//
// Place:   copy to WT/pkg/kafka/producer/convertor/test/finding2_test.go
// Run:     cd WT && go test -count=1 -timeout 120s -run 'TestFinding2_SchemaFieldsCarryTheRecordsValues' ./pkg/kafka/producer/convertor/test
//
// Clause violated: "Each payload is a 4-byte big-endian length followed by exactly that many
// bytes of protobuf which decode to the record's field values ... (both shipped proto schemas)".
//
// pkg/kafka/producer/protobuf/flow.proto declares, next to the fields the convertors fill,
//     FlowType1 and FlowType2:  uint64 TimeFlowStartInMilliSecs = 27;  uint32 TimeFlowEndInMilliSecs = 28;
//     FlowType2 only:           uint32 FlowEndReason = 35;             string TcpState = 36;
// (FlowEndReason and TcpState are the ONLY difference between the two shipped schemas.) The
// registry shipped with the library knows the matching elements: flowStartMilliseconds (IANA 152),
// flowEndMilliseconds (IANA 153), flowEndReason (IANA 136) and tcpState (Antrea 56506/136) - the
// Antrea flow aggregator, for which these schemas were written, exports all of them in every record.
// Neither convertor has a case for them: they fall into the default branch, which logs "There is
// no field with name: flowEndReason in flow message (.proto schema)" (untrue for FlowType2) and
// drops the value. proto3 has no field presence, so a consumer that decodes the payload with the
// shipped schema reads FlowEndReason = 0, TcpState = "" and TimeFlowStartInMilliSecs = 0
// (1 January 1970) - definite values which differ from the record's.
//
// Input: one data message with one record {sourcePodName, flowEndReason=3 (end of flow),
// tcpState="TIME_WAIT", flowStartMilliseconds=1700000000123}, built with the registry's elements
// exactly as the collector builds it; every step is accepted.
// Expected: the decoded FlowType2 has FlowEndReason 3, TcpState "TIME_WAIT",
// TimeFlowStartInMilliSecs 1700000000123; the decoded FlowType1 has the start time.
// Observed on the clean tree: 0, "" and 0.
package test

import (
	"encoding/binary"
	"testing"
	"time"

	"github.com/IBM/sarama"
	saramamock "github.com/IBM/sarama/mocks"
	"google.golang.org/protobuf/proto"

	"github.com/vmware/go-ipfix/pkg/entities"
	"github.com/vmware/go-ipfix/pkg/kafka/producer"
	"github.com/vmware/go-ipfix/pkg/kafka/producer/convertor"
	"github.com/vmware/go-ipfix/pkg/kafka/producer/protobuf"
	"github.com/vmware/go-ipfix/pkg/registry"
)

func finding2Publish(t *testing.T, conv convertor.IPFIXToKafkaConvertor) []byte {
	get := func(name string, en uint32) *entities.InfoElement {
		ie, err := registry.GetInfoElement(name, en)
		if err != nil {
			t.Fatal(err)
		}
		return ie
	}
	set := entities.NewSet(true)
	if err := set.PrepareSet(entities.Data, 256); err != nil {
		t.Fatal(err)
	}
	elements := []entities.InfoElementWithValue{
		entities.NewStringInfoElement(get("sourcePodName", registry.AntreaEnterpriseID), "pod-a"),
		entities.NewUnsigned8InfoElement(get("flowEndReason", registry.IANAEnterpriseID), 3),
		entities.NewStringInfoElement(get("tcpState", registry.AntreaEnterpriseID), "TIME_WAIT"),
		entities.NewDateTimeMillisecondsInfoElement(get("flowStartMilliseconds", registry.IANAEnterpriseID), 1700000000123),
	}
	if err := set.AddRecord(elements, 256); err != nil {
		t.Fatal(err)
	}
	msg := entities.NewMessage(true)
	msg.SetVersion(10)
	msg.SetObsDomainID(7)
	msg.SetSequenceNum(1)
	msg.SetExportTime(1700000000)
	msg.SetExportAddress("192.0.2.1")
	msg.AddSet(set)

	cfg := sarama.NewConfig()
	cfg.Version = sarama.DefaultVersion
	cfg.Producer.Return.Successes = true
	mock := saramamock.NewAsyncProducer(t, cfg)
	mock.ExpectInputAndSucceed()
	kp, err := producer.NewKafkaProducer(producer.ProducerInput{
		KafkaTopic:           "finding2-topic",
		KafkaVersion:         sarama.DefaultVersion,
		ProtoSchemaConvertor: conv,
	})
	if err != nil {
		t.Fatal(err)
	}
	kp.SetSaramaProducer(mock)
	ch := make(chan *entities.Message, 1)
	ch <- msg
	close(ch)
	kp.PublishIPFIXMessages(ch)
	select {
	case km := <-mock.Successes():
		b, _ := km.Value.Encode()
		if len(b) < 4 || int(binary.BigEndian.Uint32(b)) != len(b)-4 {
			t.Fatalf("bad length prefix")
		}
		return b[4:]
	case <-time.After(5 * time.Second):
		t.Fatal("nothing published")
	}
	return nil
}

func TestFinding2_SchemaFieldsCarryTheRecordsValues(t *testing.T) {
	registry.LoadRegistry()

	flow2 := &protobuf.FlowType2{}
	if err := proto.Unmarshal(finding2Publish(t, NewFlowType2Convertor()), flow2); err != nil {
		t.Fatal(err)
	}
	if flow2.SrcPodName != "pod-a" {
		t.Fatalf("SrcPodName %q", flow2.SrcPodName)
	}
	if flow2.FlowEndReason != 3 {
		t.Errorf("FlowType2: record has flowEndReason 3, payload decodes to FlowEndReason %d", flow2.FlowEndReason)
	}
	if flow2.TcpState != "TIME_WAIT" {
		t.Errorf("FlowType2: record has tcpState \"TIME_WAIT\", payload decodes to TcpState %q", flow2.TcpState)
	}
	if flow2.TimeFlowStartInMilliSecs != 1700000000123 {
		t.Errorf("FlowType2: record has flowStartMilliseconds 1700000000123, payload decodes to TimeFlowStartInMilliSecs %d", flow2.TimeFlowStartInMilliSecs)
	}

	flow1 := &protobuf.FlowType1{}
	if err := proto.Unmarshal(finding2Publish(t, NewFlowType1Convertor()), flow1); err != nil {
		t.Fatal(err)
	}
	if flow1.TimeFlowStartInMilliSecs != 1700000000123 {
		t.Errorf("FlowType1: record has flowStartMilliseconds 1700000000123, payload decodes to TimeFlowStartInMilliSecs %d", flow1.TimeFlowStartInMilliSecs)
	}
}
