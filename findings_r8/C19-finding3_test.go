// Finding 3 for property C19 (CLEAN tree): on a topic with more than one partition the records
// of one IPFIX message are scattered over the partitions at random, so their order is lost (and
// the library's own consumer, which reads partition 0 only, sees a random subset).
//
// Place:   copy to WT/pkg/kafka/producer/convertor/test/finding3_test.go
// Run:     cd WT && go test -count=1 -timeout 120s -run 'TestFinding3_RecordOrderOnATopicWithTwoPartitions' ./pkg/kafka/producer/convertor/test
//
// Clause violated: "exactly one Kafka message is published per data record, IN RECORD ORDER, on
// the configured topic" (and, for the pair producer/consumer of the library, "the consumer-side
// decoder ... recovers the same field values": pkg/kafka/consumer.InitSaramaConsumer calls
// ConsumePartition(topic, 0, ...) and never sees what went to partition 1).
//
// Kafka orders messages within a partition only. SendFlowMessage publishes with a nil key and
// InitSaramaProducer leaves sarama's default partitioner (hash partitioner, which picks a RANDOM
// partition for a nil key), so consecutive records of one message - even of one flow - go to
// different partitions; nothing in a payload (the sequence number is per message, not per
// record) lets a consumer restore the order. Topics with several partitions are the normal case
// in production clusters; the library neither requires a single partition nor keys the messages
// (e.g. by exporter address and observation domain) nor pins a partition.
//
// Input: one IPFIX data message with 40 records handed to PublishIPFIXMessages; the real sarama
// client from InitSaramaProducer; broker = sarama MockBroker announcing the topic with partitions 0
// and 1, every produce request succeeds.
// Expected: all 40 records in one totally ordered log (one partition), rec-0000 .. rec-0039.
// Observed on the clean tree: about half of them in partition 1, interleaved at random.
package test

import (
	"fmt"
	"net"
	"reflect"
	"testing"
	"time"
	"unsafe"

	"github.com/IBM/sarama"
	"google.golang.org/protobuf/proto"

	"github.com/vmware/go-ipfix/pkg/entities"
	"github.com/vmware/go-ipfix/pkg/kafka/producer"
	"github.com/vmware/go-ipfix/pkg/kafka/producer/protobuf"
	"github.com/vmware/go-ipfix/pkg/registry"
)

func finding3Message(t *testing.T, n int) *entities.Message {
	podName, err := registry.GetInfoElement("sourcePodName", registry.AntreaEnterpriseID)
	if err != nil {
		t.Fatal(err)
	}
	srcIP, err := registry.GetInfoElement("sourceIPv4Address", registry.IANAEnterpriseID)
	if err != nil {
		t.Fatal(err)
	}
	set := entities.NewSet(true)
	if err := set.PrepareSet(entities.Data, 256); err != nil {
		t.Fatal(err)
	}
	for i := 0; i < n; i++ {
		elements := []entities.InfoElementWithValue{
			entities.NewStringInfoElement(podName, fmt.Sprintf("rec-%04d", i)),
			// one and the same flow in every record
			entities.NewIPAddressInfoElement(srcIP, net.IP{10, 0, 0, 1}),
		}
		if err := set.AddRecord(elements, 256); err != nil {
			t.Fatal(err)
		}
	}
	msg := entities.NewMessage(true)
	msg.SetVersion(10)
	msg.SetObsDomainID(7)
	msg.SetSequenceNum(1)
	msg.SetExportTime(1700000000)
	msg.SetExportAddress("192.0.2.1")
	msg.AddSet(set)
	return msg
}

func finding3Records(req *sarama.ProduceRequest) map[string]map[int32]sarama.Records {
	f := reflect.ValueOf(req).Elem().FieldByName("records")
	return reflect.NewAt(f.Type(), unsafe.Pointer(f.UnsafeAddr())).Elem().Interface().(map[string]map[int32]sarama.Records)
}

func TestFinding3_RecordOrderOnATopicWithTwoPartitions(t *testing.T) {
	registry.LoadRegistry()
	const topic = "finding3-topic"
	const total = 40

	broker := sarama.NewMockBroker(t, 1)
	defer broker.Close()
	broker.SetHandlerByMap(map[string]sarama.MockResponse{
		"ApiVersionsRequest": sarama.NewMockApiVersionsResponse(t),
		"MetadataRequest": sarama.NewMockMetadataResponse(t).
			SetBroker(broker.Addr(), broker.BrokerID()).
			SetLeader(topic, 0, broker.BrokerID()).
			SetLeader(topic, 1, broker.BrokerID()),
		"ProduceRequest": sarama.NewMockProduceResponse(t),
	})
	kp, err := producer.NewKafkaProducer(producer.ProducerInput{
		KafkaBrokers:         []string{broker.Addr()},
		KafkaVersion:         sarama.DefaultVersion,
		KafkaTopic:           topic,
		KafkaLogErrors:       true,
		ProtoSchemaConvertor: NewFlowType1Convertor(),
	})
	if err != nil {
		t.Fatal(err)
	}
	if err := kp.InitSaramaProducer(); err != nil {
		t.Fatal(err)
	}
	defer kp.Close()

	msgCh := make(chan *entities.Message, 1)
	msgCh <- finding3Message(t, total)
	close(msgCh)
	kp.PublishIPFIXMessages(msgCh)

	logs := func() map[int32][]string {
		out := map[int32][]string{}
		for _, rr := range broker.History() {
			req, ok := rr.Request.(*sarama.ProduceRequest)
			if !ok {
				continue
			}
			for partition, r := range finding3Records(req)[topic] {
				if r.RecordBatch == nil {
					continue
				}
				for _, rec := range r.RecordBatch.Records {
					flow := &protobuf.FlowType1{}
					if err := proto.Unmarshal(rec.Value[4:], flow); err != nil {
						t.Fatal(err)
					}
					out[partition] = append(out[partition], flow.SrcPodName)
				}
			}
		}
		return out
	}
	var got map[int32][]string
	for deadline := time.Now().Add(20 * time.Second); time.Now().Before(deadline); time.Sleep(50 * time.Millisecond) {
		got = logs()
		if len(got[0])+len(got[1]) >= total {
			break
		}
	}
	t.Logf("partition 0: %v", got[0])
	t.Logf("partition 1: %v", got[1])
	if len(got[0])+len(got[1]) != total {
		t.Fatalf("%d Kafka messages for %d records", len(got[0])+len(got[1]), total)
	}
	if len(got[0]) != total && len(got[1]) != total {
		t.Fatalf("the %d records of one IPFIX message were spread over two partitions (%d and %d): the topic no longer holds them in record order, and the library's consumer (partition 0 only) receives %d of them",
			total, len(got[0]), len(got[1]), len(got[0]))
	}
}
