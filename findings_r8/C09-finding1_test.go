// Finding 1 for property C09 (CLEAN tree): values of elements whose data type has no encoder
// (dateTimeMicroseconds, dateTimeNanoseconds, basicList ... - all present in the shipped IANA
// registry) are transmitted as zero bytes and neither AddRecord nor SendSet returns an error.
//
// Place:  cp OUT/finding1_test.go WT/pkg/exporter/finding1_test.go
// Run:    cd WT && go test -count=1 -timeout 120s -run 'TestFinding1NoEncoderTypesAreZeroedSilently' ./pkg/exporter
//
// Clause: "A data record it does transmit carries each value faithfully: a value that cannot
// be encoded for its element ... yields an error rather than a silently altered field."
//
// Why the input is legitimate: flowStartMicroseconds (154), flowStartNanoseconds (156) and
// basicList (291) come from the library's own registry (registry.GetInfoElement). The
// library has no dedicated value holder for them; the 64-bit holder is what it uses for the
// sibling type dateTimeMilliseconds, the octet-array holder is the generic one. PrepareSet,
// AddRecord (which validates values since the repair 2e33580) and SendSet all accept the
// template and the record. dataRecord.GetBuffer then gets "API does not support micro and nano
// seconds types yet" / "API supports only valid information elements ..." from the encoder,
// logs it, and leaves the field zeroed. For basicList the zeroed field even changes the record
// layout for the receiver (length prefix 0 followed by stray bytes).
package exporter

import (
	"bytes"
	"encoding/binary"
	"io"
	"net"
	"testing"
	"time"

	"github.com/vmware/go-ipfix/pkg/entities"
	"github.com/vmware/go-ipfix/pkg/registry"
)

func f1ReadMsg(t *testing.T, conn net.Conn) []byte {
	t.Helper()
	_ = conn.SetReadDeadline(time.Now().Add(5 * time.Second))
	hdr := make([]byte, 16)
	if _, err := io.ReadFull(conn, hdr); err != nil {
		t.Fatalf("reading a message header at the peer: %v", err)
	}
	body := make([]byte, int(binary.BigEndian.Uint16(hdr[2:4]))-16)
	if _, err := io.ReadFull(conn, body); err != nil {
		t.Fatalf("reading a message body at the peer: %v", err)
	}
	return append(hdr, body...)
}

func TestFinding1NoEncoderTypesAreZeroedSilently(t *testing.T) {
	registry.LoadRegistry()
	port, err := registry.GetInfoElement("sourceTransportPort", registry.IANAEnterpriseID)
	if err != nil {
		t.Fatal(err)
	}
	cases := []struct {
		name  string
		value func(ie *entities.InfoElement, empty bool) entities.InfoElementWithValue
		wire  []byte // the faithful encoding of the value
	}{
		{"flowStartMicroseconds", func(ie *entities.InfoElement, empty bool) entities.InfoElementWithValue {
			if empty {
				return entities.NewUnsigned64InfoElement(ie, 0)
			}
			return entities.NewUnsigned64InfoElement(ie, 0x1122334455667788)
		}, []byte{0x11, 0x22, 0x33, 0x44, 0x55, 0x66, 0x77, 0x88}},
		{"flowStartNanoseconds", func(ie *entities.InfoElement, empty bool) entities.InfoElementWithValue {
			if empty {
				return entities.NewUnsigned64InfoElement(ie, 0)
			}
			return entities.NewUnsigned64InfoElement(ie, 0x8877665544332211)
		}, []byte{0x88, 0x77, 0x66, 0x55, 0x44, 0x33, 0x22, 0x11}},
		{"basicList", func(ie *entities.InfoElement, empty bool) entities.InfoElementWithValue {
			if empty {
				return entities.NewOctetArrayInfoElement(ie, nil)
			}
			return entities.NewOctetArrayInfoElement(ie, []byte{0xde, 0xad, 0xbe})
		}, []byte{3, 0xde, 0xad, 0xbe}},
	}
	for _, tc := range cases {
		t.Run(tc.name, func(t *testing.T) {
			ie, err := registry.GetInfoElement(tc.name, registry.IANAEnterpriseID)
			if err != nil {
				t.Fatal(err)
			}
			ln, err := net.Listen("tcp", "127.0.0.1:0")
			if err != nil {
				t.Fatal(err)
			}
			defer ln.Close()
			ep, err := InitExportingProcess(ExporterInput{CollectorAddress: ln.Addr().String(), CollectorProtocol: "tcp"})
			if err != nil {
				t.Fatal(err)
			}
			defer ep.CloseConnToCollector()
			peer, err := ln.Accept()
			if err != nil {
				t.Fatal(err)
			}
			defer peer.Close()

			id := ep.NewTemplateID()
			tmpl := entities.NewSet(false)
			if err := tmpl.PrepareSet(entities.Template, id); err != nil {
				t.Fatal(err)
			}
			if err := tmpl.AddRecord([]entities.InfoElementWithValue{tc.value(ie, true), entities.NewUnsigned16InfoElement(port, 0)}, id); err != nil {
				t.Skipf("the template is refused (%v): nothing can be transmitted for this element", err)
			}
			if _, err := ep.SendSet(tmpl); err != nil {
				t.Skipf("the template is refused (%v): nothing can be transmitted for this element", err)
			}
			f1ReadMsg(t, peer)

			data := entities.NewSet(false)
			if err := data.PrepareSet(entities.Data, id); err != nil {
				t.Fatal(err)
			}
			if err := data.AddRecord([]entities.InfoElementWithValue{tc.value(ie, false), entities.NewUnsigned16InfoElement(port, 0xabcd)}, id); err != nil {
				t.Logf("AddRecord refuses the value: %v (fine)", err)
				return
			}
			if _, err := ep.SendSet(data); err != nil {
				t.Logf("SendSet refuses the record: %v (fine)", err)
				return
			}
			msg := f1ReadMsg(t, peer)
			record := msg[20:]
			want := append(append([]byte{}, tc.wire...), 0xab, 0xcd)
			if !bytes.Equal(record, want) {
				t.Errorf("AddRecord and SendSet returned no error, but the record arrived as %x; the values handed in encode as %x: the %s field was silently altered",
					record, want, tc.name)
			}
		})
	}
}
