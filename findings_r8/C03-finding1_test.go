// Finding 1 for property C03 (round 8), on the CLEAN tree.
//
// Place:  copy to WT/pkg/collector/finding1_test.go
// Run:    cd WT && go test -count=1 -timeout 60s -run 'TestFinding1SetLengthBelowHeader' ./pkg/collector
//
// Clause: "the delivered records are exactly those the template in force defines for the received
// set body ... no record is conjured from leftover bytes".
//
// decodePacket honours the length field of the (first) set only when it is at least 4: for a set
// length of 0, 1, 2 or 3 - less than the set header itself, so the set cannot hold anything -
// the condition `n >= 0` in decodePacket is false and the whole rest of the message is handed to
// the set decoder as if it were the body of that set. The bytes behind the set header are then
// delivered as records of the template the set ID names, without an error. A set length of 4
// (the next value) correctly yields a data message without records, and a length of 5 yields
// none either (one byte of padding), so the records appear out of nothing exactly for 0..3.
//
// The input is an ordinary data message in which only the set length field was changed (a
// mutation of a valid message, which the property quantifies over; on the wire: a corrupted or
// hostile exporter). Every step is accepted by the library. Expected: an error (the set is
// malformed, RFC 7011 section 3.3.2: the length includes the set header) or at the very least
// no records; observed: one record per 8 bytes that follow.
package collector

import (
	"net"
	"testing"
	"time"

	"github.com/vmware/go-ipfix/pkg/entities"
	"github.com/vmware/go-ipfix/pkg/registry"
)

func TestFinding1SetLengthBelowHeader(t *testing.T) {
	registry.LoadRegistry()
	for _, setLen := range []byte{0, 1, 2, 3} {
		cp, err := InitCollectingProcess(CollectorInput{Address: "127.0.0.1:0", Protocol: "tcp"})
		if err != nil {
			t.Fatal(err)
		}
		go cp.Start()
		for i := 0; cp.GetAddress() == nil; i++ {
			if i > 1000 {
				t.Fatal("collector did not start")
			}
			time.Sleep(5 * time.Millisecond)
		}
		msgs := make(chan *entities.Message, 16)
		go func() {
			for m := range cp.GetMsgChan() {
				msgs <- m
			}
		}()
		conn, err := net.Dial("tcp", cp.GetAddress().String())
		if err != nil {
			t.Fatal(err)
		}
		// template 256 in observation domain 1: sourceIPv4Address(8)/4, destinationIPv4Address(12)/4
		templateMsg := []byte{0, 10, 0, 32, 0, 0, 0, 1, 0, 0, 0, 0, 0, 0, 0, 1,
			0, 2, 0, 16, 1, 0, 0, 2, 0, 8, 0, 4, 0, 12, 0, 4}
		// data message: set 256 with a set length of setLen (< 4), followed by 16 more bytes
		dataMsg := []byte{0, 10, 0, 36, 0, 0, 0, 2, 0, 0, 0, 0, 0, 0, 0, 1,
			1, 0, 0, setLen,
			1, 2, 3, 4, 5, 6, 7, 8, 9, 10, 11, 12, 13, 14, 15, 16}
		if _, err := conn.Write(templateMsg); err != nil {
			t.Fatal(err)
		}
		select {
		case m := <-msgs:
			if m.GetSet().GetSetType() != entities.Template {
				t.Fatalf("expected the template message first")
			}
		case <-time.After(3 * time.Second):
			t.Fatal("template message not delivered")
		}
		if _, err := conn.Write(dataMsg); err != nil {
			t.Fatal(err)
		}
		select {
		case m := <-msgs:
			if n := m.GetSet().GetNumberOfRecords(); n != 0 {
				t.Errorf("set length %d (shorter than a set header): %d records were delivered from the bytes that follow the set header", setLen, n)
			}
		case <-time.After(500 * time.Millisecond):
			// refused (connection closed): fine
		}
		conn.Close()
		cp.Stop()
	}
}
