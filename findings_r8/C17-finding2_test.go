// FINDING 2 (C17, clean tree): IANA element ids 0 and 416 (and the same ids under the reverse
// enterprise number 29305) cannot be collected in ANY decoding mode. The generated table
// pkg/registry/registry_IANA.go contains rows that are not information elements: ("Unassigned",
// id 0), ("Assigned for NetFlow v9 compatibility", ids 0 and 97) and two rows with NO name (ids 416
// and 419), all with data type 255 (invalid) and length 0. registerInfoElement refuses rows whose
// name was seen before and loadIANARegistry ignores that error, so which of these rows end up in
// the registry is an accident of the duplicate names: 97 and 419 are absent (and are preserved /
// dropped correctly as unknown elements), while 0 and 416 are present as nameless / typeless
// entries. A template that names one of them is "known" to decodeTemplateSet, which then fails in
// DecodeAndCreateInfoElementWithValue ("API supports only valid information elements ...") and
// refuses the template - and with it every data record that follows - in keep and drop mode too.
//
// Place:  cp OUT/finding2_test.go WT/pkg/collector/finding2_test.go
// Run:    cd WT && go test -count=1 -timeout 100s -run 'TestFinding2PlaceholderRegistryRows$' ./pkg/collector
//
// Clause: "keep mode delivers each unknown field as an octet array holding exactly the bytes
// received (fixed or variable length); drop mode omits exactly the unknown fields. In every mode
// each known field decodes to the same value it would have had if the unknown fields were not
// there." The library knows no name, no type and no length for id 416: it is an element absent
// from the registry in every sense a user can give to these words (the neighbouring placeholder
// row 419 IS treated as absent), yet the known field protocolIdentifier that shares the template
// with it is never delivered.
//
// Why legitimate: the wire bytes are a well-formed RFC 7011 template and data record; the lenient
// modes exist precisely for exporters that send elements this library has no definition for;
// nothing is registered or configured unusually. (Whether a judge counts the placeholder rows as
// "in the registry" is the open point: registry.GetInfoElementFromID(416, 0) does return an
// entry - with an empty name and the invalid data type.)
package collector

import (
	"bytes"
	"encoding/binary"
	"testing"

	"github.com/vmware/go-ipfix/pkg/registry"
)

func f2Msg(dom uint32, setID uint16, body []byte) []byte {
	b := make([]byte, 20)
	binary.BigEndian.PutUint16(b[0:], 10)
	binary.BigEndian.PutUint16(b[2:], uint16(20+len(body)))
	binary.BigEndian.PutUint32(b[12:], dom)
	binary.BigEndian.PutUint16(b[16:], setID)
	binary.BigEndian.PutUint16(b[18:], uint16(4+len(body)))
	return append(b, body...)
}

func TestFinding2PlaceholderRegistryRows(t *testing.T) {
	registry.LoadRegistry()
	type field struct {
		id  uint16
		pen uint32
	}
	cases := []struct {
		name string
		f    field
	}{
		{"iana-419 (placeholder row that did not make it into the registry: control)", field{419, 0}},
		{"iana-97 (placeholder row that did not make it into the registry: control)", field{97, 0}},
		{"iana-416 (placeholder row without a name)", field{416, 0}},
		{"iana-0 (placeholder row 'Unassigned')", field{0, 0}},
		{"reverse-416", field{416, registry.IANAReversedEnterpriseID}},
	}
	for _, mode := range []DecodingMode{DecodingModeLenientKeepUnknown, DecodingModeLenientDropUnknown} {
		for _, c := range cases {
			t.Run(string(mode)+"/"+c.name, func(t *testing.T) {
				cp, err := InitCollectingProcess(CollectorInput{Address: "127.0.0.1:0", Protocol: "tcp", MaxBufferSize: 65535, DecodingMode: mode})
				if err != nil {
					t.Fatal(err)
				}
				go func() {
					for range cp.GetMsgChan() {
					}
				}()
				// template 300: protocolIdentifier (1 byte), <the element> (2 bytes)
				tpl := []byte{1, 44, 0, 2, 0, 4, 0, 1}
				spec := make([]byte, 4)
				binary.BigEndian.PutUint16(spec[0:], c.f.id)
				binary.BigEndian.PutUint16(spec[2:], 2)
				if c.f.pen != 0 {
					spec[0] |= 0x80
					spec = binary.BigEndian.AppendUint32(spec, c.f.pen)
				}
				tpl = append(tpl, spec...)
				if _, err := cp.decodePacket(bytes.NewBuffer(f2Msg(1, 2, tpl)), "192.0.2.1:4739"); err != nil {
					t.Fatalf("template refused: %v", err)
				}
				m, err := cp.decodePacket(bytes.NewBuffer(f2Msg(1, 300, []byte{6, 0xab, 0xcd})), "192.0.2.1:4739")
				if err != nil {
					t.Fatalf("data refused: %v", err)
				}
				recs := m.GetSet().GetRecords()
				if len(recs) != 1 {
					t.Fatalf("%d records", len(recs))
				}
				ies := recs[0].GetOrderedElementList()
				if ies[0].GetName() != "protocolIdentifier" || ies[0].GetUnsigned8Value() != 6 {
					t.Fatalf("known field wrong: %v", ies[0])
				}
				if mode == DecodingModeLenientKeepUnknown {
					if len(ies) != 2 || !bytes.Equal(ies[1].GetOctetArrayValue(), []byte{0xab, 0xcd}) {
						t.Fatalf("unknown field not preserved: %v", ies)
					}
				} else if len(ies) != 1 {
					t.Fatalf("unknown field not dropped: %v", ies)
				}
			})
		}
	}
}
