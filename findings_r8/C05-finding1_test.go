// Finding 1 for property C05 (clean tree): the common total counters do not follow the node
// that reported the latest end time when that node's total is smaller than the other node's.
//
// Place:  cp OUT/finding1_test.go WT/pkg/intermediate/finding1_test.go
// Run:    cd WT && go test -count=1 -timeout 120s -run 'TestC05Finding1' ./pkg/intermediate
//
// FAILS on the clean (unchanged) tree.
//
// Clause: "the aggregated record always carries the latest end time, each total counter's
// latest value ...; the common fields follow the node that reported the latest end time".
//
// Input (public API only, every call returns nil): one inter-node flow. The source node
// reports (end 110) 1000 packets / 100000 octets; the destination node reports later
// (end 111) 900 packets / 90000 octets, and later still (end 121) 950 / 95000. Per node the
// end times strictly increase, the totals do not decrease and end > start: exactly the
// exporter contract of the quantifier. Two nodes counting one flow differently is the normal
// case for an inter-node flow (packets lost or still in flight between the nodes, the two
// conntrack tables polled at different instants); the destination counting LESS than the
// source is what every lossy path produces.
//
// Observed: after the destination's record the common flowEndSeconds (111), packetDeltaCount
// (900) and throughput (65454 = 8*90000/11) are the destination's, but the common
// packetTotalCount / octetTotalCount (and the reverse ones) stay at the source's 1000 / 100000:
// aggregateRecords only overwrites a common total "if common < incoming". The common fields of
// one record therefore come from two different nodes, and the common total is neither the
// latest value nor the latest reporter's value. With the roles swapped (second flow of the
// test: destination counts more) the common totals do follow the latest reporter, which is
// also what the repository's own TestAggregateRecordsForInterNodeFlow expects ("latestVal ==
// aggVal" against dstRecordLatest).
package intermediate

import (
	"net"
	"testing"
	"time"

	"github.com/vmware/go-ipfix/pkg/entities"
	"github.com/vmware/go-ipfix/pkg/registry"
)

var c05f1Stats = []string{"packetTotalCount", "packetDeltaCount", "octetTotalCount", "reversePacketTotalCount", "reversePacketDeltaCount", "reverseOctetTotalCount"}

type c05f1Rec struct {
	v6             bool
	src, dst       string
	sport, dport   uint16
	proto          uint8
	srcPod, dstPod string
	flowType       uint8
	start, end     uint32
	pktTot, pktDel uint64
	octTot         uint64
}

func c05f1IE(t testing.TB, name string) *entities.InfoElement {
	for _, ent := range []uint32{registry.IANAEnterpriseID, registry.IANAReversedEnterpriseID, registry.AntreaEnterpriseID} {
		if ie, err := registry.GetInfoElement(name, ent); err == nil {
			return ie
		}
	}
	t.Fatalf("element %s is not in the registry", name)
	return nil
}

// c05f1Msg builds a message as the collector delivers it: one data set, one record per c05f1Rec.
func c05f1Msg(t testing.TB, recs ...c05f1Rec) *entities.Message {
	set := entities.NewSet(true)
	if err := set.PrepareSet(entities.Data, 256); err != nil {
		t.Fatal(err)
	}
	for _, r := range recs {
		var els []entities.InfoElementWithValue
		if r.v6 {
			els = append(els,
				entities.NewIPAddressInfoElement(c05f1IE(t, "sourceIPv6Address"), net.ParseIP(r.src).To16()),
				entities.NewIPAddressInfoElement(c05f1IE(t, "destinationIPv6Address"), net.ParseIP(r.dst).To16()))
		} else {
			els = append(els,
				entities.NewIPAddressInfoElement(c05f1IE(t, "sourceIPv4Address"), net.ParseIP(r.src).To4()),
				entities.NewIPAddressInfoElement(c05f1IE(t, "destinationIPv4Address"), net.ParseIP(r.dst).To4()))
		}
		els = append(els,
			entities.NewUnsigned16InfoElement(c05f1IE(t, "sourceTransportPort"), r.sport),
			entities.NewUnsigned16InfoElement(c05f1IE(t, "destinationTransportPort"), r.dport),
			entities.NewUnsigned8InfoElement(c05f1IE(t, "protocolIdentifier"), r.proto),
			entities.NewStringInfoElement(c05f1IE(t, "sourcePodName"), r.srcPod),
			entities.NewStringInfoElement(c05f1IE(t, "destinationPodName"), r.dstPod),
			entities.NewUnsigned8InfoElement(c05f1IE(t, "flowType"), r.flowType),
			entities.NewDateTimeSecondsInfoElement(c05f1IE(t, "flowStartSeconds"), r.start),
			entities.NewDateTimeSecondsInfoElement(c05f1IE(t, "flowEndSeconds"), r.end),
		)
		vals := []uint64{r.pktTot, r.pktDel, r.octTot, r.pktTot, r.pktDel, r.octTot}
		for i, name := range c05f1Stats {
			els = append(els, entities.NewUnsigned64InfoElement(c05f1IE(t, name), vals[i]))
		}
		if err := set.AddRecord(els, 256); err != nil {
			t.Fatal(err)
		}
	}
	msg := entities.NewMessage(true)
	msg.SetVersion(10)
	msg.SetObsDomainID(1)
	msg.SetExportAddress("127.0.0.1")
	msg.AddSet(set)
	return msg
}

func c05f1Process(t testing.TB) *AggregationProcess {
	registry.LoadRegistry()
	with := func(suffix string) []string {
		out := make([]string, 0, len(c05f1Stats))
		for _, e := range c05f1Stats {
			out = append(out, e+suffix)
		}
		return out
	}
	ap, err := InitAggregationProcess(AggregationInput{
		MessageChan:     make(chan *entities.Message),
		WorkerNum:       1,
		CorrelateFields: []string{"sourcePodName", "destinationPodName"},
		AggregateElements: &AggregationElements{
			NonStatsElements:                   []string{"flowEndSeconds"},
			StatsElements:                      c05f1Stats,
			AggregatedSourceStatsElements:      with("FromSourceNode"),
			AggregatedDestinationStatsElements: with("FromDestinationNode"),
			AntreaFlowEndSecondsElements:       []string{"flowEndSecondsFromSourceNode", "flowEndSecondsFromDestinationNode"},
			ThroughputElements:                 []string{"throughput", "reverseThroughput"},
			SourceThroughputElements:           []string{"throughputFromSourceNode", "reverseThroughputFromSourceNode"},
			DestinationThroughputElements:      []string{"throughputFromDestinationNode", "reverseThroughputFromDestinationNode"},
		},
		ActiveExpiryTimeout:   time.Hour,
		InactiveExpiryTimeout: time.Hour,
	})
	if err != nil {
		t.Fatal(err)
	}
	return ap
}

func c05f1Common(t *testing.T, ap *AggregationProcess, key FlowKey) map[string]interface{} {
	recs := ap.GetRecords(&key)
	if len(recs) != 1 {
		t.Fatalf("flow %v: %d flow records, want exactly one", key, len(recs))
	}
	return recs[0]
}

func TestC05Finding1(t *testing.T) {
	ap := c05f1Process(t)
	send := func(r c05f1Rec) {
		t.Helper()
		if err := ap.AggregateMsgByFlowKey(c05f1Msg(t, r)); err != nil {
			t.Fatalf("record refused: %v", err)
		}
	}
	check := func(rec map[string]interface{}, name string, want interface{}, whose string) {
		t.Helper()
		if rec[name] != want {
			t.Errorf("%s = %v, want %v (%s)", name, rec[name], want, whose)
		}
	}

	// Flow A: the destination node, which reports last, counted less than the source node.
	a := c05f1Rec{src: "10.0.0.1", dst: "10.0.1.2", sport: 40000, dport: 80, proto: 6, flowType: registry.FlowTypeInterNode, start: 100}
	keyA := FlowKey{SourceAddress: "10.0.0.1", DestinationAddress: "10.0.1.2", Protocol: 6, SourcePort: 40000, DestinationPort: 80}
	s1 := a
	s1.srcPod, s1.end, s1.pktTot, s1.pktDel, s1.octTot = "client", 110, 1000, 1000, 100000
	d1 := a
	d1.dstPod, d1.end, d1.pktTot, d1.pktDel, d1.octTot = "server", 111, 900, 900, 90000
	d2 := a
	d2.dstPod, d2.end, d2.pktTot, d2.pktDel, d2.octTot = "server", 121, 950, 50, 95000

	send(s1)
	send(d1)
	rec := c05f1Common(t, ap, keyA)
	// what the library gets right: the per-node fields, and the common fields other than totals
	check(rec, "packetTotalCountFromSourceNode", uint64(1000), "source node")
	check(rec, "packetTotalCountFromDestinationNode", uint64(900), "destination node")
	check(rec, "flowEndSeconds", uint32(111), "latest end time")
	check(rec, "packetDeltaCount", uint64(900), "common follows the destination node, the latest reporter")
	check(rec, "throughput", uint64(8*90000/11), "common follows the destination node, the latest reporter")
	// what it gets wrong
	check(rec, "packetTotalCount", uint64(900), "common total must follow the destination node, which reported the latest end time 111")
	check(rec, "octetTotalCount", uint64(90000), "common total must follow the destination node, which reported the latest end time 111")
	check(rec, "reversePacketTotalCount", uint64(900), "common total must follow the destination node")
	check(rec, "reverseOctetTotalCount", uint64(90000), "common total must follow the destination node")

	send(d2)
	rec = c05f1Common(t, ap, keyA)
	check(rec, "flowEndSeconds", uint32(121), "latest end time")
	check(rec, "packetDeltaCount", uint64(950), "common follows the destination node")
	check(rec, "packetTotalCount", uint64(950), "latest value of the total, reported by the destination node at end 121")
	check(rec, "octetTotalCount", uint64(95000), "latest value of the total, reported by the destination node at end 121")

	// Flow B (control, passes): same history with the roles of the values swapped.
	b := a
	b.sport = 40001
	keyB := keyA
	keyB.SourcePort = 40001
	s1 = b
	s1.srcPod, s1.end, s1.pktTot, s1.pktDel, s1.octTot = "client", 110, 900, 900, 90000
	d1 = b
	d1.dstPod, d1.end, d1.pktTot, d1.pktDel, d1.octTot = "server", 111, 1000, 1000, 100000
	send(s1)
	send(d1)
	rec = c05f1Common(t, ap, keyB)
	check(rec, "packetTotalCount", uint64(1000), "control: common total follows the destination node")
	check(rec, "octetTotalCount", uint64(100000), "control: common total follows the destination node")
}
