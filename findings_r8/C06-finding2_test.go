// Finding 2 for property C06, on the CLEAN tree: with both timeouts switched off by the maximum
// duration, the advertised time to the next expiry is MinExpiryTime (100 ms) instead of ~292 years.
//
// Place: copy to WT/pkg/intermediate/finding2_test.go
// Run:   cd WT && go test -count=1 -timeout 120s -run 'TestFinding2AdvertisedTimeOverflows' ./pkg/intermediate
//
// Clause: "the advertised time to the next expiry matches the earliest deadline".
// GetExpiryFromExpirePriorityQueue computes MinExpiryTime + deadline.Sub(now). When the earliest
// deadline is further away than math.MaxInt64 - MinExpiryTime nanoseconds the sum wraps to a negative
// duration, which the following "overdue" test (expiryDuration < 0) turns into MinExpiryTime. With
// ActiveExpiryTimeout = InactiveExpiryTimeout = math.MaxInt64 ("never", the usual way to switch a
// time.Duration timeout off; zero and negative values are not meaningful here) this is the case for
// the first MinExpiryTime after a record arrived: the process advertises an expiry in 100 ms although
// the earliest deadline is 292 years away; asked again 150 ms later it answers 2562047h47m.
// A caller that arms its timer from this value (the documented use) wakes up and scans for nothing,
// once per arrival burst. Low severity, but the statement is violated as written.
// Note: the package's own tests set MinExpiryTime = 0 in an init(), which hides the overflow; this
// test restores the library's default of 100 ms for its duration.
// FAILS on the clean tree.
package intermediate

import (
	"math"
	"net"
	"testing"
	"time"

	"github.com/vmware/go-ipfix/pkg/entities"
	"github.com/vmware/go-ipfix/pkg/registry"
)

func TestFinding2AdvertisedTimeOverflows(t *testing.T) {
	saved := MinExpiryTime
	MinExpiryTime = 100 * time.Millisecond // the library's default (aggregate.go)
	defer func() { MinExpiryTime = saved }()

	registry.LoadRegistry()
	never := time.Duration(math.MaxInt64)
	ap, err := InitAggregationProcess(AggregationInput{
		MessageChan:           make(chan *entities.Message),
		WorkerNum:             1,
		ActiveExpiryTimeout:   never,
		InactiveExpiryTimeout: never,
	})
	if err != nil {
		t.Fatal(err)
	}
	// Empty queue: the advertised time is min(active, inactive) = never. Fine.
	if d := ap.GetExpiryFromExpirePriorityQueue(); d != never {
		t.Fatalf("empty queue: advertised %v", d)
	}

	set := entities.NewSet(false)
	if err := set.PrepareSet(entities.Data, 256); err != nil {
		t.Fatal(err)
	}
	mk := func(name string) *entities.InfoElement {
		ie, err := registry.GetInfoElement(name, registry.IANAEnterpriseID)
		if err != nil {
			t.Fatal(err)
		}
		return ie
	}
	elems := []entities.InfoElementWithValue{
		entities.NewIPAddressInfoElement(mk("sourceIPv4Address"), net.ParseIP("10.0.0.1").To4()),
		entities.NewIPAddressInfoElement(mk("destinationIPv4Address"), net.ParseIP("10.0.0.2").To4()),
		entities.NewUnsigned16InfoElement(mk("sourceTransportPort"), 1),
		entities.NewUnsigned16InfoElement(mk("destinationTransportPort"), 443),
		entities.NewUnsigned8InfoElement(mk("protocolIdentifier"), 6),
	}
	if err := set.AddRecord(elems, 256); err != nil {
		t.Fatal(err)
	}
	m := entities.NewMessage(true)
	m.AddSet(set)
	if err := ap.AggregateMsgByFlowKey(m); err != nil {
		t.Fatal(err)
	}

	first := ap.GetExpiryFromExpirePriorityQueue()
	time.Sleep(150 * time.Millisecond)
	later := ap.GetExpiryFromExpirePriorityQueue()
	t.Logf("advertised right after the record: %v; 150 ms later: %v", first, later)
	if first < 24*time.Hour {
		t.Errorf("earliest deadline is ~292 years away, advertised time to the next expiry is %v (150 ms later: %v)", first, later)
	}
	// nothing is due, of course
	calls := 0
	_ = ap.ForAllExpiredFlowRecordsDo(func(FlowKey, *AggregationFlowRecord) error { calls++; return nil })
	if calls != 0 {
		t.Errorf("unexpected expiry")
	}
}
