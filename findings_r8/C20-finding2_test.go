// FINDING 2 (C20, clean tree): queries that carry a value which is not a count / not a format
// are answered instead of refused when that value is empty or is not the first of its name.
//
// Place:   copy to WT/cmd/collector/finding2_test.go   (package main, in-package test)
// Run:     cd WT && go test -count=1 -timeout 120s -run 'TestFinding2' ./cmd/collector
//
// Clause:  "invalid queries are refused".
// flowRecordHandler's own rule is: count must be a non-negative decimal integer, format must be
// "text" or "json" (everything else is answered 400). The rule is only applied to the FIRST
// value of each name (url.Values.Get) and only if that value is not empty:
//   GET /records?count=                      -> 200, the whole store   ("" is not a count)
//   GET /records?format=                     -> 200, JSON              ("" is not a format)
//   GET /records?count=1&count=abc           -> 200, one entry         (abc is not a count;
//   GET /records?count=abc&count=1           -> 400                     the same two values)
//   GET /records?count=1&format=text&format=xml -> 200, text           (xml is not a format)
// So whether a query with a bad value is refused depends on the order of its parameters, and a
// client whose count variable is unset ("count=" + "") gets all 4096 entries instead of an error.
//
// Why the input is legitimate: these are well-formed query strings (url.ParseQuery accepts them,
// so the check added by "fix: refuse record queries whose query string cannot be parsed" does
// not apply); the clause is about exactly such requests - syntactically fine, semantically not.
package main

import (
	"io"
	"net/http/httptest"
	"testing"

	"github.com/vmware/go-ipfix/pkg/entities"
)

func TestFinding2_InvalidValuesAnswered(t *testing.T) {
	mutex.Lock()
	flowRecords = nil
	mutex.Unlock()
	defer func() { mutex.Lock(); flowRecords = nil; mutex.Unlock() }()

	for i := 0; i < 3; i++ {
		set := entities.NewSet(true)
		if err := set.PrepareSet(entities.Data, 256); err != nil {
			t.Fatal(err)
		}
		msg := entities.NewMessage(true)
		msg.SetVersion(10)
		msg.SetSequenceNum(uint32(i))
		msg.AddSet(set)
		addIPFIXMessage(msg)
	}

	status := func(rawQuery string) (int, int) {
		req := httptest.NewRequest("GET", "/records?"+rawQuery, nil)
		rr := httptest.NewRecorder()
		flowRecordHandler(rr, req)
		b, _ := io.ReadAll(rr.Result().Body)
		return rr.Code, len(b)
	}

	// Reference points: the handler does refuse these values when it looks at them.
	for _, q := range []string{"count=abc", "count=abc&count=1", "format=xml", "format=xml&format=text", "count=-1"} {
		if code, _ := status(q); code != 400 {
			t.Fatalf("reference query %q: status %d, want 400", q, code)
		}
	}
	// The same values, empty or in second position.
	for _, q := range []string{
		"count=",
		"format=",
		"count=1&count=abc",
		"count=1&count=-1",
		"count=1&format=text&format=xml",
		"format=json&format=",
	} {
		if code, n := status(q); code != 400 {
			t.Errorf("GET /records?%s: status %d with %d bytes of records, want 400 (a value of the query is not a valid count/format)", q, code, n)
		}
	}
}
