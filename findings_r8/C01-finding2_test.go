// FINDING 2 (property C01) - clean tree.
//
// Place:   cp OUT/finding2_test.go WT/pkg/collector/finding2_test.go
// Run:     cd WT && go test -count=1 -timeout 120s -run 'TestFinding2' ./pkg/collector
//
// Clause:  "Whatever template and data records an application hands to an exporting process are
//          what a collecting process connected to it delivers: ... the same number of records,
//          and every field value bit-identical".
//
// ExportingProcess.NewTemplateID is the library's own allocator of template IDs. It is a bare
// uint16 increment: after 65280 IDs it wraps and hands out 0, 1, 2, ... - IDs which RFC 7011
// reserves for set headers (2 = template set, 3 = options template set, 0-255 reserved). The
// exporter accepts a template and data sets under such an ID. For the ID 2 the data set goes out
// with set ID 2, and the collector decodes the DATA records as a TEMPLATE record: the
// application's record is not delivered; depending on its content the connection is closed or
// a bogus template is installed and delivered.
//
// Legitimate: the application only uses IDs the exporting process itself gave it, and every
// call is accepted. An exporter which defines a template per (tenant, flow type, ...) and never
// releases IDs (the library has no call to release one) gets there in time. Low frequency, but
// the failure is silent on the exporter side.
package collector

import (
	"testing"
	"time"

	"github.com/vmware/go-ipfix/pkg/entities"
	"github.com/vmware/go-ipfix/pkg/exporter"
	"github.com/vmware/go-ipfix/pkg/registry"
)

func TestFinding2_NewTemplateIDWrapsIntoSetIDs(t *testing.T) {
	registry.LoadRegistry()
	cp, err := InitCollectingProcess(CollectorInput{Address: "127.0.0.1:0", Protocol: "tcp", MaxBufferSize: 65535})
	if err != nil {
		t.Fatal(err)
	}
	go cp.Start()
	for i := 0; cp.GetAddress() == nil; i++ {
		if i > 500 {
			t.Fatal("collector did not start")
		}
		time.Sleep(10 * time.Millisecond)
	}
	defer cp.Stop()
	ep, err := exporter.InitExportingProcess(exporter.ExporterInput{CollectorAddress: cp.GetAddress().String(), CollectorProtocol: "tcp", ObservationDomainID: 9})
	if err != nil {
		t.Fatal(err)
	}
	defer ep.CloseConnToCollector()

	ie1, _ := registry.GetInfoElement("sourceTransportPort", registry.IANAEnterpriseID)
	ie2, _ := registry.GetInfoElement("destinationTransportPort", registry.IANAEnterpriseID)
	ies := []*entities.InfoElement{ie1, ie2}

	recv := func() *entities.Message {
		select {
		case m := <-cp.GetMsgChan():
			return m
		case <-time.After(3 * time.Second):
			return nil
		}
	}
	checked := 0
	for n := 1; n <= 65283; n++ {
		id := ep.NewTemplateID()
		if id >= 256 {
			continue // the exporter's IDs are fine so far; nothing is sent for these
		}
		if id != 2 {
			continue
		}
		t.Logf("call %d of NewTemplateID returned %d", n, id)
		tset, err := entities.MakeTemplateSet(id, ies)
		if err != nil {
			t.Fatal(err)
		}
		if _, err := ep.SendSet(tset); err != nil {
			t.Logf("template refused: %v (fine)", err)
			return
		}
		if m := recv(); m == nil || m.GetSet().GetSetType() != entities.Template {
			t.Fatalf("template %d not delivered", id)
		}
		els := []entities.InfoElementWithValue{
			entities.NewUnsigned16InfoElement(ie1, 300),
			entities.NewUnsigned16InfoElement(ie2, 0),
		}
		dset, err := entities.MakeDataSet(id, els)
		if err != nil {
			t.Fatal(err)
		}
		if _, err := ep.SendSet(dset); err != nil {
			t.Logf("data set refused: %v (fine)", err)
			return
		}
		m := recv()
		if m == nil {
			t.Fatalf("data record handed over under the library-allocated template ID %d was accepted by SendSet and never delivered", id)
		}
		if m.GetSet().GetSetType() != entities.Data || m.GetSet().GetNumberOfRecords() != 1 {
			rec := m.GetSet().GetRecords()[0]
			t.Fatalf("data record {sourceTransportPort=300, destinationTransportPort=0} under the library-allocated template ID %d was delivered as a set of type %d (0=template) defining template %d with %d fields",
				id, m.GetSet().GetSetType(), rec.GetTemplateID(), rec.GetFieldCount())
		}
		got := m.GetSet().GetRecords()[0].GetOrderedElementList()
		if got[0].GetUnsigned16Value() != 300 || got[1].GetUnsigned16Value() != 0 {
			t.Fatalf("values differ")
		}
		checked++
	}
	if checked == 0 {
		t.Fatal("ID 2 was never handed out")
	}
}
