// Finding 2 for property C03 (round 8), on the CLEAN tree.
//
// Place:  copy to WT/pkg/collector/finding2_test.go
// Run:    cd WT && go test -count=1 -timeout 100s -run 'TestFinding2RegistryWriteWhileDecoding' ./pkg/collector
//         Observed on the clean tree: the test binary is aborted within milliseconds by the Go runtime's
//         unrecoverable "fatal error: concurrent map read and map write" (10 of 10 runs). With -race the
//         detector first reports the races (GetInfoElementFromID against InitNewRegistry/PutInfoElement).
//
// Clause: "decoding terminates ... without crashing the process".
//
// The collector looks every template field up in the process-wide registry
// (registry.GetInfoElementFromID, called from decodeTemplateSet) without any synchronisation,
// and registry.InitNewRegistry / registry.PutInfoElement - the public way for an application to
// add enterprise-specific elements - write the same maps without any synchronisation. Nothing in
// the API or its documentation says that registration has to be finished before the collecting
// process is started; an application that registers elements while its collector is running
// (configuration reload, elements learnt at run time) makes the decoder read a map that is being
// written. The Go runtime treats that as fatal (the process is aborted, recover does not help);
// short of the abort the lookup may see a half-built table.
//
// Every step is accepted by the library: a TCP collector in LenientKeepUnknown mode receives ordinary
// template messages from one exporter connection while the application registers elements of new
// enterprise numbers.
package collector

import (
	"encoding/binary"
	"fmt"
	"net"
	"testing"
	"time"

	"github.com/vmware/go-ipfix/pkg/entities"
	"github.com/vmware/go-ipfix/pkg/registry"
)

func TestFinding2RegistryWriteWhileDecoding(t *testing.T) {
	registry.LoadRegistry()
	cp, err := InitCollectingProcess(CollectorInput{
		Address:      "127.0.0.1:0",
		Protocol:     "tcp",
		DecodingMode: DecodingModeLenientKeepUnknown,
	})
	if err != nil {
		t.Fatal(err)
	}
	go cp.Start()
	for i := 0; cp.GetAddress() == nil; i++ {
		if i > 1000 {
			t.Fatal("collector did not start")
		}
		time.Sleep(5 * time.Millisecond)
	}
	received := 0
	consumerDone := make(chan struct{})
	go func() {
		defer close(consumerDone)
		for range cp.GetMsgChan() {
			received++
		}
	}()

	conn, err := net.Dial("tcp", cp.GetAddress().String())
	if err != nil {
		t.Fatal(err)
	}
	// template 256: sourceIPv4Address(8)/4, an element of enterprise 77777 (id 1, length 4)
	templateMsg := []byte{0, 10, 0, 36, 0, 0, 0, 1, 0, 0, 0, 0, 0, 0, 0, 1,
		0, 2, 0, 20, 1, 0, 0, 2, 0, 8, 0, 4, 0x80, 1, 0, 4, 0, 0, 0, 0}
	binary.BigEndian.PutUint32(templateMsg[32:], 77777)

	stop := make(chan struct{})
	senderDone := make(chan struct{})
	go func() {
		defer close(senderDone)
		for {
			select {
			case <-stop:
				return
			default:
			}
			if _, err := conn.Write(templateMsg); err != nil {
				return
			}
		}
	}()

	// The application registers elements while the collector is at work.
	end := time.Now().Add(3 * time.Second)
	for pen := uint32(100000); time.Now().Before(end); pen++ {
		if err := registry.InitNewRegistry(pen); err != nil {
			t.Fatal(err)
		}
		for id := uint16(1); id <= 8; id++ {
			ie := entities.NewInfoElement(fmt.Sprintf("custom%d_%d", pen, id), id, entities.Unsigned32, pen, 4)
			if err := registry.PutInfoElement(*ie, pen); err != nil {
				t.Fatal(err)
			}
		}
	}
	close(stop)
	<-senderDone
	conn.Close()
	cp.Stop()
	cp.CloseMsgChan()
	<-consumerDone
	if received == 0 {
		t.Fatal("no template message was delivered")
	}
	t.Logf("%d template messages decoded while elements were being registered", received)
}
