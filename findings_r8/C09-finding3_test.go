// Finding 3 for property C09 (CLEAN tree): in JSON mode a record loses values, without an
// error, (a) when its template holds the same information element twice and (b) when a
// string value is not valid UTF-8.
//
// Place:  cp OUT/finding3_test.go WT/pkg/exporter/finding3_test.go
// Run:    cd WT && go test -count=1 -timeout 120s -run 'TestFinding3JSONRecordLosesValues' ./pkg/exporter
//
// Clause: "A data record it does transmit carries each value faithfully: a value that cannot
// be encoded ... yields an error rather than a silently altered field."
//
// (a) createAndSendJSONMsg collects the fields of a record in a map keyed by element name, so
// of two fields with the same element only the last value is transmitted. Why legitimate:
// RFC 7011 section 8 explicitly allows multiple instances of one information element in a
// template ("their order is significant"); the exporter in binary mode transmits both, and
// template, record and sends are all accepted here.
// (b) encoding/json replaces every invalid byte by U+FFFD. Why legitimate: a Go string can
// hold any bytes (e.g. a label or header copied from the network); in binary mode the same
// record is transmitted byte for byte; the statement asks for an error when a value cannot
// be encoded for its element, not for a replacement.
// Both are the exporter-side counterpart of disagreements between the library's text and
// binary forms; the Kafka producer's handling of invalid UTF-8 is a different component.
package exporter

import (
	"bufio"
	"encoding/json"
	"net"
	"strings"
	"testing"
	"time"

	"github.com/vmware/go-ipfix/pkg/entities"
)

func TestFinding3JSONRecordLosesValues(t *testing.T) {
	ln, err := net.Listen("tcp", "127.0.0.1:0")
	if err != nil {
		t.Fatal(err)
	}
	defer ln.Close()
	ep, err := InitExportingProcess(ExporterInput{CollectorAddress: ln.Addr().String(), CollectorProtocol: "tcp", SendJSONRecord: true})
	if err != nil {
		t.Fatal(err)
	}
	defer ep.CloseConnToCollector()
	peer, err := ln.Accept()
	if err != nil {
		t.Fatal(err)
	}
	defer peer.Close()
	reader := bufio.NewReader(peer)

	label := entities.NewInfoElement("mplsTopLabelStackSection", 70, entities.Unsigned32, 0, 4)
	name := entities.NewInfoElement("applicationName", 96, entities.String, 0, entities.VariableLength)
	id := ep.NewTemplateID()
	tmpl := entities.NewSet(false)
	_ = tmpl.PrepareSet(entities.Template, id)
	if err := tmpl.AddRecord([]entities.InfoElementWithValue{
		entities.NewUnsigned32InfoElement(label, 0), entities.NewUnsigned32InfoElement(label, 0), entities.NewStringInfoElement(name, ""),
	}, id); err != nil {
		t.Fatal(err)
	}
	if _, err := ep.SendSet(tmpl); err != nil {
		t.Fatal(err)
	}
	data := entities.NewSet(false)
	_ = data.PrepareSet(entities.Data, id)
	if err := data.AddRecord([]entities.InfoElementWithValue{
		entities.NewUnsigned32InfoElement(label, 1111), entities.NewUnsigned32InfoElement(label, 2222), entities.NewStringInfoElement(name, "caf\xe9-1"),
	}, id); err != nil {
		t.Logf("AddRecord refuses the record: %v (fine)", err)
		return
	}
	if _, err := ep.SendSet(data); err != nil {
		t.Logf("SendSet refuses the record: %v (fine)", err)
		return
	}
	_ = peer.SetReadDeadline(time.Now().Add(5 * time.Second))
	line, err := reader.ReadString('\n')
	if err != nil {
		t.Fatalf("nothing arrived: %v", err)
	}
	t.Logf("arrived: %s", strings.TrimSpace(line))
	if !strings.Contains(line, "1111") {
		t.Errorf("(a) the record was handed in with two mplsTopLabelStackSection fields, 1111 and 2222; SendSet returned no error, but 1111 is nowhere in what arrived")
	}
	var doc struct {
		Ipfix map[string]interface{} `json:"ipfix"`
	}
	if err := json.Unmarshal([]byte(line), &doc); err != nil {
		t.Fatalf("not a JSON document: %v", err)
	}
	if len(doc.Ipfix) != 3 {
		t.Errorf("(a) a record of 3 fields arrived with %d fields", len(doc.Ipfix))
	}
	if got, _ := doc.Ipfix["applicationName"].(string); got != "caf\xe9-1" {
		t.Errorf("(b) applicationName was handed in as %q and arrived as %q; SendSet returned no error", "caf\xe9-1", got)
	}
}
