// Finding 2 (C02, clean tree): a data record whose elements are not the template's elements
// (same number of fields, other order or other widths) passes every check of AddRecord and
// SendSet and is put on the wire under that template's ID.
//
// Place:  cp OUT/finding2_test.go WT/pkg/exporter/finding2_test.go
// Run:    cd WT && go test -count=1 -timeout 60s -run 'TestFinding2RecordNotOfTemplate' ./pkg/exporter
//
// Clause: "data records carry each field big-endian at the template's width". The exporting
// process keeps the element list of every template it sent (templatesMap) and SendSet runs a
// "sanity check" of every data record against it, but that check only compares the NUMBER of
// fields and a minimum record length. (a) Template (sourceIPv4Address[4], sourceTransportPort
// [2]) and a record given as (sourceTransportPort, sourceIPv4Address): 6 bytes, accepted; any
// decoder reads address 0.80.1.2 and port 772. (b) Same template and a record given as
// (sourceIPv4Address, octetDeltaCount[8]): 12 bytes, accepted; any decoder finds TWO records of
// 6 bytes where one was sent (and the sequence numbers of the session stop adding up).
//
// Legitimate: each call is accepted without error; the same kind of inconsistency between a
// record and its set (record added under another template ID than the set's) is refused by
// SendSet since 55598d1, and records with a different field count are refused; swapping two
// elements between the template list and the record list is an easy application mistake.
package exporter

import (
	"encoding/binary"
	"io"
	"net"
	"testing"
	"time"

	"github.com/vmware/go-ipfix/pkg/entities"
	"github.com/vmware/go-ipfix/pkg/registry"
)

func TestFinding2RecordNotOfTemplate(t *testing.T) {
	ln, err := net.Listen("tcp", "127.0.0.1:0")
	if err != nil {
		t.Fatal(err)
	}
	defer ln.Close()
	streamCh := make(chan []byte, 1)
	go func() {
		conn, err := ln.Accept()
		if err != nil {
			streamCh <- nil
			return
		}
		b, _ := io.ReadAll(conn)
		streamCh <- b
	}()
	ep, err := InitExportingProcess(ExporterInput{CollectorAddress: ln.Addr().String(), CollectorProtocol: "tcp", ObservationDomainID: 1})
	if err != nil {
		t.Fatal(err)
	}
	get := func(name string) *entities.InfoElement {
		ie, err := registry.GetInfoElement(name, registry.IANAEnterpriseID)
		if err != nil {
			t.Fatal(err)
		}
		return ie
	}
	srcIP, srcPort, octets := get("sourceIPv4Address"), get("sourceTransportPort"), get("octetDeltaCount")
	id := ep.NewTemplateID()
	templateSet, err := entities.MakeTemplateSet(id, []*entities.InfoElement{srcIP, srcPort})
	if err != nil {
		t.Fatal(err)
	}
	if _, err := ep.SendSet(templateSet); err != nil {
		t.Fatal(err)
	}

	// (a) the two elements in the other order
	setA := entities.NewSet(false)
	if err := setA.PrepareSet(entities.Data, id); err != nil {
		t.Fatal(err)
	}
	errAddA := setA.AddRecord([]entities.InfoElementWithValue{
		entities.NewUnsigned16InfoElement(srcPort, 80),
		entities.NewIPAddressInfoElement(srcIP, net.ParseIP("1.2.3.4")),
	}, id)
	var errSendA error
	if errAddA == nil {
		_, errSendA = ep.SendSet(setA)
	}
	// (b) second element of another width
	setB := entities.NewSet(false)
	if err := setB.PrepareSet(entities.Data, id); err != nil {
		t.Fatal(err)
	}
	errAddB := setB.AddRecord([]entities.InfoElementWithValue{
		entities.NewIPAddressInfoElement(srcIP, net.ParseIP("1.2.3.4")),
		entities.NewUnsigned64InfoElement(octets, 80),
	}, id)
	var errSendB error
	if errAddB == nil {
		_, errSendB = ep.SendSet(setB)
	}
	t.Logf("(a) AddRecord: %v, SendSet: %v; (b) AddRecord: %v, SendSet: %v", errAddA, errSendA, errAddB, errSendB)
	time.Sleep(100 * time.Millisecond)
	ep.CloseConnToCollector()
	stream := <-streamCh

	// Independent decoder: template = address (4 bytes), port (2 bytes).
	n := 0
	for off := 0; off+20 <= len(stream); n++ {
		msgLen := int(binary.BigEndian.Uint16(stream[off+2:]))
		setID := binary.BigEndian.Uint16(stream[off+16:])
		body := stream[off+20 : off+msgLen]
		if setID == id {
			records := len(body) / 6
			t.Logf("data message: set body % x = %d record(s) of the template's 6 bytes", body, records)
			if records != 1 {
				t.Errorf("one record was handed to SendSet, the message holds %d records of the template's width", records)
			}
			ip, port := net.IP(body[0:4]), binary.BigEndian.Uint16(body[4:6])
			if !ip.Equal(net.ParseIP("1.2.3.4")) || (records == 1 && port != 80) {
				t.Errorf("fields are not at the template's positions/widths: decoded sourceIPv4Address=%v sourceTransportPort=%d, sent 1.2.3.4 and 80", ip, port)
			}
		}
		off += msgLen
	}
	if n != 1 {
		t.Logf("%d messages on the wire (1 template + %d data messages the exporter should have refused)", n, n-1)
	}
}
