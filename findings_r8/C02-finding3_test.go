// Finding 3 (C02, clean tree): a data record that is completed through Record.AddInfoElement
// after Set.AddRecordWithExtraElements makes SendSet panic in exporter.CreateIPFIXMsg
// ("slice bounds out of range"): the set's length (message header length, set header length,
// size of the message buffer) is not updated when one of its records grows.
//
// Place:  cp OUT/finding3_test.go WT/pkg/exporter/finding3_test.go
// Run:    cd WT && go test -count=1 -timeout 60s -run 'TestFinding3RecordCompletedAfterAdd' ./pkg/exporter
//
// Clause: "header length equal to the bytes actually sent, exactly one set whose length field
// covers the rest of the message" - the length the set reports (GetSetLength, used for both
// header fields and for the buffer) does not cover its records; instead of a message, or an
// error, the application gets a run-time panic out of SendSet. Nothing reaches the wire, so
// this is a crash in the anchored code rather than a malformed message.
//
// Legitimate: AddRecordWithExtraElements(elements, numExtraElements, id) exists to reserve
// room for elements that are added to the record later; Record.AddInfoElement is public, is
// reached through Set.GetRecords(), explicitly handles the encoding side (it validates the
// value and adds the element's length to the record's length when the record is not a decoded
// one) and returns nil. The completed record has exactly the template's fields, so the
// exporter's sanity check passes as well.
package exporter

import (
	"encoding/binary"
	"io"
	"net"
	"testing"
	"time"

	"github.com/vmware/go-ipfix/pkg/entities"
	"github.com/vmware/go-ipfix/pkg/registry"
)

func TestFinding3RecordCompletedAfterAdd(t *testing.T) {
	ln, err := net.Listen("tcp", "127.0.0.1:0")
	if err != nil {
		t.Fatal(err)
	}
	defer ln.Close()
	streamCh := make(chan []byte, 1)
	go func() {
		conn, err := ln.Accept()
		if err != nil {
			streamCh <- nil
			return
		}
		b, _ := io.ReadAll(conn)
		streamCh <- b
	}()
	ep, err := InitExportingProcess(ExporterInput{CollectorAddress: ln.Addr().String(), CollectorProtocol: "tcp", ObservationDomainID: 1})
	if err != nil {
		t.Fatal(err)
	}
	srcIP, err := registry.GetInfoElement("sourceIPv4Address", registry.IANAEnterpriseID)
	if err != nil {
		t.Fatal(err)
	}
	srcPort, err := registry.GetInfoElement("sourceTransportPort", registry.IANAEnterpriseID)
	if err != nil {
		t.Fatal(err)
	}
	id := ep.NewTemplateID()
	templateSet, err := entities.MakeTemplateSet(id, []*entities.InfoElement{srcIP, srcPort})
	if err != nil {
		t.Fatal(err)
	}
	if _, err := ep.SendSet(templateSet); err != nil {
		t.Fatal(err)
	}

	dataSet := entities.NewSet(false)
	if err := dataSet.PrepareSet(entities.Data, id); err != nil {
		t.Fatal(err)
	}
	// The address is known now, room is reserved for the port, which is filled in afterwards.
	if err := dataSet.AddRecordWithExtraElements([]entities.InfoElementWithValue{
		entities.NewIPAddressInfoElement(srcIP, net.ParseIP("1.2.3.4")),
	}, 1, id); err != nil {
		t.Fatal(err)
	}
	record := dataSet.GetRecords()[0]
	if err := record.AddInfoElement(entities.NewUnsigned16InfoElement(srcPort, 80)); err != nil {
		t.Fatalf("AddInfoElement refused the element (that would be fine): %v", err)
	}
	t.Logf("record: %d fields, %d bytes; set length %d (header 4 + records)", record.GetFieldCount(), record.GetRecordLength(), dataSet.GetSetLength())

	var sendErr error
	panicked := func() (p interface{}) {
		defer func() { p = recover() }()
		_, sendErr = ep.SendSet(dataSet)
		return nil
	}()
	time.Sleep(100 * time.Millisecond)
	ep.CloseConnToCollector()
	stream := <-streamCh
	if panicked != nil {
		t.Fatalf("SendSet panicked: %v", panicked)
	}
	if sendErr != nil {
		t.Logf("SendSet refused the set: %v (fine)", sendErr)
		return
	}
	// If a message was sent it has to be well-formed: 16 + 4 + 6 bytes.
	if len(stream) < 32+20 {
		t.Fatalf("SendSet reported success but no data message is on the wire")
	}
	msg := stream[32:]
	if l := int(binary.BigEndian.Uint16(msg[2:])); l != len(msg) || int(binary.BigEndian.Uint16(msg[18:])) != l-16 || l != 26 {
		t.Fatalf("data message % x: header length %d, set length %d, bytes sent %d, expected 26", msg, l, binary.BigEndian.Uint16(msg[18:]), len(msg))
	}
}
