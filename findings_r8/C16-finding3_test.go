// Finding 3 (clean tree), property C16.
//
// Place: copy to WT/pkg/entities/finding3_test.go
// Run:   cd WT && go test -count=1 -run TestFinding3DecodingSetLength ./pkg/entities
//
// Clauses: "A set's reported length always equals 4 plus the sum of its records' reported
// lengths" and "after a reset a set behaves exactly like a new one".
//
// NewSet(true) (the constructor the collector uses; public, same Set interface, same
// operations) counts the lengths of template records into set.length but starts from 0, not
// from the 4-byte header, and ResetSet does not clear the length of such a set
// (`if !s.isDecoding { ... s.length = SetHeaderLen }`). So for [PrepareSet(Template),
// AddRecord(1 field)] GetSetLength() is 8 although the record reports 8 (4+8 expected), and
// after ResetSet the set still reports 8 where a new one reports 0; every further round of
// prepare/add/reset lets the stale length grow.
package entities

import "testing"

func TestFinding3DecodingSetLength(t *testing.T) {
	ie := NewInfoElement("sourceTransportPort", 7, Unsigned16, 0, 2)
	s := NewSet(true)
	for round := 1; round <= 3; round++ {
		if err := s.PrepareSet(Template, 256); err != nil {
			t.Fatal(err)
		}
		if err := s.AddRecord([]InfoElementWithValue{NewUnsigned16InfoElement(ie, 0)}, 256); err != nil {
			t.Fatal(err)
		}
		sum := SetHeaderLen
		for _, r := range s.GetRecords() {
			sum += r.GetRecordLength()
		}
		if s.GetSetLength() != sum {
			t.Errorf("round %d: reported set length %d, 4 + sum of record lengths %d", round, s.GetSetLength(), sum)
		}
		s.ResetSet()
		if fresh := NewSet(true); s.GetSetLength() != fresh.GetSetLength() {
			t.Errorf("round %d: after ResetSet the set reports length %d, a new set %d", round, s.GetSetLength(), fresh.GetSetLength())
		}
	}
}
