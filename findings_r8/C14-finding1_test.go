// FINDING 1 (property C14), on the CLEAN tree.
//
// Place:   cp OUT/finding1_test.go WT/pkg/exporter/finding1_test.go
// Run:     cd WT && go test -race -count=1 -timeout 120s -run 'TestFinding1_' ./pkg/exporter
//
// Clause:  "Closing is idempotent and safe from any goroutine, stops all background work, and
//           no byte is written afterwards" -- quantified over "(concurrent, repeated) Close calls".
//
// What happens: closeConnToCollector is guarded by isClosed.Swap(true). The goroutine that wins
// the swap closes stopCh and THEN closes the connection. A second, overlapping call of
// CloseConnToCollector loses the swap, skips everything and only waits for the wait group; the
// background goroutines leave as soon as stopCh is closed, so the second call returns while the
// first one has not closed the connection yet. For the caller of the second call the exporter
// "is closed" (CloseConnToCollector returned), but the socket is still open: a SendSet issued
// now succeeds and its bytes reach the collector -- bytes written after Close returned.
//
// Why legitimate: two goroutines calling CloseConnToCollector (for instance a signal handler and
// a deferred call) is exactly the "concurrent, repeated Close" of the statement. The time between
// close(stopCh) and the end of connToCollector.Close() is not zero: it is a preemption point for
// plain sockets and up to five seconds for crypto/tls, whose Close first writes a close_notify
// alert with a 5 s deadline when the collector does not drain its socket. The test only makes
// that window long enough to be observed, by wrapping the connection so that its Close takes a
// while; nothing else is altered, all calls are public API.
package exporter

import (
	"net"
	"sync/atomic"
	"testing"
	"time"

	"github.com/vmware/go-ipfix/pkg/entities"
	"github.com/vmware/go-ipfix/pkg/registry"
)

type finding1SlowCloseConn struct {
	net.Conn
	closeEntered chan struct{}
	release      chan struct{}
	written      atomic.Int64
}

func (c *finding1SlowCloseConn) Close() error {
	close(c.closeEntered)
	<-c.release // a Close that takes time (scheduling, TLS close_notify on a congested link)
	return c.Conn.Close()
}

func (c *finding1SlowCloseConn) Write(b []byte) (int, error) {
	n, err := c.Conn.Write(b)
	c.written.Add(int64(n))
	return n, err
}

func TestFinding1_OverlappingCloseReturnsBeforeTheConnectionIsClosed(t *testing.T) {
	registry.LoadRegistry()
	server, err := net.ListenUDP("udp", &net.UDPAddr{IP: net.IPv4(127, 0, 0, 1)})
	if err != nil {
		t.Fatal(err)
	}
	defer server.Close()

	ep, err := InitExportingProcess(ExporterInput{
		CollectorAddress:    server.LocalAddr().String(),
		CollectorProtocol:   "udp",
		ObservationDomainID: 1,
		TempRefTimeout:      3600, // no refresh tick during the test
	})
	if err != nil {
		t.Fatal(err)
	}
	slow := &finding1SlowCloseConn{
		Conn:         ep.connToCollector,
		closeEntered: make(chan struct{}),
		release:      make(chan struct{}),
	}
	ep.connToCollector = slow // before any concurrent use; the refresh goroutine only uses it on a tick

	// First Close: wins the swap, closes stopCh, is now inside connToCollector.Close().
	firstDone := make(chan struct{})
	go func() {
		defer close(firstDone)
		ep.CloseConnToCollector()
	}()
	<-slow.closeEntered

	// Second, overlapping Close from another goroutine.
	secondDone := make(chan struct{})
	go func() {
		defer close(secondDone)
		ep.CloseConnToCollector()
	}()
	select {
	case <-secondDone:
	case <-time.After(5 * time.Second):
		// It waits for the first call: that would be the correct behaviour.
		close(slow.release)
		<-firstDone
		<-secondDone
		return
	}

	// CloseConnToCollector has returned to its caller. Nothing may be written from now on.
	ie, err := registry.GetInfoElement("sourceIPv4Address", registry.IANAEnterpriseID)
	if err != nil {
		t.Fatal(err)
	}
	tmplSet, err := entities.MakeTemplateSet(ep.NewTemplateID(), []*entities.InfoElement{ie})
	if err != nil {
		t.Fatal(err)
	}
	before := slow.written.Load()
	n, sendErr := ep.SendSet(tmplSet)
	after := slow.written.Load()

	// What does the collector see?
	got := 0
	server.SetReadDeadline(time.Now().Add(500 * time.Millisecond))
	buf := make([]byte, 2048)
	if m, _, err := server.ReadFromUDP(buf); err == nil {
		got = m
	}

	close(slow.release)
	<-firstDone

	if sendErr == nil || after != before || got != 0 {
		t.Fatalf("CloseConnToCollector had returned, yet SendSet returned (%d, %v), %d bytes were written to the connection and the collector received a %d-byte message",
			n, sendErr, after-before, got)
	}
}
