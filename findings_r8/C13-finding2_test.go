// FINDING 2 (clean tree) for property C13 - weaker than finding 1: it concerns the life cycle of
// the built-in worker pool (second use of the object), which the statement covers only through
// "behave as if executed one at a time ... equal what a sequential execution of the same
// operations would produce".
//
// Place at:  WT/pkg/intermediate/finding2_test.go
// Run:       cd WT && go test -race -count=1 -timeout 120s -run 'TestFinding2' ./pkg/intermediate
//
// Sequence: go Start(); Stop();  go Start(); Stop().   Every step is accepted; the first cycle
// works. Start appends its new workers to a.workerList, Stop never clears that list. The second
// Stop therefore first signals the two workers of the FIRST cycle, whose goroutines have
// returned long ago: `w.errChan <- true` on an unbuffered channel nobody reads any more blocks
// for ever. The second Stop never returns, the second Start never returns, and the two workers
// of the second cycle keep ingesting for ever. A sequential execution of the same four
// operations terminates with a stopped process.
//
// Why legitimate: every step is accepted without error, nothing in the API says the process is
// single-use, and Start after Stop does bring up a working pool on the same channel. An
// application that pauses and later resumes aggregation (or a test fixture that reuses one
// process for two cases) runs exactly this sequence.
package intermediate

import (
	"net"
	"testing"
	"time"

	"github.com/vmware/go-ipfix/pkg/entities"
	"github.com/vmware/go-ipfix/pkg/registry"
)

func finding2Msg(t testing.TB, srcPort uint16) *entities.Message {
	registry.LoadRegistry()
	mk := func(name string, ent uint32) *entities.InfoElement {
		ie, err := registry.GetInfoElement(name, ent)
		if err != nil {
			t.Fatalf("%s: %v", name, err)
		}
		return ie
	}
	elements := []entities.InfoElementWithValue{
		entities.NewIPAddressInfoElement(mk("sourceIPv4Address", registry.IANAEnterpriseID), net.ParseIP("10.0.0.1").To4()),
		entities.NewIPAddressInfoElement(mk("destinationIPv4Address", registry.IANAEnterpriseID), net.ParseIP("10.0.0.2").To4()),
		entities.NewUnsigned16InfoElement(mk("sourceTransportPort", registry.IANAEnterpriseID), srcPort),
		entities.NewUnsigned16InfoElement(mk("destinationTransportPort", registry.IANAEnterpriseID), 5678),
		entities.NewUnsigned8InfoElement(mk("protocolIdentifier", registry.IANAEnterpriseID), 6),
		entities.NewUnsigned8InfoElement(mk("flowType", registry.AntreaEnterpriseID), registry.FlowTypeIntraNode),
	}
	set := entities.NewSet(true)
	if err := set.PrepareSet(entities.Data, 256); err != nil {
		t.Fatal(err)
	}
	if err := set.AddRecord(elements, 256); err != nil {
		t.Fatal(err)
	}
	msg := entities.NewMessage(true)
	msg.AddSet(set)
	return msg
}

func TestFinding2_SecondStopHangs(t *testing.T) {
	ch := make(chan *entities.Message)
	ap, err := InitAggregationProcess(AggregationInput{
		MessageChan:           ch,
		WorkerNum:             2,
		ActiveExpiryTimeout:   time.Minute,
		InactiveExpiryTimeout: time.Minute,
	})
	if err != nil {
		t.Fatal(err)
	}
	for cycle := 1; cycle <= 2; cycle++ {
		startReturned := make(chan struct{})
		go func() { ap.Start(); close(startReturned) }()
		// A message is taken and ingested: the pool of this cycle is up (so Stop cannot
		// overtake Start, which is finding 1).
		select {
		case ch <- finding2Msg(t, uint16(1000+cycle)):
		case <-time.After(5 * time.Second):
			t.Fatalf("cycle %d: no worker takes messages after Start", cycle)
		}
		for deadline := time.Now().Add(5 * time.Second); ap.GetNumFlows() != int64(cycle); {
			if time.Now().After(deadline) {
				t.Fatalf("cycle %d: message not ingested", cycle)
			}
			time.Sleep(time.Millisecond)
		}
		stopReturned := make(chan struct{})
		go func() { ap.Stop(); close(stopReturned) }()
		select {
		case <-stopReturned:
		case <-time.After(5 * time.Second):
			t.Fatalf("cycle %d: Stop has not returned after 5 s (it is blocked signalling a worker of an earlier cycle)", cycle)
		}
		select {
		case <-startReturned:
		case <-time.After(5 * time.Second):
			t.Fatalf("cycle %d: Start has not returned after Stop", cycle)
		}
	}
}
