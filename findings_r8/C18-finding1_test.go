// Finding 1 for property C18 (round 8), on the CLEAN tree.
//
// Place this file at   WT/pkg/collector/finding1_test.go   and run
//
//	cd WT && go test -count=1 -timeout 120s -run 'TestFinding1' ./pkg/collector
//
// It FAILS on the clean tree.
//
// Clause violated: "no configuration with security settings present results in messages being
// accepted from ... an unencrypted session" (and, for the client CA: "a collector configured
// with a client CA delivers messages only from exporters presenting a certificate issued by
// that CA").
//
// Input: CollectorInput{Protocol: "tcp" (or "udp"), ServerCert, ServerKey, CACert} - a server
// key pair AND a client CA - in which the separate boolean IsEncrypted was left at its zero
// value. InitCollectingProcess accepts it without error or warning, Start() opens a PLAINTEXT
// listener, and a peer that presents nothing at all (plain TCP / plain UDP) gets its messages
// decoded and delivered on GetMsgChan. The certificate, key and CA are silently ignored.
//
// Why the input is legitimate: every step is accepted by the library (no error from
// InitCollectingProcess, nothing logged by Start); nothing in the documentation of
// CollectorInput says that CACert/ServerCert/ServerKey are only honoured together with
// IsEncrypted; and the library's other end does it the other way round: the exporter switches
// TLS/DTLS on by the mere PRESENCE of its security settings (ExporterInput.TLSClientConfig !=
// nil), there is no second switch. An operator who provisions the three PEM blobs from a
// secret and forgets the flag (or whose configuration layer maps "certs present" to
// encryption, as the exporter's does) runs a collector that requires no authentication and no
// encryption. The library's two ends disagree on what "security settings present" enables.
// Expected: refuse the configuration (error from InitCollectingProcess / no listener), or
// serve TLS/DTLS.
package collector

import (
	"crypto/ecdsa"
	"crypto/elliptic"
	"crypto/rand"
	"crypto/x509"
	"crypto/x509/pkix"
	"encoding/binary"
	"encoding/pem"
	"math/big"
	"net"
	"testing"
	"time"

	"github.com/vmware/go-ipfix/pkg/registry"
)

func finding1Certs(t *testing.T) (caPEM, certPEM, keyPEM []byte) {
	t.Helper()
	now := time.Now()
	caKey, err := ecdsa.GenerateKey(elliptic.P256(), rand.Reader)
	if err != nil {
		t.Fatal(err)
	}
	caTmpl := &x509.Certificate{
		SerialNumber:          big.NewInt(1),
		Subject:               pkix.Name{CommonName: "finding1 CA"},
		NotBefore:             now.Add(-time.Hour),
		NotAfter:              now.Add(24 * time.Hour),
		IsCA:                  true,
		BasicConstraintsValid: true,
		KeyUsage:              x509.KeyUsageCertSign | x509.KeyUsageDigitalSignature,
	}
	caDER, err := x509.CreateCertificate(rand.Reader, caTmpl, caTmpl, &caKey.PublicKey, caKey)
	if err != nil {
		t.Fatal(err)
	}
	caCert, _ := x509.ParseCertificate(caDER)
	srvKey, err := ecdsa.GenerateKey(elliptic.P256(), rand.Reader)
	if err != nil {
		t.Fatal(err)
	}
	srvTmpl := &x509.Certificate{
		SerialNumber: big.NewInt(2),
		Subject:      pkix.Name{CommonName: "finding1 collector"},
		NotBefore:    now.Add(-time.Hour),
		NotAfter:     now.Add(24 * time.Hour),
		KeyUsage:     x509.KeyUsageDigitalSignature,
		ExtKeyUsage:  []x509.ExtKeyUsage{x509.ExtKeyUsageServerAuth},
		IPAddresses:  []net.IP{net.ParseIP("127.0.0.1")},
	}
	srvDER, err := x509.CreateCertificate(rand.Reader, srvTmpl, caCert, &srvKey.PublicKey, caKey)
	if err != nil {
		t.Fatal(err)
	}
	keyDER, err := x509.MarshalECPrivateKey(srvKey)
	if err != nil {
		t.Fatal(err)
	}
	enc := func(typ string, der []byte) []byte {
		return pem.EncodeToMemory(&pem.Block{Type: typ, Bytes: der})
	}
	return enc("CERTIFICATE", caDER), enc("CERTIFICATE", srvDER), enc("EC PRIVATE KEY", keyDER)
}

// finding1TemplateMsg: one template set, template 256 = {sourceIPv4Address (8), length 4}.
func finding1TemplateMsg() []byte {
	msg := make([]byte, 0, 28)
	msg = binary.BigEndian.AppendUint16(msg, 10)
	msg = binary.BigEndian.AppendUint16(msg, 28)
	msg = binary.BigEndian.AppendUint32(msg, uint32(time.Now().Unix()))
	msg = binary.BigEndian.AppendUint32(msg, 0)
	msg = binary.BigEndian.AppendUint32(msg, 1)
	msg = binary.BigEndian.AppendUint16(msg, 2)
	msg = binary.BigEndian.AppendUint16(msg, 12)
	msg = binary.BigEndian.AppendUint16(msg, 256)
	msg = binary.BigEndian.AppendUint16(msg, 1)
	msg = binary.BigEndian.AppendUint16(msg, 8)
	msg = binary.BigEndian.AppendUint16(msg, 4)
	return msg
}

func TestFinding1_CertificatesPresentButPlaintextServed(t *testing.T) {
	registry.LoadRegistry()
	caPEM, certPEM, keyPEM := finding1Certs(t)

	for _, protocol := range []string{"tcp", "udp"} {
		protocol := protocol
		t.Run(protocol, func(t *testing.T) {
			cp, err := InitCollectingProcess(CollectorInput{
				Address:       "127.0.0.1:0",
				Protocol:      protocol,
				MaxBufferSize: 1024,
				TemplateTTL:   0,
				// Security settings present: server key pair and a client CA.
				// IsEncrypted is left at its zero value.
				CACert:     caPEM,
				ServerCert: certPEM,
				ServerKey:  keyPEM,
			})
			if err != nil {
				t.Logf("configuration refused (fine): %v", err)
				return
			}
			go cp.Start()
			defer cp.Stop()
			deadline := time.Now().Add(3 * time.Second)
			for cp.GetAddress() == nil && time.Now().Before(deadline) {
				time.Sleep(10 * time.Millisecond)
			}
			if cp.GetAddress() == nil {
				t.Log("no listener was opened (fine)")
				return
			}
			delivered := make(chan string, 4)
			stop := make(chan struct{})
			defer close(stop)
			go func() {
				for {
					select {
					case m := <-cp.GetMsgChan():
						delivered <- m.GetExportAddress()
					case <-stop:
						return
					}
				}
			}()
			// A peer with no certificate and no TLS/DTLS at all.
			conn, err := net.DialTimeout(protocol, cp.GetAddress().String(), 2*time.Second)
			if err != nil {
				t.Logf("plaintext peer cannot connect (fine): %v", err)
				return
			}
			defer conn.Close()
			if _, err := conn.Write(finding1TemplateMsg()); err != nil {
				t.Logf("plaintext write failed (fine): %v", err)
				return
			}
			select {
			case from := <-delivered:
				t.Errorf("collector configured with ServerCert, ServerKey and a client CA delivered a message received from %s over a PLAINTEXT %s session, from a peer that presented no certificate", from, protocol)
			case <-time.After(2 * time.Second):
				t.Log("nothing delivered (fine)")
			}
		})
	}
}
