// Finding 2 for property C09 (CLEAN tree): a set whose type was never defined is transmitted.
//
// Place:  cp OUT/finding2_test.go WT/pkg/exporter/finding2_test.go
// Run:    cd WT && go test -count=1 -timeout 120s -run 'TestFinding2UndefinedSetTypeIsTransmitted' ./pkg/exporter
//
// Clause: the quantifier lists "undefined set type" among the sends that must be refused
// ("in those cases it returns an error and writes nothing to the connection"), and the title
// says the exporter never emits an invalid message. SendSet only refuses the value 255
// (entities.Undefined), which a set has after ResetSet. But
//   (a) a set fresh from entities.NewSet(false), on which PrepareSet was never called, has the
//       zero value of ContentType, which is Template: SendSet transmits a message whose set
//       has Set ID 0 (reserved, RFC 7011 3.3.2) - with or without records - and, if it has
//       records, registers their ids as templates that "have been sent", so that data sets
//       are transmitted afterwards for a template no receiver can have accepted;
//   (b) PrepareSet accepts any ContentType other than 255, e.g. ContentType(2) (neither
//       Template nor Data - the source says options templates are not supported); SendSet
//       transmits a message with an empty set of Set ID 0 for it.
// Why the input is legitimate: every call is accepted without an error by the library; a
// forgotten PrepareSet (or one whose error return was ignored) is an ordinary slip, and the
// same set object is refused after ResetSet, so the library itself considers the state
// "undefined" an error.
package exporter

import (
	"encoding/binary"
	"net"
	"testing"
	"time"

	"github.com/vmware/go-ipfix/pkg/entities"
)

func f2Arrived(conn net.Conn) []byte {
	_ = conn.SetReadDeadline(time.Now().Add(300 * time.Millisecond))
	buf := make([]byte, 70000)
	n, _ := conn.Read(buf)
	return buf[:n]
}

func TestFinding2UndefinedSetTypeIsTransmitted(t *testing.T) {
	ln, err := net.Listen("tcp", "127.0.0.1:0")
	if err != nil {
		t.Fatal(err)
	}
	defer ln.Close()
	ep, err := InitExportingProcess(ExporterInput{CollectorAddress: ln.Addr().String(), CollectorProtocol: "tcp"})
	if err != nil {
		t.Fatal(err)
	}
	defer ep.CloseConnToCollector()
	peer, err := ln.Accept()
	if err != nil {
		t.Fatal(err)
	}
	defer peer.Close()
	octets := entities.NewInfoElement("octetDeltaCount", 1, entities.Unsigned64, 0, 8)

	// (a) PrepareSet never called.
	fresh := entities.NewSet(false)
	n, err := ep.SendSet(fresh)
	if got := f2Arrived(peer); err == nil || len(got) > 0 {
		t.Errorf("(a) set without PrepareSet, no records: SendSet returned (%d, %v) and %d bytes arrived: %x (Set ID %d)", n, err, len(got), got, f2SetID(got))
	}
	if err := fresh.AddRecord([]entities.InfoElementWithValue{entities.NewUnsigned64InfoElement(octets, 0)}, 300); err != nil {
		t.Logf("(a) AddRecord on the unprepared set: %v", err)
	}
	n, err = ep.SendSet(fresh)
	if got := f2Arrived(peer); err == nil || len(got) > 0 {
		t.Errorf("(a) set without PrepareSet, one record: SendSet returned (%d, %v) and %d bytes arrived: %x (Set ID %d)", n, err, len(got), got, f2SetID(got))
	}
	// No template set (Set ID 2) was ever transmitted, so no data set may be.
	data := entities.NewSet(false)
	if err := data.PrepareSet(entities.Data, 300); err != nil {
		t.Fatal(err)
	}
	if err := data.AddRecord([]entities.InfoElementWithValue{entities.NewUnsigned64InfoElement(octets, 7)}, 300); err != nil {
		t.Fatal(err)
	}
	n, err = ep.SendSet(data)
	if got := f2Arrived(peer); err == nil || len(got) > 0 {
		t.Errorf("(a) data set for id 300, for which no template set was ever transmitted: SendSet returned (%d, %v) and %d bytes arrived: %x", n, err, len(got), got)
	}

	// (b) a set type that is neither Template nor Data.
	odd := entities.NewSet(false)
	if err := odd.PrepareSet(entities.ContentType(2), 256); err != nil {
		t.Logf("(b) PrepareSet(ContentType(2)) refused: %v (fine)", err)
	} else {
		n, err = ep.SendSet(odd)
		if got := f2Arrived(peer); err == nil || len(got) > 0 {
			t.Errorf("(b) set of type ContentType(2): SendSet returned (%d, %v) and %d bytes arrived: %x (Set ID %d)", n, err, len(got), got, f2SetID(got))
		}
	}

	// For comparison: the same object after ResetSet is refused.
	fresh.ResetSet()
	if _, err := ep.SendSet(fresh); err == nil {
		t.Errorf("a set after ResetSet is not refused either")
	}
}

func f2SetID(msg []byte) int {
	if len(msg) < 18 {
		return -1
	}
	return int(binary.BigEndian.Uint16(msg[16:18]))
}
