// Finding 2 (property C11), CLEAN tree.
//
// Place at:  WT/pkg/collector/finding2_test.go
// Run with:  cd WT && go test -count=1 -timeout 120s -run 'TestFinding2SetLengthBeyondMessage' ./pkg/collector
//
// Clause violated: "After the first undecodable message the connection is closed and nothing
// further from that stream is delivered".
//
// Input (the quantifier includes "an invalid message at any position"): template set, then a
// message whose framing is fine (header length 28, 28 bytes follow) but whose only set cannot
// be decoded because its Set Header is inconsistent with the message that carries it:
//   a) Set Length 400 - the set claims to extend 380 bytes past the end of its message;
//   b) Set Length 65535;
//   c) Set Length 0, d) Set Length 3 - shorter than the set header itself.
// RFC 7011 3.3.2 defines Set Length as the "total length of the Set, in octets, including the
// Set Header, all records, and the optional padding", so none of these sets exists inside its
// message. The library itself takes the field seriously since the repair "do not decode what
// follows a set as the content of that set" (a Set Length of 8 or 11 in the same message makes
// the record disappear), but only when the value happens to lie inside the message.
//
// Observed: each of these messages is delivered as an ordinary data message with one record
// (decoded from whatever bytes the message holds), the connection stays open and the valid
// message behind it is delivered too.
// Expected: the message is refused, the connection is closed, nothing further is delivered
// (exactly what happens already for, e.g., a Set Length that cuts a record in two).
package collector_test

import (
	"encoding/binary"
	"fmt"
	"net"
	"testing"
	"time"

	"github.com/vmware/go-ipfix/pkg/collector"
	"github.com/vmware/go-ipfix/pkg/entities"
	"github.com/vmware/go-ipfix/pkg/registry"
)

func finding2Msg(seq, dom uint32, setID uint16, setLen int, body []byte) []byte {
	total := 16 + 4 + len(body)
	b := make([]byte, total)
	binary.BigEndian.PutUint16(b[0:], 10)
	binary.BigEndian.PutUint16(b[2:], uint16(total))
	binary.BigEndian.PutUint32(b[4:], 1700000000)
	binary.BigEndian.PutUint32(b[8:], seq)
	binary.BigEndian.PutUint32(b[12:], dom)
	binary.BigEndian.PutUint16(b[16:], setID)
	if setLen < 0 {
		setLen = 4 + len(body)
	}
	binary.BigEndian.PutUint16(b[18:], uint16(setLen))
	copy(b[20:], body)
	return b
}

func TestFinding2SetLengthBeyondMessage(t *testing.T) {
	registry.LoadRegistry()
	for _, setLen := range []int{400, 65535, 0, 3} {
		t.Run(fmt.Sprintf("setLength=%d", setLen), func(t *testing.T) {
			cp, err := collector.InitCollectingProcess(collector.CollectorInput{Address: "127.0.0.1:0", Protocol: "tcp", MaxBufferSize: 1024})
			if err != nil {
				t.Fatal(err)
			}
			go cp.Start()
			for cp.GetAddress() == nil {
				time.Sleep(10 * time.Millisecond)
			}
			defer cp.Stop()
			out := make(chan *entities.Message, 16)
			go func() {
				for m := range cp.GetMsgChan() {
					out <- m
				}
			}()
			conn, err := net.Dial("tcp", cp.GetAddress().String())
			if err != nil {
				t.Fatal(err)
			}
			defer conn.Close()

			// template 256: sourceIPv4Address (8, 4 bytes), destinationIPv4Address (12, 4 bytes)
			conn.Write(finding2Msg(0, 1, 2, -1, []byte{1, 0, 0, 2, 0, 8, 0, 4, 0, 12, 0, 4}))
			// data set whose Set Length does not fit the message (message length itself is right)
			conn.Write(finding2Msg(0, 1, 256, setLen, []byte{10, 0, 0, 1, 10, 0, 0, 2}))
			time.Sleep(100 * time.Millisecond)
			// a well-formed data message behind it
			conn.Write(finding2Msg(1, 1, 256, -1, []byte{10, 0, 0, 3, 10, 0, 0, 4}))

			var got []*entities.Message
		collect:
			for {
				select {
				case m := <-out:
					got = append(got, m)
				case <-time.After(500 * time.Millisecond):
					break collect
				}
			}
			if len(got) != 1 {
				t.Errorf("expected only the template message to be delivered, got %d messages: the message with Set Length %d in a 28-byte message was delivered as decodable, and so was the message behind it", len(got), setLen)
			}
			conn.SetReadDeadline(time.Now().Add(500 * time.Millisecond))
			_, err = conn.Read(make([]byte, 1))
			if ne, ok := err.(net.Error); ok && ne.Timeout() {
				t.Errorf("the connection is still open after a message whose set (Set Length %d) does not fit into it", setLen)
			}
		})
	}
}
