// FINDING 1 (C17, clean tree): the element registry has no synchronisation, so an application
// that registers one more information element (registry.PutInfoElement, a public function meant
// for exactly that) while the collecting process is decoding templates races with
// registry.GetInfoElementFromID, which decodeTemplateSet calls for every field of every template.
// The Go runtime aborts the whole process ("fatal error: concurrent map read and map write") or,
// under the race detector, reports the data race; either way no record is delivered any more, in
// any decoding mode.
//
// Place:  cp OUT/finding1_test.go WT/pkg/collector/finding1_test.go
// Run:    cd WT && go test -race -count=1 -timeout 100s -run 'TestFinding1RegistrationWhileCollecting$' ./pkg/collector
//         (without -race the run usually dies with the runtime's fatal error instead; the race
//         detector makes the outcome deterministic)
//
// Clause: "keep mode delivers each unknown field as an octet array holding exactly the bytes
// received ... In every mode each known field decodes to the same value it would have had if the
// unknown fields were not there" - quantified over all configurations. Here templates that mix a
// known element with elements of an application-defined enterprise are being decoded (real TCP
// connection, keep mode) while the application registers further elements of that enterprise.
//
// Why legitimate: every step is an ordinary public call that succeeds: InitNewRegistry once, then
// PutInfoElement with fresh names and ids (no error is returned), a running collector, an exporter
// sending well-formed templates and data. Registering elements after the collector has started
// (even after it first saw them) is something the library supports sequentially; nothing in the
// documentation says that it must not overlap with traffic, and with a collector serving sockets
// on its own goroutines the application cannot know when "between two messages" is.
package collector

import (
	"encoding/binary"
	"fmt"
	"net"
	"testing"
	"time"

	"github.com/vmware/go-ipfix/pkg/entities"
	"github.com/vmware/go-ipfix/pkg/registry"
)

func f1Msg(dom uint32, setID uint16, body []byte) []byte {
	b := make([]byte, 20)
	binary.BigEndian.PutUint16(b[0:], 10)
	binary.BigEndian.PutUint16(b[2:], uint16(20+len(body)))
	binary.BigEndian.PutUint32(b[12:], dom)
	binary.BigEndian.PutUint16(b[16:], setID)
	binary.BigEndian.PutUint16(b[18:], uint16(4+len(body)))
	return append(b, body...)
}

func TestFinding1RegistrationWhileCollecting(t *testing.T) {
	const pen = 424242
	registry.LoadRegistry()
	if err := registry.InitNewRegistry(pen); err != nil {
		t.Fatal(err)
	}
	cp, err := InitCollectingProcess(CollectorInput{Address: "127.0.0.1:0", Protocol: "tcp", MaxBufferSize: 65535, DecodingMode: DecodingModeLenientKeepUnknown})
	if err != nil {
		t.Fatal(err)
	}
	go cp.Start()
	defer cp.Stop()
	for i := 0; cp.GetAddress() == nil; i++ {
		if i > 500 {
			t.Fatal("collector did not start")
		}
		time.Sleep(10 * time.Millisecond)
	}
	received := make(chan int, 1)
	go func() {
		n := 0
		for m := range cp.GetMsgChan() {
			if m.GetSet().GetSetType() == entities.Data {
				n++
			}
			select {
			case <-received:
			default:
			}
			received <- n
		}
	}()

	conn, err := net.Dial("tcp", cp.GetAddress().String())
	if err != nil {
		t.Fatal(err)
	}
	defer conn.Close()

	// The application: registers one element of its enterprise every now and then.
	stop := make(chan struct{})
	regDone := make(chan struct{})
	go func() {
		defer close(regDone)
		for i := 0; ; i++ {
			select {
			case <-stop:
				return
			default:
			}
			ie := entities.NewInfoElement(fmt.Sprintf("appElement%d", i), uint16(1000+i%30000), entities.Unsigned32, pen, 4)
			if err := registry.PutInfoElement(*ie, pen); err != nil {
				t.Errorf("PutInfoElement: %v", err)
				return
			}
		}
	}()

	// The exporter: template {protocolIdentifier, pen/7 (4 bytes, never registered)} + one record, 3000 times.
	tpl := []byte{1, 44, 0, 2, 0, 4, 0, 1, 0x80, 7, 0, 4, 0, 0, 0, 0}
	binary.BigEndian.PutUint32(tpl[12:], pen)
	for i := 0; i < 3000; i++ {
		if _, err := conn.Write(f1Msg(1, 2, tpl)); err != nil {
			t.Fatalf("write template %d: %v", i, err)
		}
		if _, err := conn.Write(f1Msg(1, 300, []byte{6, 0xde, 0xad, 0xbe, 0xef})); err != nil {
			t.Fatalf("write data %d: %v", i, err)
		}
	}
	deadline := time.After(60 * time.Second)
	for got := 0; got < 3000; {
		select {
		case got = <-received:
		case <-deadline:
			t.Fatalf("only %d of 3000 data messages delivered", got)
		}
	}
	close(stop)
	<-regDone
}
