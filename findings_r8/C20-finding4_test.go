// FINDING 4 (C20, clean tree): the JSON format does not return the stored entry when a string
// value is not valid UTF-8: the bytes are silently replaced by U+FFFD, while the text format
// returns them as stored. The value of the field appears in one format and not in the other.
//
// Place:   copy to WT/cmd/collector/finding4_test.go   (package main, in-package test)
// Run:     cd WT && go test -count=1 -timeout 120s -run 'TestFinding4' ./cmd/collector
//
// Clause:  "a records query for n returns the last min(n, stored) entries in that order in
//           either format" together with "Every field of every record of a message appears, by
//           element name and value, in that message's rendered entry".
// addIPFIXMessage stores the string value byte for byte; flowRecordHandler hands the entries to
// json.Marshal, which replaces every invalid byte by the replacement character without an
// error. Two different received values ("B\xfcro", "B\xe4ro") become the same JSON text, the
// original cannot be recovered, and the JSON answer differs from the text answer to the same
// query.
//
// Why the input is legitimate (with a caveat): every step is accepted - the library's exporter
// encodes the value, the library's collector (configuration of run(): tcp, strict, registry
// loaded) decodes and delivers it, addIPFIXMessage stores it, the text format shows it. RFC 7011
// asks for UTF-8 in string elements, so the exporter is at fault; but exporters that copy
// interface descriptions or HTTP data in ISO-8859-1 exist, and a collector whose purpose is to
// show what was received hides exactly that fault in its default format.
package main

import (
	"encoding/json"
	"io"
	"net/http/httptest"
	"strings"
	"testing"
	"time"

	"github.com/vmware/go-ipfix/pkg/collector"
	"github.com/vmware/go-ipfix/pkg/entities"
	"github.com/vmware/go-ipfix/pkg/exporter"
	"github.com/vmware/go-ipfix/pkg/registry"
)

func TestFinding4_JSONAltersStringValue(t *testing.T) {
	mutex.Lock()
	flowRecords = nil
	mutex.Unlock()
	defer func() { mutex.Lock(); flowRecords = nil; mutex.Unlock() }()

	registry.LoadRegistry()
	cp, err := collector.InitCollectingProcess(collector.CollectorInput{
		Address: "127.0.0.1:0", Protocol: "tcp", MaxBufferSize: 65535, TemplateTTL: 0,
	})
	if err != nil {
		t.Fatal(err)
	}
	go cp.Start()
	defer cp.Stop()
	deadline := time.Now().Add(10 * time.Second)
	for cp.GetAddress() == nil {
		if time.Now().After(deadline) {
			t.Fatal("collector did not start")
		}
		time.Sleep(10 * time.Millisecond)
	}
	stored := make(chan struct{}, 16)
	go func() {
		for msg := range cp.GetMsgChan() {
			addIPFIXMessage(msg)
			stored <- struct{}{}
		}
	}()
	defer cp.CloseMsgChan()

	ep, err := exporter.InitExportingProcess(exporter.ExporterInput{
		CollectorAddress: cp.GetAddress().String(), CollectorProtocol: "tcp", ObservationDomainID: 1,
	})
	if err != nil {
		t.Fatal(err)
	}
	defer ep.CloseConnToCollector()

	ifDescr, err := registry.GetInfoElement("interfaceDescription", registry.IANAEnterpriseID)
	if err != nil {
		t.Fatal(err)
	}
	templateID := ep.NewTemplateID()
	tmpl, err := entities.MakeTemplateSet(templateID, []*entities.InfoElement{ifDescr})
	if err != nil {
		t.Fatal(err)
	}
	if _, err := ep.SendSet(tmpl); err != nil {
		t.Fatal(err)
	}
	value := "B\xfcro 2. OG" // "Büro 2. OG" in ISO-8859-1
	data, err := entities.MakeDataSet(templateID, []entities.InfoElementWithValue{entities.NewStringInfoElement(ifDescr, value)})
	if err != nil {
		t.Fatal(err)
	}
	if _, err := ep.SendSet(data); err != nil {
		t.Fatal(err)
	}
	for i := 0; i < 2; i++ {
		select {
		case <-stored:
		case <-time.After(10 * time.Second):
			t.Fatal("message was not delivered")
		}
	}

	get := func(rawQuery string) string {
		req := httptest.NewRequest("GET", "/records?"+rawQuery, nil)
		rr := httptest.NewRecorder()
		flowRecordHandler(rr, req)
		if rr.Code != 200 {
			t.Fatalf("GET /records?%s: status %d", rawQuery, rr.Code)
		}
		b, _ := io.ReadAll(rr.Result().Body)
		return string(b)
	}
	line := "    interfaceDescription: " + value + " \n"

	text := strings.TrimSuffix(get("count=1&format=text"), string(flowTextSeparator))
	if !strings.Contains(text, line) {
		t.Fatalf("text format does not show the value: %q", text)
	}
	var jr jsonResponse
	if err := json.Unmarshal([]byte(get("count=1&format=json")), &jr); err != nil {
		t.Fatal(err)
	}
	if len(jr.FlowRecords) != 1 {
		t.Fatalf("JSON: %d entries", len(jr.FlowRecords))
	}
	if !strings.Contains(jr.FlowRecords[0], line) {
		t.Errorf("JSON format: the received value %q of interfaceDescription does not appear in the entry", value)
	}
	if jr.FlowRecords[0] != text {
		t.Errorf("the two formats return different entries for the same query:\n text: %q\n json: %q", text, jr.FlowRecords[0])
	}
}
