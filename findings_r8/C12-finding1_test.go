// Finding 1 for property C12 (round 8) - on the CLEAN tree.
//
// Place:  cp OUT/finding1_test.go WT/pkg/collector/finding1_test.go
// Run:    cd WT && go test -race -count=1 -timeout 110s -run 'TestFinding1ConsumerOwnsDeliveredMessage' ./pkg/collector
//
// Clause: "every message accepted from a connection is delivered to the consumer ... without
// data races".
//
// The collector goes on READING a message after it has handed it to the consumer:
//   tcp.go  (reader goroutine, after decodePacket returned, i.e. after `cp.messageChan <- message`):
//       klog.V(4).InfoS("Processed message from exporter", "observationDomainID", message.GetObsDomainID(),
//           "setType", message.GetSet().GetSetType(), "numRecords", message.GetSet().GetNumberOfRecords())
//   udp.go  (client goroutine, same place):
//       klog.V(4).Infof("Processed message ...", message.GetExportAddress(), message.GetSet().GetNumberOfRecords(), message.GetObsDomainID())
// The arguments are evaluated at every verbosity (only the printing is conditional). So the
// transport goroutine reads Message.obsDomainID / .exportAddress / .set, set.setType and
// set.records with no synchronisation against the goroutine that received the message.
//
// A consumer that treats the delivered message as its own - what a channel hand-over means
// in Go, and what the public setters of entities.Message and entities.Set are there for -
// therefore races with the library. The consumer below is an IPFIX mediator in miniature: it
// maps the exporter's observation domain to its own numbering (Message.SetObsDomainID) before
// forwarding, and releases the records when it is done (Set.ResetSet). Every step is accepted
// by the library; no object is shared between two consumers. Under the race detector the
// library's read and the consumer's write are reported for TCP and for UDP.
package collector

import (
	"encoding/binary"
	"net"
	"testing"
	"time"

	"github.com/vmware/go-ipfix/pkg/registry"
)

func finding1Message(seq uint32, setID uint16, body []byte) []byte {
	msg := make([]byte, 20+len(body))
	binary.BigEndian.PutUint16(msg[0:], 10)
	binary.BigEndian.PutUint16(msg[2:], uint16(len(msg)))
	binary.BigEndian.PutUint32(msg[4:], 1700000000)
	binary.BigEndian.PutUint32(msg[8:], seq)
	binary.BigEndian.PutUint32(msg[12:], 1)
	binary.BigEndian.PutUint16(msg[16:], setID)
	binary.BigEndian.PutUint16(msg[18:], uint16(4+len(body)))
	copy(msg[20:], body)
	return msg
}

func finding1Run(t *testing.T, protocol string) {
	registry.LoadRegistry()
	cp, err := InitCollectingProcess(CollectorInput{Address: "127.0.0.1:0", Protocol: protocol, MaxBufferSize: 1024})
	if err != nil {
		t.Fatal(err)
	}
	go cp.Start()
	deadline := time.Now().Add(5 * time.Second)
	for cp.GetAddress() == nil {
		if time.Now().After(deadline) {
			t.Fatal("collector did not start")
		}
		time.Sleep(5 * time.Millisecond)
	}

	const numData = 20
	got := make(chan int, 1)
	go func() { // the consumer
		n := 0
		for n < numData+1 {
			select {
			case msg := <-cp.GetMsgChan():
				n++
				// the message is ours now: renumber the observation domain ...
				msg.SetObsDomainID(msg.GetObsDomainID() + 1000)
				// ... (forward it) ... and release the records.
				msg.GetSet().ResetSet()
			case <-time.After(5 * time.Second):
				got <- n
				return
			}
		}
		got <- n
	}()

	conn, err := net.Dial(protocol, cp.GetAddress().String())
	if err != nil {
		t.Fatal(err)
	}
	defer conn.Close()
	// template 256: sourceIPv4Address(8)/4, destinationIPv4Address(12)/4
	if _, err := conn.Write(finding1Message(0, 2, []byte{1, 0, 0, 2, 0, 8, 0, 4, 0, 12, 0, 4})); err != nil {
		t.Fatal(err)
	}
	for i := 0; i < numData; i++ {
		time.Sleep(2 * time.Millisecond)
		if _, err := conn.Write(finding1Message(uint32(i), 256, []byte{10, 0, 0, byte(i), 10, 1, 0, byte(i)})); err != nil {
			t.Fatal(err)
		}
	}
	if n := <-got; n != numData+1 {
		t.Errorf("%d of %d messages delivered", n, numData+1)
	}
	cp.Stop()
	// With -race, the testing package fails this test: "race detected during execution of test".
}

func TestFinding1ConsumerOwnsDeliveredMessage(t *testing.T) {
	t.Run("tcp", func(t *testing.T) { finding1Run(t, "tcp") })
	t.Run("udp", func(t *testing.T) { finding1Run(t, "udp") })
}
