// FINDING 1 (C20, clean tree): the text format of /records cannot be taken apart into entries
// when a string value contains the separator, so text and JSON disagree about what was stored.
//
// Place:   copy to WT/cmd/collector/finding1_test.go   (package main, in-package test)
// Run:     cd WT && go test -count=1 -timeout 120s -run 'TestFinding1' ./cmd/collector
//
// Clause:  "a records query for n returns the last min(n, stored) entries in that order in
//           either format".
// In text format the entries are only delimited by a line of eighty '=' characters
// (flowTextSeparator), which is written behind every entry, and string values are written as
// they are. A record whose string field holds eighty '=' (or more) therefore yields a response
// for count=1 that reads as TWO entries, neither of which is the stored entry; the JSON answer to
// the same query holds the one entry. The repository's own test (TestFlowRecordHandler) takes a
// text response apart in exactly this way (strings.Split on flowTextSeparator).
//
// Why the input is legitimate: the record travels through the public API only - the library's
// exporter (entities.NewStringInfoElement / SendSet) accepts it, the library's collector in
// the configuration of cmd/collector's run() (tcp, strict decoding, loaded registry) decodes
// and delivers it, and the value is valid UTF-8 within the length limits of RFC 7011. String
// elements such as interfaceName / applicationName / Antrea's httpVals carry text chosen by
// third parties; a line of '=' is an ordinary "ruler" in free text.
package main

import (
	"encoding/json"
	"io"
	"net/http/httptest"
	"strings"
	"testing"
	"time"

	"github.com/vmware/go-ipfix/pkg/collector"
	"github.com/vmware/go-ipfix/pkg/entities"
	"github.com/vmware/go-ipfix/pkg/exporter"
	"github.com/vmware/go-ipfix/pkg/registry"
)

func finding1Query(t *testing.T, rawQuery string) string {
	req := httptest.NewRequest("GET", "/records?"+rawQuery, nil)
	rr := httptest.NewRecorder()
	flowRecordHandler(rr, req)
	if rr.Code != 200 {
		t.Fatalf("GET /records?%s: status %d", rawQuery, rr.Code)
	}
	b, _ := io.ReadAll(rr.Result().Body)
	return string(b)
}

func TestFinding1_TextFormatSeparatorInsideValue(t *testing.T) {
	mutex.Lock()
	flowRecords = nil
	mutex.Unlock()
	defer func() { mutex.Lock(); flowRecords = nil; mutex.Unlock() }()

	registry.LoadRegistry()
	// Same collector configuration as run() in collector.go, on a free port.
	cp, err := collector.InitCollectingProcess(collector.CollectorInput{
		Address: "127.0.0.1:0", Protocol: "tcp", MaxBufferSize: 65535, TemplateTTL: 0,
	})
	if err != nil {
		t.Fatal(err)
	}
	go cp.Start()
	defer cp.Stop()
	deadline := time.Now().Add(10 * time.Second)
	for cp.GetAddress() == nil {
		if time.Now().After(deadline) {
			t.Fatal("collector did not start")
		}
		time.Sleep(10 * time.Millisecond)
	}
	// run()'s receive loop: every delivered message is handed to addIPFIXMessage.
	stored := make(chan struct{}, 16)
	go func() {
		for msg := range cp.GetMsgChan() {
			addIPFIXMessage(msg)
			stored <- struct{}{}
		}
	}()
	defer cp.CloseMsgChan()

	ep, err := exporter.InitExportingProcess(exporter.ExporterInput{
		CollectorAddress: cp.GetAddress().String(), CollectorProtocol: "tcp", ObservationDomainID: 1,
	})
	if err != nil {
		t.Fatal(err)
	}
	defer ep.CloseConnToCollector()

	ifName, err := registry.GetInfoElement("interfaceName", registry.IANAEnterpriseID)
	if err != nil {
		t.Fatal(err)
	}
	octets, err := registry.GetInfoElement("octetDeltaCount", registry.IANAEnterpriseID)
	if err != nil {
		t.Fatal(err)
	}
	templateID := ep.NewTemplateID()
	tmpl, err := entities.MakeTemplateSet(templateID, []*entities.InfoElement{ifName, octets})
	if err != nil {
		t.Fatal(err)
	}
	if _, err := ep.SendSet(tmpl); err != nil {
		t.Fatal(err)
	}
	value := "eth0 " + strings.Repeat("=", 80) + " uplink"
	data, err := entities.MakeDataSet(templateID, []entities.InfoElementWithValue{
		entities.NewStringInfoElement(ifName, value),
		entities.NewUnsigned64InfoElement(octets, 42),
	})
	if err != nil {
		t.Fatal(err)
	}
	if _, err := ep.SendSet(data); err != nil {
		t.Fatal(err)
	}
	for i := 0; i < 2; i++ {
		select {
		case <-stored:
		case <-time.After(10 * time.Second):
			t.Fatal("message was not delivered")
		}
	}

	// What is stored, according to JSON.
	var jr jsonResponse
	if err := json.Unmarshal([]byte(finding1Query(t, "count=1&format=json")), &jr); err != nil {
		t.Fatal(err)
	}
	if len(jr.FlowRecords) != 1 || !strings.Contains(jr.FlowRecords[0], "    interfaceName: "+value+" \n") ||
		!strings.Contains(jr.FlowRecords[0], "    octetDeltaCount: 42 \n") {
		t.Fatalf("unexpected JSON answer: %q", jr.FlowRecords)
	}

	// The same query in text format, taken apart the way the repository's own test does it.
	text := finding1Query(t, "count=1&format=text")
	parts := strings.Split(text, string(flowTextSeparator))
	entries := parts[:len(parts)-1] // behind the last separator there is nothing
	if len(entries) != 1 || entries[0] != jr.FlowRecords[0] {
		t.Errorf("GET /records?count=1: JSON holds 1 entry, the text format reads as %d entries:", len(entries))
		for i, e := range entries {
			t.Errorf("  text entry %d: %q", i, e)
		}
	}
}
