// Finding 5 (C02, clean tree): PrepareSet on a set that still holds records (the set that
// carried the template is prepared again for the data, without ResetSet in between) is
// accepted; the next SendSet puts a data set on the wire whose first "record" is the template
// record of the previous use.
//
// Place:  cp OUT/finding5_test.go WT/pkg/exporter/finding5_test.go
// Run:    cd WT && go test -count=1 -timeout 60s -run 'TestFinding5PrepareSetWithoutReset' ./pkg/exporter
//
// Clause: "set id 2 for templates and the template id for data ... data records carry each
// field big-endian at the template's width": the data set (Set ID = template ID) begins with
// the 12 bytes of the template record (ID, field count, two field specifiers), which a decoder
// reads as two more data records of the template's 6 bytes; SendSet also counts the template
// record as a data record in the sequence number. The exporter's sanity check does not
// notice: the template record has the template's ID, the template's field count and more
// bytes than the minimum data record length.
//
// Legitimate in the sense that every call returns nil: PrepareSet does not refuse a set that
// still has records (nor does it drop them), AddRecord and SendSet accept the result. Reusing
// one Set object for several messages is the pattern of the library's own tests
// (pkg/exporter/process_test.go: ResetSet, then PrepareSet); leaving out ResetSet is an easy
// slip that the library takes silently.
// (The other direction - a data set prepared again as a template set - sends the data
// record's bytes inside a template set and then panics in SendSet with a nil dereference
// when the template is registered.)
package exporter

import (
	"encoding/binary"
	"io"
	"net"
	"testing"
	"time"

	"github.com/vmware/go-ipfix/pkg/entities"
	"github.com/vmware/go-ipfix/pkg/registry"
)

func TestFinding5PrepareSetWithoutReset(t *testing.T) {
	ln, err := net.Listen("tcp", "127.0.0.1:0")
	if err != nil {
		t.Fatal(err)
	}
	defer ln.Close()
	streamCh := make(chan []byte, 1)
	go func() {
		conn, err := ln.Accept()
		if err != nil {
			streamCh <- nil
			return
		}
		b, _ := io.ReadAll(conn)
		streamCh <- b
	}()
	ep, err := InitExportingProcess(ExporterInput{CollectorAddress: ln.Addr().String(), CollectorProtocol: "tcp", ObservationDomainID: 1})
	if err != nil {
		t.Fatal(err)
	}
	srcIP, err := registry.GetInfoElement("sourceIPv4Address", registry.IANAEnterpriseID)
	if err != nil {
		t.Fatal(err)
	}
	srcPort, err := registry.GetInfoElement("sourceTransportPort", registry.IANAEnterpriseID)
	if err != nil {
		t.Fatal(err)
	}
	id := ep.NewTemplateID()
	set := entities.NewSet(false)
	if err := set.PrepareSet(entities.Template, id); err != nil {
		t.Fatal(err)
	}
	e0, _ := entities.DecodeAndCreateInfoElementWithValue(srcIP, nil)
	e1, _ := entities.DecodeAndCreateInfoElementWithValue(srcPort, nil)
	if err := set.AddRecord([]entities.InfoElementWithValue{e0, e1}, id); err != nil {
		t.Fatal(err)
	}
	if _, err := ep.SendSet(set); err != nil {
		t.Fatal(err)
	}
	// Second use of the object, ResetSet forgotten.
	errPrepare := set.PrepareSet(entities.Data, id)
	var errAdd, errSend error
	if errPrepare == nil {
		errAdd = set.AddRecord([]entities.InfoElementWithValue{
			entities.NewIPAddressInfoElement(srcIP, net.ParseIP("1.2.3.4")),
			entities.NewUnsigned16InfoElement(srcPort, 80),
		}, id)
		if errAdd == nil {
			_, errSend = ep.SendSet(set)
		}
	}
	t.Logf("PrepareSet: %v, AddRecord: %v, SendSet: %v", errPrepare, errAdd, errSend)
	time.Sleep(100 * time.Millisecond)
	ep.CloseConnToCollector()
	stream := <-streamCh

	if len(stream) <= 32 {
		t.Log("nothing but the template message on the wire (fine)")
		return
	}
	msg := stream[32:]
	body := msg[20:int(binary.BigEndian.Uint16(msg[2:]))]
	t.Logf("data message: set ID %d, sequence number %d, set body % x", binary.BigEndian.Uint16(msg[16:]), binary.BigEndian.Uint32(msg[8:]), body)
	if len(body) != 6 || !net.IP(body[0:4]).Equal(net.ParseIP("1.2.3.4")) || binary.BigEndian.Uint16(body[4:]) != 80 {
		t.Fatalf("one data record (01 02 03 04 00 50) was added for template %d; the data set carries %d bytes = %d records of the template's width, the first of them the template record itself",
			id, len(body), len(body)/6)
	}
}
