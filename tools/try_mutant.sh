#!/bin/bash
# usage: tools/try_mutant.sh <patch.diff> <property> [quick|thorough]   -- applies the patch to /repo, runs the check, reverts.
set -u
patch=$(readlink -f "$1"); prop=$2; tier=${3:-quick}
cd /repo || exit 9
if [ -n "$(git status --porcelain)" ]; then echo "/repo not clean"; exit 9; fi
git apply "$patch" || { echo "patch does not apply"; exit 9; }
cd /verif
VERIF_REPLAY_DIR=/var/tmp/vt/mutreplays ./check "$prop" "$tier" 2>&1 | grep -E "VIOLATION|INCONCLUSIVE|KNOWN|held on|phase=" | cut -c1-400
rc=${PIPESTATUS[0]}
git -C /repo checkout -- . && git -C /repo clean -fdq
git -C /verif checkout -- evidence 2>/dev/null
echo "rc=$rc"
